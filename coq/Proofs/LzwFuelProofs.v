(* C08, fuel sufficiency of the compress(1) ".Z" decoder model (Model/Lzw.v) for EVERY input: the fuel that `uncompress` passes
   to the code reader (`unpack`, 2 * length bits + 2) and to the string walk (`str_rev`, str_fuel = 65600) is never exhausted,
   i.e. any larger fuel gives the same result, whatever the bytes of the file are.

   1. unpack: measure 2 * length bits + (1 if a width bump is due); a bump iteration consumes nothing but is never followed by
      another bump (for maxbits 10..16: wf_w / wf_bump of LzwBitsProofs; for maxbits = 9 the schedule goes 9 -> 10 once the
      table is full and stays there until a CLEAR: invariant wf9 below); every other iteration consumes >= 9 bits or stops.
   2. str_rev: the naive invariant "every entry's prefix is smaller than its code" is FALSE for reachable tables (CLEAR resets
      free_ent to 256 without resetting oldcode, so the next code stores (oldcode, _) in slot 256 with oldcode > 256: see
      naive_prefix_invariant_fails).  The invariant that holds (DInv) restricts the claim to the active range
      lo <= c < d_free (lo = 257 in block mode, where slot 256 is never walked: neither a code nor a prefix is ever 256).
   3. uncompress_f: the top level with both fuels as parameters. *)
From Coq Require Import ZArith List Lia Bool FMapPositive.
Import ListNotations.
From LX Require Import Generated.Consts Model.Lzw Proofs.LzwBitsProofs.
Local Open Scope Z_scope.
Ltac Zify.zify_post_hook ::= Z.div_mod_to_equations.

(* ================================================================ 1. unpack ============================================ *)
Definition due (w : wst) : bool := w_maxcode w <? w_free w.
Definition umeasure (w : wst) (bits : list bool) : nat := (2 * length bits + (if due w then 1 else 0))%nat.

(* what the argument needs from a schedule invariant J *)
Record sched_inv (p : zparams) (J : wst -> Prop) : Prop := {
  sj_nbits : forall w, J w -> 9 <= w_nbits w;
  sj_bump : forall w, J w -> due w = true -> J (w_bump p w) /\ due (w_bump p w) = false;
  sj_after : forall w code, J w -> due w = false -> J (w_after p w code) }.

Lemma unpack_fuel_gen p J : sched_inv p J -> forall f1 f2 w used bits, J w ->
  (umeasure w bits < f1)%nat -> (umeasure w bits < f2)%nat -> unpack f1 p w used bits = unpack f2 p w used bits.
Proof.
  intros SJ. induction f1 as [|f1 IH]; intros f2 w used bits HJ H1 H2; [lia|].
  destruct f2 as [|f2]; [lia|].
  rewrite !unpack_S. unfold umeasure in H1, H2.
  destruct (due w) eqn:Hd; unfold due in Hd; rewrite Hd.
  - destruct (sj_bump p J SJ w HJ Hd) as [HJ1 Hd1].
    assert (Hl : (length (skipn (pad_bits (w_nbits w) used) bits) <= length bits)%nat) by (rewrite skipn_length; lia).
    apply IH; [exact HJ1 | unfold umeasure; rewrite Hd1; lia | unfold umeasure; rewrite Hd1; lia].
  - pose proof (sj_nbits p J SJ w HJ) as Hn.
    destruct (Nat.ltb_spec (length (firstn (Z.to_nat (w_nbits w)) bits)) (Z.to_nat (w_nbits w))) as [Hs|Hs]; [reflexivity|].
    rewrite firstn_length in Hs.
    assert (Hn9 : (9 <= Z.to_nat (w_nbits w))%nat) by lia.
    assert (Hl : (length (skipn (Z.to_nat (w_nbits w)) bits) + 9 <= length bits)%nat) by (rewrite skipn_length; lia).
    set (code := z_of_bits (firstn (Z.to_nat (w_nbits w)) bits)) in *.
    pose proof (sj_after p J SJ w code HJ Hd) as HJ1.
    destruct (is_clear p w code); f_equal.
    + assert (Hl2 : (length (skipn (pad_bits (w_nbits w) (used + w_nbits w)) (skipn (Z.to_nat (w_nbits w)) bits))
                     <= length (skipn (Z.to_nat (w_nbits w)) bits))%nat) by (rewrite (skipn_length (pad_bits _ _)); lia).
      apply IH; [exact HJ1 | unfold umeasure; destruct (due (w_after p w code)); lia
                | unfold umeasure; destruct (due (w_after p w code)); lia].
    + apply IH; [exact HJ1 | unfold umeasure; destruct (due (w_after p w code)); lia
                | unfold umeasure; destruct (due (w_after p w code)); lia].
Qed.

Lemma umeasure_le w bits : (umeasure w bits <= 2 * length bits + 1)%nat.
Proof. unfold umeasure. destruct (due w); lia. Qed.

(* maxbits 10 .. 16: wf_w of LzwBitsProofs *)
Lemma sched_inv_wf p : 10 <= z_maxbits p -> sched_inv p (wf_w p).
Proof.
  intros Hp. constructor.
  - intros w (Hn & _). lia.
  - intros w Hw Hd. exact (wf_bump p w Hw Hd).
  - intros w code Hw Hd. exact (wf_after p w code Hp Hw Hd).
Qed.

(* maxbits = 9 (maxmax = 512): 9 bits until the table is full (free = 512 > maxcode = 511), then one bump to 10 bits with
   maxcode = 1023 (10 <> maxbits, so the "maxcode = maxmax" clause is never taken) and no further bump until a CLEAR *)
Definition wf9 (p : zparams) (w : wst) : Prop :=
  z_maxbits p = 9 /\ ((w_nbits w = 9 /\ w_maxcode w = 511) \/ (w_nbits w = 10 /\ w_maxcode w = 1023)) /\ w_free w <= 512.

Lemma sched_inv_wf9 p : sched_inv p (wf9 p).
Proof.
  constructor.
  - intros w (_ & Hn & _). lia.
  - intros w (Hp & Hn & Hf) Hd. unfold due in *. apply Z.ltb_lt in Hd.
    destruct Hn as [[Hn Hm]|[Hn Hm]]; [|lia].
    unfold wf9, w_bump. cbn [w_nbits w_maxcode w_free]. rewrite Hn, Hp.
    change (9 + 1) with 10. change (10 =? 9) with false. change (2 ^ 10 - 1) with 1023. cbv iota.
    split; [|apply Z.ltb_ge; lia].
    split; [reflexivity|]. split; [right; split; reflexivity | exact Hf].
  - intros w code (Hp & Hn & Hf) Hd. unfold due in *. apply Z.ltb_ge in Hd.
    unfold w_after. destruct (w_first w).
    + unfold wf9. cbn [w_nbits w_maxcode w_free]. split; [exact Hp|]. split; [exact Hn | exact Hf].
    + destruct (z_block p && (code =? 256)).
      * unfold wf9. cbn [w_nbits w_maxcode w_free]. split; [exact Hp|]. split; [left; split; reflexivity | lia].
      * unfold wf9. cbn [w_nbits w_maxcode w_free]. split; [exact Hp|]. split; [exact Hn|].
        unfold maxmax. rewrite Hp. change (2 ^ 9) with 512.
        destruct (Z.ltb_spec (w_free w) 512); lia.
Qed.

Lemma wf9_init p : z_maxbits p = 9 -> wf9 p (w_init p).
Proof.
  intros Hp. unfold wf9, w_init. cbn [w_nbits w_maxcode w_free].
  split; [exact Hp|]. split; [left; split; reflexivity|]. destruct (z_block p); lia.
Qed.

(* the statement of the task: any two fuels >= 2 * length bits + 2 agree (maxbits 10..16, any schedule state satisfying wf_w) *)
Theorem unpack_fuel : forall p bits w used f1 f2, 10 <= z_maxbits p -> wf_w p w ->
  (2 * length bits + 2 <= f1)%nat -> (2 * length bits + 2 <= f2)%nat ->
  unpack f1 p w used bits = unpack f2 p w used bits.
Proof.
  intros p bits w used f1 f2 Hp Hw H1 H2. pose proof (umeasure_le w bits) as Hm.
  apply (unpack_fuel_gen p (wf_w p) (sched_inv_wf p Hp)); [exact Hw | lia | lia].
Qed.

(* the same for maxbits = 9 *)
Theorem unpack_fuel_9 : forall p bits w used f1 f2, wf9 p w ->
  (2 * length bits + 2 <= f1)%nat -> (2 * length bits + 2 <= f2)%nat ->
  unpack f1 p w used bits = unpack f2 p w used bits.
Proof.
  intros p bits w used f1 f2 Hw H1 H2. pose proof (umeasure_le w bits) as Hm.
  apply (unpack_fuel_gen p (wf9 p) (sched_inv_wf9 p)); [exact Hw | lia | lia].
Qed.

(* from the initial schedule, every header value the decoder accepts (in fact every maxbits >= 9) *)
Theorem unpack_fuel_init : forall p bits f1 f2, 9 <= z_maxbits p ->
  (2 * length bits + 2 <= f1)%nat -> (2 * length bits + 2 <= f2)%nat ->
  unpack f1 p (w_init p) 0 bits = unpack f2 p (w_init p) 0 bits.
Proof.
  intros p bits f1 f2 Hp H1 H2. destruct (Z.eq_dec (z_maxbits p) 9) as [E|NE].
  - apply unpack_fuel_9; [apply wf9_init; exact E | exact H1 | exact H2].
  - apply unpack_fuel; [lia | apply wf_init; lia | exact H1 | exact H2].
Qed.

(* ================================================================ 2. str_rev =========================================== *)
Definition flo (p : zparams) : Z := if z_block p then 257 else 256.

Lemma flo_range p : 256 <= flo p <= 257.
Proof. unfold flo. destruct (z_block p); lia. Qed.

Lemma str_fuel_val : Z.of_nat str_fuel = 65600.
Proof. vm_compute. reflexivity. Qed.

Lemma maxmax_bounds p : 9 <= z_maxbits p <= 16 -> 512 <= maxmax p <= 65536.
Proof.
  intros H. unfold maxmax. split.
  - change 512 with (2 ^ 9). apply Z.pow_le_mono_r; lia.
  - change 65536 with (2 ^ 16). apply Z.pow_le_mono_r; lia.
Qed.

Lemma tget_empty c : tget (PositiveMap.empty _) c = None.
Proof. unfold tget. apply PositiveMap.gempty. Qed.

Lemma tget_tset t k v c : 256 <= k -> tget (tset t k v) c = if c =? k then Some v else tget t c.
Proof.
  intros Hk. unfold tget, tset. destruct (Z.eqb_spec c k) as [E|NE].
  - subst c. apply PositiveMap.gss.
  - apply PositiveMap.gso. intros E. destruct (Z_le_gt_dec c 0) as [Hc|Hc].
    + assert (E1 : Z.to_pos c = 1%positive) by (destruct c; try reflexivity; lia).
      rewrite E1 in E. assert (Z.pos (Z.to_pos k) = 1) by (rewrite <- E; reflexivity).
      rewrite Z2Pos.id in H by lia. lia.
    + apply Z2Pos.inj in E; lia.
Qed.

(* the entries of the active range point downwards, and never to slot 256 in block mode *)
Definition walk_ok (p : zparams) (t : tabT) (free : Z) : Prop :=
  forall c pre suf, tget t c = Some (pre, suf) -> flo p <= c < free -> pre < c /\ (z_block p = true -> pre <> 256).

(* the walk from a code c of the active range ends within c - 254 steps *)
Lemma str_rev_fuel_walk p t free : walk_ok p t free -> forall f1 f2 c, c < free -> (z_block p = true -> c <> 256) ->
  (Z.to_nat (c - 255) < f1)%nat -> (Z.to_nat (c - 255) < f2)%nat -> str_rev f1 t c = str_rev f2 t c.
Proof.
  intros W. induction f1 as [|f1 IH]; intros f2 c Hc Hne H1 H2; [lia|].
  destruct f2 as [|f2]; [lia|].
  cbn [str_rev]. destruct (Z.ltb_spec c 256) as [Hlt|Hge]; [reflexivity|].
  destruct (tget t c) as [[pre suf]|] eqn:E; [|reflexivity].
  assert (Hlo : flo p <= c).
  { unfold flo. destruct (z_block p) eqn:B; [specialize (Hne eq_refl); lia | lia]. }
  destruct (W c pre suf E (conj Hlo Hc)) as [Hp Hn].
  rewrite (IH f2 pre); [reflexivity | lia | exact Hn | lia | lia].
Qed.

Lemma str_rev_fuel_none t c : 256 <= c -> tget t c = None -> forall f1 f2, (0 < f1)%nat -> (0 < f2)%nat ->
  str_rev f1 t c = str_rev f2 t c.
Proof.
  intros Hc E f1 f2 H1 H2. destruct f1 as [|f1]; [lia|]. destruct f2 as [|f2]; [lia|].
  cbn [str_rev]. destruct (Z.ltb_spec c 256) as [Hlt|Hge]; [lia|]. rewrite E. reflexivity.
Qed.

(* the invariant of every decoder state reachable from d_init by dec_step, for ANY code sequence *)
Record DInv (p : zparams) (s : dst) : Prop := {
  di_free : 256 <= d_free s <= maxmax p;
  di_dom : forall c e, tget (d_tab s) c = Some e -> 256 <= c < maxmax p;
  di_walk : walk_ok p (d_tab s) (d_free s);
  di_old256 : z_block p = true -> d_old s <> 256;
  di_old : d_old s < d_free s \/ (maxmax p <= d_old s /\ d_free s = maxmax p) \/ (z_block p = true /\ d_free s = 256) }.

Ltac dproj := cbn [d_tab d_free d_old d_fin d_out].

Lemma dinv_init p : 9 <= z_maxbits p <= 16 -> DInv p (d_init p).
Proof.
  intros Hp. pose proof (maxmax_bounds p Hp) as Hm. unfold d_init. constructor; dproj.
  - destruct (z_block p); lia.
  - intros c e H. rewrite tget_empty in H. discriminate.
  - intros c pre suf H. rewrite tget_empty in H. discriminate.
  - intros _. lia.
  - left. destruct (z_block p); lia.
Qed.

(* dec_step / dec_codes with the fuel of the string walk as a parameter *)
Definition dec_step_f (fs : nat) (p : zparams) (s : dst) (code : Z) : option dst :=
  if d_old s =? -1 then
    if 256 <=? code then None
    else Some {| d_tab := d_tab s; d_free := d_free s; d_old := code; d_fin := code; d_out := code :: d_out s |}
  else if z_block p && (code =? 256) then
    Some {| d_tab := d_tab s; d_free := 256; d_old := d_old s; d_fin := d_fin s; d_out := d_out s |}
  else if d_free s <? code then None
  else
    let sr := if d_free s <=? code then match str_rev fs (d_tab s) (d_old s) with None => None | Some r => Some (d_fin s :: r) end
              else str_rev fs (d_tab s) code in
    match sr with
    | None => None
    | Some r =>
      let fin := last r 0 in
      let '(tab', free') := if d_free s <? maxmax p then (tset (d_tab s) (d_free s) (d_old s, fin), d_free s + 1) else (d_tab s, d_free s) in
      Some {| d_tab := tab'; d_free := free'; d_old := code; d_fin := fin; d_out := r ++ d_out s |}
    end.

Fixpoint dec_codes_f (fs : nat) (p : zparams) (s : dst) (codes : list Z) : option dst :=
  match codes with
  | [] => Some s
  | c :: t => match dec_step_f fs p s c with None => None | Some s' => dec_codes_f fs p s' t end
  end.

Lemma dec_step_f_model p s code : dec_step_f str_fuel p s code = dec_step p s code.
Proof. reflexivity. Qed.

Lemma dec_codes_f_model p : forall codes s, dec_codes_f str_fuel p s codes = dec_codes p s codes.
Proof.
  induction codes as [|c t IH]; intros s; cbn [dec_codes_f dec_codes]; [reflexivity|].
  rewrite dec_step_f_model. destruct (dec_step p s c) as [s'|]; [apply IH | reflexivity].
Qed.

(* the walk that a step makes is independent of the fuel, from str_fuel upwards *)
Lemma sr_fuel p s code fs : 9 <= z_maxbits p <= 16 -> DInv p s -> (str_fuel <= fs)%nat ->
  (z_block p && (code =? 256)) = false -> (d_free s <? code) = false ->
  (if d_free s <=? code then match str_rev fs (d_tab s) (d_old s) with None => None | Some r => Some (d_fin s :: r) end
   else str_rev fs (d_tab s) code) =
  (if d_free s <=? code then match str_rev str_fuel (d_tab s) (d_old s) with None => None | Some r => Some (d_fin s :: r) end
   else str_rev str_fuel (d_tab s) code).
Proof.
  intros Hp [Hfree Hdom Hwalk Ho256 Hold] Hfs Hclr Hlt.
  pose proof (maxmax_bounds p Hp) as Hm. pose proof str_fuel_val as Hsf. apply Z.ltb_ge in Hlt.
  destruct (Z.leb_spec (d_free s) code) as [Hle|Hgt].
  - (* KwKwK: the walk starts from d_old *)
    assert (Hcf : code = d_free s) by lia.
    assert (E : str_rev fs (d_tab s) (d_old s) = str_rev str_fuel (d_tab s) (d_old s)).
    { destruct Hold as [Ho|[[Ho Hf]|[Hb Hf]]].
      - apply (str_rev_fuel_walk p (d_tab s) (d_free s) Hwalk); [exact Ho | exact Ho256 | lia | lia].
      - destruct (tget (d_tab s) (d_old s)) as [e|] eqn:E.
        + apply Hdom in E. lia.
        + apply str_rev_fuel_none; [lia | exact E | lia | lia].
      - rewrite Hb in Hclr. cbn [andb] in Hclr. apply Z.eqb_neq in Hclr. lia. }
    rewrite E. reflexivity.
  - apply (str_rev_fuel_walk p (d_tab s) (d_free s) Hwalk); [exact Hgt | | lia | lia].
    intros Hb. rewrite Hb in Hclr. cbn [andb] in Hclr. apply Z.eqb_neq in Hclr. exact Hclr.
Qed.

Theorem dec_step_fuel : forall p s code fs, 9 <= z_maxbits p <= 16 -> DInv p s -> (str_fuel <= fs)%nat ->
  dec_step_f fs p s code = dec_step p s code.
Proof.
  intros p s code fs Hp HI Hfs. unfold dec_step_f, dec_step.
  destruct (d_old s =? -1); [reflexivity|].
  destruct (z_block p && (code =? 256)) eqn:Hclr; [reflexivity|].
  destruct (d_free s <? code) eqn:Hlt; [reflexivity|].
  cbv zeta. rewrite (sr_fuel p s code fs Hp HI Hfs Hclr Hlt). reflexivity.
Qed.

(* DInv is preserved by a step on ANY code *)
Theorem dec_step_inv : forall p s code s', 9 <= z_maxbits p <= 16 -> DInv p s -> dec_step p s code = Some s' -> DInv p s'.
Proof.
  intros p s code s' Hp [Hfree Hdom Hwalk Ho256 Hold] H.
  pose proof (maxmax_bounds p Hp) as Hm. pose proof (flo_range p) as Hflo.
  unfold dec_step in H.
  destruct (d_old s =? -1).
  - destruct (Z.leb_spec 256 code) as [Hc|Hc]; [discriminate|].
    inversion H; subst s'; clear H. constructor; dproj.
    + exact Hfree.
    + exact Hdom.
    + exact Hwalk.
    + intros _. lia.
    + left. lia.
  - destruct (z_block p && (code =? 256)) eqn:Hclr.
    + apply andb_prop in Hclr as [Hb Hc]. apply Z.eqb_eq in Hc.
      inversion H; subst s'; clear H. constructor; dproj.
      * lia.
      * exact Hdom.
      * intros c pre suf _ Hr. lia.
      * exact Ho256.
      * right. right. split; [exact Hb | reflexivity].
    + assert (Hc256 : z_block p = true -> code <> 256).
      { intros Hb. rewrite Hb in Hclr. cbn [andb] in Hclr. apply Z.eqb_neq in Hclr. exact Hclr. }
      destruct (Z.ltb_spec (d_free s) code) as [Hlt|Hge]; [discriminate|].
      cbv zeta in H.
      match type of H with (match ?X with _ => _ end) = _ => destruct X as [r|] end; [|discriminate].
      destruct (Z.ltb_spec (d_free s) (maxmax p)) as [Hfm|Hfm].
      * inversion H; subst s'; clear H. constructor; dproj.
        -- lia.
        -- intros c e Hg. rewrite tget_tset in Hg by lia.
           destruct (Z.eqb_spec c (d_free s)) as [Ec|Nc]; [lia | exact (Hdom c e Hg)].
        -- intros c pre suf Hg Hr. rewrite tget_tset in Hg by lia.
           destruct (Z.eqb_spec c (d_free s)) as [Ec|Nc].
           ++ inversion Hg; subst pre suf c; clear Hg.
              destruct Hold as [Ho|[[Ho Hf]|[Hb Hf]]].
              ** split; [exact Ho | exact Ho256].
              ** lia.
              ** unfold flo in Hr. rewrite Hb in Hr. lia.
           ++ apply (Hwalk c pre suf Hg). lia.
        -- exact Hc256.
        -- left. lia.
      * inversion H; subst s'; clear H. constructor; dproj.
        -- exact Hfree.
        -- exact Hdom.
        -- exact Hwalk.
        -- exact Hc256.
        -- destruct (Z.eq_dec code (d_free s)) as [Ec|Nc]; [right; left; lia | left; lia].
Qed.

Theorem dec_codes_fuel_from : forall p, 9 <= z_maxbits p <= 16 -> forall codes s fs, DInv p s -> (str_fuel <= fs)%nat ->
  dec_codes_f fs p s codes = dec_codes p s codes.
Proof.
  intros p Hp. induction codes as [|c t IH]; intros s fs HI Hfs; cbn [dec_codes_f dec_codes]; [reflexivity|].
  rewrite (dec_step_fuel p s c fs Hp HI Hfs).
  destruct (dec_step p s c) as [s'|] eqn:E; [|reflexivity].
  apply IH; [exact (dec_step_inv p s c s' Hp HI E) | exact Hfs].
Qed.

(* every state reachable from d_init satisfies DInv *)
Theorem dec_codes_inv : forall p, 9 <= z_maxbits p <= 16 -> forall codes s s', DInv p s -> dec_codes p s codes = Some s' -> DInv p s'.
Proof.
  intros p Hp. induction codes as [|c t IH]; intros s s' HI H; cbn [dec_codes] in H.
  - inversion H; subst s'. exact HI.
  - destruct (dec_step p s c) as [s1|] eqn:E; [|discriminate].
    apply (IH s1 s'); [exact (dec_step_inv p s c s1 Hp HI E) | exact H].
Qed.

Theorem dec_codes_fuel : forall p codes fs, 9 <= z_maxbits p <= 16 -> (str_fuel <= fs)%nat ->
  dec_codes_f fs p (d_init p) codes = dec_codes p (d_init p) codes.
Proof. intros p codes fs Hp Hfs. apply dec_codes_fuel_from; [exact Hp | apply dinv_init; exact Hp | exact Hfs]. Qed.

(* in every reachable table, the walk from any code the decoder may look up (code < d_free, or d_old when it is below d_free)
   is independent of the fuel from c - 254 upwards; str_fuel covers every c <= 65536 *)
Corollary reachable_walk_bound : forall p codes s c f1 f2, 9 <= z_maxbits p <= 16 ->
  dec_codes p (d_init p) codes = Some s -> c < d_free s -> (z_block p = true -> c <> 256) ->
  (Z.to_nat (c - 255) < f1)%nat -> (Z.to_nat (c - 255) < f2)%nat ->
  str_rev f1 (d_tab s) c = str_rev f2 (d_tab s) c.
Proof.
  intros p codes s c f1 f2 Hp H Hc Hne H1 H2.
  pose proof (dec_codes_inv p Hp codes (d_init p) s (dinv_init p Hp) H) as HI.
  apply (str_rev_fuel_walk p (d_tab s) (d_free s) (di_walk p s HI)); assumption.
Qed.

(* the naive invariant (every entry's prefix is smaller than its code) does not hold in reachable tables: block mode,
   codes 65 65 257 CLEAR 65 leave (257, 65) in slot 256 *)
Example naive_prefix_invariant_fails :
  match dec_codes {| z_maxbits := 16; z_block := true |} (d_init {| z_maxbits := 16; z_block := true |}) [65; 65; 257; 256; 65] with
  | Some s => tget (d_tab s) 256
  | None => None
  end = Some (257, 65).
Proof. vm_compute. reflexivity. Qed.

(* ================================================================ 3. top level ========================================= *)
Definition uncompress_f (f_unpack f_str : nat) (file : list Z) : option (list Z) :=
  match file with
  | m1 :: m2 :: h :: payload =>
    if negb ((m1 =? 31) && (m2 =? 157)) then None else
    let p := {| z_maxbits := h mod 32; z_block := 128 <=? h |} in
    if (z_maxbits p <? 9) || (16 <? z_maxbits p) then None else
    let bits := bits_of_bytes payload in
    match dec_codes_f f_str p (d_init p) (unpack f_unpack p (w_init p) 0 bits) with
    | None => None
    | Some s =>
      let out := rev_append (d_out s) [] in
      if C_LIBXMP_DEPACK_LIMIT <=? Z.of_nat (length out) then None else Some out
    end
  | _ => None
  end.

(* the fuel that uncompress gives to unpack *)
Definition model_unpack_fuel (file : list Z) : nat :=
  match file with
  | _ :: _ :: _ :: payload => (2 * length (bits_of_bytes payload) + 2)%nat
  | _ => 0%nat
  end.

Lemma bits_of_bytes_length : forall l, length (bits_of_bytes l) = (8 * length l)%nat.
Proof.
  induction l as [|x r IH]; [reflexivity|].
  rewrite bits_of_bytes_cons, app_length, bits_of_z_length, IH. cbn [length]. lia.
Qed.

(* linear in the file size: 16 fuel units per payload byte *)
Lemma model_unpack_fuel_linear : forall file, (model_unpack_fuel file <= 16 * length file + 2)%nat.
Proof.
  intros [|m1 [|m2 [|h payload]]]; cbn [model_unpack_fuel length]; try lia.
  rewrite bits_of_bytes_length. lia.
Qed.

Theorem uncompress_f_model : forall file, uncompress file = uncompress_f (model_unpack_fuel file) str_fuel file.
Proof.
  intros [|m1 [|m2 [|h payload]]]; try reflexivity.
  unfold uncompress, uncompress_f, model_unpack_fuel.
  destruct (negb ((m1 =? 31) && (m2 =? 157))); [reflexivity|].
  cbv zeta. rewrite dec_codes_f_model. reflexivity.
Qed.

Theorem uncompress_fuel : forall file f_unpack f_str, (model_unpack_fuel file <= f_unpack)%nat -> (str_fuel <= f_str)%nat ->
  uncompress_f f_unpack f_str file = uncompress file.
Proof.
  intros [|m1 [|m2 [|h payload]]] fu fs Hu Hs; try reflexivity.
  unfold uncompress, uncompress_f. unfold model_unpack_fuel in Hu.
  destruct (negb ((m1 =? 31) && (m2 =? 157))); [reflexivity|].
  cbv zeta.
  set (p := {| z_maxbits := h mod 32; z_block := 128 <=? h |}).
  destruct (Z.ltb_spec (z_maxbits p) 9) as [H9|H9]; [reflexivity|].
  destruct (Z.ltb_spec 16 (z_maxbits p)) as [H16|H16]; [reflexivity|].
  cbn [orb].
  rewrite (unpack_fuel_init p (bits_of_bytes payload) fu (2 * length (bits_of_bytes payload) + 2)) by lia.
  rewrite (dec_codes_fuel p _ fs) by lia.
  reflexivity.
Qed.

(* any two sufficient fuel pairs agree *)
Corollary uncompress_fuel_any : forall file fu1 fs1 fu2 fs2,
  (model_unpack_fuel file <= fu1)%nat -> (str_fuel <= fs1)%nat -> (model_unpack_fuel file <= fu2)%nat -> (str_fuel <= fs2)%nat ->
  uncompress_f fu1 fs1 file = uncompress_f fu2 fs2 file.
Proof. intros file fu1 fs1 fu2 fs2 A B C D. rewrite (uncompress_fuel file fu1 fs1 A B), (uncompress_fuel file fu2 fs2 C D). reflexivity. Qed.

Print Assumptions unpack_fuel.
Print Assumptions unpack_fuel_9.
Print Assumptions unpack_fuel_init.
Print Assumptions dec_step_fuel.
Print Assumptions dec_step_inv.
Print Assumptions dec_codes_fuel.
Print Assumptions reachable_walk_bound.
Print Assumptions naive_prefix_invariant_fails.
Print Assumptions uncompress_f_model.
Print Assumptions uncompress_fuel.
Print Assumptions uncompress_fuel_any.
