From Coq Require Import ZArith List Lia Bool.
Import ListNotations.
From LX Require Import Base.ListAux Generated.Consts Model.Api Proofs.ApiProofs.
Local Open Scope Z_scope.

Ltac splitif_all :=
  repeat match goal with
  | |- context [if ?b then _ else _] => let E := fresh "E" in destruct b eqn:E
  | H : context [if ?b then _ else _] |- _ => let E := fresh "E" in destruct b eqn:E
  end.

Ltac contract :=
  unfold spec_allows, is_void, min_state, max_state, args_ok, range;
  splitif; cbn [snd]; splitif; try reflexivity; splitif_all; try reflexivity; finish.

Lemma api_meets_contract c k : ctx_wf c -> call_wf k -> spec_allows c k (snd (step c k)) = true.
Proof.
  intros (A & B & S) W.
  destruct k as [o|?|?|?|?|?|?|?|?|?|?|?|?|?|?|?|?|?|?|?|?|?|?|?|?|?|?|?|?|?]; cbn [step].
  - destruct o; cbn [call_wf] in W; contract.
  - contract.
  - cbn [call_wf] in W; contract.
  - contract.
  - contract.
  - contract.
  - contract.
  - contract.
  - contract.
  - contract.
  - contract.
  - contract.
  - contract.
  - contract.
  - contract.
  - contract.
  - (* CMute: the table access is in range whenever it is reached *)
    destruct (state c <? PLAYING) eqn:E1; [contract|].
    destruct ((c0 <? 0) || (MAXCH <=? c0)) eqn:E2; [contract|].
    assert (exists v, lget (mute c) c0 = Some v) as [old ->] by (apply lget_in_range; [exact A| |]; b2p; consts; lia).
    contract.
  - destruct (state c <? PLAYING) eqn:E1; [contract|].
    destruct ((c0 <? 0) || (MAXCH <=? c0)) eqn:E2; [contract|].
    assert (exists v, lget (cvol c) c0 = Some v) as [old ->] by (apply lget_in_range; [exact B| |]; b2p; consts; lia).
    contract.
  - contract.
  - contract.
  - contract.
  - contract.
  - contract.
  - contract.
  - contract.
  - contract.
  - contract.
  - cbn [call_wf] in W; contract.
  - contract.
  - contract.
Qed.

(* ---------- over whole histories ---------- *)
Fixpoint all_allowed (c : ctx) (h : list call) : bool :=
  match h with
  | [] => true
  | k :: t => spec_allows c k (snd (step c k)) && all_allowed (fst (step c k)) t
  end.

Lemma history_meets_contract : forall h c, ctx_wf c -> Forall call_wf h -> all_allowed c h = true.
Proof.
  induction h as [|k t IH]; intros c Hc Hw; [reflexivity|]. cbn [all_allowed].
  inversion Hw as [|? ? Hk Ht]; subst. rewrite api_meets_contract by assumption. cbn [andb].
  apply IH; [apply step_wf; exact Hc|exact Ht].
Qed.

