(* Two adjacent substituted bytes (any byte-aligned error burst of at most 16 bits) are always
   detected by the table-driven CRC-32 and CRC-16/IBM of src/depackers/crc32.c, for data of any length. *)
From Coq Require Import ZArith List Lia Bool.
Import ListNotations.
From LX Require Import Generated.Tables Model.Crc Proofs.CrcProofs.
Local Open Scope Z_scope.

Section GenericBurst.
Variable tab : list Z.
Variable W : Z.
Variable inv_top : list Z.
Hypothesis HW : 16 <= W.
Hypothesis T_spec : forall i, 0 <= i < 256 ->
  0 <= T tab i < 2 ^ W /\ nth (Z.to_nat (top W (T tab i))) inv_top (-1) = i.

(* table entries that agree above their low byte are the same entry *)
Lemma T_shr8_inj i j : 0 <= i < 256 -> 0 <= j < 256 ->
  Z.shiftr (T tab i) 8 = Z.shiftr (T tab j) 8 -> i = j.
Proof.
  intros Hi Hj E.
  assert (Et : top W (T tab i) = top W (T tab j)).
  { unfold top. replace (W - 8) with (8 + (W - 16)) by lia.
    rewrite <- !Z.shiftr_shiftr by lia. rewrite E. reflexivity. }
  destruct (T_spec i Hi) as [_ A]. destruct (T_spec j Hj) as [_ B].
  rewrite <- A, <- B, Et. reflexivity.
Qed.

Lemma two_step_first_differs s b1 b2 c1 c2 : st W s -> byte b1 -> byte b2 -> byte c1 -> byte c2 ->
  b1 <> c1 ->
  crc_step tab (crc_step tab s b1) b2 <> crc_step tab (crc_step tab s c1) c2.
Proof.
  intros Hs Hb1 Hb2 Hc1 Hc2 Hne E.
  pose proof (step_st tab W inv_top HW T_spec s b1 Hs Hb1) as Hs1.
  pose proof (step_st tab W inv_top HW T_spec s c1 Hs Hc1) as Hs1'.
  pose proof (idx_eq tab W inv_top HW T_spec _ _ _ _ Hs1 Hs1' Hb2 Hc2 E) as Ei.
  rewrite (step_eq tab (crc_step tab s b1) b2), (step_eq tab (crc_step tab s c1) c2), Ei in E.
  apply xor_cancel in E.
  rewrite (step_eq tab s b1), (step_eq tab s c1) in E.
  rewrite !Z.shiftr_lxor in E. apply xor_cancel2 in E.
  apply T_shr8_inj in E; [|apply idx_range; assumption|apply idx_range; assumption].
  unfold idx in E. apply xor_cancel2 in E. exact (Hne E).
Qed.

Lemma two_step_differs s b1 b2 c1 c2 : st W s -> byte b1 -> byte b2 -> byte c1 -> byte c2 ->
  (b1 <> c1 \/ b2 <> c2) ->
  crc_step tab (crc_step tab s b1) b2 <> crc_step tab (crc_step tab s c1) c2.
Proof.
  intros Hs Hb1 Hb2 Hc1 Hc2 Hne.
  destruct (Z.eq_dec b1 c1) as [Eb|Nb].
  - subst c1. destruct Hne as [Hne|Hne]; [congruence|].
    intro E. apply Hne.
    apply (step_byte_inj tab W inv_top HW T_spec (crc_step tab s b1) b2 c2); try assumption.
    apply (step_st tab W inv_top HW T_spec); assumption.
  - apply two_step_first_differs; assumption.
Qed.

Lemma run_detects_two_bytes pre b1 b2 c1 c2 post s0 : st W s0 ->
  Forall byte pre -> byte b1 -> byte b2 -> byte c1 -> byte c2 -> Forall byte post ->
  (b1 <> c1 \/ b2 <> c2) ->
  crc_run tab s0 (pre ++ b1 :: b2 :: post) <> crc_run tab s0 (pre ++ c1 :: c2 :: post).
Proof.
  intros H0 Hpre Hb1 Hb2 Hc1 Hc2 Hpost Hne. unfold crc_run. rewrite !fold_left_app. cbn [fold_left].
  pose proof (run_st tab W inv_top HW T_spec pre Hpre s0 H0) as Hs. unfold crc_run in Hs.
  set (s := fold_left (crc_step tab) pre s0) in *.
  apply (run_inj tab W inv_top HW T_spec post Hpost).
  - apply (step_st tab W inv_top HW T_spec); [apply (step_st tab W inv_top HW T_spec)|]; assumption.
  - apply (step_st tab W inv_top HW T_spec); [apply (step_st tab W inv_top HW T_spec)|]; assumption.
  - apply two_step_differs; assumption.
Qed.
End GenericBurst.

Theorem crc32_detects_two_bytes : forall pre b1 b2 c1 c2 post,
  bytes pre -> 0 <= b1 < 256 -> 0 <= b2 < 256 -> 0 <= c1 < 256 -> 0 <= c2 < 256 -> bytes post ->
  (b1 <> c1 \/ b2 <> c2) ->
  crc32_A (pre ++ b1 :: b2 :: post) 0 <> crc32_A (pre ++ c1 :: c2 :: post) 0.
Proof.
  intros pre b1 b2 c1 c2 post Hpre Hb1 Hb2 Hc1 Hc2 Hpost Hne.
  unfold crc32_A, crc32_A_no_inv. intro E. apply xor_cancel2 in E. revert E.
  apply (run_detects_two_bytes crc32_A_table 32 (mk_inv_top crc32_A_table 32) ltac:(lia)
           (table_ok_spec _ _ table32_ok)); auto.
  unfold st. vm_compute. split; [discriminate|reflexivity].
Qed.

Theorem crc16_detects_two_bytes : forall pre b1 b2 c1 c2 post,
  bytes pre -> 0 <= b1 < 256 -> 0 <= b2 < 256 -> 0 <= c1 < 256 -> 0 <= c2 < 256 -> bytes post ->
  (b1 <> c1 \/ b2 <> c2) ->
  crc16_IBM (pre ++ b1 :: b2 :: post) 0 <> crc16_IBM (pre ++ c1 :: c2 :: post) 0.
Proof.
  intros pre b1 b2 c1 c2 post Hpre Hb1 Hb2 Hc1 Hc2 Hpost Hne.
  unfold crc16_IBM.
  apply (run_detects_two_bytes crc16_IBM_table 16 (mk_inv_top crc16_IBM_table 16) ltac:(lia)
           (table_ok_spec _ _ table16_ok)); auto.
  unfold st. vm_compute. split; [discriminate|reflexivity].
Qed.

Print Assumptions crc32_detects_two_bytes.
Print Assumptions crc16_detects_two_bytes.
