From Coq Require Import ZArith List Lia Bool.
Import ListNotations.
From LX Require Import Base.ListAux Generated.Consts Model.Api Proofs.ApiProofs.
Local Open Scope Z_scope.

(* case-split on atomic conditions only (innermost first), reducing the exposed if-then-else each time *)
Ltac splitall :=
  repeat match goal with
  | |- context [if ?b then _ else _] =>
      lazymatch b with
      | context [if _ then _ else _] => fail
      | _ => let E := fresh "E" in destruct b eqn:E; cbv beta iota
      end
  end.

(* ---------- the state changes only as documented ---------- *)
Definition next_state (c : ctx) (k : call) : Z :=
  match k with
  | CLoad (LEarly _) => state c
  | CLoad (LLate _) => UNLOADED
  | CLoad (LOk _ _ _ _) => LOADED
  | CRelease => UNLOADED
  | CStart rate _ e =>
      if (rate <? C_XMP_MIN_SRATE) || (C_XMP_MAX_SRATE <? rate) || (state c <? LOADED) || (MAXCH <? sh_chn (shp c) + smix_chn c) then state c
      else if e =? 0 then PLAYING else LOADED
  | CEnd => if state c <? PLAYING then state c else LOADED
  | _ => state c
  end.

Lemma state_discipline c k : state (fst (step c k)) = next_state c k.
Proof.
  destruct k as [o|?|?|?|?|?|?|?|?|?|?|?|?|?|?|?|?|?|?|?|?|?|?|?|?|?|?|?|?|?]; cbn [step next_state]; try destruct o;
    unfold release, end_player, set_state;
    splitif; repeat match goal with |- context [match lget ?l ?i with _ => _ end] => destruct (lget l i) end;
    cbn [fst state]; try reflexivity; splitall; b2p; consts; first [reflexivity | lia | discriminate].
Qed.

(* ---------- read-back: xmp_get_player returns the default set by xmp_start_player or the last value successfully set ---------- *)
(* a history of calls that neither load/release nor start/end the player *)
Definition control_call (k : call) : bool :=
  match k with CLoad _ | CRelease | CStart _ _ _ | CEnd => false | _ => true end.

(* the value xmp_get_player(parm) must report after history h, given the value d it had at the beginning;
   valid = the documented range of the parameter *)
Fixpoint last_set (parm : Z) (valid : Z -> bool) (d : Z) (h : list call) : Z :=
  match h with
  | [] => d
  | CSetPlayer p v :: t => if (p =? parm) && valid v then last_set parm valid v t else last_set parm valid d t
  | _ :: t => last_set parm valid d t
  end.

Lemma control_keeps_playing c k : control_call k = true -> state c = PLAYING -> state (fst (step c k)) = PLAYING.
Proof. intros Hk Hs. rewrite state_discipline. destruct k; cbn in Hk |- *; try discriminate; exact Hs. Qed.

Section ReadBack.
Variable proj : ctx -> Z.
Variable parm : Z.
Variable valid : Z -> bool.
Hypothesis proj_set : forall c p v, state c = PLAYING ->
  proj (fst (step c (CSetPlayer p v))) = if (p =? parm) && valid v then v else proj c.
Hypothesis proj_other : forall c k, control_call k = true -> (forall p v, k <> CSetPlayer p v) -> proj (fst (step c k)) = proj c.
Hypothesis proj_get : forall c, state c = PLAYING -> snd (step c (CGetPlayer parm)) = RExact (proj c).

Lemma read_back_gen : forall h c, forallb control_call h = true -> state c = PLAYING ->
  let c' := snd (run c h) in
  state c' = PLAYING /\ proj c' = last_set parm valid (proj c) h /\
  snd (step c' (CGetPlayer parm)) = RExact (last_set parm valid (proj c) h).
Proof.
  induction h as [|k t IH]; intros c Hh Hs; cbn zeta.
  - cbn [run snd last_set]. split; [exact Hs|]. split; [reflexivity|]. apply proj_get. exact Hs.
  - cbn [forallb] in Hh. apply andb_prop in Hh as [Hk Hh].
    cbn [run]. destruct (step c k) as [c1 r] eqn:Es. destruct (run c1 t) as [rs cf] eqn:Er. cbn [snd].
    assert (Hc1 : c1 = fst (step c k)) by (rewrite Es; reflexivity).
    assert (Hs1 : state c1 = PLAYING) by (rewrite Hc1; apply control_keeps_playing; assumption).
    specialize (IH c1 Hh Hs1). cbn zeta in IH. rewrite Er in IH. cbn [snd] in IH.
    destruct IH as (A & B & C). split; [exact A|].
    assert (L : last_set parm valid (proj c) (k :: t) = last_set parm valid (proj c1) t).
    { rewrite Hc1. destruct k; cbn [last_set]; try (rewrite proj_other; [reflexivity|exact Hk|intros ? ? E; discriminate E]).
      rewrite proj_set by exact Hs. destruct ((parm0 =? parm) && valid v); reflexivity. }
    rewrite L. split; assumption.
Qed.
End ReadBack.

(* instances: the parameters xmp_start_player resets *)
Ltac other_calls :=
  intros c k Hk Hn;
  destruct k as [o|?|?|?|?|?|?|?|?|?|?|?|?|?|?|?|?|?|?|?|?|?|?|?|?|?|?|?|?|?]; cbn in Hk; try discriminate Hk;
  try (exfalso; eapply Hn; reflexivity);
  cbn [step]; splitif; repeat match goal with |- context [match lget ?l ?i with _ => _ end] => destruct (lget l i) end; reflexivity.

Ltac set_call :=
  intros c p v Hs; cbn [step]; rewrite Hs; unfold range;
  repeat match goal with
  | |- context [if ?b then _ else _] =>
      lazymatch b with
      | context [if _ then _ else _] => fail
      | _ => let E := fresh "E" in destruct b eqn:E; cbv beta iota
      end
  end; cbn [fst amp mix interp dsp volume smix_volume pflags cflags mode]; try reflexivity; b2p; consts; first [reflexivity | lia | discriminate].

Ltac get_call := intros c Hs; cbn [step]; rewrite Hs; reflexivity.

Lemma read_back_amp : forall h c, forallb control_call h = true -> state c = PLAYING ->
  let c' := snd (run c h) in snd (step c' (CGetPlayer P_AMP)) = RExact (last_set P_AMP (range 0 3) (amp c) h).
Proof. intros h c0 A B. apply (read_back_gen amp P_AMP (range 0 3)); try assumption; [set_call | other_calls | get_call]. Qed.

Definition anyv (_ : Z) : bool := true.
Lemma read_back_mix : forall h c, forallb control_call h = true -> state c = PLAYING ->
  let c' := snd (run c h) in snd (step c' (CGetPlayer P_MIX)) = RExact (last_set P_MIX (range (-100) 100) (mix c) h).
Proof. intros h c0 A B. apply (read_back_gen mix P_MIX (range (-100) 100)); try assumption; [set_call | other_calls | get_call]. Qed.
Lemma read_back_interp : forall h c, forallb control_call h = true -> state c = PLAYING ->
  let c' := snd (run c h) in snd (step c' (CGetPlayer P_INTERP)) = RExact (last_set P_INTERP (range 0 2) (interp c) h).
Proof. intros h c0 A B. apply (read_back_gen interp P_INTERP (range 0 2)); try assumption; [set_call | other_calls | get_call]. Qed.
Lemma read_back_dsp : forall h c, forallb control_call h = true -> state c = PLAYING ->
  let c' := snd (run c h) in snd (step c' (CGetPlayer P_DSP)) = RExact (last_set P_DSP anyv (dsp c) h).
Proof. intros h c0 A B. apply (read_back_gen dsp P_DSP anyv); try assumption; [unfold anyv; set_call | other_calls | get_call]. Qed.
Lemma read_back_volume : forall h c, forallb control_call h = true -> state c = PLAYING ->
  let c' := snd (run c h) in snd (step c' (CGetPlayer P_VOLUME)) = RExact (last_set P_VOLUME (range 0 200) (volume c) h).
Proof. intros h c0 A B. apply (read_back_gen volume P_VOLUME (range 0 200)); try assumption; [set_call | other_calls | get_call]. Qed.
Lemma read_back_smix_volume : forall h c, forallb control_call h = true -> state c = PLAYING ->
  let c' := snd (run c h) in snd (step c' (CGetPlayer P_SMIX_VOLUME)) = RExact (last_set P_SMIX_VOLUME (range 0 200) (smix_volume c) h).
Proof. intros h c0 A B. apply (read_back_gen smix_volume P_SMIX_VOLUME (range 0 200)); try assumption; [set_call | other_calls | get_call]. Qed.
Lemma read_back_flags : forall h c, forallb control_call h = true -> state c = PLAYING ->
  let c' := snd (run c h) in snd (step c' (CGetPlayer P_FLAGS)) = RExact (last_set P_FLAGS anyv (pflags c) h).
Proof. intros h c0 A B. apply (read_back_gen pflags P_FLAGS anyv); try assumption; [unfold anyv; set_call | other_calls | get_call]. Qed.
Lemma read_back_cflags : forall h c, forallb control_call h = true -> state c = PLAYING ->
  let c' := snd (run c h) in snd (step c' (CGetPlayer P_CFLAGS)) = RExact (last_set P_CFLAGS anyv (cflags c) h).
Proof. intros h c0 A B. apply (read_back_gen cflags P_CFLAGS anyv); try assumption; [unfold anyv; set_call | other_calls | get_call]. Qed.
Lemma read_back_mode : forall h c, forallb control_call h = true -> state c = PLAYING ->
  let c' := snd (run c h) in snd (step c' (CGetPlayer P_MODE)) = RExact (last_set P_MODE (range 0 10) (mode c) h).
Proof. intros h c0 A B. apply (read_back_gen mode P_MODE (range 0 10)); try assumption; [set_call | other_calls | get_call]. Qed.

(* defaults established by a successful xmp_start_player *)
Lemma start_defaults c rate fmt : snd (step c (CStart rate fmt 0)) = RExact 0 ->
  let c' := fst (step c (CStart rate fmt 0)) in
  state c' = PLAYING /\ amp c' = 1 /\ mix c' = 100 /\ interp c' = 1 /\ dsp c' = 1 /\ volume c' = 100 /\ smix_volume c' = 100 /\
  cvol c' = repeat 100 64 /\ pflags c' = pflags c /\ cflags c' = cflags c /\ mode c' = mode c.
Proof.
  cbn [step]. change (0 =? 0) with true. cbv iota. splitif; cbn [snd]; intros H; try (exfalso; consts; injection H; lia).
  cbn zeta. cbn [fst state amp mix interp dsp volume smix_volume cvol pflags cflags mode].
  unfold end_player, set_state. splitif; cbn [pflags cflags mode]; repeat split; reflexivity.
Qed.

(* channel volume / mute: a value set is the value read back; other channels are untouched *)
Lemma channel_vol_read_back c ch v : ctx_wf c -> state c = PLAYING -> 0 <= ch < 64 -> 0 <= v <= 100 ->
  snd (step (fst (step c (CVol ch v))) (CVol ch (-1))) = RExact v.
Proof.
  intros (A & B & S) Hs Hc Hv. cbn [step]. rewrite Hs.
  replace (PLAYING <? PLAYING) with false by reflexivity.
  replace ((ch <? 0) || (MAXCH <=? ch)) with false by (symmetry; apply orb_false_iff; split; [apply Z.ltb_ge|apply Z.leb_gt]; unfold MAXCH, C_XMP_MAX_CHANNELS; lia).
  destruct (lget_in_range (cvol c) ch B) as [old E]; try lia. rewrite E. cbn [fst state cvol].
  replace (PLAYING <? PLAYING) with false by reflexivity.
  replace ((ch <? 0) || (MAXCH <=? ch)) with false by (symmetry; apply orb_false_iff; split; [apply Z.ltb_ge|apply Z.leb_gt]; unfold MAXCH, C_XMP_MAX_CHANNELS; lia).
  unfold range. replace ((0 <=? v) && (v <=? 100)) with true by (symmetry; apply andb_true_iff; split; apply Z.leb_le; lia).
  unfold lget, lset, zget. destruct (Z.ltb_spec ch 0); [lia|].
  rewrite nth_error_nth' with (d := 0) by (rewrite upd_length; lia). rewrite nth_upd_same by lia. reflexivity.
Qed.
