(* C19: the Impulse Tracker sample decompressor (Model/ItSex.v, transcribed from src/loaders/itsex.c) inverts the model's
   writer: decompress (compress l ++ tail) = (l, true, tail) for 8- and 16-bit samples, IT 2.14 and IT 2.15, any number of blocks.

   The bit reader is handled arithmetically: a reader state stands for the number V s (little-endian value of all the bits not yet
   delivered) and L s real bits remain; read_bits s n delivers V s mod 2^n and leaves V s / 2^n as long as n <= L s. *)
From Coq Require Import ZArith List Lia Bool.
Import ListNotations.
From LX Require Import Base.ListAux Model.ItSex.
Local Open Scope Z_scope.
Ltac Zify.zify_post_hook ::= Z.div_mod_to_equations.

(* ---------------------------------------------------------------- list helpers ----------------------------------------- *)
Lemma firstn_app_exact {A} (a b : list A) : firstn (length a) (a ++ b) = a.
Proof. induction a as [|x a IH]; cbn [length app firstn]; [reflexivity | f_equal; exact IH]. Qed.

Lemma skipn_app_exact {A} (a b : list A) : skipn (length a) (a ++ b) = b.
Proof. induction a as [|x a IH]; cbn [length app skipn]; [reflexivity | exact IH]. Qed.

Lemma match_nonnil {A B} (l : list A) (x y : B) : l <> [] -> match l with [] => x | _ :: _ => y end = y.
Proof. destruct l; [contradiction | reflexivity]. Qed.

(* ---------------------------------------------------------------- little-endian values --------------------------------- *)
Definition byte (x : Z) : Prop := 0 <= x < 256.
Fixpoint le_val (l : list Z) : Z := match l with [] => 0 | b :: t => b + 256 * le_val t end.

Lemma pow8_succ k : 0 <= k -> 2 ^ (8 * (k + 1)) = 256 * 2 ^ (8 * k).
Proof. intros H. replace (8 * (k + 1)) with (8 + 8 * k) by lia. rewrite Z.pow_add_r by lia. change (2 ^ 8) with 256. reflexivity. Qed.

Lemma le_val_app a b : le_val (a ++ b) = le_val a + 2 ^ (8 * Z.of_nat (length a)) * le_val b.
Proof.
  induction a as [|x a IH]; cbn [app le_val length].
  - change (8 * Z.of_nat 0) with 0. change (2 ^ 0) with 1. lia.
  - rewrite Nat2Z.inj_succ, <- Z.add_1_r, pow8_succ by lia. rewrite IH. ring.
Qed.

Lemma le_val_bound l : Forall byte l -> 0 <= le_val l < 2 ^ (8 * Z.of_nat (length l)).
Proof.
  induction 1 as [|x l Hx Hl IH]; cbn [le_val length].
  - change (8 * Z.of_nat 0) with 0. change (2 ^ 0) with 1. lia.
  - rewrite Nat2Z.inj_succ, <- Z.add_1_r, pow8_succ by lia. unfold byte in Hx. lia.
Qed.

Lemma word_of_le_val l : (length l <= 4)%nat -> word_of l = le_val l.
Proof.
  intros H. destruct l as [|a [|b [|c [|d [|e l]]]]]; cbn [length] in H; try lia; unfold word_of; cbn [nth le_val]; ring.
Qed.

(* ---------------------------------------------------------------- bit lists of the writer ------------------------------ *)
Lemma b2z_odd x : (if Z.odd x then 1 else 0) + 2 * (x / 2) = x.
Proof. generalize (Z.div2_odd x). rewrite Z.div2_div. unfold Z.b2z. destruct (Z.odd x); lia. Qed.

Lemma z_of_bits_of_z n x : 0 <= x < 2 ^ Z.of_nat n -> z_of_bits (bits_of_z n x) = x.
Proof.
  revert x; induction n as [|n IH]; intros x H.
  - change (2 ^ Z.of_nat 0) with 1 in H. cbn [bits_of_z z_of_bits]. lia.
  - cbn [bits_of_z z_of_bits]. rewrite IH; [apply b2z_odd|].
    rewrite Nat2Z.inj_succ, Z.pow_succ_r in H by lia. lia.
Qed.

Lemma bits_of_z_length n x : length (bits_of_z n x) = n.
Proof. revert x; induction n as [|n IH]; intros x; cbn [bits_of_z length]; [reflexivity | f_equal; apply IH]. Qed.

Lemma z_of_bits_app a b : z_of_bits (a ++ b) = z_of_bits a + 2 ^ Z.of_nat (length a) * z_of_bits b.
Proof.
  induction a as [|x a IH]; cbn [app z_of_bits length].
  - change (2 ^ Z.of_nat 0) with 1. lia.
  - rewrite Nat2Z.inj_succ, Z.pow_succ_r by lia. rewrite IH. ring.
Qed.

Lemma z_of_bits_bound l : 0 <= z_of_bits l < 2 ^ Z.of_nat (length l).
Proof.
  induction l as [|x l IH]; cbn [z_of_bits length].
  - change (2 ^ Z.of_nat 0) with 1. lia.
  - rewrite Nat2Z.inj_succ, Z.pow_succ_r by lia. destruct x; lia.
Qed.

(* the number whose base-2^w digits are ds *)
Fixpoint pack (w : Z) (ds : list Z) : Z := match ds with [] => 0 | d :: t => d + 2 ^ w * pack w t end.

Lemma z_of_bits_concat w ds : Forall (fun d => 0 <= d < 2 ^ Z.of_nat w) ds ->
  z_of_bits (concat (map (bits_of_z w) ds)) = pack (Z.of_nat w) ds.
Proof.
  induction 1 as [|d ds Hd Hds IH]; cbn [map concat pack]; [reflexivity|].
  rewrite z_of_bits_app, bits_of_z_length, z_of_bits_of_z by assumption. rewrite IH. reflexivity.
Qed.

Lemma concat_bits_length w ds : length (concat (map (bits_of_z w) ds)) = (w * length ds)%nat.
Proof. induction ds as [|d ds IH]; cbn [map concat length]; [lia|]. rewrite app_length, bits_of_z_length, IH. lia. Qed.

Lemma bytes_of_bits_cons f b t :
  bytes_of_bits (S f) (b :: t) = z_of_bits (firstn 8 (b :: t)) :: bytes_of_bits f (skipn 8 (b :: t)).
Proof. reflexivity. Qed.

Lemma bytes_of_bits_spec : forall f l, (length l < f)%nat ->
  le_val (bytes_of_bits f l) = z_of_bits l /\ Forall byte (bytes_of_bits f l) /\ (length l <= 8 * length (bytes_of_bits f l))%nat.
Proof.
  induction f as [|f IH]; intros l H; [lia|].
  destruct l as [|b t]; [cbn [bytes_of_bits le_val z_of_bits length]; repeat split; [constructor | lia] |].
  rewrite bytes_of_bits_cons. remember (b :: t) as l eqn:El.
  assert (Hl : (1 <= length l)%nat) by (rewrite El; cbn [length]; lia). clear El.
  destruct (IH (skipn 8 l)) as (E1 & E2 & E3). { rewrite skipn_length. lia. }
  cbn [le_val length]. rewrite E1.
  assert (Hsplit := z_of_bits_app (firstn 8 l) (skipn 8 l)). rewrite firstn_skipn in Hsplit.
  assert (Hb := z_of_bits_bound (firstn 8 l)).
  rewrite firstn_length in Hsplit, Hb.
  assert (Hp : 2 ^ Z.of_nat (Nat.min 8 (length l)) <= 2 ^ 8) by (apply Z.pow_le_mono_r; lia).
  change (2 ^ 8) with 256 in Hp.
  repeat split.
  - destruct (Nat.le_gt_cases 8 (length l)) as [Hge|Hlt].
    + rewrite Nat.min_l in Hsplit by lia. change (2 ^ Z.of_nat 8) with 256 in Hsplit. lia.
    + assert (Es : skipn 8 l = []) by (apply skipn_all2; lia). rewrite Es in Hsplit. rewrite Es.
      cbn [z_of_bits] in Hsplit. cbn [z_of_bits]. lia.
  - constructor; [unfold byte; lia | exact E2].
  - rewrite skipn_length in E3. lia.
Qed.

(* ---------------------------------------------------------------- the bit reader --------------------------------------- *)
Definition V (s : bitst) : Z := b_bits s + 2 ^ b_num s * le_val (b_rest s).          (* the bits not yet delivered, as a number *)
Definition L (s : bitst) : Z := b_num s + 8 * Z.of_nat (length (b_rest s)).          (* how many real bits remain *)
Definition inv (s : bitst) : Prop := 0 <= b_num s /\ 0 <= b_bits s < 2 ^ b_num s /\ Forall byte (b_rest s).

Lemma lowbits_mod n x : 0 <= n -> lowbits n x = x mod 2 ^ n.
Proof. intros H. unfold lowbits. apply Z.land_ones. exact H. Qed.

Lemma split_arith A B C a w R : 0 < A -> 0 < B -> 0 <= a < A -> 0 <= w ->
  (a + A * (w + B * C * R)) mod (A * B) = a + A * (w mod B) /\ (a + A * (w + B * C * R)) / (A * B) = w / B + C * R.
Proof.
  intros HA HB Ha Hw.
  assert (Hr := Z.mod_pos_bound w B HB). assert (Hq := Z.div_mod w B ltac:(lia)).
  remember (w / B) as q eqn:Eq. remember (w mod B) as r eqn:Er. clear Eq Er.
  assert (E : a + A * (w + B * C * R) = (A * B) * (q + C * R) + (a + A * r)) by (rewrite Hq; ring).
  assert (Hrange : 0 <= a + A * r < A * B) by nia.
  split; symmetry.
  - apply (Z.mod_unique_pos _ _ (q + C * R)); assumption.
  - apply (Z.div_unique_pos _ _ _ (a + A * r)); assumption.
Qed.

Lemma refill_arith k n u8 a w R : 0 <= k < n -> n - k <= u8 -> 0 <= a < 2 ^ k -> 0 <= w ->
  (a + 2 ^ k * (w + 2 ^ u8 * R)) mod 2 ^ n = a mod 2 ^ n + (w mod 2 ^ (n - k)) * 2 ^ k /\
  (a + 2 ^ k * (w + 2 ^ u8 * R)) / 2 ^ n = w / 2 ^ (n - k) + 2 ^ (u8 - (n - k)) * R.
Proof.
  intros Hk Hu Ha Hw.
  assert (HA : 0 < 2 ^ k) by (apply Z.pow_pos_nonneg; lia).
  assert (HB : 0 < 2 ^ (n - k)) by (apply Z.pow_pos_nonneg; lia).
  replace (2 ^ n) with (2 ^ k * 2 ^ (n - k)) by (rewrite <- Z.pow_add_r by lia; f_equal; lia).
  replace (2 ^ u8) with (2 ^ (n - k) * 2 ^ (u8 - (n - k))) by (rewrite <- Z.pow_add_r by lia; f_equal; lia).
  rewrite (Z.mod_small a) by nia.
  destruct (split_arith (2 ^ k) (2 ^ (n - k)) (2 ^ (u8 - (n - k))) a w R HA HB Ha Hw) as (Em & Ed).
  rewrite Em, Ed. split; ring.
Qed.

Lemma div_pow_bound a m p : 0 <= p <= m -> 0 <= a < 2 ^ m -> 0 <= a / 2 ^ p < 2 ^ (m - p).
Proof.
  intros Hp Ha. assert (HP : 0 < 2 ^ p) by (apply Z.pow_pos_nonneg; lia).
  split; [apply Z.div_pos; lia|]. apply Z.div_lt_upper_bound; [exact HP|].
  rewrite <- Z.pow_add_r by lia. replace (p + (m - p)) with m by lia. lia.
Qed.

Lemma read_bits_spec s n : inv s -> 1 <= n <= 31 -> n <= L s ->
  exists s', read_bits s n = Some (V s mod 2 ^ n, s') /\ inv s' /\ V s' = V s / 2 ^ n /\ L s' = L s - n.
Proof.
  destruct s as [a k r]. unfold inv, V, L, read_bits. cbn [b_bits b_num b_rest]. intros (Hk & Ha & Hr) Hn HL.
  destruct (Z.leb_spec n 0) as [?|_]; [lia|]. destruct (Z.leb_spec 32 n) as [?|_]; [lia|]. cbn [orb].
  destruct (Z.ltb_spec k n) as [Hlt|Hge].
  - assert (Hne : r <> []) by (intros ->; cbn [length] in HL; lia).
    rewrite (match_nonnil r _ _ Hne). cbv zeta.
    assert (Hu : (length (firstn 4 r) <= 4)%nat) by apply firstn_le_length.
    assert (Hr' := Hr). rewrite <- (firstn_skipn 4 r) in Hr'. apply Forall_app in Hr'. destruct Hr' as (Hfb & Hsb).
    rewrite word_of_le_val by exact Hu.
    assert (Hle : le_val r = le_val (firstn 4 r) + 2 ^ (8 * Z.of_nat (length (firstn 4 r))) * le_val (skipn 4 r))
      by (rewrite <- (firstn_skipn 4 r) at 1; apply le_val_app).
    assert (Hw := le_val_bound _ Hfb).
    replace (Z.of_nat (length (firstn 4 r)) * 8) with (8 * Z.of_nat (length (firstn 4 r))) by lia.
    remember (8 * Z.of_nat (length (firstn 4 r))) as u8 eqn:Eu.
    assert (Hu8 : n - k <= u8) by (rewrite Eu, firstn_length; lia).
    destruct (refill_arith k n u8 a (le_val (firstn 4 r)) (le_val (skipn 4 r))) as (Em & Ed); try lia.
    rewrite <- Hle in Em, Ed.
    eexists; split; [|split; [|split]].
    + rewrite !lowbits_mod by lia. rewrite Z.shiftl_mul_pow2 by lia. rewrite Em. reflexivity.
    + cbn [b_bits b_num b_rest]. rewrite Z.shiftr_div_pow2 by lia. split; [lia|]. split; [|exact Hsb].
      apply div_pow_bound; lia.
    + cbn [b_bits b_num b_rest]. rewrite Z.shiftr_div_pow2 by lia. rewrite Ed. reflexivity.
    + cbn [b_bits b_num b_rest]. rewrite skipn_length. rewrite Eu, firstn_length. lia.
  - assert (HP : 0 < 2 ^ n) by (apply Z.pow_pos_nonneg; lia).
    assert (E2 : 2 ^ k = 2 ^ (k - n) * 2 ^ n) by (rewrite <- Z.pow_add_r by lia; f_equal; lia).
    eexists; split; [|split; [|split]].
    + rewrite lowbits_mod by lia. rewrite E2. rewrite <- Z.mul_assoc, (Z.mul_comm (2 ^ n)), Z.mul_assoc, Z_mod_plus_full. reflexivity.
    + cbn [b_bits b_num b_rest]. rewrite Z.shiftr_div_pow2 by lia. split; [lia|]. split; [|exact Hr].
      apply div_pow_bound; lia.
    + cbn [b_bits b_num b_rest]. rewrite Z.shiftr_div_pow2 by lia. rewrite E2.
      rewrite <- Z.mul_assoc, (Z.mul_comm (2 ^ n)), Z.mul_assoc, Z_div_plus_full by lia. reflexivity.
    + cbn [b_bits b_num b_rest]. lia.
Qed.

(* ---------------------------------------------------------------- full-width values ------------------------------------ *)
Definition Wd (wide : bool) : Z := if wide then 17 else 9.
Definition Wn (wide : bool) : nat := if wide then 17%nat else 9%nat.
Definition Md (wide : bool) : Z := if wide then 65536 else 256.

Lemma Wn_Wd wide : Z.of_nat (Wn wide) = Wd wide.
Proof. destruct wide; reflexivity. Qed.

Lemma Md_pow wide : Md wide = 2 ^ (Wd wide - 1).
Proof. destruct wide; reflexivity. Qed.

Lemma Md_lt_pow wide : Md wide < 2 ^ Wd wide.
Proof. destruct wide; reflexivity. Qed.

Lemma Wd_range wide : 1 <= Wd wide <= 31.
Proof. destruct wide; unfold Wd; lia. Qed.

Lemma classify_full wide v s : 0 <= v < Md wide -> classify wide (Wd wide) v s = Some (Delta v, s).
Proof.
  intros Hv. destruct wide; unfold Md in Hv; unfold classify, Wd; cbv beta iota zeta.
  - destruct (Z.ltb_spec 17 7) as [?|_]; [lia|]. destruct (Z.ltb_spec 17 17) as [?|_]; [lia|].
    destruct (Z.leb_spec (17 + 1) 17) as [?|_]; [lia|]. change (2 ^ (17 - 1)) with 65536.
    destruct (Z.leb_spec 65536 v) as [?|_]; [lia|]. reflexivity.
  - destruct (Z.ltb_spec 9 7) as [?|_]; [lia|]. destruct (Z.ltb_spec 9 9) as [?|_]; [lia|].
    destruct (Z.leb_spec (9 + 1) 9) as [?|_]; [lia|]. change (2 ^ (9 - 1)) with 256.
    destruct (Z.leb_spec 256 v) as [?|_]; [lia|]. reflexivity.
Qed.

Lemma wrapv_range wide x : 0 <= wrapv wide x < Md wide.
Proof. destruct wide; unfold wrapv, Md; lia. Qed.

(* ---------------------------------------------------------------- deltas and integrators ------------------------------- *)
Definition dval (wide it215 : bool) (prev prevd x : Z) : Z :=
  if it215 then wrapv wide (wrapv wide (x - prev) - prevd) else wrapv wide (x - prev).
Definition dnext (wide it215 : bool) (prev x : Z) : Z := if it215 then wrapv wide (x - prev) else 0.

Lemma deltas_cons wide it215 prev prevd x t :
  deltas wide it215 prev prevd (x :: t) = dval wide it215 prev prevd x :: deltas wide it215 x (dnext wide it215 prev x) t.
Proof. cbn [deltas]. unfold dval, dnext. destruct it215; reflexivity. Qed.

Lemma dval_range wide it215 prev prevd x : 0 <= dval wide it215 prev prevd x < Md wide.
Proof. unfold dval. destruct it215; apply wrapv_range. Qed.

Lemma deltas_range wide it215 : forall l prev prevd, Forall (fun d => 0 <= d < Md wide) (deltas wide it215 prev prevd l).
Proof.
  induction l as [|x t IH]; intros prev prevd; [constructor|].
  rewrite deltas_cons. constructor; [apply dval_range | apply IH].
Qed.

Lemma deltas_length wide it215 : forall l prev prevd, length (deltas wide it215 prev prevd l) = length l.
Proof.
  induction l as [|x t IH]; intros prev prevd; [reflexivity|].
  rewrite deltas_cons. cbn [length]. f_equal. apply IH.
Qed.

(* temp / temp2 of the decoder against prev / prevd of the writer *)
Definition integ_inv (it215 : bool) (temp temp2 prev prevd : Z) : Prop :=
  temp = (if it215 then prevd else prev) /\ (it215 = true -> temp2 = prev).

Lemma integ_step wide it215 temp temp2 prev prevd x : 0 <= x < Md wide -> integ_inv it215 temp temp2 prev prevd ->
  let t := wrapv wide (dval wide it215 prev prevd x + temp) in
  let t2 := wrapv wide (temp2 + t) in
  (if it215 then t2 else t) = x /\ integ_inv it215 t t2 x (dnext wide it215 prev x).
Proof.
  intros Hx (H1 & H2). cbv zeta. unfold integ_inv, dval, dnext.
  destruct it215.
  - specialize (H2 eq_refl). subst temp temp2. destruct wide; unfold wrapv, Md in *.
    + split; [lia|]. split; [lia|]. intros _. lia.
    + split; [lia|]. split; [lia|]. intros _. lia.
  - subst temp. destruct wide; unfold wrapv, Md in *.
    + split; [lia|]. split; [lia|]. intros E; discriminate E.
    + split; [lia|]. split; [lia|]. intros E; discriminate E.
Qed.

Lemma smp_okb_cons wide x t : smp_okb wide (x :: t) = true -> 0 <= x < Md wide /\ smp_okb wide t = true.
Proof.
  unfold smp_okb, Md. cbn [forallb]. intros H. apply andb_prop in H as [Hx Ht]. apply andb_prop in Hx as [H0 H1].
  apply Z.leb_le in H0. apply Z.ltb_lt in H1. split; [lia | exact Ht].
Qed.

Lemma smp_okb_split wide n l : smp_okb wide l = true -> smp_okb wide (firstn n l) = true /\ smp_okb wide (skipn n l) = true.
Proof.
  intros H. rewrite <- (firstn_skipn n l) in H. unfold smp_okb in *. rewrite forallb_app in H. apply andb_prop in H. exact H.
Qed.

(* ---------------------------------------------------------------- one block -------------------------------------------- *)
Lemma pack_cons_mod w d t : 0 <= w -> 0 <= d < 2 ^ w -> (d + 2 ^ w * pack w t) mod 2 ^ w = d /\ (d + 2 ^ w * pack w t) / 2 ^ w = pack w t.
Proof.
  intros Hw Hd. assert (HP : 0 < 2 ^ w) by (apply Z.pow_pos_nonneg; lia).
  rewrite (Z.mul_comm (2 ^ w)). rewrite Z_mod_plus_full, Z_div_plus_full by lia.
  rewrite Z.mod_small, Z.div_small by lia. split; lia.
Qed.

Lemma block_loop_spec wide it215 : forall l fuel prev prevd temp temp2 s acc,
  smp_okb wide l = true -> (length l <= fuel)%nat -> inv s ->
  V s = pack (Wd wide) (deltas wide it215 prev prevd l) -> Wd wide * Z.of_nat (length l) <= L s ->
  integ_inv it215 temp temp2 prev prevd ->
  block_loop fuel wide it215 (length l) (Wd wide) temp temp2 s acc = (rev acc ++ l, true).
Proof.
  induction l as [|x t IH]; intros fuel prev prevd temp temp2 s acc Hok Hfuel Hinv HV HL Hint.
  - cbn [length]. destruct fuel; cbn [block_loop]; rewrite rev_append_rev; reflexivity.
  - destruct fuel as [|f]; [cbn [length] in Hfuel; lia|].
    apply smp_okb_cons in Hok as (Hx & Hok).
    assert (HW := Wd_range wide).
    cbn [length] in HL, Hfuel. rewrite Nat2Z.inj_succ in HL.
    destruct (read_bits_spec s (Wd wide) Hinv HW) as (s1 & Hrd & Hinv1 & HV1 & HL1); [nia|].
    rewrite deltas_cons in HV. cbn [pack] in HV.
    assert (Hd := dval_range wide it215 prev prevd x). assert (HM := Md_lt_pow wide).
    destruct (pack_cons_mod (Wd wide) (dval wide it215 prev prevd x) (deltas wide it215 x (dnext wide it215 prev x) t)) as (Em & Ed); [lia|lia|].
    rewrite <- HV in Em, Ed. rewrite Em in Hrd. rewrite Ed in HV1.
    cbn [length block_loop]. rewrite Hrd. rewrite (classify_full wide _ s1 Hd). cbv beta iota zeta.
    destruct (integ_step wide it215 temp temp2 prev prevd x Hx Hint) as (Eout & Hint').
    cbv zeta in Eout, Hint'. rewrite Eout.
    rewrite (IH f x (dnext wide it215 prev x) _ _ s1 (x :: acc) Hok); try assumption; [|lia|nia].
    cbn [rev]. rewrite <- app_assoc. reflexivity.
Qed.

Definition enc_body (wide it215 : bool) (blk : list Z) : list Z :=
  let bits := concat (map (bits_of_z (Wn wide)) (deltas wide it215 0 0 blk)) in bytes_of_bits (S (length bits)) bits.

Lemma enc_block_eq wide it215 blk :
  enc_block wide it215 blk =
  Z.of_nat (length (enc_body wide it215 blk)) mod 256 :: Z.of_nat (length (enc_body wide it215 blk)) / 256 :: enc_body wide it215 blk.
Proof. reflexivity. Qed.

Lemma block_decode wide it215 blk fuel : smp_okb wide blk = true -> (length blk <= fuel)%nat ->
  block_loop fuel wide it215 (length blk) (Wd wide) 0 0 {| b_bits := 0; b_num := 0; b_rest := enc_body wide it215 blk |} [] = (blk, true).
Proof.
  intros Hok Hfuel. unfold enc_body. cbv zeta.
  remember (concat (map (bits_of_z (Wn wide)) (deltas wide it215 0 0 blk))) as bits eqn:Eb.
  destruct (bytes_of_bits_spec (S (length bits)) bits) as (E1 & E2 & E3); [lia|].
  assert (Hlen : length bits = (Wn wide * length blk)%nat) by (rewrite Eb, concat_bits_length, deltas_length; reflexivity).
  assert (HW := Wd_range wide).
  rewrite (block_loop_spec wide it215 blk fuel 0 0 0 0 _ [] Hok Hfuel); [reflexivity| | | |].
  - unfold inv. cbn [b_bits b_num b_rest]. change (2 ^ 0) with 1. split; [lia|]. split; [lia | exact E2].
  - unfold V. cbn [b_bits b_num b_rest]. change (2 ^ 0) with 1. rewrite E1, Eb, <- Wn_Wd. rewrite z_of_bits_concat; [lia|].
    rewrite Wn_Wd. eapply Forall_impl; [|apply deltas_range]. cbv beta. intros d Hd. assert (HM := Md_lt_pow wide). lia.
  - unfold L. cbn [b_bits b_num b_rest]. rewrite <- Wn_Wd. lia.
  - unfold integ_inv. destruct it215; split; reflexivity.
Qed.

(* ---------------------------------------------------------------- all blocks ------------------------------------------- *)
Lemma block_size_pos wide : (1 <= block_size wide)%nat.
Proof. apply Nat.leb_le. destruct wide; vm_compute; reflexivity. Qed.

Lemma compress_S_ne nb wide it215 l : l <> [] ->
  compress (S nb) wide it215 l =
  enc_block wide it215 (firstn (block_size wide) l) ++ compress nb wide it215 (skipn (block_size wide) l).
Proof. destruct l; [contradiction | reflexivity]. Qed.

Lemma decompress_step nb wide it215 len lo hi body blen smp : len <> 0%nat -> Z.to_nat (lo + 256 * hi) = blen ->
  (blen <= length body)%nat ->
  block_loop (Nat.min (block_size wide) len + 8 * blen + 8) wide it215 (Nat.min (block_size wide) len) (Wd wide) 0 0
    {| b_bits := 0; b_num := 0; b_rest := firstn blen body |} [] = (smp, true) ->
  decompress (S nb) wide it215 len (lo :: hi :: body) =
  let '(more, ok2, rest) := decompress nb wide it215 (len - Nat.min (block_size wide) len) (skipn blen body) in (smp ++ more, ok2, rest).
Proof.
  intros Hlen Hb Hbl Hloop. destruct len as [|len']; [congruence|]. remember (S len') as len eqn:El.
  cbn [decompress]. rewrite El at 1. rewrite Hb. destruct (Nat.ltb_spec (length body) blen) as [?|_]; [lia|].
  unfold Wd in Hloop. rewrite Hloop. reflexivity.
Qed.

Lemma decompress_compress_gen wide it215 : forall nb l tail, (length l <= nb)%nat -> smp_okb wide l = true ->
  decompress (S nb) wide it215 (length l) (compress (S nb) wide it215 l ++ tail) = (l, true, tail).
Proof.
  induction nb as [|nb IH]; intros l tail Hlen Hok.
  - destruct l; [reflexivity | cbn [length] in Hlen; lia].
  - destruct l as [|x t]; [reflexivity|]. remember (x :: t) as l eqn:El.
    assert (Hne : l <> []) by (rewrite El; discriminate).
    assert (Hl1 : (1 <= length l)%nat) by (rewrite El; cbn [length]; lia). clear El x t.
    assert (Hbs := block_size_pos wide).
    rewrite (compress_S_ne _ _ _ _ Hne). rewrite enc_block_eq.
    destruct (smp_okb_split wide (block_size wide) l Hok) as (Hok1 & Hok2).
    remember (firstn (block_size wide) l) as blk eqn:Eblk.
    remember (skipn (block_size wide) l) as l' eqn:El'.
    assert (Hblk : length blk = Nat.min (block_size wide) (length l)) by (rewrite Eblk; apply firstn_length).
    assert (Hl' : length l' = (length l - block_size wide)%nat) by (rewrite El'; apply skipn_length).
    remember (enc_body wide it215 blk) as body eqn:Ebody.
    cbn [app]. rewrite <- app_assoc.
    rewrite (decompress_step (S nb) wide it215 (length l) _ _ _ (length body) blk).
    + rewrite skipn_app_exact. replace (length l - Nat.min (block_size wide) (length l))%nat with (length l') by lia.
      rewrite IH by (try assumption; lia). cbv beta iota.
      rewrite Eblk, El', firstn_skipn. reflexivity.
    + lia.
    + rewrite <- (Nat2Z.id (length body)) at 3. f_equal. lia.
    + rewrite app_length. lia.
    + rewrite firstn_app_exact. rewrite <- Hblk. rewrite Ebody. apply block_decode; [exact Hok1 | lia].
Qed.

Theorem decompress_compress : forall wide it215 l tail,
  smp_okb wide l = true ->
  decompress (S (length l)) wide it215 (length l) (compress (S (length l)) wide it215 l ++ tail) = (l, true, tail).
Proof. intros wide it215 l tail Hok. apply decompress_compress_gen; [lia | exact Hok]. Qed.

(* ---------------------------------------------------------------- the writer emits bytes -------------------------------- *)
Lemma bytes_of_bits_nil f : bytes_of_bits f [] = [].
Proof. destruct f; reflexivity. Qed.

Lemma bytes_of_bits_length_ub : forall f l, (8 * length (bytes_of_bits f l) <= length l + 7)%nat.
Proof.
  induction f as [|f IH]; intros l; [cbn [bytes_of_bits length]; lia|].
  destruct l as [|b t]; [cbn [bytes_of_bits length]; lia|].
  rewrite bytes_of_bits_cons. remember (b :: t) as l eqn:El.
  assert (Hl : (1 <= length l)%nat) by (rewrite El; cbn [length]; lia). clear El.
  cbn [length]. destruct (Nat.le_gt_cases 8 (length l)) as [Hge|Hlt].
  - assert (H := IH (skipn 8 l)). rewrite skipn_length in H. lia.
  - assert (Es : skipn 8 l = []) by (apply skipn_all2; lia). rewrite Es, bytes_of_bits_nil. cbn [length]. lia.
Qed.

Lemma block_size_val wide : Z.of_nat (block_size wide) = if wide then 16384 else 32768.
Proof. destruct wide; vm_compute; reflexivity. Qed.

Lemma enc_body_length wide it215 blk : (length blk <= block_size wide)%nat -> Z.of_nat (length (enc_body wide it215 blk)) < 65536.
Proof.
  intros Hlen. unfold enc_body. cbv zeta.
  remember (concat (map (bits_of_z (Wn wide)) (deltas wide it215 0 0 blk))) as bits eqn:Eb.
  assert (Hub := bytes_of_bits_length_ub (S (length bits)) bits).
  assert (Hbits : length bits = (Wn wide * length blk)%nat) by (rewrite Eb, concat_bits_length, deltas_length; reflexivity).
  remember (length (bytes_of_bits (S (length bits)) bits)) as n eqn:En. clear En.
  rewrite Hbits in Hub. apply Nat2Z.inj_le in Hlen. rewrite block_size_val in Hlen.
  destruct wide; unfold Wn in Hub; cbv beta iota in Hub, Hlen; lia.
Qed.

Lemma enc_body_bytes wide it215 blk : Forall byte (enc_body wide it215 blk).
Proof.
  unfold enc_body. cbv zeta.
  remember (concat (map (bits_of_z (Wn wide)) (deltas wide it215 0 0 blk))) as bits eqn:Eb.
  destruct (bytes_of_bits_spec (S (length bits)) bits) as (_ & E2 & _); [lia | exact E2].
Qed.

Lemma enc_block_bytes wide it215 blk : (length blk <= block_size wide)%nat -> Forall byte (enc_block wide it215 blk).
Proof.
  intros Hlen. rewrite enc_block_eq. assert (Hn := enc_body_length wide it215 blk Hlen).
  constructor; [unfold byte; lia|]. constructor; [unfold byte; lia|]. apply enc_body_bytes.
Qed.

Lemma compress_bytes_gen wide it215 : forall nb l, Forall byte (compress nb wide it215 l).
Proof.
  induction nb as [|nb IH]; intros l; [constructor|].
  destruct l as [|x t]; [constructor|]. rewrite compress_S_ne by discriminate.
  apply Forall_app. split; [|apply IH]. apply enc_block_bytes. apply firstn_le_length.
Qed.

Theorem compress_bytes : forall wide it215 l, smp_okb wide l = true ->
  Forall (fun b => 0 <= b < 256) (compress (S (length l)) wide it215 l).
Proof. intros wide it215 l _. exact (compress_bytes_gen wide it215 (S (length l)) l). Qed.

Print Assumptions decompress_compress.
Print Assumptions compress_bytes.
