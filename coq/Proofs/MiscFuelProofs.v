(* Fuel sufficiency for EVERY input (corrupt, truncated, random) of two decoders whose models carry an explicit fuel argument:

   (a) Model/ItSex.v   block_loop is run with fuel  d + 8 * blen + 8  (d samples wanted, blen bytes in the block) and decompress
                       with  nblocks = len + 1:  more fuel never changes the result (block_loop_fuel_enough, decompress_f_eq,
                       decompress_nblocks_enough);
   (b) Model/ArcLzw.v  lzw_loop is run with fuel  8 * length src + 16:  more fuel never changes the result
                       (lzw_loop_fuel_enough, unpack_lzw_fuel, unpack_crunched_fuel, arc_unpack_fuel).

   Both are proved from a "two fuels above the measure give the same result" lemma, by induction on the fuel; the measure is a
   quantity bounded by the input size that every recursive call decreases. *)
From Coq Require Import ZArith List Lia Bool FMapPositive.
Import ListNotations.
From LX Require Import Model.Lzw Model.ArcLzw Proofs.ArcLzwProofs Model.ItSex.
Local Open Scope Z_scope.
Ltac Zify.zify_post_hook ::= Z.div_mod_to_equations.

(* ================================================================ (a) ItSex ============================================ *)

(* 1 while bytes remain unread: a refill may then succeed once more, whatever the number of bits asked for *)
Definition bflag (l : list Z) : Z := match l with [] => 0 | _ => 1 end.
(* the bits not yet delivered: negative after a value that ran past the end of the block *)
Definition bavail (s : bitst) : Z := b_num s + 8 * Z.of_nat (length (b_rest s)).
Definition bmeas (s : bitst) : Z := Z.max 0 (bavail s) + bflag (b_rest s).
(* in->num_bits is negative only when nothing is left to load *)
Definition binv (s : bitst) : Prop := 0 <= b_num s \/ b_rest s = [].

Definition st_of (o : option (Z * bitst)) (d : bitst) : bitst := match o with Some (_, t) => t | None => d end.

Lemma bflag_spec l : (l = [] /\ bflag l = 0) \/ (bflag l = 1 /\ (1 <= length l)%nat).
Proof. destruct l as [|x r]; [left; split; reflexivity | right; split; [reflexivity | cbn [length]; lia]]. Qed.

Lemma bmeas_nonneg s : 0 <= bmeas s.
Proof. unfold bmeas. destruct (bflag_spec (b_rest s)) as [[_ H]|[H _]]; rewrite H; lia. Qed.

(* every successful read_bits strictly decreases the measure (and keeps the invariant) - also the one that runs past the end *)
Lemma read_bits_meas s n v s' : binv s -> read_bits s n = Some (v, s') -> binv s' /\ bmeas s' + 1 <= bmeas s.
Proof.
  intros Hi H. unfold read_bits in H.
  destruct ((n <=? 0) || (32 <=? n)) eqn:Hn; [discriminate|].
  apply orb_false_elim in Hn. destruct Hn as [Hn1 Hn2]. apply Z.leb_gt in Hn1. apply Z.leb_gt in Hn2.
  destruct (Z.ltb_spec (b_num s) n) as [Hlt|Hge].
  - remember (b_rest s) as l eqn:El. destruct l as [|x r]; [discriminate|].
    assert (Hl1 : (1 <= length (x :: r))%nat) by (cbn [length]; lia).
    cbv beta iota zeta in H. apply (f_equal (fun o => st_of o s)) in H. unfold st_of in H. cbv beta iota in H.
    remember (x :: r) as l eqn:El2.
    subst s'. unfold binv, bmeas, bavail in *. cbn [b_num b_rest]. rewrite <- El in *.
    assert (Hf : bflag l = 1) by (rewrite El2; reflexivity).
    destruct Hi as [Hi|Hi]; [|rewrite Hi in Hl1; cbn [length] in Hl1; lia].
    pose proof (firstn_length 4 l) as HF. pose proof (skipn_length 4 l) as HS.
    split.
    + destruct (Nat.le_gt_cases 4 (length l)) as [H4|H4].
      * left. rewrite HF. lia.
      * right. apply skipn_all2. lia.
    + rewrite Hf, HF, HS.
      destruct (bflag_spec (skipn 4 l)) as [[_ Hf2]|[Hf2 Hl2]]; rewrite Hf2; rewrite ?HS in *; lia.
  - apply (f_equal (fun o => st_of o s)) in H. unfold st_of in H. cbv beta iota in H.
    subst s'. unfold binv, bmeas, bavail in *. cbn [b_num b_rest]. split; [left; lia|].
    destruct (bflag_spec (b_rest s)) as [[_ Hf]|[Hf _]]; rewrite Hf; lia.
Qed.

(* classify reads at most once more *)
Lemma classify_meas wide left bits s a s' : binv s -> classify wide left bits s = Some (a, s') -> binv s' /\ bmeas s' <= bmeas s.
Proof.
  intros Hi H. unfold classify in H.
  assert (Hsame : forall x, Some (x, s) = Some (a, s') -> binv s' /\ bmeas s' <= bmeas s).
  { intros x Hx. injection Hx as _ Hs. subst s'. split; [exact Hi | lia]. }
  destruct (left <? 7).
  - destruct (bits =? 2 ^ (left - 1)); [|exact (Hsame _ H)].
    destruct (read_bits s (if wide then 4 else 3)) as [[x s1]|] eqn:Hr; [|discriminate].
    injection H as _ Hs. subst s'. destruct (read_bits_meas _ _ _ _ Hi Hr) as [Hi1 Hm1]. split; [exact Hi1 | lia].
  - destruct (left <? (if wide then 17 else 9)).
    + match type of H with (if ?c then _ else _) = _ => destruct c end; exact (Hsame _ H).
    + destruct ((if wide then 17 else 9) + 1 <=? left); [exact (Hsame _ H)|].
      match type of H with (if ?c then _ else _) = _ => destruct c end; exact (Hsame _ H).
Qed.

(* two fuels above (samples still wanted) + (measure of the bit reader) give the same result *)
Lemma block_loop_fuel_gen wide it215 : forall f1 f2 d left temp temp2 s acc,
  binv s -> Z.of_nat d + bmeas s <= Z.of_nat f1 -> Z.of_nat d + bmeas s <= Z.of_nat f2 ->
  block_loop f1 wide it215 d left temp temp2 s acc = block_loop f2 wide it215 d left temp temp2 s acc.
Proof.
  induction f1 as [|f1 IH]; intros f2 d left temp temp2 s acc Hi H1 H2; pose proof (bmeas_nonneg s) as H0.
  - destruct d as [|d']; [destruct f2; reflexivity | lia].
  - destruct f2 as [|f2]; [destruct d as [|d']; [reflexivity | lia]|].
    destruct d as [|d']; [reflexivity|]. cbn [block_loop].
    destruct (read_bits s left) as [[bits s1]|] eqn:Hr; [|reflexivity].
    destruct (read_bits_meas _ _ _ _ Hi Hr) as [Hi1 Hm1].
    destruct (classify wide left bits s1) as [[a s2]|] eqn:Hc; [|reflexivity].
    destruct (classify_meas _ _ _ _ _ _ Hi1 Hc) as [Hi2 Hm2].
    destruct a as [v|w|]; cbv zeta; apply IH; try exact Hi2; lia.
Qed.

(* the fuel decompress gives to a block is enough, for every block content and every starting width *)
Theorem block_loop_fuel_enough : forall wide it215 d left temp temp2 bits0 body acc fuel,
  (d + 8 * length body + 8 <= fuel)%nat ->
  block_loop fuel wide it215 d left temp temp2 {| b_bits := bits0; b_num := 0; b_rest := body |} acc =
  block_loop (d + 8 * length body + 8) wide it215 d left temp temp2 {| b_bits := bits0; b_num := 0; b_rest := body |} acc.
Proof.
  intros wide it215 d left temp temp2 bits0 body acc fuel Hf.
  assert (Hm : bmeas {| b_bits := bits0; b_num := 0; b_rest := body |} <= 8 * Z.of_nat (length body) + 1).
  { unfold bmeas, bavail. cbn [b_num b_rest]. destruct (bflag_spec body) as [[_ Hb]|[Hb _]]; rewrite Hb; lia. }
  apply block_loop_fuel_gen; [left; cbn [b_num]; lia | lia | lia].
Qed.

(* the iteration count of a block is at most  d + 8 * blen + 1 *)
Corollary block_loop_iterations : forall wide it215 d left temp temp2 bits0 body acc fuel,
  (d + 8 * length body + 1 <= fuel)%nat ->
  block_loop fuel wide it215 d left temp temp2 {| b_bits := bits0; b_num := 0; b_rest := body |} acc =
  block_loop (d + 8 * length body + 1) wide it215 d left temp temp2 {| b_bits := bits0; b_num := 0; b_rest := body |} acc.
Proof.
  intros wide it215 d left temp temp2 bits0 body acc fuel Hf.
  assert (Hm : bmeas {| b_bits := bits0; b_num := 0; b_rest := body |} <= 8 * Z.of_nat (length body) + 1).
  { unfold bmeas, bavail. cbn [b_num b_rest]. destruct (bflag_spec body) as [[_ Hb]|[Hb _]]; rewrite Hb; lia. }
  apply block_loop_fuel_gen; [left; cbn [b_num]; lia | lia | lia].
Qed.

(* decompress with `extra` more fuel for every block *)
Fixpoint decompress_f (extra : nat) (nblocks : nat) (wide it215 : bool) (len : nat) (src : list Z) : list Z * bool * list Z :=
  match nblocks with O => (repeat 0 len, (len =? 0)%nat, src) | S nb =>
  match len with O => ([], true, src) | _ =>
  match src with
  | lo :: hi :: body =>
    let blen := Z.to_nat (lo + 256 * hi) in
    if (length body <? blen)%nat then (repeat 0 len, false, [])
    else
      let d := Nat.min (block_size wide) len in
      let '(smp, ok) := block_loop (d + 8 * blen + 8 + extra) wide it215 d (if wide then 17 else 9) 0 0 {| b_bits := 0; b_num := 0; b_rest := firstn blen body |} [] in
      if ok then
        let '(more, ok2, rest) := decompress_f extra nb wide it215 (len - d) (skipn blen body) in (smp ++ more, ok2, rest)
      else (smp ++ repeat 0 (len - length smp), false, skipn blen body)
  | _ => (repeat 0 len, false, [])
  end end end.

Theorem decompress_f_eq : forall extra nblocks wide it215 len src,
  decompress_f extra nblocks wide it215 len src = decompress nblocks wide it215 len src.
Proof.
  intros extra nblocks wide it215. induction nblocks as [|nb IH]; intros len src; [reflexivity|].
  destruct len as [|len']; [reflexivity|]. cbn [decompress_f decompress]. remember (S len') as len eqn:El.
  destruct src as [|lo [|hi body]]; [reflexivity | reflexivity |]. cbv zeta.
  remember (Z.to_nat (lo + 256 * hi)) as blen eqn:Eb.
  destruct (Nat.ltb_spec (length body) blen) as [Hlt|Hge]; [reflexivity|].
  remember (Nat.min (block_size wide) len) as d eqn:Ed.
  assert (Hfl : length (firstn blen body) = blen) by (apply firstn_length_le; exact Hge).
  rewrite (block_loop_fuel_enough wide it215 d (if wide then 17 else 9) 0 0 0 (firstn blen body) [] (d + 8 * blen + 8 + extra))
    by (rewrite Hfl; lia).
  rewrite Hfl.
  destruct (block_loop (d + 8 * blen + 8) wide it215 d (if wide then 17 else 9) 0 0
              {| b_bits := 0; b_num := 0; b_rest := firstn blen body |} []) as [smp ok].
  destruct ok; [|reflexivity]. rewrite IH. reflexivity.
Qed.

Lemma block_size_ge1 wide : (1 <= block_size wide)%nat.
Proof. apply Nat.leb_le. destruct wide; vm_compute; reflexivity. Qed.

(* every block yields at least one sample: len blocks are enough for len samples *)
Lemma decompress_nblocks_gen wide it215 : forall nb1 nb2 len src, (len <= nb1)%nat -> (len <= nb2)%nat ->
  decompress nb1 wide it215 len src = decompress nb2 wide it215 len src.
Proof.
  induction nb1 as [|nb1 IH]; intros nb2 len src H1 H2.
  - assert (len = 0%nat) by lia. subst len. destruct nb2; reflexivity.
  - destruct nb2 as [|nb2].
    + assert (len = 0%nat) by lia. subst len. reflexivity.
    + destruct len as [|len']; [reflexivity|]. cbn [decompress]. remember (S len') as len eqn:El.
      destruct src as [|lo [|hi body]]; [reflexivity | reflexivity |]. cbv zeta.
      destruct (length body <? Z.to_nat (lo + 256 * hi))%nat; [reflexivity|].
      destruct (block_loop _ wide it215 _ _ 0 0 _ []) as [smp ok].
      destruct ok; [|reflexivity].
      pose proof (block_size_ge1 wide) as Hb.
      rewrite (IH nb2) by lia. reflexivity.
Qed.

Theorem decompress_nblocks_enough : forall wide it215 len src nblocks, (len + 1 <= nblocks)%nat ->
  decompress nblocks wide it215 len src = decompress (len + 1) wide it215 len src.
Proof. intros wide it215 len src nblocks H. apply decompress_nblocks_gen; lia. Qed.

(* both fuels at once: any larger number of blocks and any larger per-block fuel *)
Theorem decompress_fuel_enough : forall wide it215 len src nblocks extra, (len + 1 <= nblocks)%nat ->
  decompress_f extra nblocks wide it215 len src = decompress (len + 1) wide it215 len src.
Proof. intros wide it215 len src nblocks extra H. rewrite decompress_f_eq. apply decompress_nblocks_enough. exact H. Qed.

(* ================================================================ (b) ARC LZW ========================================== *)

(* the codes still buffered (if the buffer is still valid for the current width) plus the bits not yet read *)
Definition lzw_meas (s : ast) : nat :=
  (match a_buf s with [] => 0%nat | _ => if (a_bufw s =? a_width s)%Z then length (a_buf s) else 0%nat end + length (a_bits s))%nat.

Lemma lzw_meas_bound s' s1 : a_buf s' = a_buf s1 -> a_bits s' = a_bits s1 ->
  (lzw_meas s' <= length (a_buf s1) + length (a_bits s1))%nat.
Proof.
  intros Hb Hbits. unfold lzw_meas. rewrite Hb, Hbits.
  destruct (a_buf s1) as [|x t]; [lia|]. destruct (a_bufw s' =? a_width s'); lia.
Qed.

Lemma read_code_some w bits c b : read_code w bits = (Some c, b) -> (length b + Z.to_nat w = length bits)%nat.
Proof.
  unfold read_code. intros H.
  destruct (Nat.ltb_spec (length (firstn (Z.to_nat w) bits)) (Z.to_nat w)) as [Hlt|Hge]; [discriminate|].
  injection H as _ Hb. subst b. rewrite skipn_length. rewrite firstn_length in Hge. lia.
Qed.

Lemma read_code_none w bits b : read_code w bits = (None, b) -> b = [].
Proof.
  unfold read_code. intros H.
  destruct (length (firstn (Z.to_nat w) bits) <? Z.to_nat w)%nat; [|discriminate].
  injection H as Hb. symmetry. exact Hb.
Qed.

Lemma read_group_bits k : forall w bits, (length (snd (read_group k w bits)) <= length bits)%nat.
Proof.
  induction k as [|k IH]; intros w bits; [cbn [read_group snd]; lia|]. cbn [read_group].
  destruct (read_code w bits) as [[c|] b] eqn:E.
  - specialize (IH w b). destruct (read_group k w b) as [cs b']. cbn [snd] in *.
    pose proof (read_code_some _ _ _ _ E). lia.
  - cbn [snd]. rewrite (read_code_none _ _ _ E). cbn [length]. lia.
Qed.

Lemma read_group_hd k w bits c : hd None (fst (read_group (S k) w bits)) = Some c ->
  (length (snd (read_group (S k) w bits)) + Z.to_nat w <= length bits)%nat.
Proof.
  cbn [read_group]. destruct (read_code w bits) as [[c'|] b] eqn:E.
  - intros _. pose proof (read_group_bits k w b) as Hk. destruct (read_group k w b) as [cs b']. cbn [snd] in *.
    pose proof (read_code_some _ _ _ _ E). lia.
  - cbn [fst repeat hd]. discriminate.
Qed.

(* a code handed out by arc_next_code costs one buffered code, or at least a_width - 7 >= 2 bits *)
Lemma next_code_meas s code s1 : 9 <= a_width s -> next_code s = (Some code, s1) ->
  (length (a_buf s1) + length (a_bits s1) < lzw_meas s)%nat /\ a_width s1 = a_width s.
Proof.
  intros Hw H. rewrite next_code_eff in H. injection H as Hhd Hs1. subst s1. cbn [a_buf a_bits a_width].
  split; [|reflexivity].
  assert (Hrefill : hd None (fst (read_group 8 (a_width s) (a_bits s))) = Some code ->
          (length (tl (fst (read_group 8 (a_width s) (a_bits s)))) + length (snd (read_group 8 (a_width s) (a_bits s)))
           < length (a_bits s))%nat).
  { intros Hh. pose proof (read_group_hd 7 _ _ _ Hh) as Hb. pose proof (read_group_len 8 (a_width s) (a_bits s)) as Hl.
    destruct (fst (read_group 8 (a_width s) (a_bits s))) as [|x t]; [discriminate|]. cbn [tl length] in *.
    assert (9 <= Z.to_nat (a_width s))%nat by lia. lia. }
  unfold lzw_meas. unfold eff in *. destruct (a_buf s) as [|x t].
  - specialize (Hrefill Hhd). lia.
  - destruct (a_bufw s =? a_width s).
    + cbn [fst snd tl length]. lia.
    + specialize (Hrefill Hhd). lia.
Qed.

Lemma lzw_add_buf maxw s : a_buf (lzw_add maxw s) = a_buf s.
Proof.
  unfold lzw_add. destruct (a_last s) as [lc|]; [|reflexivity]. destruct (a_next s <? 2 ^ maxw); [|reflexivity].
  destruct (aget (a_tab s) lc) as [[p len] v]. reflexivity.
Qed.

Lemma lzw_add_bits maxw s : a_bits (lzw_add maxw s) = a_bits s.
Proof.
  unfold lzw_add. destruct (a_last s) as [lc|]; [|reflexivity]. destruct (a_next s <? 2 ^ maxw); [|reflexivity].
  destruct (aget (a_tab s) lc) as [[p len] v]. reflexivity.
Qed.

Lemma lzw_add_width maxw s : a_width s <= a_width (lzw_add maxw s).
Proof.
  unfold lzw_add. destruct (a_last s) as [lc|]; [|lia]. destruct (a_next s <? 2 ^ maxw); [|lia].
  destruct (aget (a_tab s) lc) as [[p len] v]. cbn [a_width].
  destruct ((2 ^ a_width s <=? a_next s + 1) && (a_width s <? maxw)); lia.
Qed.

(* two fuels above the measure give the same result *)
Lemma lzw_loop_fuel_gen maxw dyn limit : forall f1 f2 s out outlen,
  9 <= a_width s -> (lzw_meas s < f1)%nat -> (lzw_meas s < f2)%nat ->
  lzw_loop f1 maxw dyn limit s out outlen = lzw_loop f2 maxw dyn limit s out outlen.
Proof.
  induction f1 as [|f1 IH]; intros f2 s out outlen Hw H1 H2; [lia|]. destruct f2 as [|f2]; [lia|].
  cbn [lzw_loop].
  destruct (match limit with Some n => n <=? outlen | None => false end); [reflexivity|].
  destruct (next_code s) as [oc s1] eqn:Hnc. destruct oc as [code|]; [|reflexivity].
  destruct (next_code_meas s code s1 Hw Hnc) as [Hm Hw1].
  destruct (2 ^ maxw <=? code); [reflexivity|].
  destruct (dyn && (code =? 256)).
  - apply IH.
    + cbn [a_width]. lia.
    + eapply Nat.le_lt_trans; [apply (lzw_meas_bound _ s1); reflexivity | lia].
    + eapply Nat.le_lt_trans; [apply (lzw_meas_bound _ s1); reflexivity | lia].
  - cbv zeta.
    match goal with |- (if ?c then _ else _) = _ => destruct c end; [reflexivity|].
    assert (Hb : forall b : bool,
             a_buf (if b then lzw_add maxw s1 else s1) = a_buf s1 /\ a_bits (if b then lzw_add maxw s1 else s1) = a_bits s1 /\
             9 <= a_width (if b then lzw_add maxw s1 else s1)).
    { intros b. destruct b; [rewrite lzw_add_buf, lzw_add_bits; pose proof (lzw_add_width maxw s1)|]; repeat split; lia. }
    destruct (Hb (code =? a_next s1)) as (Hb1 & Hb2 & Hb3).
    apply IH.
    + cbn [a_width]. destruct (code =? a_next s1); cbn [a_width]; [exact Hb3|].
      eapply Z.le_trans; [|apply lzw_add_width]. cbn [a_width]. exact Hb3.
    + apply Nat.le_lt_trans with (length (a_buf s1) + length (a_bits s1))%nat; [|lia].
      apply (lzw_meas_bound _ s1); cbn [a_buf a_bits]; destruct (code =? a_next s1); cbn [a_buf a_bits];
        rewrite ?lzw_add_buf, ?lzw_add_bits; cbn [a_buf a_bits]; reflexivity.
    + apply Nat.le_lt_trans with (length (a_buf s1) + length (a_bits s1))%nat; [|lia].
      apply (lzw_meas_bound _ s1); cbn [a_buf a_bits]; destruct (code =? a_next s1); cbn [a_buf a_bits];
        rewrite ?lzw_add_buf, ?lzw_add_bits; cbn [a_buf a_bits]; reflexivity.
Qed.

Lemma lzw_meas_start dyn src : lzw_meas (lzw_start dyn src) = (8 * length src)%nat.
Proof. unfold lzw_meas, lzw_start. cbn [a_buf a_bits]. rewrite bits_of_bytes_length. lia. Qed.

(* the fuel the unpackers give to the LZW loop is enough, for every packed stream *)
Theorem lzw_loop_fuel_enough : forall maxw dyn limit src out outlen fuel, (8 * length src + 16 <= fuel)%nat ->
  lzw_loop fuel maxw dyn limit (lzw_start dyn src) out outlen =
  lzw_loop (8 * length src + 16) maxw dyn limit (lzw_start dyn src) out outlen.
Proof.
  intros maxw dyn limit src out outlen fuel Hf.
  apply lzw_loop_fuel_gen; [unfold lzw_start; cbn [a_width]; lia | rewrite lzw_meas_start; lia | rewrite lzw_meas_start; lia].
Qed.

(* the loop makes at most 8 * length src + 1 iterations *)
Corollary lzw_loop_iterations : forall maxw dyn limit src out outlen fuel, (8 * length src + 1 <= fuel)%nat ->
  lzw_loop fuel maxw dyn limit (lzw_start dyn src) out outlen =
  lzw_loop (8 * length src + 1) maxw dyn limit (lzw_start dyn src) out outlen.
Proof.
  intros maxw dyn limit src out outlen fuel Hf.
  apply lzw_loop_fuel_gen; [unfold lzw_start; cbn [a_width]; lia | rewrite lzw_meas_start; lia | rewrite lzw_meas_start; lia].
Qed.

(* the unpackers with the fuel of the LZW loop as a parameter *)
Definition unpack_lzw_f (fuel : nat) (maxw : Z) (dynamic : bool) (dest_len : Z) (src : list Z) : option (list Z) :=
  if (maxw <? 9) || (16 <? maxw) then None else
  match lzw_loop fuel maxw dynamic (Some dest_len) (lzw_start dynamic src) [] 0 with
  | None => None
  | Some out => let o := rev_append out [] in
                if Z.of_nat (length o) <? dest_len then None else Some (firstn (Z.to_nat dest_len) o)
  end.

Definition unpack_crunched_f (fuel : nat) (dest_len : Z) (src : list Z) : option (list Z) :=
  match src with
  | _ :: _ :: _ =>
    let body := tl src in
    match lzw_loop fuel 12 true None (lzw_start true body) [] 0 with
    | None => None
    | Some out =>
      let bytes := rev_append out [] in
      match rle_blocks (S (length bytes)) dest_len {| r_in_code := false; r_last := 0; r_out := []; r_n := 0 |} bytes with
      | None => None
      | Some s => if r_n s =? dest_len then Some (rev_append (r_out s) []) else None
      end
    end
  | _ => None
  end.

Definition arc_unpack_f (fuel : nat) (method : Z) (dest_len : Z) (src : list Z) : option (list Z) :=
  if method =? 8 then unpack_crunched_f fuel dest_len src
  else if method =? 9 then unpack_lzw_f fuel 13 true dest_len src
  else if method =? 127 then match src with w :: (_ :: _) as body => unpack_lzw_f fuel w true dest_len body | _ => None end
  else None.

Theorem unpack_lzw_fuel : forall fuel maxw dynamic dest_len src, (8 * length src + 16 <= fuel)%nat ->
  unpack_lzw_f fuel maxw dynamic dest_len src = unpack_lzw maxw dynamic dest_len src.
Proof.
  intros fuel maxw dynamic dest_len src Hf. unfold unpack_lzw_f, unpack_lzw.
  rewrite (lzw_loop_fuel_enough maxw dynamic (Some dest_len) src [] 0 fuel Hf). reflexivity.
Qed.

Theorem unpack_crunched_fuel : forall fuel dest_len src, (8 * length (tl src) + 16 <= fuel)%nat ->
  unpack_crunched_f fuel dest_len src = unpack_crunched dest_len src.
Proof.
  intros fuel dest_len src Hf. unfold unpack_crunched_f, unpack_crunched.
  destruct src as [|a [|b r]]; [reflexivity | reflexivity |]. cbv zeta.
  rewrite (lzw_loop_fuel_enough 12 true None (tl (a :: b :: r)) [] 0 fuel Hf). reflexivity.
Qed.

Theorem arc_unpack_fuel : forall fuel method dest_len src, (8 * length src + 16 <= fuel)%nat ->
  arc_unpack_f fuel method dest_len src = arc_unpack method dest_len src.
Proof.
  intros fuel method dest_len src Hf. unfold arc_unpack_f, arc_unpack.
  destruct (method =? 8).
  - apply unpack_crunched_fuel. destruct src as [|a r]; cbn [tl length] in *; lia.
  - destruct (method =? 9); [apply unpack_lzw_fuel; exact Hf|].
    destruct (method =? 127); [|reflexivity].
    destruct src as [|w [|b r]]; [reflexivity | reflexivity |].
    apply unpack_lzw_fuel. cbn [length] in *. lia.
Qed.

Print Assumptions block_loop_fuel_enough.
Print Assumptions decompress_f_eq.
Print Assumptions decompress_nblocks_enough.
Print Assumptions decompress_fuel_enough.
Print Assumptions lzw_loop_fuel_enough.
Print Assumptions unpack_lzw_fuel.
Print Assumptions unpack_crunched_fuel.
Print Assumptions arc_unpack_fuel.
