(* The memory-stream primitives of the loader models (Model/C669Load.v: avail, rd8, rd32l, rdn; Model/MtmLoad.v: rd16l;
   Model/S3MLoad.v: seek_set and the entry error flag of check_pats) are the memory back-end of the hio model
   (Model/Hio.v: mem_step, tied to src/hio.c + src/memio.c by the differential of property C07). *)
From Coq Require Import ZArith List Lia Bool.
Import ListNotations.
From LX Require Import Base.ListAux.
From LX Require Model.Hio Model.C669Load Model.MtmLoad Model.S3MLoad.
Local Open Scope Z_scope.
Ltac Zify.zify_post_hook ::= Z.div_mod_to_equations.

Definition st (p : Z) (b : bool) (e : Z) : Hio.hstate := {| Hio.pos := p; Hio.eofi := b; Hio.herr := e |}.

(* ---------------------------------------------------------------- helpers *)
Lemma avail_same : forall file p, C669Load.avail file p = Hio.avail file p.
Proof. reflexivity. Qed.

Lemma skipn_nth_cons {A} (l : list A) n d : (n < length l)%nat -> skipn n l = nth n l d :: skipn (S n) l.
Proof.
  revert n; induction l as [|x l IH]; intros n H; cbn [length] in H; [lia|].
  destruct n as [|n]; [reflexivity|]. exact (IH n ltac:(lia)).
Qed.

Lemma take_0 file p : Hio.take file p 0 = [].
Proof. reflexivity. Qed.

Lemma take_zlen file p k : 0 <= p -> 0 <= k -> k <= Hio.avail file p -> zlen (Hio.take file p k) = k.
Proof.
  intros Hp Hk Ha. unfold Hio.take, Hio.avail, zlen in *. rewrite firstn_length, skipn_length. lia.
Qed.

(* with a byte available, the checked read and the first byte of a block read are the same byte *)
Lemma zget_take file p : 0 <= p -> 1 <= Hio.avail file p ->
  exists v, zget file p = Some v /\ forall k, 0 < k -> Hio.take file p k = v :: Hio.take file (p + 1) (k - 1).
Proof.
  intros Hp Ha. unfold Hio.avail, zlen in Ha.
  assert (Hl : (Z.to_nat p < length file)%nat) by lia.
  exists (nth (Z.to_nat p) file 0). split.
  - unfold zget. destruct (Z.ltb_spec p 0) as [H|H]; [lia|]. apply nth_error_nth'. exact Hl.
  - intros k Hk. unfold Hio.take. rewrite (skipn_nth_cons file (Z.to_nat p) 0 Hl).
    replace (Z.to_nat k) with (S (Z.to_nat (k - 1))) by lia.
    replace (Z.to_nat (p + 1)) with (S (Z.to_nat p)) by lia. reflexivity.
Qed.

Lemma avail_succ file p : 0 <= p -> 1 <= Hio.avail file p -> Hio.avail file (p + 1) = Hio.avail file p - 1.
Proof. intros Hp Ha. unfold Hio.avail in *. lia. Qed.

(* ---------------------------------------------------------------- 1. hio_read8 *)
Theorem rd8_is_mem_read8 : forall file p b e, 0 <= p ->
  let r := Hio.mem_step file (st p b e) Hio.Read8 in
  C669Load.rd8 file p = (Hio.oval (snd r), Hio.pos (fst r))
  /\ (Hio.herr (fst r) = if 1 <=? Hio.avail file p then e else Hio.EOFV).
Proof.
  intros file p b e Hp. cbv zeta. unfold Hio.mem_step, st, C669Load.rd8. cbn [Hio.pos Hio.eofi Hio.herr].
  destruct (Z.leb_spec 1 (Hio.avail file p)) as [Ha|Ha].
  - destruct (zget_take file p Hp Ha) as (v & Hz & Ht). rewrite Hz, (Ht 1) by lia.
    cbn [fst snd Hio.oval Hio.obytes Hio.pos Hio.herr Hio.O hd]. split; reflexivity.
  - rewrite zget_none by (unfold Hio.avail in Ha; lia).
    cbn [fst snd Hio.oval Hio.obytes Hio.pos Hio.herr Hio.O Hio.seterr]. split; reflexivity.
Qed.

(* ---------------------------------------------------------------- 2. hio_read16l *)
Theorem rd16l_is_mem_read16 : forall file p b e, 0 <= p ->
  let r := Hio.mem_step file (st p b e) (Hio.ReadN 2) in
  snd (MtmLoad.rd16l file p) = Hio.pos (fst r)
  /\ (2 <= Hio.avail file p -> exists x y, Hio.obytes (snd r) = [x; y] /\ fst (MtmLoad.rd16l file p) = x + 256 * y /\ Hio.herr (fst r) = e)
  /\ (Hio.avail file p < 2 -> fst (MtmLoad.rd16l file p) = 65535 /\ Hio.oval (snd r) = -1 /\ Hio.herr (fst r) = Hio.EOFV).
Proof.
  intros file p b e Hp. cbv zeta. unfold Hio.mem_step, st, MtmLoad.rd16l. cbn [Hio.pos Hio.eofi Hio.herr].
  change (C669Load.avail file p) with (Hio.avail file p).
  destruct (Z.leb_spec 2 (Hio.avail file p)) as [Ha|Ha].
  - destruct (zget_take file p Hp ltac:(lia)) as (x & Hx & Tx).
    assert (Ha1 : 1 <= Hio.avail file (p + 1)) by (rewrite avail_succ; lia).
    destruct (zget_take file (p + 1) ltac:(lia) Ha1) as (y & Hy & Ty).
    rewrite Hx, Hy, (Tx 2) by lia. rewrite (Ty (2 - 1)) by lia. change (2 - 1 - 1) with 0. rewrite take_0.
    cbn [fst snd Hio.oval Hio.obytes Hio.pos Hio.herr Hio.O].
    split; [reflexivity|]. split; [|lia]. intros _. exists x, y. repeat split.
  - cbn [fst snd Hio.oval Hio.obytes Hio.pos Hio.herr Hio.O].
    split; [reflexivity|]. split; [lia|]. intros _. repeat split.
Qed.

(* ---------------------------------------------------------------- 3. hio_read32l *)
Theorem rd32l_is_mem_read32 : forall file p b e, 0 <= p ->
  let r := Hio.mem_step file (st p b e) (Hio.ReadN 4) in
  snd (C669Load.rd32l file p) = Hio.pos (fst r)
  /\ (4 <= Hio.avail file p -> exists x y z w, Hio.obytes (snd r) = [x; y; z; w]
        /\ fst (C669Load.rd32l file p) = x + 256 * y + 65536 * z + 16777216 * w /\ Hio.herr (fst r) = e)
  /\ (Hio.avail file p < 4 -> fst (C669Load.rd32l file p) = 4294967295 /\ Hio.oval (snd r) = -1 /\ Hio.herr (fst r) = Hio.EOFV).
Proof.
  intros file p b e Hp. cbv zeta. unfold Hio.mem_step, st, C669Load.rd32l. cbn [Hio.pos Hio.eofi Hio.herr].
  change (C669Load.avail file p) with (Hio.avail file p).
  destruct (Z.leb_spec 4 (Hio.avail file p)) as [Ha|Ha].
  - destruct (zget_take file p Hp ltac:(lia)) as (x & Hx & Tx).
    assert (Ha1 : Hio.avail file (p + 1) = Hio.avail file p - 1) by (apply avail_succ; lia).
    destruct (zget_take file (p + 1) ltac:(lia) ltac:(lia)) as (y & Hy & Ty).
    assert (Ha2 : Hio.avail file (p + 1 + 1) = Hio.avail file (p + 1) - 1) by (apply avail_succ; lia).
    destruct (zget_take file (p + 1 + 1) ltac:(lia) ltac:(lia)) as (z & Hz & Tz).
    assert (Ha3 : Hio.avail file (p + 1 + 1 + 1) = Hio.avail file (p + 1 + 1) - 1) by (apply avail_succ; lia).
    destruct (zget_take file (p + 1 + 1 + 1) ltac:(lia) ltac:(lia)) as (w & Hw & Tw).
    replace (p + 2) with (p + 1 + 1) by lia. replace (p + 3) with (p + 1 + 1 + 1) by lia.
    rewrite Hx, Hy, Hz, Hw, (Tx 4) by lia. rewrite (Ty (4 - 1)) by lia. rewrite (Tz (4 - 1 - 1)) by lia.
    rewrite (Tw (4 - 1 - 1 - 1)) by lia. change (4 - 1 - 1 - 1 - 1) with 0. rewrite take_0.
    cbn [fst snd Hio.oval Hio.obytes Hio.pos Hio.herr Hio.O].
    split; [reflexivity|]. split; [|lia]. intros _. exists x, y, z, w. repeat split.
  - cbn [fst snd Hio.oval Hio.obytes Hio.pos Hio.herr Hio.O].
    split; [reflexivity|]. split; [lia|]. intros _. repeat split.
Qed.

(* ---------------------------------------------------------------- 4. hio_read(buf, 1, n, f) *)
Theorem rdn_is_mem_read : forall file p n b e, 0 <= p -> 0 < n ->
  let r := Hio.mem_step file (st p b e) (Hio.ReadBuf 1 n) in
  C669Load.rdn file p n = (Hio.obytes (snd r), Hio.pos (fst r))
  /\ (zlen (fst (C669Load.rdn file p n)) = n <-> Hio.oval (snd r) = n).
Proof.
  intros file p n b e Hp Hn. cbv zeta. unfold Hio.mem_step, st, C669Load.rdn. cbn [Hio.pos Hio.eofi Hio.herr].
  change (C669Load.avail file p) with (Hio.avail file p). fold (Hio.take file p (Z.min n (Hio.avail file p))).
  change (1 <=? 0) with false. cbn [orb].
  assert (Hav : 0 <= Hio.avail file p) by (unfold Hio.avail; lia).
  destruct (Z.leb_spec n 0) as [H0|_]; [lia|].
  destruct (Z.leb_spec (Hio.avail file p) 0) as [Hc|Hc].
  - replace (Z.min n (Hio.avail file p)) with 0 by lia. rewrite take_0, Z.add_0_r.
    cbn [fst snd Hio.oval Hio.obytes Hio.pos Hio.herr Hio.O Hio.seterr]. split; [reflexivity|].
    change (zlen (@nil Z)) with 0. lia.
  - rewrite Z.mul_1_l. destruct (Z.ltb_spec (Hio.avail file p) n) as [Hs|Hs].
    + replace (Z.min n (Hio.avail file p)) with (Hio.avail file p) by lia.
      cbn [fst snd Hio.oval Hio.obytes Hio.pos Hio.herr Hio.O]. split; [reflexivity|].
      rewrite take_zlen by lia. rewrite Z.div_1_r. lia.
    + replace (Z.min n (Hio.avail file p)) with n by lia.
      cbn [fst snd Hio.oval Hio.obytes Hio.pos Hio.herr Hio.O]. split; [reflexivity|].
      rewrite take_zlen by lia. lia.
Qed.

(* ---------------------------------------------------------------- 5. hio_seek(f, off, SEEK_SET) *)
Theorem seek_set_is_mem_seek : forall file p b e off, 0 <= off ->
  let r := Hio.mem_step file (st p b e) (Hio.Seek off 0) in
  S3MLoad.seek_set file off = Hio.pos (fst r) /\ Hio.oval (snd r) = 0
  /\ Hio.herr (fst r) = (if e =? Hio.EOFV then 0 else e).
Proof.
  intros file p b e off Ho. cbv zeta. unfold Hio.mem_step, st, S3MLoad.seek_set. cbn [Hio.pos Hio.eofi Hio.herr].
  change (0 =? 0) with true. change ((0 <=? 0) && (0 <=? 2)) with true. cbn [negb]. rewrite Z.add_0_l.
  destruct (Z.ltb_spec off 0) as [H|_]; [lia|].
  cbn [fst snd Hio.oval Hio.obytes Hio.pos Hio.herr Hio.O].
  split; [|split; reflexivity].
  destruct (Z.ltb_spec (zlen file) off) as [H|H]; lia.
Qed.

(* ---------------------------------------------------------------- 6. the error flag at the pattern loop of check_pats *)
Theorem s3m_pattern_entry_error_flag : forall file off b e, 0 <= off ->
  let s1 := fst (Hio.mem_step file (st 0 b e) (Hio.Seek off 0)) in
  let r := Hio.mem_step file s1 (Hio.ReadN 2) in
  e = 0 \/ e = Hio.EOFV ->
  ((C669Load.avail file (S3MLoad.seek_set file off) <? 2) = true <-> Hio.herr (fst r) <> 0).
Proof.
  intros file off b e Ho. cbv zeta. intros He.
  destruct (seek_set_is_mem_seek file 0 b e off Ho) as (Hpos & _ & Herr). cbv zeta in Hpos, Herr.
  set (s1 := fst (Hio.mem_step file (st 0 b e) (Hio.Seek off 0))) in *.
  assert (Herr0 : Hio.herr s1 = 0).
  { rewrite Herr. destruct He as [He|He]; subst e; reflexivity. }
  rewrite Hpos. change (C669Load.avail file (Hio.pos s1)) with (Hio.avail file (Hio.pos s1)).
  unfold Hio.mem_step at 1.
  destruct (Z.leb_spec 2 (Hio.avail file (Hio.pos s1))) as [Ha|Ha]; cbn [fst Hio.herr].
  - rewrite Herr0. split; [|congruence]. intros H. apply Z.ltb_lt in H. lia.
  - split; [intros _; unfold Hio.EOFV; lia|]. intros _. apply Z.ltb_lt. exact Ha.
Qed.

Print Assumptions rd8_is_mem_read8.
Print Assumptions rd16l_is_mem_read16.
Print Assumptions rd32l_is_mem_read32.
Print Assumptions rdn_is_mem_read.
Print Assumptions seek_set_is_mem_seek.
Print Assumptions s3m_pattern_entry_error_flag.
