From Coq Require Import ZArith List Lia Bool.
Import ListNotations.
From LX Require Import Model.MixLoop.
Local Open Scope Z_scope.

(* size + usmp pays for every iteration *)
Lemma mrun_bounded : forall evs s s', mrun s evs = Some s' -> 0 <= m_size s -> (m_out s = false -> 1 <= m_usmp s) ->
  Z.of_nat (length evs) <= m_size s + Z.max 0 (m_usmp s).
Proof.
  induction evs as [|e t IH]; intros s s' H Hs Hu; [cbn; lia|].
  cbn [mrun] in H. destruct (mstep s e) as [s1|] eqn:E; [|discriminate].
  unfold mstep in E. destruct (m_out s) eqn:O; [discriminate|]. cbn [orb] in E.
  destruct (Z.leb_spec (m_size s) 0); [discriminate|]. specialize (Hu eq_refl).
  destruct e as [n|].
  - destruct ((1 <=? n) && (n <=? m_size s)) eqn:G; [|discriminate]. injection E as <-.
    apply andb_prop in G as [G1 G2]. apply Z.leb_le in G1, G2.
    specialize (IH _ s' H). cbn [m_size m_usmp m_out] in IH. cbn [length]. rewrite Nat2Z.inj_succ.
    assert (Z.of_nat (length t) <= m_size s - n + Z.max 0 (m_usmp s)) by (apply IH; [lia|intros _; lia]). lia.
  - injection E as <-. cbn [length]. rewrite Nat2Z.inj_succ.
    destruct (Z.leb_spec (m_usmp s - 1) 0) as [Hz|Hz].
    + (* the budget is used up: nothing can follow *)
      destruct t as [|e2 t2]; [cbn; lia|]. cbn [mrun] in H. unfold mstep in H. cbn [m_out orb] in H.
      destruct (Z.leb_spec (m_usmp s - 1) 0); [discriminate|lia].
    + specialize (IH _ s' H). cbn [m_size m_usmp m_out] in IH.
      assert (Z.of_nat (length t) <= m_size s + Z.max 0 (m_usmp s - 1)).
      { apply IH; [lia|]. intros _. lia. }
      lia.
Qed.
