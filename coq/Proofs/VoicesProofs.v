From Coq Require Import ZArith List Lia Bool.
Import ListNotations.
From LX Require Import Base.ListAux Model.Voices.
Local Open Scope Z_scope.

Lemma forallbi_repeat {A} (f : Z -> A -> bool) (x : A) n : forall i,
  (forall j, f j x = true) -> forallbi f i (repeat x n) = true.
Proof. induction n as [|n IH]; intros i H; cbn [repeat forallbi]; [reflexivity|]. rewrite H, IH by exact H. reflexivity. Qed.

Lemma count_used_repeat_free n : count_used (repeat vfree n) = 0.
Proof. unfold count_used, zlen. induction n as [|n IH]; cbn; [reflexivity|exact IH]. Qed.

Lemma zlen_repeat {A} (x : A) n : zlen (repeat x n) = Z.of_nat n.
Proof. unfold zlen. rewrite repeat_length. reflexivity. Qed.

(* the tables libxmp_virt_on / libxmp_virt_reset create satisfy the invariant *)
Lemma virt_init_inv nvoc nchan ntrk mt : 0 <= nvoc -> 0 <= ntrk <= nchan -> invb (virt_init nvoc nchan ntrk mt) = true.
Proof.
  intros Hv Ht. unfold invb, virt_init, maxvoc, vchans. cbn [voices vmap vcount used ntracks].
  rewrite !zlen_repeat, count_used_repeat_free.
  rewrite forallbi_repeat by (intros j; reflexivity).
  rewrite forallbi_repeat by (intros j; reflexivity).
  rewrite !Z2Nat.id by lia. cbn [andb].
  repeat (apply andb_true_intro; split); try reflexivity; try (apply Z.leb_le; lia); apply Z.eqb_refl.
Qed.

Lemma invb_used_range s : invb s = true -> 0 <= used s <= maxvoc s /\ used s = count_used (voices s).
Proof.
  unfold invb. intros H. repeat (apply andb_prop in H as [H ?]).
  repeat match goal with H : (_ <=? _) = true |- _ => apply Z.leb_le in H | H : (_ =? _) = true |- _ => apply Z.eqb_eq in H end.
  lia.
Qed.

Lemma map_const_repeat {A B} (l : list A) (x : B) : map (fun _ => x) l = repeat x (length l).
Proof. induction l as [|a l IH]; cbn; [reflexivity|]. rewrite IH. reflexivity. Qed.

(* libxmp_virt_reset re-establishes the invariant from any table of the right shape *)
Lemma virt_reset_inv s : zlen (vcount s) = vchans s -> 0 <= ntracks s <= vchans s -> 1 <= vchans s -> invb (virt_reset s) = true.
Proof.
  intros Hc Ht H1. unfold virt_reset. destruct (Z.ltb_spec (vchans s) 1); [lia|].
  rewrite !map_const_repeat.
  replace (mkS (repeat vfree (length (voices s))) (repeat (-1) (length (vmap s))) (repeat 0 (length (vcount s))) 0 (ntracks s) (mute s))
    with (virt_init (maxvoc s) (vchans s) (ntracks s) (mute s)).
  - apply virt_init_inv; unfold maxvoc, zlen; lia.
  - unfold virt_init, maxvoc, vchans, zlen in *. rewrite !Nat2Z.id. f_equal. f_equal. lia.
Qed.
