(* C09: bzip2's big-endian table-driven CRC-32 (Model/CrcBE.v): a step is injective in the state and in the byte because the LOW bytes
   of the 256 table entries are pairwise distinct and the shifted state (crc * 256 mod 2^32) has low byte 0; hence any single-byte
   substitution inside a block changes the block CRC and the gate rejects. *)
From Coq Require Import ZArith List Lia Bool.
Import ListNotations.
From LX Require Import Model.CrcBE.
Local Open Scope Z_scope.
Ltac Zify.zify_post_hook ::= Z.div_mod_to_equations.

Definition byte (x : Z) := 0 <= x < 256.
Definition st (s : Z) := 0 <= s < 2 ^ 32.

(* ---- bit-level helpers ---- *)
Lemma land255 x : Z.land x 255 = x mod 256.
Proof. change 255 with (Z.ones 8). rewrite Z.land_ones by lia. reflexivity. Qed.
Lemma land_lxor_distr_l a b c : Z.land (Z.lxor a b) c = Z.lxor (Z.land a c) (Z.land b c).
Proof. apply Z.bits_inj'. intros n Hn. rewrite !Z.land_spec, !Z.lxor_spec, !Z.land_spec.
  destruct (Z.testbit a n), (Z.testbit b n), (Z.testbit c n); reflexivity. Qed.
Lemma lxor_mod256 a b : Z.lxor a b mod 256 = Z.lxor (a mod 256) (b mod 256).
Proof. rewrite <- !land255. apply land_lxor_distr_l. Qed.
Lemma xor_cancel t a b : Z.lxor t a = Z.lxor t b -> a = b.
Proof. intros E. apply (f_equal (Z.lxor t)) in E. rewrite <- !Z.lxor_assoc, Z.lxor_nilpotent, !Z.lxor_0_l in E. exact E. Qed.
Lemma xor_cancel2 t a b : Z.lxor a t = Z.lxor b t -> a = b.
Proof. rewrite !(Z.lxor_comm _ t). apply xor_cancel. Qed.
Lemma lxor_bound W a b : 0 < W -> 0 <= a < 2 ^ W -> 0 <= b < 2 ^ W -> 0 <= Z.lxor a b < 2 ^ W.
Proof.
  intros HW Ha Hb. assert (Hnn : 0 <= Z.lxor a b) by (apply Z.lxor_nonneg; lia). split; [exact Hnn|].
  destruct (Z.eq_dec (Z.lxor a b) 0) as [->|Hn]; [apply Z.pow_pos_nonneg; lia|].
  apply Z.log2_lt_pow2; [lia|].
  pose proof (Z.log2_lxor a b ltac:(lia) ltac:(lia)).
  assert (Z.log2 a < W). { destruct (Z.eq_dec a 0) as [->|]; [simpl; lia|]. apply Z.log2_lt_pow2; lia. }
  assert (Z.log2 b < W). { destruct (Z.eq_dec b 0) as [->|]; [simpl; lia|]. apply Z.log2_lt_pow2; lia. }
  lia.
Qed.

(* ---- the table ---- *)
Definition T (i : Z) : Z := nth (Z.to_nat i) be_table 0.

(* inverse of "low byte of entry i" *)
Definition inv_low : list Z :=
  map (fun h => match find (fun i => Z.eqb (nth i be_table 0 mod 256) (Z.of_nat h)) (seq 0 256) with
                | Some i => Z.of_nat i | None => -1 end) (seq 0 256).

Definition table_ok (tab inv : list Z) : bool :=
  forallb (fun i => andb (andb (0 <=? nth i tab 0) (nth i tab 0 <? 4294967296))
                         (Z.eqb (nth (Z.to_nat (nth i tab 0 mod 256)) inv (-1)) (Z.of_nat i))) (seq 0 256).

Lemma table_ok_spec tab inv : table_ok tab inv = true ->
  forall i, 0 <= i < 256 ->
    0 <= nth (Z.to_nat i) tab 0 < 4294967296 /\ nth (Z.to_nat (nth (Z.to_nat i) tab 0 mod 256)) inv (-1) = i.
Proof.
  intros H i Hi. unfold table_ok in H. rewrite forallb_forall in H.
  specialize (H (Z.to_nat i)). assert (In (Z.to_nat i) (seq 0 256)) as Hin by (apply in_seq; lia).
  specialize (H Hin). apply andb_prop in H as [H1 H3]. apply andb_prop in H1 as [H1 H2].
  rewrite Z2Nat.id in H3 by lia. apply Z.leb_le in H1. apply Z.ltb_lt in H2. apply Z.eqb_eq in H3.
  split; [split; assumption|exact H3].
Qed.

Lemma table_ok_true : table_ok be_table inv_low = true.
Proof. vm_compute. reflexivity. Qed.

Lemma T_spec i : 0 <= i < 256 -> 0 <= T i < 4294967296 /\ nth (Z.to_nat (T i mod 256)) inv_low (-1) = i.
Proof. intros Hi. unfold T. exact (table_ok_spec be_table inv_low table_ok_true i Hi). Qed.

Lemma be_table_length : length be_table = 256%nat.
Proof. vm_compute. reflexivity. Qed.

Lemma be_table_range_b : forallb (fun t => andb (0 <=? t) (t <? 4294967296)) be_table = true.
Proof. vm_compute. reflexivity. Qed.

Lemma be_table_facts :
  length be_table = 256%nat /\
  Forall (fun t => 0 <= t < 2 ^ 32) be_table /\
  (forall i j, 0 <= i < 256 -> 0 <= j < 256 ->
     nth (Z.to_nat i) be_table 0 mod 256 = nth (Z.to_nat j) be_table 0 mod 256 -> i = j).
Proof.
  split; [exact be_table_length|]. split.
  - apply Forall_forall. intros t Ht. pose proof be_table_range_b as H. rewrite forallb_forall in H.
    specialize (H t Ht). apply andb_prop in H as [H1 H2]. change (2 ^ 32) with 4294967296. lia.
  - intros i j Hi Hj E. destruct (T_spec i Hi) as [_ A]. destruct (T_spec j Hj) as [_ B].
    unfold T in A, B. rewrite <- A, <- B, E. reflexivity.
Qed.

(* the same with nat indices *)
Lemma be_table_low_distinct_nat : forall i j : nat, (i < 256)%nat -> (j < 256)%nat ->
  nth i be_table 0 mod 256 = nth j be_table 0 mod 256 -> i = j.
Proof.
  intros i j Hi Hj E. destruct be_table_facts as [_ [_ D]].
  assert (Z.of_nat i = Z.of_nat j) as H; [|lia].
  apply D; try lia. rewrite !Nat2Z.id. exact E.
Qed.

(* ---- one step ---- *)
Definition idx (s b : Z) : Z := Z.lxor (s / 16777216) b.

Lemma st_unfold s : st s <-> 0 <= s < 4294967296.
Proof. unfold st. change (2 ^ 32) with 4294967296. reflexivity. Qed.

Lemma idx_range s b : st s -> byte b -> 0 <= idx s b < 256.
Proof.
  intros Hs Hb. unfold st in Hs. change (2 ^ 32) with 4294967296 in Hs. unfold idx, byte in *. change 256 with (2 ^ 8). apply lxor_bound; [lia| |exact Hb].
  change (2 ^ 8) with 256. lia.
Qed.

Lemma step_eq s b : be_step s b = Z.lxor ((s * 256) mod 4294967296) (T (idx s b)).
Proof. reflexivity. Qed.

Lemma step_low s b : be_step s b mod 256 = T (idx s b) mod 256.
Proof.
  rewrite step_eq, lxor_mod256. replace (((s * 256) mod 4294967296) mod 256) with 0 by lia. apply Z.lxor_0_l.
Qed.

Lemma be_step_st s b : st s -> byte b -> st (be_step s b).
Proof.
  intros Hs Hb. rewrite step_eq. destruct (T_spec _ (idx_range s b Hs Hb)) as [Ht _].
  unfold st. apply lxor_bound; [lia| |change (2 ^ 32) with 4294967296; exact Ht].
  change (2 ^ 32) with 4294967296. lia.
Qed.

Lemma idx_eq s1 s2 b1 b2 : st s1 -> st s2 -> byte b1 -> byte b2 ->
  be_step s1 b1 = be_step s2 b2 -> idx s1 b1 = idx s2 b2.
Proof.
  intros H1 H2 Hb1 Hb2 E. pose proof (f_equal (fun x => x mod 256) E) as El. cbv beta in El. rewrite !step_low in El.
  destruct (T_spec _ (idx_range s1 b1 H1 Hb1)) as [_ A]. destruct (T_spec _ (idx_range s2 b2 H2 Hb2)) as [_ B].
  rewrite <- A, <- B, El. reflexivity.
Qed.

Lemma be_step_inj_state s1 s2 b : st s1 -> st s2 -> byte b -> be_step s1 b = be_step s2 b -> s1 = s2.
Proof.
  intros H1 H2 Hb E. pose proof (idx_eq _ _ _ _ H1 H2 Hb Hb E) as Ei.
  rewrite !step_eq, Ei in E. apply xor_cancel2 in E.
  unfold idx in Ei. apply xor_cancel2 in Ei.
  unfold st in H1, H2. change (2 ^ 32) with 4294967296 in H1, H2. lia.
Qed.

Lemma be_step_inj_byte s b1 b2 : st s -> byte b1 -> byte b2 -> be_step s b1 = be_step s b2 -> b1 = b2.
Proof.
  intros Hs H1 H2 E. pose proof (idx_eq _ _ _ _ Hs Hs H1 H2 E) as Ei.
  unfold idx in Ei. apply xor_cancel in Ei. exact Ei.
Qed.

(* ---- runs ---- *)
Lemma be_run_st data : Forall byte data -> forall s, st s -> st (be_run s data).
Proof. induction 1 as [|c d Hc Hd IH]; intros s Hs; cbn [be_run fold_left]; [exact Hs|]. apply IH. apply be_step_st; assumption. Qed.

Lemma be_run_inj data : Forall byte data -> forall s1 s2, st s1 -> st s2 -> s1 <> s2 -> be_run s1 data <> be_run s2 data.
Proof.
  induction 1 as [|c data Hc Hd IH]; intros s1 s2 H1 H2 Hne; cbn [be_run fold_left]; [exact Hne|].
  apply IH; try (apply be_step_st; assumption). intro E. apply Hne. eapply be_step_inj_state; eauto.
Qed.

Lemma be_run_detects pre b b' post s0 : st s0 ->
  Forall byte pre -> byte b -> byte b' -> Forall byte post -> b <> b' ->
  be_run s0 (pre ++ b :: post) <> be_run s0 (pre ++ b' :: post).
Proof.
  intros H0 Hpre Hb Hb' Hpost Hne. unfold be_run. rewrite !fold_left_app. cbn [fold_left].
  pose proof (be_run_st pre Hpre s0 H0) as Hs. unfold be_run in Hs. set (s := fold_left be_step pre s0) in *.
  apply (be_run_inj post Hpost); try (apply be_step_st; assumption).
  intro E. apply Hne. eapply be_step_inj_byte; eauto.
Qed.

Lemma M32_st : st M32.
Proof. unfold st. vm_compute. split; [discriminate|reflexivity]. Qed.

(* ---- block CRC ---- *)
Theorem bz_block_crc_detects_substitution : forall pre b b' post,
  Forall byte pre -> byte b -> byte b' -> Forall byte post -> b <> b' ->
  bz_block_crc (pre ++ b :: post) <> bz_block_crc (pre ++ b' :: post).
Proof.
  intros pre b b' post Hpre Hb Hb' Hpost Hne. unfold bz_block_crc. intro E. apply xor_cancel2 in E. revert E.
  apply be_run_detects; auto. exact M32_st.
Qed.

Theorem bz_block_crc_range : forall data, Forall byte data -> 0 <= bz_block_crc data < 2 ^ 32.
Proof.
  intros data Hd. unfold bz_block_crc. apply lxor_bound; [lia| |exact M32_st].
  apply (be_run_st data Hd M32 M32_st).
Qed.

(* ---- the gate ---- *)
Lemma forallb_combine_map_ok (l : list (list Z)) :
  forallb (fun p => bz_block_crc (fst p) =? snd p) (combine l (map bz_block_crc l)) = true.
Proof.
  induction l as [|x l IH]; [reflexivity|]. cbn [map combine forallb fst snd]. rewrite Z.eqb_refl, IH. reflexivity.
Qed.

Lemma forallb_combine_bad (before after : list (list Z)) x y :
  bz_block_crc x <> bz_block_crc y ->
  forallb (fun p => bz_block_crc (fst p) =? snd p)
    (combine (before ++ x :: after) (map bz_block_crc (before ++ y :: after))) = false.
Proof.
  intros Hne. induction before as [|z before IH].
  - cbn [app map combine forallb fst snd]. apply andb_false_iff. left. apply Z.eqb_neq. exact Hne.
  - cbn [app map combine forallb fst snd]. rewrite IH. apply andb_false_r.
Qed.

Theorem bz_gate_rejects_block_substitution : forall before pre b b' post after stored,
  Forall byte pre -> byte b -> byte b' -> Forall byte post -> b <> b' ->
  let orig := before ++ (pre ++ b :: post) :: after in
  let bad := before ++ (pre ++ b' :: post) :: after in
  bz_gate bad (map bz_block_crc orig) stored = false.
Proof.
  intros before pre b b' post after stored Hpre Hb Hb' Hpost Hne orig bad. unfold bz_gate, orig, bad.
  rewrite forallb_combine_bad; [rewrite andb_false_r; reflexivity|].
  apply bz_block_crc_detects_substitution; auto.
Qed.

Theorem bz_gate_accepts_original : forall blocks,
  bz_gate blocks (map bz_block_crc blocks) (bz_stream_crc blocks) = true.
Proof.
  intros blocks. unfold bz_gate. rewrite map_length, Nat.eqb_refl, forallb_combine_map_ok, Z.eqb_refl. reflexivity.
Qed.

Print Assumptions be_table_facts.
Print Assumptions be_step_st.
Print Assumptions be_step_inj_state.
Print Assumptions be_step_inj_byte.
Print Assumptions bz_block_crc_detects_substitution.
Print Assumptions bz_block_crc_range.
Print Assumptions bz_gate_rejects_block_substitution.
Print Assumptions bz_gate_accepts_original.
