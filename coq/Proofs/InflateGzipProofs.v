(* C08, part C: the gzip member framing around a deflate stream (gunzip of gzip_member, given the deflate round trip as a
   hypothesis) and the soundness of the small tokenizer (every match it emits is a real match, the token list stands for the data). *)
From Coq Require Import ZArith List Lia Bool.
Import ListNotations.
From LX Require Import Base.ListAux Model.Lzw Model.Crc Model.Inflate.
From LX Require Import Generated.Tables Proofs.CrcProofs.
Local Open Scope Z_scope.
Ltac Zify.zify_post_hook ::= Z.div_mod_to_equations.

(* ================================================================ C2: the tokenizer ==================================== *)

(* the byte-by-byte meaning of an overlapping copy *)
Fixpoint copy1 (n : nat) (d : nat) (out : list Z) : list Z :=
  match n with O => out | S k => copy1 k d (nth (d - 1) out 0 :: out) end.

Lemma copy1_add : forall a b d out, copy1 (a + b) d out = copy1 b d (copy1 a d out).
Proof. induction a as [|a IH]; intros b d out; [reflexivity|]. cbn [Nat.add copy1]. apply IH. Qed.

Lemma firstn_S_nth {A} : forall (l : list A) k dflt, (k < length l)%nat -> firstn (S k) l = firstn k l ++ [nth k l dflt].
Proof.
  induction l as [|x l IH]; intros k dflt H; cbn [length] in H; [lia|].
  destruct k as [|k]; [reflexivity|]. cbn [firstn nth app]. f_equal. change (x :: firstn k l ++ [nth k l dflt]) with (x :: (firstn k l ++ [nth k l dflt])).
  f_equal. apply IH. lia.
Qed.

Lemma copy1_slice : forall len d out, (len <= d)%nat -> (d <= length out)%nat ->
  copy1 len d out = firstn len (skipn (d - len) out) ++ out.
Proof.
  induction len as [|k IH]; intros d out Hk Hd; [reflexivity|].
  cbn [copy1]. rewrite IH by (cbn [length]; lia).
  replace (d - k)%nat with (S (d - S k)) by lia. cbn [skipn].
  rewrite (firstn_S_nth (skipn (d - S k) out) k 0) by (rewrite skipn_length; lia).
  rewrite nth_skipn. replace (d - S k + k)%nat with (d - 1)%nat by lia.
  rewrite <- app_assoc. reflexivity.
Qed.

Lemma lz_copy_copy1 : forall fuel len d out, (1 <= d)%nat -> (d <= length out)%nat -> (len <= fuel)%nat ->
  lz_copy fuel len d out = copy1 len d out.
Proof.
  induction fuel as [|f IH]; intros len d out H1 Hd Hf.
  - assert (len = O) by lia. subst len. reflexivity.
  - cbn [lz_copy]. destruct (Nat.leb_spec len d) as [Hle|Hgt].
    + symmetry. apply copy1_slice; assumption.
    + rewrite IH; [|assumption|rewrite app_length; lia|lia].
      replace len with (d + (len - d))%nat at 2 by lia. rewrite copy1_add. f_equal.
      rewrite copy1_slice by lia. rewrite Nat.sub_diag. reflexivity.
Qed.

Lemma match_len_spec : forall fuel data d out acc, exists n,
  match_len fuel data d out acc = (acc + n)%nat /\ (n <= length data)%nat /\ ((acc + n <= 258)%nat \/ n = O) /\
  ((1 <= n)%nat -> (d - 1 < length out)%nat) /\ copy1 n d out = rev_append (firstn n data) out.
Proof.
  induction fuel as [|f IH]; intros data d out acc.
  - exists O. cbn [match_len]. repeat split; try lia.
  - cbn [match_len]. destruct data as [|x t].
    + exists O. repeat split; try lia.
    + destruct (nth_error out (d - 1)) as [y|] eqn:En.
      * destruct ((x =? y) && (acc <? 258)%nat) eqn:Ec.
        -- apply andb_prop in Ec as [Exy Ha]. apply Z.eqb_eq in Exy. subst y. apply Nat.ltb_lt in Ha.
           destruct (IH t d (x :: out) (S acc)) as [n [E1 [E2 [E3 [E4 E5]]]]].
           exists (S n). split; [rewrite E1; lia|]. split; [cbn [length]; lia|]. split; [destruct E3; [left; lia|left; lia]|].
           split; [intros _; apply nth_error_Some; rewrite En; discriminate|].
           cbn [copy1 firstn rev_append]. rewrite (nth_error_nth out (d - 1) 0 En). exact E5.
        -- exists O. repeat split; try lia.
      * exists O. repeat split; try lia.
Qed.

(* the key lemma of the task statement *)
Lemma match_len_copy : forall data d out n, (1 <= d)%nat -> match_len 258 data d out 0 = n -> (1 <= n)%nat ->
  (d <= length out)%nat /\ (n <= 258)%nat /\ (n <= length data)%nat /\ lz_copy n n d out = rev_append (firstn n data) out.
Proof.
  intros data d out n Hd E Hn. destruct (match_len_spec 258 data d out 0) as [m [E1 [E2 [E3 [E4 E5]]]]].
  rewrite E in E1. cbn [Nat.add] in E1. subst m. specialize (E4 Hn).
  split; [lia|]. split; [lia|]. split; [assumption|]. rewrite lz_copy_copy1 by lia. exact E5.
Qed.

Lemma best_inv : forall data out l bd,
  (fst bd = O \/ (In (snd bd) cand_dists /\ fst bd = match_len 258 data (Z.to_nat (snd bd)) out 0)) ->
  (forall d, In d l -> In d cand_dists) ->
  let best := fold_left (fun (bd : nat * Z) d => let n := match_len 258 data (Z.to_nat d) out 0 in if (fst bd <? n)%nat then (n, d) else bd) l bd in
  fst best = O \/ (In (snd best) cand_dists /\ fst best = match_len 258 data (Z.to_nat (snd best)) out 0).
Proof.
  intros data out. induction l as [|d l IH]; intros bd Hbd Hl; [exact Hbd|].
  cbn [fold_left]. apply IH; [|intros d' Hd'; apply Hl; right; exact Hd'].
  cbv zeta. destruct (fst bd <? match_len 258 data (Z.to_nat d) out 0)%nat; [|exact Hbd].
  right. cbn [fst snd]. split; [apply Hl; left; reflexivity|reflexivity].
Qed.

Lemma cand_range : forall d, In d cand_dists -> 1 <= d <= 1024.
Proof. intros d H. unfold cand_dists in H. cbn [In] in H. intuition lia. Qed.

Lemma bytesb_skipn : forall n l, bytesb l = true -> bytesb (skipn n l) = true.
Proof.
  induction n as [|n IH]; intros l H; [exact H|]. destruct l as [|x l]; [exact H|].
  cbn [skipn]. apply IH. unfold bytesb in H. cbn [forallb] in H. apply andb_prop in H as [_ H]. exact H.
Qed.

Theorem tokenize_sound : forall fuel data out, bytesb data = true -> (length data <= fuel)%nat ->
  tokens_okb (tokenize fuel data out) (Z.of_nat (length out)) = true /\ expand (tokenize fuel data out) out = rev_append data out.
Proof.
  induction fuel as [|f IH]; intros data out Hb Hl.
  - destruct data as [|x t]; [|cbn [length] in Hl; lia]. split; reflexivity.
  - destruct data as [|x t]; [split; reflexivity|].
    cbn [tokenize].
    set (best := fold_left _ cand_dists (O, 0)).
    assert (Hbest : fst best = O \/ (In (snd best) cand_dists /\ fst best = match_len 258 (x :: t) (Z.to_nat (snd best)) out 0)).
    { apply (best_inv (x :: t) out cand_dists (O, 0)); [left; reflexivity|auto]. }
    destruct (Nat.leb_spec 3 (fst best)) as [H3|H3].
    + destruct Hbest as [H0|[Hin Hm]]; [lia|].
      apply cand_range in Hin.
      destruct (match_len_copy (x :: t) (Z.to_nat (snd best)) out (fst best)) as [Hd [Hn [Hn2 Hc]]]; [lia|symmetry; exact Hm|lia|].
      set (n := fst best) in *. set (d := snd best) in *.
      destruct (IH (skipn n (x :: t)) (lz_copy n n (Z.to_nat d) out)) as [IH1 IH2].
      { apply bytesb_skipn; exact Hb. }
      { rewrite skipn_length. cbn [length] in *. lia. }
      assert (Hlen : Z.of_nat (length (lz_copy n n (Z.to_nat d) out)) = Z.of_nat (length out) + Z.of_nat n).
      { rewrite Hc, rev_append_rev, app_length, rev_length, firstn_length. lia. }
      split.
      * cbn [tokens_okb]. rewrite <- Hlen, IH1.
        repeat (apply andb_true_intro; split); try reflexivity; apply Z.leb_le; lia.
      * cbn [expand]. rewrite Nat2Z.id. rewrite IH2, Hc.
        rewrite !rev_append_rev. rewrite app_assoc, <- rev_app_distr, firstn_skipn. reflexivity.
    + destruct (IH t (x :: out)) as [IH1 IH2].
      { unfold bytesb in Hb. cbn [forallb] in Hb. apply andb_prop in Hb as [_ Hb]. exact Hb. }
      { cbn [length] in Hl. lia. }
      split.
      * cbn [tokens_okb]. unfold bytesb in Hb. cbn [forallb] in Hb. apply andb_prop in Hb as [Hx _]. rewrite Hx.
        cbn [andb]. cbn [length] in IH1. rewrite Nat2Z.inj_succ in IH1. unfold Z.succ in IH1. exact IH1.
      * cbn [expand rev_append]. exact IH2.
Qed.

Print Assumptions tokenize_sound.

(* ================================================================ C1: the gzip member =================================== *)

(* the CRC-32 of any list stays in 32 bits (no byte hypothesis needed: an index outside the table reads the default 0) *)
Lemma table32_entries : forallb (fun t => (0 <=? t) && (t <? 2 ^ 32)) crc32_A_table = true.
Proof. vm_compute. reflexivity. Qed.

Lemma table32_nth : forall i, 0 <= nth i crc32_A_table 0 < 2 ^ 32.
Proof.
  intros i. destruct (nth_in_or_default i crc32_A_table 0) as [Hin|E].
  - pose proof table32_entries as H. rewrite forallb_forall in H. specialize (H _ Hin).
    apply andb_prop in H as [H1 H2]. apply Z.leb_le in H1. apply Z.ltb_lt in H2. lia.
  - rewrite E. lia.
Qed.

Lemma crc_step32_range : forall s c, 0 <= s < 2 ^ 32 -> 0 <= crc_step crc32_A_table s c < 2 ^ 32.
Proof.
  intros s c Hs. unfold crc_step. apply lxor_bound; [lia|apply table32_nth|].
  rewrite Z.shiftr_div_pow2 by lia. change (2 ^ 8) with 256. change (2 ^ 32) with 4294967296 in *. lia.
Qed.

Lemma crc_run32_range : forall buf s, 0 <= s < 2 ^ 32 -> 0 <= crc_run crc32_A_table s buf < 2 ^ 32.
Proof.
  unfold crc_run. induction buf as [|c buf IH]; intros s Hs; [exact Hs|].
  cbn [fold_left]. apply IH. apply crc_step32_range. exact Hs.
Qed.

Lemma crc32_A_range : forall buf, 0 <= crc32_A buf 0 < 2 ^ 32.
Proof.
  intros buf. unfold crc32_A, crc32_A_no_inv. apply lxor_bound; [lia| |unfold M32; lia].
  apply crc_run32_range. rewrite Z.lxor_0_l. unfold M32. lia.
Qed.

(* gunzip in stages *)
Definition gz_extra (flg : Z) (r0 : list Z) : option (list Z) :=
  if Z.testbit flg 2 then
    match r0 with
    | lo :: hi :: t => if (length t <? Z.to_nat (lo + 256 * hi))%nat then None else Some (skipn (Z.to_nat (lo + 256 * hi)) t)
    | _ => None
    end
  else Some r0.
Definition gz_str (b : bool) (r : list Z) : option (list Z) := if b then skip_zstr r else Some r.
Definition gz_finish (r4 : list Z) : option (list Z) :=
  if (length r4 <? 8)%nat then None else
  let body := firstn (length r4 - 8) r4 in
  let trailer := skipn (length r4 - 8) r4 in
  match inflate body with
  | None => None
  | Some out =>
    if (length out =? 0)%nat then None
    else if negb (le32 (firstn 4 trailer) =? crc32_A out 0) then None
    else if negb (le32 (skipn 4 trailer) =? Z.of_nat (length out)) then None
    else Some out
  end.

Lemma gunzip_stages : forall a b flg c d e f g h r0,
  gunzip (a :: b :: 8 :: flg :: c :: d :: e :: f :: g :: h :: r0) =
  match gz_extra flg r0 with None => None | Some r1 =>
  match gz_str (Z.testbit flg 3) r1 with None => None | Some r2 =>
  match gz_str (Z.testbit flg 4) r2 with None => None | Some r3 =>
    gz_finish (if Z.testbit flg 1 then skipn 2 r3 else r3) end end end.
Proof. intros. reflexivity. Qed.

Lemma flg_bits : forall (hcrc : bool) (extra name comment : option (list Z)),
  let flg := (if hcrc then 2 else 0) + (match extra with Some _ => 4 | None => 0 end) + (match name with Some _ => 8 | None => 0 end) + (match comment with Some _ => 16 | None => 0 end) in
  Z.testbit flg 1 = hcrc /\ Z.testbit flg 2 = (match extra with Some _ => true | None => false end) /\
  Z.testbit flg 3 = (match name with Some _ => true | None => false end) /\ Z.testbit flg 4 = (match comment with Some _ => true | None => false end).
Proof. intros [|] [?|] [?|] [?|]; cbv zeta; repeat split; reflexivity. Qed.

Lemma skip_zstr_app : forall n rest, Forall (fun c => 1 <= c <= 255) n -> skip_zstr (n ++ 0 :: rest) = Some rest.
Proof.
  induction n as [|c n IH]; intros rest H; [reflexivity|].
  inversion H as [|c' n' Hc Hn]; subst. cbn [app skip_zstr].
  destruct (Z.eqb_spec c 0) as [E|_]; [lia|]. apply IH. exact Hn.
Qed.

Lemma gz_extra_some : forall flg e rest, Z.testbit flg 2 = true -> Z.of_nat (length e) < 65536 ->
  gz_extra flg (([Z.of_nat (length e) mod 256; Z.of_nat (length e) / 256] ++ e) ++ rest) = Some rest.
Proof.
  intros flg e rest Hf He. unfold gz_extra. rewrite Hf. cbn [app].
  replace (Z.of_nat (length e) mod 256 + 256 * (Z.of_nat (length e) / 256)) with (Z.of_nat (length e)) by lia.
  rewrite Nat2Z.id. destruct (Nat.ltb_spec (length (e ++ rest)) (length e)) as [H|_]; [rewrite app_length in H; lia|].
  f_equal. rewrite skipn_app, skipn_all, Nat.sub_diag. reflexivity.
Qed.

Lemma le32_bytes : forall x, 0 <= x < 2 ^ 32 ->
  le32 [x mod 256; (x / 256) mod 256; (x / 65536) mod 256; (x / 16777216) mod 256] = x.
Proof. intros x H. unfold le32. cbn [nth]. change (2 ^ 32) with 4294967296 in H. lia. Qed.

Lemma gz_finish_ok : forall body out,
  inflate body = Some out -> out <> [] -> Z.of_nat (length out) < 2 ^ 32 ->
  let le x := [x mod 256; (x / 256) mod 256; (x / 65536) mod 256; (x / 16777216) mod 256] in
  gz_finish (body ++ le (crc32_A out 0) ++ le (Z.of_nat (length out))) = Some out.
Proof.
  intros body out Hi Hne Hl le. unfold gz_finish.
  assert (Hlen : length (body ++ le (crc32_A out 0) ++ le (Z.of_nat (length out))) = (length body + 8)%nat).
  { rewrite app_length. reflexivity. }
  rewrite Hlen. destruct (Nat.ltb_spec (length body + 8) 8) as [H|_]; [lia|].
  cbv zeta. replace (length body + 8 - 8)%nat with (length body) by lia.
  rewrite firstn_app, firstn_all, Nat.sub_diag, skipn_app, skipn_all, Nat.sub_diag. cbn [firstn skipn app]. rewrite app_nil_r.
  rewrite Hi. unfold le. cbn [firstn skipn app].
  destruct (Nat.eqb_spec (length out) 0) as [E0|_]; [destruct out; [congruence|discriminate E0]|].
  rewrite le32_bytes by apply crc32_A_range. rewrite Z.eqb_refl. cbn [negb].
  rewrite le32_bytes by lia. rewrite Z.eqb_refl. reflexivity.
Qed.

Section Gzip.
Hypothesis inflate_deflate : forall segs, segs_okb segs 0 = true -> inflate (deflate segs) = Some (rev (segs_expand segs [])).

Theorem gunzip_gzip_member_from : forall name comment extra hcrc segs,
  segs_okb segs 0 = true ->
  (forall n, name = Some n -> Forall (fun c => 1 <= c <= 255) n) -> (forall c, comment = Some c -> Forall (fun x => 1 <= x <= 255) c) ->
  (forall e, extra = Some e -> Z.of_nat (length e) < 65536) ->
  Z.of_nat (length (segs_expand segs [])) < 2 ^ 32 -> segs_expand segs [] <> [] ->
  gunzip (gzip_member name comment extra hcrc segs) = Some (rev (segs_expand segs [])).
Proof.
  intros name comment extra hcrc segs Hok Hname Hcomment Hextra Hlen Hne.
  unfold gzip_member. cbv zeta. cbn [app]. rewrite gunzip_stages.
  destruct (flg_bits hcrc extra name comment) as [F1 [F2 [F3 F4]]]. cbv zeta in F1, F2, F3, F4.
  rewrite F1, F3, F4.
  set (flg := _ + _ + _ + _) in *.
  rewrite rev_append_rev, app_nil_r.
  set (out := rev (segs_expand segs [])).
  set (tail := deflate segs ++ _).
  assert (Hfin : gz_finish tail = Some out).
  { apply gz_finish_ok; [apply inflate_deflate; exact Hok| |].
    - unfold out. intros E. apply Hne. apply (f_equal (@rev Z)) in E. rewrite rev_involutive in E. exact E.
    - unfold out. rewrite rev_length. exact Hlen. }
  assert (Hhc : gz_finish (if hcrc then skipn 2 ((if hcrc then [0; 0] else []) ++ tail) else (if hcrc then [0; 0] else []) ++ tail) = Some out).
  { destruct hcrc; exact Hfin. }
  set (t3 := (if hcrc then [0; 0] else []) ++ tail) in *.
  assert (Hcm : gz_str (match comment with Some _ => true | None => false end) ((match comment with Some c => c ++ [0] | None => [] end) ++ t3) = Some t3).
  { destruct comment as [c|]; [|reflexivity]. unfold gz_str. rewrite <- app_assoc. apply skip_zstr_app. apply Hcomment. reflexivity. }
  set (t2 := (match comment with Some c => c ++ [0] | None => [] end) ++ t3) in *.
  assert (Hnm : gz_str (match name with Some _ => true | None => false end) ((match name with Some c => c ++ [0] | None => [] end) ++ t2) = Some t2).
  { destruct name as [c|]; [|reflexivity]. unfold gz_str. rewrite <- app_assoc. apply skip_zstr_app. apply Hname. reflexivity. }
  set (t1 := (match name with Some c => c ++ [0] | None => [] end) ++ t2) in *.
  assert (Hex : gz_extra flg ((match extra with Some e => [Z.of_nat (length e) mod 256; Z.of_nat (length e) / 256] ++ e | None => [] end) ++ t1) = Some t1).
  { destruct extra as [e|].
    - apply gz_extra_some; [exact F2|]. apply Hextra. reflexivity.
    - unfold gz_extra. rewrite F2. reflexivity. }
  cbn [app] in Hex. rewrite Hex, Hnm, Hcm. exact Hhc.
Qed.
End Gzip.

Print Assumptions gunzip_gzip_member_from.
