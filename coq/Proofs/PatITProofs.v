(* C19: the IT packed pattern format: what the model's writer (it_enc_rows) produces is decoded by the transcribed loader
   loop (it_loop / it_entry) into the reference meaning of the entries (it_ref_rows), and the channel-count scan finds the
   highest channel named. *)
From Coq Require Import ZArith List Lia Bool.
Import ListNotations.
From LX Require Import Base.ListAux Generated.Consts Generated.Tables Model.PatCodecs.
Local Open Scope Z_scope.
Ltac Zify.zify_post_hook ::= Z.div_mod_to_equations.

Ltac split_okb H :=
  repeat match type of H with (_ && _) = true => let H2 := fresh "K" in apply andb_prop in H; destruct H as [H H2] end.

(* ---------------------------------------------------------------- list helpers *)

Lemma map_upd {A B} (f : A -> B) (l : list A) n x : map f (upd l n x) = upd (map f l) n (f x).
Proof. revert n; induction l as [|h t IH]; intros [|n]; cbn [upd map]; try reflexivity. f_equal. apply IH. Qed.

Lemma upd_nth_id {A} (l : list A) n d : upd l n (nth n l d) = l.
Proof. revert n; induction l as [|h t IH]; intros [|n]; cbn [upd nth]; try reflexivity. f_equal. apply IH. Qed.

Lemma nth_map_lastp mem n : nth n (map m_lastp mem) 0 = m_lastp (nth n mem itch0).
Proof. change 0 with (m_lastp itch0). apply map_nth. Qed.

(* ---------------------------------------------------------------- the channel byte and the mask byte *)

Lemma chn_nz c : 0 <= c <= 63 -> (c + 1 + 128 =? 0) = false.
Proof. intros H. apply Z.eqb_neq. lia. Qed.
Lemma chn_ge128 c : 0 <= c <= 63 -> (128 <=? c + 1 + 128) = true.
Proof. intros H. apply Z.leb_le. lia. Qed.
Lemma chn_mod c : 0 <= c <= 63 -> (c + 1 + 128 - 1) mod 64 = c.
Proof. intros H. lia. Qed.

Lemma mask_bit0 e : bit 0 (it_ent_mask e) = t_hasnote e.
Proof. destruct e as [c hn n hi i hv v hf t p]. unfold it_ent_mask. cbn [t_hasnote t_hasins t_hasvol t_hasfx]. destruct hn, hi, hv, hf; reflexivity. Qed.
Lemma mask_bit1 e : bit 1 (it_ent_mask e) = t_hasins e.
Proof. destruct e as [c hn n hi i hv v hf t p]. unfold it_ent_mask. cbn [t_hasnote t_hasins t_hasvol t_hasfx]. destruct hn, hi, hv, hf; reflexivity. Qed.
Lemma mask_bit2 e : bit 2 (it_ent_mask e) = t_hasvol e.
Proof. destruct e as [c hn n hi i hv v hf t p]. unfold it_ent_mask. cbn [t_hasnote t_hasins t_hasvol t_hasfx]. destruct hn, hi, hv, hf; reflexivity. Qed.
Lemma mask_bit3 e : bit 3 (it_ent_mask e) = t_hasfx e.
Proof. destruct e as [c hn n hi i hv v hf t p]. unfold it_ent_mask. cbn [t_hasnote t_hasins t_hasvol t_hasfx]. destruct hn, hi, hv, hf; reflexivity. Qed.
Lemma mask_bit4 e : bit 4 (it_ent_mask e) = false.
Proof. destruct e as [c hn n hi i hv v hf t p]. unfold it_ent_mask. cbn [t_hasnote t_hasins t_hasvol t_hasfx]. destruct hn, hi, hv, hf; reflexivity. Qed.
Lemma mask_bit5 e : bit 5 (it_ent_mask e) = false.
Proof. destruct e as [c hn n hi i hv v hf t p]. unfold it_ent_mask. cbn [t_hasnote t_hasins t_hasvol t_hasfx]. destruct hn, hi, hv, hf; reflexivity. Qed.
Lemma mask_bit6 e : bit 6 (it_ent_mask e) = false.
Proof. destruct e as [c hn n hi i hv v hf t p]. unfold it_ent_mask. cbn [t_hasnote t_hasins t_hasvol t_hasfx]. destruct hn, hi, hv, hf; reflexivity. Qed.
Lemma mask_bit7 e : bit 7 (it_ent_mask e) = false.
Proof. destruct e as [c hn n hi i hv v hf t p]. unfold it_ent_mask. cbn [t_hasnote t_hasins t_hasvol t_hasfx]. destruct hn, hi, hv, hf; reflexivity. Qed.

(* ---------------------------------------------------------------- one entry: the event and the S-command memory *)

Definition ent_ev (newfx : bool) (x : ev) (lp : Z) (e : itent) : ev :=
  let x1 := if t_hasnote e then with_note x (it_note (t_note e)) else x in
  let x2 := if t_hasins e then with_ins x1 (t_ins e) else x1 in
  let x3 := if t_hasvol e then it_xlat_volfx (with_vol x2 (t_vol e)) else x2 in
  if t_hasfx e then with_fx x3 (fst (fst (it_xlat_fx newfx lp (t_fxt e) (t_fxp e)))) (snd (fst (it_xlat_fx newfx lp (t_fxt e) (t_fxp e))))
  else x3.
Definition ent_lp (newfx : bool) (lp : Z) (e : itent) : Z :=
  if t_hasfx e then snd (it_xlat_fx newfx lp (t_fxt e) (t_fxp e)) else lp.

Lemma it_apply_ent_eq newfx row lastps e :
  it_apply_ent newfx (row, lastps) e =
  (upd row (Z.to_nat (t_chn e)) (ent_ev newfx (nth (Z.to_nat (t_chn e)) row ev0) (nth (Z.to_nat (t_chn e)) lastps 0) e),
   if t_hasfx e then upd lastps (Z.to_nat (t_chn e)) (ent_lp newfx (nth (Z.to_nat (t_chn e)) lastps 0) e) else lastps).
Proof.
  unfold it_apply_ent, ent_ev, ent_lp. destruct (t_hasfx e); [|reflexivity].
  destruct (it_xlat_fx newfx (nth (Z.to_nat (t_chn e)) lastps 0) (t_fxt e) (t_fxp e)) as [[t' p'] lp']. reflexivity.
Qed.

Lemma it_apply_ent_len newfx row lastps e : length (fst (it_apply_ent newfx (row, lastps) e)) = length row.
Proof. rewrite it_apply_ent_eq. cbn [fst]. apply upd_length. Qed.

Lemma it_entry_enc newfx x mn mi mv mt mp lp e rest :
  (Z.of_nat (length it_fx_table) <=? t_fxt e) = false ->
  exists m'',
    it_entry newfx x {| m_mask := it_ent_mask e; m_note := mn; m_ins := mi; m_vol := mv; m_fxt := mt; m_fxp := mp; m_lastp := lp |}
      (((if t_hasnote e then [t_note e] else []) ++ (if t_hasins e then [t_ins e] else []) ++ (if t_hasvol e then [t_vol e] else []) ++
        (if t_hasfx e then [t_fxt e; t_fxp e] else [])) ++ rest)
    = (ent_ev newfx x lp e, m'', rest, false) /\ m_lastp m'' = ent_lp newfx lp e.
Proof.
  intros HT. unfold it_entry. cbn [m_mask].
  rewrite !mask_bit0, !mask_bit1, !mask_bit2, !mask_bit3, !mask_bit4, !mask_bit5, !mask_bit6, !mask_bit7.
  unfold ent_ev, ent_lp.
  destruct e as [c hn n hi i hv v hf t p]. cbn [t_chn t_hasnote t_note t_hasins t_ins t_hasvol t_vol t_hasfx t_fxt t_fxp] in *.
  destruct hn, hi, hv, hf; cbn [app m_mask m_note m_ins m_vol m_fxt m_fxp m_lastp];
    try (rewrite HT; destruct (it_xlat_fx newfx lp t p) as [[t' p'] lp'] eqn:EX; cbn [fst snd m_mask m_note m_ins m_vol m_fxt m_fxp m_lastp]);
    (eexists; split; [reflexivity|reflexivity]).
Qed.

(* ---------------------------------------------------------------- one step of the loop *)

Lemma okb_chn e : itent_okb e = true -> 0 <= t_chn e <= 63.
Proof. intros H. unfold itent_okb in H. split_okb H. apply Z.leb_le in H, K5. lia. Qed.
Lemma okb_fxt e : itent_okb e = true -> (Z.of_nat (length it_fx_table) <=? t_fxt e) = false.
Proof. intros H. unfold itent_okb in H. split_okb H. apply Z.ltb_lt in K. apply Z.leb_gt. exact K. Qed.

Lemma it_loop_ent fuel newfx rows r cur done mem e rest :
  itent_okb e = true -> r < rows ->
  exists mem',
    it_loop (S fuel) newfx rows r cur done mem (it_enc_ent e ++ rest)
    = it_loop fuel newfx rows r (fst (it_apply_ent newfx (cur, map m_lastp mem) e)) done mem' rest
    /\ map m_lastp mem' = snd (it_apply_ent newfx (cur, map m_lastp mem) e)
    /\ length mem' = length mem.
Proof.
  intros HO HR. pose proof (okb_chn e HO) as HC. pose proof (okb_fxt e HO) as HT.
  unfold it_enc_ent. cbn [app]. cbn [it_loop].
  rewrite (proj2 (Z.leb_gt rows r) HR). rewrite (chn_nz _ HC), (chn_ge128 _ HC), !(chn_mod _ HC).
  cbv beta iota zeta.
  set (cn := Z.to_nat (t_chn e)).
  destruct (it_entry_enc newfx (nth cn cur ev0) (m_note (nth cn mem itch0)) (m_ins (nth cn mem itch0)) (m_vol (nth cn mem itch0))
              (m_fxt (nth cn mem itch0)) (m_fxp (nth cn mem itch0)) (m_lastp (nth cn mem itch0)) e rest HT) as [m'' [HE HL]].
  rewrite HE. cbv beta iota zeta.
  exists (upd mem cn m''). rewrite it_apply_ent_eq. cbn [fst snd]. fold cn. rewrite nth_map_lastp.
  split; [reflexivity|]. split; [|apply upd_length].
  rewrite map_upd, HL. unfold ent_lp. destruct (t_hasfx e); [reflexivity|].
  rewrite <- nth_map_lastp. apply upd_nth_id.
Qed.

Lemma it_loop_zero fuel newfx rows r cur done mem rest :
  r < rows ->
  it_loop (S fuel) newfx rows r cur done mem (0 :: rest) = it_loop fuel newfx rows (r + 1) (repeat ev0 64) (cur :: done) mem rest.
Proof.
  intros HR. cbn [it_loop]. rewrite (proj2 (Z.leb_gt rows r) HR). change (0 =? 0) with true. reflexivity.
Qed.

Lemma it_loop_end fuel newfx rows cur done mem l :
  it_loop fuel newfx rows rows cur done mem l = (rev done, rows).
Proof.
  destruct fuel as [|fuel]; cbn [it_loop]; rewrite ?Z.leb_refl, Z.ltb_irrefl, app_nil_r; reflexivity.
Qed.

(* ---------------------------------------------------------------- one row, all rows *)

Lemma it_loop_row newfx rows : forall es fuel r cur done mem rest,
  Forall (fun e => itent_okb e = true) es -> r < rows -> length cur = 64%nat ->
  exists mem',
    it_loop (length es + 1 + fuel) newfx rows r cur done mem (it_enc_row es ++ rest)
    = it_loop fuel newfx rows (r + 1) (repeat ev0 64) (fst (fold_left (it_apply_ent newfx) es (cur, map m_lastp mem)) :: done) mem' rest
    /\ map m_lastp mem' = snd (fold_left (it_apply_ent newfx) es (cur, map m_lastp mem))
    /\ length mem' = length mem.
Proof.
  induction es as [|e es IH]; intros fuel r cur done mem rest HF HR HC.
  - exists mem. cbn [length Nat.add fold_left fst snd]. unfold it_enc_row. cbn [map concat app].
    rewrite (it_loop_zero _ _ _ _ _ _ _ _ HR). auto.
  - inversion HF as [|e0 es0 HO HF']; subst e0 es0.
    unfold it_enc_row. cbn [map concat length Nat.add]. rewrite <- !app_assoc.
    destruct (it_loop_ent (length es + 1 + fuel) newfx rows r cur done mem e (concat (map it_enc_ent es) ++ [0] ++ rest) HO HR)
      as [mem1 [H1 [L1 N1]]].
    rewrite H1.
    destruct (IH fuel r (fst (it_apply_ent newfx (cur, map m_lastp mem) e)) done mem1 rest HF' HR) as [mem2 [H2 [L2 N2]]].
    { rewrite it_apply_ent_len. exact HC. }
    unfold it_enc_row in H2. rewrite <- !app_assoc in H2. rewrite H2.
    exists mem2. cbn [fold_left]. rewrite L1 in *.
    rewrite <- surjective_pairing in *. split; [reflexivity|]. split; [exact L2|]. rewrite N2. exact N1.
Qed.

Fixpoint cnt (rs : list (list itent)) : nat :=
  match rs with [] => O | es :: t => (length es + 1 + cnt t)%nat end.

Lemma it_enc_ent_len e : (1 <= length (it_enc_ent e))%nat.
Proof. unfold it_enc_ent. cbn [length]. lia. Qed.

Lemma it_enc_row_len es : (length es + 1 <= length (it_enc_row es))%nat.
Proof.
  unfold it_enc_row. rewrite app_length. cbn [length]. induction es as [|e es IH]; cbn [map concat length]; [lia|].
  rewrite app_length. pose proof (it_enc_ent_len e). lia.
Qed.

Lemma cnt_le rs : (cnt rs <= length (it_enc_rows rs))%nat.
Proof.
  unfold it_enc_rows. induction rs as [|es t IH]; cbn [cnt map concat length]; [lia|].
  rewrite app_length. pose proof (it_enc_row_len es). lia.
Qed.

Lemma it_loop_rows newfx : forall rs fuel r done mem,
  Forall (Forall (fun e => itent_okb e = true)) rs ->
  it_loop (cnt rs + fuel) newfx (r + Z.of_nat (length rs)) r (repeat ev0 64) done mem (it_enc_rows rs)
  = (rev done ++ it_ref_rows newfx (map m_lastp mem) rs, r + Z.of_nat (length rs)).
Proof.
  induction rs as [|es t IH]; intros fuel r done mem HF.
  - cbn [length it_ref_rows]. change (Z.of_nat 0) with 0. rewrite Z.add_0_r, app_nil_r. apply it_loop_end.
  - inversion HF as [|es0 t0 HE HF']; subst es0 t0.
    unfold it_enc_rows. cbn [map concat cnt]. fold (it_enc_rows t).
    rewrite <- Nat.add_assoc.
    destruct (it_loop_row newfx (r + Z.of_nat (length (es :: t))) es (cnt t + fuel)%nat r (repeat ev0 64) done mem (it_enc_rows t) HE)
      as [mem1 [H1 [L1 N1]]].
    { cbn [length]. lia. }
    { apply repeat_length. }
    rewrite H1.
    replace (r + Z.of_nat (length (es :: t))) with ((r + 1) + Z.of_nat (length t)) by (cbn [length]; lia).
    rewrite (IH fuel (r + 1) _ mem1 HF').
    cbn [it_ref_rows]. rewrite L1.
    destruct (fold_left (it_apply_ent newfx) es (repeat ev0 64, map m_lastp mem)) as [row lastps'].
    cbn [fst snd rev]. rewrite <- app_assoc. reflexivity.
Qed.

Theorem it_decode_encode : forall newfx rows,
  Forall (Forall (fun e => itent_okb e = true)) rows ->
  it_load_pattern newfx (Z.of_nat (length rows)) (it_enc_rows rows) = it_ref_rows newfx (repeat 0 64) rows.
Proof.
  intros newfx rows HF. unfold it_load_pattern.
  pose proof (cnt_le rows) as HL.
  replace (S (length (it_enc_rows rows))) with (cnt rows + (S (length (it_enc_rows rows)) - cnt rows))%nat by lia.
  pose proof (it_loop_rows newfx rows (S (length (it_enc_rows rows)) - cnt rows)%nat 0 [] (repeat itch0 64) HF) as H.
  rewrite Z.add_0_l in H. rewrite H. cbn [fst rev app]. reflexivity.
Qed.

(* ---------------------------------------------------------------- the channel-count scan *)

Lemma it_scan_ent fuel rows r mx masks e rest :
  itent_okb e = true -> r < rows ->
  it_scan (S fuel) rows r mx masks (it_enc_ent e ++ rest)
  = it_scan fuel rows r (Z.max mx (t_chn e)) (upd masks (Z.to_nat (t_chn e)) (it_ent_mask e)) rest.
Proof.
  intros HO HR. pose proof (okb_chn e HO) as HC.
  unfold it_enc_ent. cbn [app]. cbn [it_scan].
  rewrite (proj2 (Z.leb_gt rows r) HR). rewrite (chn_nz _ HC), (chn_ge128 _ HC), !(chn_mod _ HC).
  cbv beta iota zeta. rewrite mask_bit0, mask_bit1, mask_bit2, mask_bit3.
  f_equal.
  destruct e as [c hn n hi i hv v hf t p]. cbn [t_chn t_hasnote t_note t_hasins t_ins t_hasvol t_vol t_hasfx t_fxt t_fxp].
  destruct hn, hi, hv, hf; reflexivity.
Qed.

Lemma it_scan_zero fuel rows r mx masks rest :
  r < rows -> it_scan (S fuel) rows r mx masks (0 :: rest) = it_scan fuel rows (r + 1) mx masks rest.
Proof. intros HR. cbn [it_scan]. rewrite (proj2 (Z.leb_gt rows r) HR). change (0 =? 0) with true. reflexivity. Qed.

Lemma it_scan_end fuel rows mx masks l : it_scan fuel rows rows mx masks l = mx.
Proof. destruct fuel as [|fuel]; cbn [it_scan]; rewrite ?Z.leb_refl; reflexivity. Qed.

Lemma it_scan_row rows : forall es fuel r mx masks rest,
  Forall (fun e => itent_okb e = true) es -> r < rows ->
  exists masks',
    it_scan (length es + 1 + fuel) rows r mx masks (it_enc_row es ++ rest)
    = it_scan fuel rows (r + 1) (fold_left Z.max (map t_chn es) mx) masks' rest.
Proof.
  induction es as [|e es IH]; intros fuel r mx masks rest HF HR.
  - exists masks. cbn [length Nat.add map fold_left]. unfold it_enc_row. cbn [map concat app]. apply it_scan_zero. exact HR.
  - inversion HF as [|e0 es0 HO HF']; subst e0 es0.
    unfold it_enc_row. cbn [map concat length Nat.add fold_left]. rewrite <- !app_assoc.
    rewrite (it_scan_ent _ _ _ _ _ _ _ HO HR).
    destruct (IH fuel r (Z.max mx (t_chn e)) (upd masks (Z.to_nat (t_chn e)) (it_ent_mask e)) rest HF' HR) as [masks' H2].
    unfold it_enc_row in H2. rewrite <- !app_assoc in H2. exists masks'. exact H2.
Qed.

Lemma it_scan_rows : forall rs fuel r mx masks,
  Forall (Forall (fun e => itent_okb e = true)) rs ->
  it_scan (cnt rs + fuel) (r + Z.of_nat (length rs)) r mx masks (it_enc_rows rs)
  = fold_left Z.max (map t_chn (concat rs)) mx.
Proof.
  induction rs as [|es t IH]; intros fuel r mx masks HF.
  - cbn [length concat map fold_left]. change (Z.of_nat 0) with 0. rewrite Z.add_0_r. apply it_scan_end.
  - inversion HF as [|es0 t0 HE HF']; subst es0 t0.
    unfold it_enc_rows. cbn [map concat cnt]. fold (it_enc_rows t).
    rewrite <- Nat.add_assoc.
    destruct (it_scan_row (r + Z.of_nat (length (es :: t))) es (cnt t + fuel)%nat r mx masks (it_enc_rows t) HE) as [masks' H1].
    { cbn [length]. lia. }
    rewrite H1.
    replace (r + Z.of_nat (length (es :: t))) with ((r + 1) + Z.of_nat (length t)) by (cbn [length]; lia).
    rewrite (IH fuel (r + 1) _ masks' HF').
    rewrite map_app, fold_left_app. reflexivity.
Qed.

Theorem it_channels_from_scan : forall rows,
  Forall (Forall (fun e => itent_okb e = true)) rows ->
  it_max_channel (Z.of_nat (length rows)) (it_enc_rows rows) = fold_left Z.max (map t_chn (concat rows)) 0.
Proof.
  intros rows HF. unfold it_max_channel.
  pose proof (cnt_le rows) as HL.
  replace (S (length (it_enc_rows rows))) with (cnt rows + (S (length (it_enc_rows rows)) - cnt rows))%nat by lia.
  pose proof (it_scan_rows rows (S (length (it_enc_rows rows)) - cnt rows)%nat 0 0 (repeat 0 64) HF) as H.
  rewrite Z.add_0_l in H. exact H.
Qed.

(* ---------------------------------------------------------------- small facts *)

Lemma it_note_plain : forall n, 0 <= n <= 119 -> it_note n = n + 1.
Proof.
  intros n H. unfold it_note.
  destruct (Z.eqb_spec n 255); [lia|]. destruct (Z.eqb_spec n 254); [lia|]. destruct (Z.ltb_spec 119 n); [lia|]. reflexivity.
Qed.

Lemma it_vol_plain : forall e, 0 <= e_vol e <= 64 -> e_vol (it_xlat_volfx e) = e_vol e + 1 /\ e_f2t (it_xlat_volfx e) = e_f2t e.
Proof.
  intros e H. unfold it_xlat_volfx. destruct (Z.leb_spec (e_vol e) 64); [|lia]. cbn [e_vol e_f2t]. split; reflexivity.
Qed.

Print Assumptions it_decode_encode.
Print Assumptions it_channels_from_scan.
Print Assumptions it_note_plain.
Print Assumptions it_vol_plain.
