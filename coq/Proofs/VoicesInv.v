(* Preservation of the voice-table invariant of src/virtual.c by every operation of Model/Voices.v,
   for every state and every argument: the inductive half of C16's "voice allocation/free keeps the
   channel<->voice map and in-use count consistent".

   Inv s        : the Prop reading of the executable monitor invb (Model/Voices.v) plus the mode clause
                  "virtual channels enabled (maxvoc <= vchans - ntracks) or no voice carries a new-note action".
   op_okb s o   : what the callers in player.c/read_event.c/smix.c guarantee about the arguments
                  (a voice passed to resetvoice is in use or out of range; setpatch/queuepatch name a track
                  channel or an invalid channel; new-note actions only with virtual channels).
   vstep_inv    : Inv s -> op_okb s o = true -> exists r s', vstep s o = Some (r, s') /\ Inv s' /\ same shape.
                  "Some" means that no access left voice_array / virt_channel (every access in the model is checked).
   The new-note-action path of libxmp_virt_setpatch breaks the invariant between alloc_voice and the relabel of
   the old voice; InvD D is the invariant with the voices in D exempt from "my channel maps back to me". *)
From Coq Require Import ZArith List Lia Bool Arith.
Import ListNotations.
From LX Require Import Base.ListAux Model.Voices Proofs.VoicesProofs.
Local Open Scope Z_scope.

(* ------------------------------------------------------------------ checked access: laws *)
Lemma zget_range {A} (l : list A) i x : zget l i = Some x -> 0 <= i < zlen l.
Proof.
  unfold zget, zlen. destruct (Z.ltb_spec i 0); [discriminate|]. intros Hx.
  assert (nth_error l (Z.to_nat i) <> None) as Hn by congruence. apply nth_error_Some in Hn. lia.
Qed.
Lemma zlen_upd {A} (l : list A) n x : zlen (upd l n x) = zlen l.
Proof. unfold zlen. rewrite upd_length. reflexivity. Qed.
Lemma nth_error_upd {A} (l : list A) n m x :
  nth_error (upd l n x) m = if Nat.eqb m n then (if Nat.ltb n (length l) then Some x else None) else nth_error l m.
Proof.
  revert n m; induction l as [|h t IH]; intros n m.
  - cbn [upd length]. destruct (Nat.eqb m n); [|reflexivity]. destruct n, m; reflexivity.
  - destruct n as [|n], m as [|m]; cbn [upd nth_error Nat.eqb length]; try reflexivity.
    rewrite IH. destruct (Nat.eqb m n); [|reflexivity].
    change (S n <? S (length t))%nat with (n <? length t)%nat. reflexivity.
Qed.
Lemma zget_upd {A} (l : list A) i j x : 0 <= i < zlen l ->
  zget (upd l (Z.to_nat i) x) j = if j =? i then Some x else zget l j.
Proof.
  intros Hi. unfold zget, zlen in *. destruct (Z.eqb_spec j i) as [->|Hn].
  - destruct (Z.ltb_spec i 0); [lia|]. rewrite nth_error_upd, Nat.eqb_refl.
    destruct (Nat.ltb_spec (Z.to_nat i) (length l)); [reflexivity|lia].
  - destruct (Z.ltb_spec j 0); [reflexivity|]. rewrite nth_error_upd.
    destruct (Nat.eqb_spec (Z.to_nat j) (Z.to_nat i)); [lia|reflexivity].
Qed.
Lemma zset_some {A} (l : list A) i x : 0 <= i < zlen l -> zset l i x = Some (upd l (Z.to_nat i) x).
Proof.
  intros H. unfold zset. destruct (Z.leb_spec 0 i); [|lia]. destruct (Z.ltb_spec i (zlen l)); [reflexivity|lia].
Qed.
Lemma zget_cons {A} (x : A) l k : zget (x :: l) k = if k =? 0 then Some x else zget l (k - 1).
Proof.
  unfold zget. destruct (Z.eqb_spec k 0) as [->|Hn]; [reflexivity|].
  destruct (Z.ltb_spec k 0), (Z.ltb_spec (k - 1) 0); try lia; try reflexivity.
  replace (Z.to_nat k) with (S (Z.to_nat (k - 1))) by lia. reflexivity.
Qed.
Lemma zget_nth {A} (l : list A) i x d : zget l i = Some x -> nth (Z.to_nat i) l d = x.
Proof. unfold zget. destruct (i <? 0); [discriminate|]. intros H. apply nth_error_nth. exact H. Qed.

Lemma forallbi_spec {A} (f : Z -> A -> bool) l : forall i,
  forallbi f i l = true <-> (forall k x, zget l k = Some x -> f (i + k) x = true).
Proof.
  induction l as [|h t IH]; intros i; cbn [forallbi].
  - split; [|reflexivity]. intros _ k x H. apply zget_range in H. unfold zlen in H. cbn in H. lia.
  - rewrite andb_true_iff, IH. split.
    + intros [H0 Ht] k x Hk. rewrite zget_cons in Hk. destruct (Z.eqb_spec k 0) as [->|Hn].
      * injection Hk as <-. rewrite Z.add_0_r. exact H0.
      * specialize (Ht (k - 1) x Hk). replace (i + 1 + (k - 1)) with (i + k) in Ht by lia. exact Ht.
    + intros H. split.
      * specialize (H 0 h). rewrite zget_cons in H. cbn in H. rewrite Z.add_0_r in H. apply H. reflexivity.
      * intros k x Hk. pose proof (zget_range _ _ _ Hk) as Hr. specialize (H (k + 1) x). rewrite zget_cons in H.
        destruct (Z.eqb_spec (k + 1) 0); [lia|]. replace (k + 1 - 1) with k in H by lia.
        replace (i + 1 + k) with (i + (k + 1)) by lia. apply H. exact Hk.
Qed.

Definition b2z (b : bool) : Z := if b then 1 else 0.
Lemma count_used_upd l i x old : zget l i = Some old ->
  count_used (upd l (Z.to_nat i) x) = count_used l - b2z (in_use old) + b2z (in_use x).
Proof.
  intros H. pose proof (zget_range _ _ _ H) as Hr. pose proof (zget_nth _ _ _ vfree H) as Hn.
  assert (Hlt : (Z.to_nat i < length l)%nat) by (unfold zlen in Hr; lia).
  clear H Hr. revert Hn Hlt. generalize (Z.to_nat i). clear i. unfold count_used, zlen.
  induction l as [|h t IH]; intros n Hn Hlt; cbn [length] in Hlt; [lia|].
  destruct n as [|n]; cbn [upd filter nth] in *.
  - subst h. destruct (in_use x), (in_use old); cbn [length b2z]; lia.
  - specialize (IH n Hn ltac:(lia)). destruct (in_use h); cbn [length]; lia.
Qed.
Lemma count_used_bound l : 0 <= count_used l <= zlen l.
Proof. unfold count_used, zlen. induction l as [|h t IH]; cbn [filter length]; [lia|]. destruct (in_use h); cbn [length]; lia. Qed.

(* ------------------------------------------------------------------ total versions of the primitive writes *)
Definition setvT (s : vst) (i : Z) (v : voice) : vst := mkS (upd (voices s) (Z.to_nat i) v) (vmap s) (vcount s) (used s) (ntracks s) (mute s).
Definition setmT (s : vst) (c : Z) (x : Z) : vst := mkS (voices s) (upd (vmap s) (Z.to_nat c) x) (vcount s) (used s) (ntracks s) (mute s).
Definition addcT (s : vst) (c d : Z) : vst :=
  mkS (voices s) (vmap s) (upd (vcount s) (Z.to_nat c) (nth (Z.to_nat c) (vcount s) 0 + d)) (used s) (ntracks s) (mute s).

Lemma setv_T s i v : 0 <= i < maxvoc s -> setv s i v = Some (setvT s i v).
Proof. intros H. unfold setv, maxvoc in *. rewrite zset_some by exact H. reflexivity. Qed.
Lemma setm_T s c x : 0 <= c < vchans s -> setm s c x = Some (setmT s c x).
Proof. intros H. unfold setm, vchans in *. rewrite zset_some by exact H. reflexivity. Qed.
Lemma addc_T s c d : 0 <= c < zlen (vcount s) -> addcount s c d = Some (addcT s c d).
Proof.
  intros H. unfold addcount. destruct (zget_some (vcount s) c H) as [n Hn]. rewrite Hn. cbn [bind].
  rewrite zset_some by exact H. cbn [bind]. unfold addcT. rewrite (zget_nth _ _ _ 0 Hn). reflexivity.
Qed.

(* ------------------------------------------------------------------ the invariant *)
Definition vokD (D : Z -> Prop) (s : vst) (i : Z) (v : voice) : Prop :=
  (v_chn v = -1 /\ v_root v = -1) \/
  (0 <= v_chn v < vchans s /\ 0 <= v_root v < vchans s /\ (D i \/ getm s (v_chn v) = Some i)).
Definition cok (s : vst) (c m : Z) : Prop := m = -1 \/ (exists v, getv s m = Some v /\ v_chn v = c).
Definition quiet (s : vst) : Prop := forall i v, getv s i = Some v -> v_act v = 0.
Definition virt (s : vst) : Prop := maxvoc s <= vchans s - ntracks s.

Record InvD (D : Z -> Prop) (s : vst) : Prop := mkInv {
  I_v : forall i v, getv s i = Some v -> vokD D s i v;
  I_c : forall c m, getm s c = Some m -> cok s c m;
  I_u : used s = count_used (voices s);
  I_n : zlen (vcount s) = vchans s;
  I_t : 0 <= ntracks s <= vchans s;
  I_q : virt s \/ quiet s }.
Definition noD : Z -> Prop := fun _ => False.
Definition Inv := InvD noD.

Definition shape (s : vst) := (maxvoc s, vchans s, ntracks s, mute s).

(* the executable monitor and the Prop invariant agree *)
Lemma voice_okb_iff s i v : voice_okb s i v = true <-> vokD noD s i v.
Proof.
  unfold voice_okb, vokD, noD. destruct (Z.eqb_spec (v_chn v) (-1)) as [E|E].
  - rewrite Z.eqb_eq. split; [intros H; left; split; assumption|]. intros [[_ H]|[H _]]; [exact H|lia].
  - rewrite !andb_true_iff, !Z.leb_le, !Z.ltb_lt. split.
    + intros [[[[A B] C] Dd] F]. right. repeat split; try assumption. right.
      destruct (getm s (v_chn v)) as [m|]; [|discriminate]. apply Z.eqb_eq in F. subst m. reflexivity.
    + intros [[H _]|[[A B] [[C Dd] [F|F]]]]; [contradiction|contradiction|]. rewrite F, Z.eqb_refl. repeat split; assumption.
Qed.
Lemma chan_okb_iff s c m : chan_okb s c m = true <-> cok s c m.
Proof.
  unfold chan_okb, cok. destruct (Z.eqb_spec m (-1)) as [E|E].
  - split; [intros _; left; exact E|reflexivity].
  - rewrite !andb_true_iff, Z.leb_le, Z.ltb_lt. split.
    + intros [[A B] F]. right. destruct (getv s m) as [v|]; [|discriminate]. apply Z.eqb_eq in F. exists v. split; [reflexivity|exact F].
    + intros [H|[v [Hv Hc]]]; [contradiction|]. pose proof (zget_range _ _ _ Hv) as Hr. fold (maxvoc s) in Hr.
      rewrite Hv. split; [lia|]. apply Z.eqb_eq. exact Hc.
Qed.

Lemma invb_of_Inv s : Inv s -> invb s = true.
Proof.
  intros [Iv Ic Iu In It _]. unfold invb. rewrite !andb_true_iff. repeat split.
  - apply forallbi_spec. intros k x Hk. rewrite Z.add_0_l. apply voice_okb_iff. apply Iv. exact Hk.
  - apply forallbi_spec. intros k x Hk. rewrite Z.add_0_l. apply chan_okb_iff. apply Ic. exact Hk.
  - apply Z.eqb_eq. exact Iu.
  - apply Z.leb_le. rewrite Iu. apply count_used_bound.
  - apply Z.leb_le. rewrite Iu. apply count_used_bound.
  - apply Z.eqb_eq. exact In.
  - apply Z.leb_le. lia.
  - apply Z.leb_le. lia.
Qed.
Lemma Inv_of_invb s : invb s = true -> virt s \/ quiet s -> Inv s.
Proof.
  unfold invb. rewrite !andb_true_iff. intros [[[[[[[A B] C] _] _] F] G] H] Q.
  apply Z.eqb_eq in C. apply Z.eqb_eq in F. apply Z.leb_le in G. apply Z.leb_le in H.
  constructor; try assumption; try lia.
  - intros i v Hv. apply voice_okb_iff. rewrite forallbi_spec in A. specialize (A i v Hv). rewrite Z.add_0_l in A. exact A.
  - intros c m Hm. apply chan_okb_iff. rewrite forallbi_spec in B. specialize (B c m Hm). rewrite Z.add_0_l in B. exact B.
Qed.

Lemma virtb_iff s : virtb s = true <-> virt s.
Proof. unfold virtb, virt. apply Z.leb_le. Qed.
Lemma quietb_iff s : quietb s = true <-> quiet s.
Proof.
  unfold quietb, quiet, getv. rewrite forallb_forall. split.
  - intros H i v Hv. apply Z.eqb_eq. apply H. unfold zget in Hv. destruct (i <? 0); [discriminate|]. eapply nth_error_In. exact Hv.
  - intros H v Hin. apply In_nth_error in Hin as [n Hn]. apply Z.eqb_eq. apply (H (Z.of_nat n)).
    unfold zget. destruct (Z.ltb_spec (Z.of_nat n) 0); [lia|]. rewrite Nat2Z.id. exact Hn.
Qed.
Lemma modeb_iff s : modeb s = true <-> virt s \/ quiet s.
Proof. unfold modeb. rewrite orb_true_iff, virtb_iff, quietb_iff. reflexivity. Qed.

(* ------------------------------------------------------------------ tactics *)
Ltac red_st :=
  unfold shape, virt, quiet, vokD, cok, noD, getv, getm, maxvoc, vchans, setvT, setmT, addcT, setused in *;
  cbn [voices vmap vcount used ntracks mute] in *; rewrite ?zlen_upd in *.

Lemma uge_false x n : 0 <= x < n -> uge x n = false.
Proof. intros H. unfold uge. destruct (Z.ltb_spec x 0), (Z.leb_spec n x); try lia; reflexivity. Qed.
Lemma uge_true x n : ~ (0 <= x < n) -> 0 <= n -> uge x n = true.
Proof. intros H Hn. unfold uge. destruct (Z.ltb_spec x 0), (Z.leb_spec n x); try lia; reflexivity. Qed.
Lemma uge_spec x n : 0 <= n -> uge x n = false <-> 0 <= x < n.
Proof. intros Hn. unfold uge. destruct (Z.ltb_spec x 0), (Z.leb_spec n x); cbn; split; intros; try lia; try discriminate; reflexivity. Qed.

(* a voice that is in use has valid fields and its channel maps back to it *)
Lemma inuse_facts s i v : Inv s -> getv s i = Some v -> 0 <= v_chn v ->
  0 <= i < maxvoc s /\ 0 <= v_chn v < vchans s /\ 0 <= v_root v < vchans s /\ getm s (v_chn v) = Some i.
Proof.
  intros HI Hv Hu. pose proof (zget_range _ _ _ Hv) as Hr. fold (maxvoc s) in Hr.
  destruct (I_v _ _ HI i v Hv) as [[E _]|(A & B & [[]|C])]; [lia|]. repeat split; try lia. exact C.
Qed.
(* a mapped channel points at a voice in use on that channel *)
Lemma mapped_facts D s c m : InvD D s -> getm s c = Some m -> m <> -1 ->
  0 <= c < vchans s /\ 0 <= m < maxvoc s /\ exists v, getv s m = Some v /\ v_chn v = c.
Proof.
  intros HI Hm Hn. pose proof (zget_range _ _ _ Hm) as Hr. fold (vchans s) in Hr.
  destruct (I_c _ _ HI c m Hm) as [F|(v & Hv & Hc)]; [contradiction|].
  pose proof (zget_range _ _ _ Hv) as Hr2. fold (maxvoc s) in Hr2. split; [lia|]. split; [lia|]. exists v. split; assumption.
Qed.

(* ------------------------------------------------------------------ unlink: resetvoice / resetchannel *)
Definition unlinkT (s : vst) (voc : Z) (v : voice) : vst :=
  setvT (setmT (addcT (setused s (used s - 1)) (v_root v) (-1)) (v_chn v) (-1)) voc vfree.

Lemma unlink_inv s voc v : Inv s -> getv s voc = Some v -> 0 <= v_chn v ->
  Inv (unlinkT s voc v) /\ shape (unlinkT s voc v) = shape s.
Proof.
  intros HI Hv Huse. destruct (inuse_facts s voc v HI Hv Huse) as (Hvr & Hc & Hr & Hm).
  destruct HI as [Iv Ic Iu In It Iq]. unfold unlinkT. red_st.
  split; [|reflexivity].
  constructor; red_st.
  - intros i w Hw. rewrite zget_upd in Hw by lia. destruct (Z.eqb_spec i voc) as [->|Hn].
    + injection Hw as <-. left. split; reflexivity.
    + destruct (Iv i w Hw) as [F|(A & B & [[]|C])]; [left; exact F|right]. repeat split; try lia. right.
      rewrite zget_upd by lia. destruct (Z.eqb_spec (v_chn w) (v_chn v)) as [E|_]; [|exact C]. rewrite E in C. congruence.
  - intros c m Hm'. rewrite zget_upd in Hm' by lia. destruct (Z.eqb_spec c (v_chn v)) as [->|Hn].
    + injection Hm' as <-. left; reflexivity.
    + destruct (Ic c m Hm') as [F|(w & Hw & Hcw)]; [left; exact F|right]. exists w. split; [|exact Hcw].
      rewrite zget_upd by lia. destruct (Z.eqb_spec m voc) as [->|_]; [|exact Hw]. congruence.
  - rewrite (count_used_upd _ _ _ _ Hv). unfold in_use. cbn [vfree v_chn].
    destruct (Z.leb_spec 0 (v_chn v)); [|lia]. cbn [b2z]. cbn. lia.
  - exact In.
  - exact It.
  - destruct Iq as [Q|Q]; [left; exact Q|right]. intros i w Hw. rewrite zget_upd in Hw by lia.
    destruct (i =? voc); [injection Hw as <-; reflexivity|eapply Q; exact Hw].
Qed.

Lemma resetvoice_T s voc v : Inv s -> getv s voc = Some v -> 0 <= v_chn v -> resetvoice s voc = Some (unlinkT s voc v).
Proof.
  intros HI Hv Huse. destruct (inuse_facts s voc v HI Hv Huse) as (Hvr & Hc & Hr & Hm).
  pose proof (I_n _ _ HI) as In. unfold resetvoice. rewrite uge_false by exact Hvr. rewrite Hv. cbn [bind].
  rewrite addc_T by (cbn [setused vcount]; lia). cbn [bind].
  rewrite setm_T by (red_st; lia). cbn [bind].
  rewrite setv_T by (red_st; lia). reflexivity.
Qed.

Lemma resetvoice_inv s voc : Inv s -> (uge voc (maxvoc s) = true \/ exists v, getv s voc = Some v /\ 0 <= v_chn v) ->
  exists s', resetvoice s voc = Some s' /\ Inv s' /\ shape s' = shape s.
Proof.
  intros HI [Hu|(v & Hv & Huse)].
  - exists s. unfold resetvoice. rewrite Hu. auto.
  - exists (unlinkT s voc v). split; [apply resetvoice_T; assumption|apply unlink_inv; assumption].
Qed.

Lemma map_virt_channel_spec s chn : Inv s ->
  (map_virt_channel s chn = Some (-1)) \/
  (exists voc v, map_virt_channel s chn = Some voc /\ 0 <= voc < maxvoc s /\ 0 <= chn < vchans s /\
                 getm s chn = Some voc /\ getv s voc = Some v /\ v_chn v = chn).
Proof.
  intros HI. unfold map_virt_channel. pose proof (Zle_0_nat (length (vmap s))) as Hl. fold (zlen (vmap s)) in Hl. fold (vchans s) in Hl.
  pose proof (Zle_0_nat (length (voices s))) as Hl2. fold (zlen (voices s)) in Hl2. fold (maxvoc s) in Hl2.
  destruct (uge chn (vchans s)) eqn:Eu; [left; reflexivity|]. apply uge_spec in Eu; [|exact Hl].
  destruct (zget_some (vmap s) chn Eu) as [m Hm]. fold (getm s chn) in Hm. rewrite Hm. cbn [bind].
  destruct (uge m (maxvoc s)) eqn:Em; [left; reflexivity|]. apply uge_spec in Em; [|exact Hl2].
  right. destruct (mapped_facts _ s chn m HI Hm ltac:(lia)) as (_ & _ & v & Hv & Hc).
  exists m, v. repeat split; try lia; assumption.
Qed.

Lemma resetchannel_inv s chn : Inv s -> exists s', resetchannel s chn = Some s' /\ Inv s' /\ shape s' = shape s.
Proof.
  intros HI. unfold resetchannel. destruct (map_virt_channel_spec s chn HI) as [E|(voc & v & E & Hvoc & Hchn & Hm & Hv & Hc)]; rewrite E; cbn [bind].
  - exists s. auto.
  - destruct (Z.ltb_spec voc 0); [lia|]. rewrite Hv. cbn [bind].
    destruct (inuse_facts s voc v HI Hv ltac:(lia)) as (_ & _ & Hr & _). pose proof (I_n _ _ HI) as In.
    rewrite addc_T by (cbn [setused vcount]; lia). cbn [bind].
    rewrite setm_T by (red_st; lia). cbn [bind]. rewrite setv_T by (red_st; lia).
    exists (unlinkT s voc v). split; [unfold unlinkT; rewrite Hc; reflexivity|apply unlink_inv; [assumption|assumption|lia]].
Qed.

(* ------------------------------------------------------------------ rewriting a voice without touching chn/root *)
Lemma setv_same_inv D s i v v' : InvD D s -> getv s i = Some v -> v_chn v' = v_chn v -> v_root v' = v_root v ->
  (virt s \/ v_act v' = 0) -> InvD D (setvT s i v') /\ shape (setvT s i v') = shape s.
Proof.
  intros HI Hv Ec Er Hq. pose proof (zget_range _ _ _ Hv) as Hvr. destruct HI as [Iv Ic Iu In It Iq]. red_st.
  split; [|reflexivity].
  constructor; red_st.
  - intros j w Hw. rewrite zget_upd in Hw by lia. destruct (Z.eqb_spec j i) as [->|Hn].
    + injection Hw as <-. rewrite Ec, Er. apply Iv. exact Hv.
    + apply Iv. exact Hw.
  - intros c m Hm. destruct (Ic c m Hm) as [F|(w & Hw & Hcw)]; [left; exact F|right].
    rewrite zget_upd by lia. destruct (Z.eqb_spec m i) as [->|_]; [|exists w; split; assumption].
    exists v'. split; [reflexivity|]. rewrite Ec. congruence.
  - rewrite (count_used_upd _ _ _ _ Hv). unfold in_use. rewrite Ec. lia.
  - exact In.
  - exact It.
  - destruct Iq as [Q|Q]; [left; exact Q|]. destruct Hq as [Hq|Hq]; [left; exact Hq|right].
    intros j w Hw. rewrite zget_upd in Hw by lia. destruct (j =? i); [injection Hw as <-; exact Hq|eapply Q; exact Hw].
Qed.

Lemma setv_same_step D s i v v' : InvD D s -> getv s i = Some v -> v_chn v' = v_chn v -> v_root v' = v_root v ->
  (virt s \/ v_act v' = 0) ->
  exists s', setv s i v' = Some s' /\ InvD D s' /\ shape s' = shape s /\ getv s' i = Some v' /\ vmap s' = vmap s.
Proof.
  intros HI Hv Ec Er Hq. pose proof (zget_range _ _ _ Hv) as Hvr. fold (maxvoc s) in Hvr.
  exists (setvT s i v'). split; [apply setv_T; exact Hvr|].
  destruct (setv_same_inv D s i v v' HI Hv Ec Er Hq) as [A B].
  split; [exact A|]. split; [exact B|]. split; [|reflexivity].
  red_st. rewrite zget_upd by lia. rewrite Z.eqb_refl. reflexivity.
Qed.

Lemma quiet_act s i v : quiet s -> getv s i = Some v -> v_act v = 0.
Proof. intros Q H. eapply Q. exact H. Qed.

(* ------------------------------------------------------------------ setvol / setnna *)
Lemma setvol_inv s chn vol : Inv s -> exists s', setvol s chn vol = Some s' /\ Inv s' /\ shape s' = shape s.
Proof.
  intros HI. unfold setvol. destruct (map_virt_channel_spec s chn HI) as [E|(voc & v & E & Hvoc & Hchn & Hm & Hv & Hc)]; rewrite E; cbn [bind].
  - exists s. auto.
  - destruct (Z.ltb_spec voc 0); [lia|]. rewrite Hv. cbn [bind].
    destruct (inuse_facts s voc v HI Hv ltac:(lia)) as (_ & _ & Hr & _).
    assert (Hmu : exists b, (if v_root v <? 64 then if v_root v <? 0 then None else Some (nth (Z.to_nat (v_root v)) (mute s) false) else Some false) = Some b).
    { destruct (v_root v <? 64); [|eauto]. destruct (Z.ltb_spec (v_root v) 0); [lia|eauto]. }
    destruct Hmu as [b Hb]. rewrite Hb. cbn [bind].
    set (vol' := if b then 0 else vol).
    assert (Hq : virt s \/ v_act (with_vol v vol') = 0).
    { destruct (I_q _ _ HI) as [Q|Q]; [left; exact Q|right]. cbn [with_vol v_act]. eapply Q. exact Hv. }
    destruct (setv_same_step noD s voc v (with_vol v vol') HI Hv eq_refl eq_refl Hq) as (s1 & E1 & I1 & S1 & G1 & M1).
    rewrite E1. cbn [bind].
    destruct ((vol' =? 0) && (ntracks s1 <=? chn)).
    + destruct (resetvoice_inv s1 voc I1) as (s2 & E2 & I2 & S2).
      { right. exists (with_vol v vol'). split; [exact G1|]. cbn [with_vol v_chn]. lia. }
      exists s2. split; [exact E2|]. split; [exact I2|congruence].
    + exists s1. auto.
Qed.

Lemma setnna_inv s chn nna : Inv s -> (virt s \/ nna = 0) -> exists s', setnna s chn nna = Some s' /\ Inv s' /\ shape s' = shape s.
Proof.
  intros HI Hq. unfold setnna. destruct (map_virt_channel_spec s chn HI) as [E|(voc & v & E & Hvoc & Hchn & Hm & Hv & Hc)]; rewrite E; cbn [bind].
  - exists s. auto.
  - destruct (Z.ltb_spec voc 0); [lia|]. rewrite Hv. cbn [bind].
    destruct (setv_same_step noD s voc v (with_act v nna) HI Hv eq_refl eq_refl Hq) as (s1 & E1 & I1 & S1 & _).
    exists s1. auto.
Qed.

(* ------------------------------------------------------------------ check_dct and the duplicate-check loop *)
Lemma check_dct_inv s i chn ins smp key nna dct dca :
  Inv s -> 0 <= i < maxvoc s -> 0 <= chn < vchans s -> (virt s \/ nna = 0) ->
  exists s', check_dct s i chn ins smp key nna dct dca = Some s' /\ Inv s' /\ shape s' = shape s.
Proof.
  intros HI Hi Hc Hq. unfold check_dct.
  destruct (zget_some (voices s) i Hi) as [vi Hvi]. fold (getv s i) in Hvi. rewrite Hvi. cbn [bind].
  destruct (zget_some (vmap s) chn Hc) as [voc Hvoc]. fold (getm s chn) in Hvoc. rewrite Hvoc. cbn [bind].
  destruct ((v_root vi =? chn) && (v_ins vi =? ins)) eqn:Eroot; [|exists s; auto].
  apply andb_prop in Eroot as [Eroot _]. apply Z.eqb_eq in Eroot.
  assert (Huse : 0 <= v_chn vi).
  { destruct (I_v _ _ HI i vi Hvi) as [[_ F]|(A & _)]; lia. }
  destruct (Z.eqb_spec nna 0) as [Enna|Enna].
  { apply resetvoice_inv; [exact HI|]. right. exists vi. split; assumption. }
  assert (Hv : virt s) by (destruct Hq as [Q|Q]; [exact Q|contradiction]).
  (* every remaining branch rewrites voice i keeping chn/root, possibly followed by a reset of voice i *)
  assert (Hset : forall v', v_chn v' = v_chn vi -> v_root v' = v_root vi ->
                 exists s', setv s i v' = Some s' /\ Inv s' /\ shape s' = shape s /\ getv s' i = Some v').
  { intros v' A B. destruct (setv_same_step noD s i vi v' HI Hvi A B (or_introl Hv)) as (s1 & E1 & I1 & S1 & G1 & _). exists s1. auto. }
  set (vi' := with_act vi nna).
  destruct ((dct =? 3) || (dct =? 2) && (v_smp vi' =? smp) || (dct =? 1) && (v_key vi' =? key)).
  - destruct ((nna =? 2) && (dca =? 3)).
    + destruct (Hset (with_act vi' 2) eq_refl eq_refl) as (s1 & E1 & I1 & S1 & _). exists s1. auto.
    + destruct (negb (dca =? 0)).
      * destruct (negb (i =? voc) || negb (v_act vi' =? 0)).
        -- destruct (Hset (with_act vi' dca) eq_refl eq_refl) as (s1 & E1 & I1 & S1 & _). exists s1. auto.
        -- destruct (Hset vi' eq_refl eq_refl) as (s1 & E1 & I1 & S1 & _). exists s1. auto.
      * destruct (Hset vi' eq_refl eq_refl) as (s1 & E1 & I1 & S1 & G1). rewrite E1. cbn [bind].
        destruct (resetvoice_inv s1 i I1) as (s2 & E2 & I2 & S2).
        { right. exists vi'. split; [exact G1|exact Huse]. }
        exists s2. split; [exact E2|]. split; [exact I2|congruence].
  - destruct (Hset vi' eq_refl eq_refl) as (s1 & E1 & I1 & S1 & _). exists s1. auto.
Qed.

Lemma shape_maxvoc s s' : shape s' = shape s -> maxvoc s' = maxvoc s /\ vchans s' = vchans s /\ ntracks s' = ntracks s /\ mute s' = mute s.
Proof. unfold shape. intros H. injection H as A B C Dd. auto. Qed.
Lemma virt_shape s s' : shape s' = shape s -> virt s -> virt s'.
Proof. intros H. apply shape_maxvoc in H as (A & B & C & _). unfold virt. rewrite A, B, C. auto. Qed.

Lemma dct_loop_inv n : forall i s chn ins smp key nna dct dca,
  Inv s -> 0 <= i -> i + Z.of_nat n <= maxvoc s -> 0 <= chn < vchans s -> (virt s \/ nna = 0) ->
  exists s', dct_loop n i s chn ins smp key nna dct dca = Some s' /\ Inv s' /\ shape s' = shape s.
Proof.
  induction n as [|n IH]; intros i s chn ins smp key nna dct dca HI Hi Hn Hc Hq; cbn [dct_loop].
  - exists s. auto.
  - destruct (check_dct_inv s i chn ins smp key nna dct dca HI ltac:(lia) Hc Hq) as (s1 & E1 & I1 & S1).
    rewrite E1. cbn [bind]. pose proof (shape_maxvoc _ _ S1) as (A & B & C & _).
    destruct (IH (i + 1) s1 chn ins smp key nna dct dca I1 ltac:(lia) ltac:(lia) ltac:(lia)) as (s2 & E2 & I2 & S2).
    { destruct Hq as [Q|Q]; [left; eapply virt_shape; eassumption|right; exact Q]. }
    exists s2. split; [exact E2|]. split; [exact I2|congruence].
Qed.

(* ------------------------------------------------------------------ link: the second half of alloc_voice *)
Definition linkT (s : vst) (i chn : Z) (f : voice) : vst :=
  setmT (setvT (setused (addcT s chn 1) (used s + 1)) i (mkV chn chn (v_act f) (v_vol f) (v_ins f) (v_smp f) (v_key f))) chn i.

(* the channel may already be mapped (to m0, the old voice of the new-note-action path): m0 is left dangling *)
Lemma link_inv s i chn f m0 v0 :
  Inv s -> getv s i = Some v0 -> v_chn v0 = -1 -> 0 <= chn < vchans s -> getm s chn = Some m0 -> (virt s \/ v_act f = 0) ->
  InvD (fun j => j = m0) (linkT s i chn f) /\ shape (linkT s i chn f) = shape s /\
  getm (linkT s i chn f) chn = Some i /\
  getv (linkT s i chn f) i = Some (mkV chn chn (v_act f) (v_vol f) (v_ins f) (v_smp f) (v_key f)) /\
  (forall j, j <> i -> getv (linkT s i chn f) j = getv s j) /\ i <> m0.
Proof.
  intros HI Hv Hfree Hc Hm Hq. pose proof (zget_range _ _ _ Hv) as Hvr.
  assert (Hne : i <> m0).
  { intro E. subst m0. destruct (mapped_facts _ s chn i HI Hm ltac:(lia)) as (_ & _ & w & Hw & Hcw). unfold getv in *. rewrite Hv in Hw. injection Hw as <-. lia. }
  destruct HI as [Iv Ic Iu In It Iq]. unfold linkT. red_st.
  split; [|split; [reflexivity|]]; [|split; [|split; [|split; [|exact Hne]]]].
  - constructor; red_st.
    + intros j w Hw. rewrite zget_upd in Hw by lia. destruct (Z.eqb_spec j i) as [->|Hn].
      * injection Hw as <-. right. cbn [v_chn v_root]. repeat split; try lia. right. rewrite zget_upd by lia. rewrite Z.eqb_refl. reflexivity.
      * destruct (Iv j w Hw) as [F|(A & B & [[]|C])]; [left; exact F|right]. repeat split; try lia.
        rewrite zget_upd by lia. destruct (Z.eqb_spec (v_chn w) chn) as [E|_]; [|right; exact C]. left. rewrite E in C. congruence.
    + intros c m Hm'. rewrite zget_upd in Hm' by lia. destruct (Z.eqb_spec c chn) as [->|Hn].
      * injection Hm' as <-. right. eexists. rewrite zget_upd by lia. rewrite Z.eqb_refl. split; reflexivity.
      * destruct (Ic c m Hm') as [F|(w & Hw & Hcw)]; [left; exact F|right]. exists w. split; [|exact Hcw].
        rewrite zget_upd by lia. destruct (Z.eqb_spec m i) as [->|_]; [|exact Hw].
        pose proof (zget_range _ _ _ Hm') as Hcr. rewrite Hv in Hw. injection Hw as <-. lia.
    + rewrite (count_used_upd _ _ _ _ Hv). unfold in_use. cbn [v_chn]. rewrite Hfree.
      destruct (Z.leb_spec 0 chn); [|lia]. cbn. lia.
    + exact In.
    + exact It.
    + destruct Iq as [Q|Q]; [left; exact Q|]. destruct Hq as [Hq|Hq]; [left; exact Hq|right].
      intros j w Hw. rewrite zget_upd in Hw by lia. destruct (j =? i); [injection Hw as <-; exact Hq|eapply Q; exact Hw].
  - rewrite zget_upd by lia. rewrite Z.eqb_refl. reflexivity.
  - rewrite zget_upd by lia. rewrite Z.eqb_refl. reflexivity.
  - intros j Hj. rewrite zget_upd by lia. destruct (Z.eqb_spec j i); [contradiction|reflexivity].
Qed.

Lemma zlen_cons {A} (x : A) l : zlen (x :: l) = zlen l + 1.
Proof. unfold zlen. cbn [length]. lia. Qed.

Lemma first_free_spec l : forall k,
  (exists v, zget l (first_free l k - k) = Some v /\ v_chn v = -1 /\ k <= first_free l k < k + zlen l) \/
  (first_free l k = k + zlen l /\ forall j v, zget l j = Some v -> v_chn v <> -1).
Proof.
  induction l as [|h t IH]; intros k; cbn [first_free].
  - right. split; [unfold zlen; cbn; lia|]. intros j v H. apply zget_range in H. unfold zlen in H. cbn in H. lia.
  - rewrite zlen_cons. destruct (Z.eqb_spec (v_chn h) (-1)) as [E|E].
    + left. exists h. rewrite Z.sub_diag. split; [reflexivity|]. split; [exact E|]. pose proof (Zle_0_nat (length t)). unfold zlen. lia.
    + destruct (IH (k + 1)) as [(v & Hv & Hc & Hr)|(Hr & Hall)].
      * left. exists v. rewrite zget_cons. destruct (Z.eqb_spec (first_free t (k + 1) - k) 0); [lia|].
        replace (first_free t (k + 1) - k - 1) with (first_free t (k + 1) - (k + 1)) by lia. split; [exact Hv|]. split; [exact Hc|lia].
      * right. split; [lia|]. intros j v Hj. rewrite zget_cons in Hj. destruct (j =? 0); [injection Hj as <-; exact E|eapply Hall; exact Hj].
Qed.

Lemma lowest_bg_spec nt l : forall i num vol,
  lowest_bg nt l i num vol = num \/
  (exists v, zget l (lowest_bg nt l i num vol - i) = Some v /\ nt <= v_chn v /\ i <= lowest_bg nt l i num vol).
Proof.
  induction l as [|h t IH]; intros i num vol; cbn [lowest_bg]; [left; reflexivity|].
  destruct ((nt <=? v_chn h) && (v_vol h <? vol)) eqn:E.
  - apply andb_prop in E as [E _]. apply Z.leb_le in E. right.
    destruct (IH (i + 1) i (v_vol h)) as [R|(v & Hv & Hc & Hr)].
    + rewrite R. exists h. rewrite Z.sub_diag. split; [reflexivity|]. split; [exact E|lia].
    + exists v. rewrite zget_cons. destruct (Z.eqb_spec (lowest_bg nt t (i + 1) i (v_vol h) - i) 0); [lia|].
      replace (lowest_bg nt t (i + 1) i (v_vol h) - i - 1) with (lowest_bg nt t (i + 1) i (v_vol h) - (i + 1)) by lia.
      split; [exact Hv|]. split; [exact Hc|lia].
  - destruct (IH (i + 1) num vol) as [R|(v & Hv & Hc & Hr)]; [left; exact R|right].
    exists v. rewrite zget_cons. destruct (Z.eqb_spec (lowest_bg nt t (i + 1) num vol - i) 0); [lia|].
    replace (lowest_bg nt t (i + 1) num vol - i - 1) with (lowest_bg nt t (i + 1) num vol - (i + 1)) by lia.
    split; [exact Hv|]. split; [exact Hc|lia].
Qed.

Lemma upd_upd {A} (l : list A) n x y : upd (upd l n x) n y = upd l n y.
Proof. revert n; induction l as [|h t IH]; intros [|n]; cbn [upd]; try reflexivity. f_equal. apply IH. Qed.

(* alloc_voice(ctx, chn) for a track channel, whatever the channel maps to *)
Lemma alloc_voice_spec s chn m0 : Inv s -> 0 <= chn < ntracks s -> getm s chn = Some m0 ->
  exists vf s', alloc_voice s chn = Some (vf, s') /\ shape s' = shape s /\
    ((vf < 0 /\ s' = s) \/
     (0 <= vf /\ InvD (fun j => j = m0) s' /\ getm s' chn = Some vf /\ vf <> m0 /\
      (exists v1, getv s' vf = Some v1 /\ v_chn v1 = chn) /\ (forall j, j <> vf -> getv s' j = getv s j))).
Proof.
  intros HI Hc Hm. pose proof (I_t _ _ HI) as It. pose proof (I_n _ _ HI) as In.
  assert (Hcv : 0 <= chn < vchans s) by lia.
  unfold alloc_voice. set (i0 := first_free (voices s) 0).
  destruct (first_free_spec (voices s) 0) as [(v0 & Hv0 & Hfree & Hr)|(Hr & Hall)]; fold i0 in Hv0 || fold i0 in Hr.
  - (* a free voice exists *)
    fold i0 in Hr. rewrite Z.sub_0_r in Hv0. fold (getv s i0) in Hv0. fold (maxvoc s) in Hr.
    destruct (Z.eqb_spec i0 (maxvoc s)); [lia|]. cbn [bind]. destruct (Z.leb_spec 0 i0); [|lia].
    rewrite addc_T by lia. cbn [bind].
    change (getv (setused (addcT s chn 1) (used (addcT s chn 1) + 1)) i0) with (getv s i0). rewrite Hv0. cbn [bind].
    rewrite setv_T by (red_st; lia). cbn [bind]. rewrite setm_T by (red_st; lia). cbn [bind].
    assert (Hq : virt s \/ v_act v0 = 0).
    { destruct (I_q _ _ HI) as [Q|Q]; [left; exact Q|right; eapply Q; exact Hv0]. }
    destruct (link_inv s i0 chn v0 m0 v0 HI Hv0 Hfree Hcv Hm Hq) as (A & B & C & E & F & G).
    exists i0, (linkT s i0 chn v0). split; [reflexivity|]. split; [exact B|]. right.
    split; [lia|]. split; [exact A|]. split; [exact C|]. split; [exact G|]. split; [|exact F].
    eexists. split; [exact E|reflexivity].
  - (* every voice is in use: steal the quietest background voice, if any *)
    fold (maxvoc s) in Hr. rewrite Z.add_0_l in Hr. destruct (Z.eqb_spec i0 (maxvoc s)); [|lia].
    unfold free_voice. set (num := lowest_bg (ntracks s) (voices s) 0 (-1) INT_MAX).
    destruct (lowest_bg_spec (ntracks s) (voices s) 0 (-1) INT_MAX) as [R|(v & Hv & Hbg & Hnum)]; fold num in R || fold num in Hv.
    + rewrite R. cbn [Z.leb Z.compare bind]. exists (-1), s. split; [reflexivity|]. split; [reflexivity|]. left. split; [lia|reflexivity].
    + fold num in Hnum. rewrite Z.sub_0_r in Hv. fold (getv s num) in Hv.
      destruct (Z.leb_spec 0 num); [|lia].
      destruct (inuse_facts s num v HI Hv ltac:(lia)) as (Hnr & Hvc & Hvr & Hvm).
      rewrite Hv. cbn [bind]. rewrite setm_T by lia. cbn [bind]. rewrite addc_T by (red_st; lia). cbn [bind].
      destruct (Z.leb_spec 0 num); [|lia].
      rewrite addc_T by (red_st; lia). cbn [bind].
      match goal with |- context [getv ?st num] => change (getv st num) with (getv s num) end. rewrite Hv. cbn [bind].
      rewrite setv_T by (red_st; lia). cbn [bind]. rewrite setm_T by (red_st; lia). cbn [bind].
      destruct (unlink_inv s num v HI Hv ltac:(lia)) as [IU SU].
      assert (HgU : getv (unlinkT s num v) num = Some vfree).
      { unfold unlinkT. red_st. rewrite zget_upd by lia. rewrite Z.eqb_refl. reflexivity. }
      assert (HmU : getm (unlinkT s num v) chn = Some m0).
      { unfold unlinkT. red_st. rewrite zget_upd by lia. destruct (Z.eqb_spec chn (v_chn v)); [lia|exact Hm]. }
      assert (Hq : virt (unlinkT s num v) \/ v_act v = 0).
      { destruct (I_q _ _ HI) as [Q|Q]; [left; eapply virt_shape; [exact SU|exact Q]|right; eapply Q; exact Hv]. }
      pose proof (shape_maxvoc _ _ SU) as (SU1 & SU2 & SU3 & SU4).
      destruct (link_inv (unlinkT s num v) num chn v m0 vfree IU HgU eq_refl ltac:(lia) HmU Hq) as (A & B & C & E & F & G).
      assert (Heq : linkT (unlinkT s num v) num chn v =
                    setmT (setvT (setused (addcT (setused (addcT (setmT s (v_chn v) (-1)) (v_root v) (-1)) (used (addcT (setmT s (v_chn v) (-1)) (v_root v) (-1)) - 1)) chn 1)
                                   (used (addcT (setused (addcT (setmT s (v_chn v) (-1)) (v_root v) (-1)) (used (addcT (setmT s (v_chn v) (-1)) (v_root v) (-1)) - 1)) chn 1) + 1))
                                 num (mkV chn chn (v_act v) (v_vol v) (v_ins v) (v_smp v) (v_key v))) chn num).
      { unfold linkT, unlinkT, setmT, setvT, addcT, setused. cbn [voices vmap vcount used ntracks mute]. rewrite upd_upd. reflexivity. }
      rewrite <- Heq.
      exists num, (linkT (unlinkT s num v) num chn v). split; [reflexivity|]. split; [congruence|]. right.
      split; [lia|]. split; [exact A|]. split; [exact C|]. split; [exact G|]. split.
      * eexists. split; [exact E|reflexivity].
      * intros j Hj. rewrite F by exact Hj. unfold unlinkT. red_st. rewrite zget_upd by lia. destruct (Z.eqb_spec j num); [contradiction|reflexivity].
Qed.

(* ------------------------------------------------------------------ relabel: the old voice moves to a free background channel *)
Definition relabelT (s : vst) (voc : Z) (v : voice) (c : Z) : vst := setmT (setvT s voc (with_chn v c)) c voc.

Lemma relabel_inv s voc v c vf :
  InvD (fun j => j = voc) s -> getv s voc = Some v -> 0 <= v_chn v -> getm s (v_chn v) = Some vf -> vf <> voc ->
  0 <= c < vchans s -> getm s c = Some (-1) ->
  Inv (relabelT s voc v c) /\ shape (relabelT s voc v c) = shape s /\
  (forall j, j <> voc -> getv (relabelT s voc v c) j = getv s j).
Proof.
  intros HI Hv Huse Hmv Hne Hc Hfree. pose proof (zget_range _ _ _ Hv) as Hvr.
  destruct HI as [Iv Ic Iu In It Iq]. unfold relabelT. red_st.
  assert (Hroot : 0 <= v_root v < zlen (vmap s)).
  { destruct (Iv voc v Hv) as [[F _]|(_ & B & _)]; lia. }
  split; [|split; [reflexivity|]].
  - constructor; red_st.
    + intros j w Hw. pose proof (zget_range _ _ _ Hw) as Hjr. rewrite zlen_upd in Hjr. rewrite zget_upd in Hw by lia.
      destruct (Z.eqb_spec j voc) as [->|Hn].
      * injection Hw as <-. right. cbn [with_chn v_chn v_root]. repeat split; try lia. right. rewrite zget_upd by lia. rewrite Z.eqb_refl. reflexivity.
      * destruct (Iv j w Hw) as [F|(A & B & [C|C])]; [left; exact F|contradiction|right]. repeat split; try lia. right.
        rewrite zget_upd by lia. destruct (Z.eqb_spec (v_chn w) c) as [E|_]; [|exact C]. rewrite E, Hfree in C. injection C as C. lia.
    + intros c' m Hm'. rewrite zget_upd in Hm' by lia. destruct (Z.eqb_spec c' c) as [->|Hn].
      * injection Hm' as <-. right. eexists. rewrite zget_upd by lia. rewrite Z.eqb_refl. split; reflexivity.
      * destruct (Ic c' m Hm') as [F|(w & Hw & Hcw)]; [left; exact F|right]. exists w. split; [|exact Hcw].
        rewrite zget_upd by lia. destruct (Z.eqb_spec m voc) as [->|_]; [|exact Hw].
        rewrite Hv in Hw. injection Hw as <-. rewrite Hcw in Hmv. congruence.
    + rewrite (count_used_upd _ _ _ _ Hv). unfold in_use. cbn [with_chn v_chn].
      destruct (Z.leb_spec 0 (v_chn v)); [|lia]. destruct (Z.leb_spec 0 c); [|lia]. cbn. lia.
    + exact In.
    + exact It.
    + destruct Iq as [Q|Q]; [left; exact Q|right].
      intros j w Hw. rewrite zget_upd in Hw by lia. destruct (j =? voc); [injection Hw as <-; cbn [with_chn v_act]; eapply Q; exact Hv|eapply Q; exact Hw].
  - intros j Hj. rewrite zget_upd by lia. destruct (Z.eqb_spec j voc); [contradiction|reflexivity].
Qed.

Lemma bg_search_spec s : forall fuel c0,
  (forall c m, getm s c = Some m -> m = -1 \/ 0 <= m) ->
  (exists c', c0 <= c' < vchans s /\ getm s c' = Some (-1)) -> vchans s - c0 <= Z.of_nat fuel -> 0 <= c0 ->
  exists c, bg_search fuel s c0 = Some (c + 1) /\ c0 <= c < vchans s /\ getm s c = Some (-1).
Proof.
  induction fuel as [|f IH]; intros c0 Hall (c' & Hc' & Hf) Hfuel H0; [lia|].
  cbn [bg_search]. destruct (Z.ltb_spec c0 (vchans s)); [|lia].
  destruct (zget_some (vmap s) c0 ltac:(unfold vchans in *; lia)) as [m Hm]. fold (getm s c0) in Hm. rewrite Hm. cbn [bind].
  destruct (Z.ltb_spec (-1) m) as [Hlt|Hge].
  - assert (c0 <> c') by (intro E; subst c'; rewrite Hm in Hf; injection Hf as Hf; lia).
    destruct (IH (c0 + 1) Hall) as (c & E & Hr & Hg); [exists c'; split; [lia|exact Hf]|lia|lia|].
    exists c. split; [exact E|]. split; [lia|exact Hg].
  - destruct (Hall c0 m Hm) as [E|E]; [|lia]. subst m. exists c0. split; [reflexivity|]. split; [lia|exact Hm].
Qed.

(* pigeonhole: with virtual channels a free background channel exists whenever some voice sits on a track channel *)
Lemma NoDup_map_inj {A B} (f : A -> B) l :
  NoDup l -> (forall x y, In x l -> In y l -> f x = f y -> x = y) -> NoDup (map f l).
Proof.
  induction 1 as [|a l Hn Hnd IH]; intros Hinj; cbn; [constructor|]. constructor.
  - intro Hin. apply in_map_iff in Hin as (y & Ey & Hy). apply Hn.
    assert (y = a) by (apply Hinj; cbn; auto). subst; exact Hy.
  - apply IH. intros x y Hx Hy. apply Hinj; cbn; auto.
Qed.
Definition zrange (lo n : Z) : list Z := map (fun k => lo + Z.of_nat k) (seq 0 (Z.to_nat n)).
Lemma in_zrange lo n x : In x (zrange lo n) <-> lo <= x < lo + Z.max 0 n.
Proof.
  unfold zrange. rewrite in_map_iff. split.
  - intros (k & <- & Hk). apply in_seq in Hk. lia.
  - intros H. exists (Z.to_nat (x - lo)). split; [lia|]. apply in_seq. lia.
Qed.
Lemma zrange_length lo n : length (zrange lo n) = Z.to_nat n.
Proof. unfold zrange. now rewrite map_length, seq_length. Qed.
Lemma zrange_nodup lo n : NoDup (zrange lo n).
Proof. unfold zrange. apply NoDup_map_inj; [apply seq_NoDup|]. intros; lia. Qed.
Lemma filter_len_le {A} (p : A -> bool) l : (length (filter p l) <= length l)%nat.
Proof. induction l as [|h t IH]; cbn; [lia|]. destruct (p h); cbn; lia. Qed.
Lemma filter_drop_one (x : Z) l : In x l -> (length (filter (fun i => negb (Z.eqb i x)) l) < length l)%nat.
Proof.
  induction l as [|h t IH]; intros Hin; [destruct Hin|]. cbn [filter length]. destruct Hin as [->|Hin].
  - rewrite Z.eqb_refl. cbn [negb]. pose proof (filter_len_le (fun i => negb (i =? x)) t). lia.
  - specialize (IH Hin). destruct (negb (h =? x)); cbn [length]; lia.
Qed.

Lemma free_bg_exists D s vf w : InvD D s -> virt s -> getv s vf = Some w -> v_chn w < ntracks s ->
  exists c, ntracks s <= c < vchans s /\ getm s c = Some (-1).
Proof.
  intros HI Hvirt Hw Hfg. pose proof (I_t _ _ HI) as It. pose proof (zget_range _ _ _ Hw) as Hvfr. fold (maxvoc s) in Hvfr.
  set (nt := ntracks s) in *. set (B := zrange nt (vchans s - nt)).
  set (g := fun c => match getm s c with Some m => m | None => -1 end).
  destruct (existsb (fun c => g c =? -1) B) eqn:Ex.
  - apply existsb_exists in Ex as (c & Hc & Ec). apply in_zrange in Hc. apply Z.eqb_eq in Ec. exists c. split; [lia|].
    unfold g in Ec. destruct (zget_some (vmap s) c ltac:(unfold vchans in *; lia)) as [m Hm]. fold (getm s c) in Hm. rewrite Hm in Ec. subst m. exact Hm.
  - exfalso.
    assert (Hall : forall c, In c B -> 0 <= g c < maxvoc s /\ exists v, getv s (g c) = Some v /\ v_chn v = c).
    { intros c Hc. assert (g c <> -1) as Hn.
      { intro E. assert (existsb (fun c => g c =? -1) B = true) as T by (apply existsb_exists; exists c; split; [exact Hc|apply Z.eqb_eq; exact E]). congruence. }
      apply in_zrange in Hc. unfold g in *. destruct (zget_some (vmap s) c ltac:(unfold vchans in *; lia)) as [m Hm]. fold (getm s c) in Hm. rewrite Hm in *.
      destruct (mapped_facts _ s c m HI Hm Hn) as (_ & R & v & Hv & Hcv). split; [exact R|]. exists v. split; assumption. }
    set (L := map g B).
    assert (NoDup L) as HL.
    { apply NoDup_map_inj; [apply zrange_nodup|]. intros x y Hx Hy E.
      destruct (Hall x Hx) as (_ & vx & Hvx & Ax). destruct (Hall y Hy) as (_ & vy & Hvy & Ay). rewrite E in Hvx. congruence. }
    set (T := filter (fun i => negb (i =? vf)) (zrange 0 (maxvoc s))).
    assert (incl L T) as Hincl.
    { intros i Hi. apply in_map_iff in Hi as (c & <- & Hc). destruct (Hall c Hc) as (R & v & Hv & Ec).
      apply filter_In. split; [apply in_zrange; lia|]. apply negb_true_iff, Z.eqb_neq. intro E. rewrite E in Hv.
      apply in_zrange in Hc. rewrite Hw in Hv. injection Hv as <-. lia. }
    pose proof (NoDup_incl_length HL Hincl) as Hlen.
    assert (length L = Z.to_nat (vchans s - nt)) as HlenL by (unfold L, B; rewrite map_length; apply zrange_length).
    assert (length T < Z.to_nat (maxvoc s))%nat as HlenT.
    { unfold T. rewrite <- (zrange_length 0 (maxvoc s)). apply filter_drop_one. apply in_zrange. lia. }
    unfold virt in Hvirt. fold nt in Hvirt. lia.
Qed.

Lemma InvD_weaken (D D' : Z -> Prop) s : InvD D s -> (forall i, 0 <= i < maxvoc s -> D i -> D' i) -> InvD D' s.
Proof.
  intros [Iv Ic Iu In It Iq] H. constructor; try assumption.
  intros i v Hv. pose proof (zget_range _ _ _ Hv) as Hr. fold (maxvoc s) in Hr.
  destruct (Iv i v Hv) as [F|(A & B & [C|C])]; [left; exact F|right|right]; repeat split; try lia; [left; apply H; assumption|right; exact C].
Qed.

(* ------------------------------------------------------------------ libxmp_virt_setpatch *)
(* the voice-acquisition phase: the result is either "no voice" or a voice in use *)
Definition acquire (s : vst) (chn : Z) : option (option (Z * Z) * vst) :=
  voc <- getm s chn ;;
  (if -1 <? voc then
     v <- getv s voc ;;
     if negb (v_act v =? 0) then
       a <- alloc_voice s chn ;;
       let '(vf, s) := a in
       if vf <? 0 then Some (None, s)
       else
         c <- bg_search (length (vmap s)) s (ntracks s) ;;
         let c := c - 1 in
         v <- getv s voc ;;
         s <- setv s voc (with_chn v c) ;;
         s <- setm s c voc ;;
         Some (Some (c, vf), s)
     else Some (Some (chn, voc), s)
   else
     a <- alloc_voice s chn ;;
     let '(vf, s) := a in
     if vf <? 0 then Some (None, s) else Some (Some (chn, vf), s)).

Lemma acquire_inv s chn : Inv s -> 0 <= chn < ntracks s ->
  exists cv s', acquire s chn = Some (cv, s') /\ Inv s' /\ shape s' = shape s /\
    match cv with None => True | Some (_, voc) => exists v, getv s' voc = Some v /\ 0 <= v_chn v end.
Proof.
  intros HI Hc. pose proof (I_t _ _ HI) as It. unfold acquire.
  destruct (zget_some (vmap s) chn ltac:(unfold vchans in *; lia)) as [voc Hvoc]. fold (getm s chn) in Hvoc. rewrite Hvoc. cbn [bind].
  destruct (alloc_voice_spec s chn voc HI Hc Hvoc) as (vf & s1 & Ea & Sa & Ha).
  destruct (Z.ltb_spec (-1) voc) as [Hlt|Hge].
  - destruct (mapped_facts _ s chn voc HI Hvoc ltac:(lia)) as (_ & Hvr & v & Hv & Hcv). rewrite Hv. cbn [bind].
    destruct (Z.eqb_spec (v_act v) 0) as [Eact|Eact]; cbn [negb].
    { exists (Some (chn, voc)), s. split; [reflexivity|]. split; [exact HI|]. split; [reflexivity|]. exists v. split; [exact Hv|lia]. }
    assert (Hvirt : virt s) by (destruct (I_q _ _ HI) as [Q|Q]; [exact Q|exfalso; apply Eact; eapply Q; exact Hv]).
    rewrite Ea. cbn [bind]. destruct Ha as [[Hneg ->]|(Hpos & I1 & Hm1 & Hne & (v1 & Hv1 & Hc1) & Hoth)].
    { destruct (Z.ltb_spec vf 0); [|lia]. exists None, s. auto. }
    destruct (Z.ltb_spec vf 0); [lia|].
    pose proof (shape_maxvoc _ _ Sa) as (S1 & S2 & S3 & S4).
    destruct (free_bg_exists _ s1 vf v1 I1 (virt_shape _ _ Sa Hvirt) Hv1 ltac:(lia)) as (c' & Hc' & Hf').
    destruct (bg_search_spec s1 (length (vmap s1)) (ntracks s1)) as (c & Ec & Hcr & Hcf).
    { intros c0 m Hm. destruct (I_c _ _ I1 c0 m Hm) as [F|(w & Hw & _)]; [left; exact F|right]. apply zget_range in Hw. lia. }
    { exists c'. split; assumption. }
    { unfold vchans, zlen. lia. }
    { lia. }
    rewrite Ec. cbn [bind]. replace (c + 1 - 1) with c by lia.
    assert (Hv' : getv s1 voc = Some v) by (rewrite Hoth by congruence; exact Hv).
    rewrite Hv'. cbn [bind]. rewrite setv_T by lia. cbn [bind]. rewrite setm_T by (red_st; lia). cbn [bind].
    destruct (relabel_inv s1 voc v c vf I1 Hv' ltac:(lia) ltac:(rewrite Hcv; exact Hm1) Hne ltac:(lia) Hcf) as (I2 & S2' & Hoth2).
    exists (Some (c, vf)), (relabelT s1 voc v c). split; [reflexivity|]. split; [exact I2|]. split; [congruence|].
    exists v1. split; [rewrite Hoth2 by exact Hne; exact Hv1|lia].
  - rewrite Ea. cbn [bind]. destruct Ha as [[Hneg ->]|(Hpos & I1 & Hm1 & Hne & (v1 & Hv1 & Hc1) & Hoth)].
    { destruct (Z.ltb_spec vf 0); [|lia]. exists None, s. auto. }
    destruct (Z.ltb_spec vf 0); [lia|].
    exists (Some (chn, vf)), s1. split; [reflexivity|]. split; [|split; [exact Sa|exists v1; split; [exact Hv1|lia]]].
    eapply InvD_weaken; [exact I1|]. intros i Hi E. unfold noD. cbv beta in E. lia.
Qed.

Lemma setpatch_acquire s chn ins smp key nna dct dca :
  setpatch s chn ins smp key nna dct dca =
  if uge chn (vchans s) then Some (-1, s)
  else
    let smp := if ins <? 0 then -1 else smp in
    s <- (if negb (dct =? 0) then dct_loop (length (voices s)) 0 s chn ins smp key nna dct dca else Some s) ;;
    r <- acquire s chn ;;
    let '(cv, s) := r in
    match cv with
    | None => Some (-1, s)
    | Some (chn, voc) =>
        if smp <? 0 then s <- resetvoice s voc ;; Some (chn, s)
        else
          v <- getv s voc ;;
          s <- setv s voc (mkV (v_chn v) (v_root v) nna 0 ins smp key) ;;
          Some (chn, s)
    end.
Proof.
  unfold setpatch, acquire. destruct (uge chn (vchans s)); [reflexivity|]. cbv zeta.
  destruct (if negb (dct =? 0) then _ else _) as [s1|]; [|reflexivity]. cbn [bind].
  destruct (getm s1 chn) as [voc|]; reflexivity.
Qed.

Lemma setpatch_inv s chn ins smp key nna dct dca :
  Inv s -> (uge chn (vchans s) = true \/ (0 <= chn < ntracks s /\ (virt s \/ nna = 0))) ->
  exists r s', setpatch s chn ins smp key nna dct dca = Some (r, s') /\ Inv s' /\ shape s' = shape s.
Proof.
  intros HI Hok. rewrite setpatch_acquire. destruct (uge chn (vchans s)) eqn:Eu; [exists (-1), s; auto|].
  destruct Hok as [Hok|(Hc & Hq)]; [discriminate|]. pose proof (I_t _ _ HI) as It. cbv zeta.
  set (smp' := if ins <? 0 then -1 else smp).
  assert (H1 : exists s1, (if negb (dct =? 0) then dct_loop (length (voices s)) 0 s chn ins smp' key nna dct dca else Some s) = Some s1 /\ Inv s1 /\ shape s1 = shape s).
  { destruct (negb (dct =? 0)); [|exists s; auto]. apply dct_loop_inv; try assumption; try lia. unfold maxvoc, zlen. lia. }
  destruct H1 as (s1 & E1 & I1 & S1). rewrite E1. cbn [bind]. pose proof (shape_maxvoc _ _ S1) as (A1 & B1 & C1 & _).
  destruct (acquire_inv s1 chn I1 ltac:(lia)) as (cv & s2 & E2 & I2 & S2 & Hcv). rewrite E2. cbn [bind].
  destruct cv as [[chn' voc]|]; [|exists (-1), s2; split; [reflexivity|split; [exact I2|congruence]]].
  destruct Hcv as (v & Hv & Huse).
  destruct (smp' <? 0).
  - destruct (resetvoice_inv s2 voc I2) as (s3 & E3 & I3 & S3); [right; exists v; split; assumption|].
    rewrite E3. cbn [bind]. exists chn', s3. split; [reflexivity|]. split; [exact I3|congruence].
  - rewrite Hv. cbn [bind].
    destruct (setv_same_step noD s2 voc v (mkV (v_chn v) (v_root v) nna 0 ins smp' key) I2 Hv eq_refl eq_refl) as (s3 & E3 & I3 & S3 & _).
    { destruct Hq as [Q|Q]; [left; eapply virt_shape; [exact S2|eapply virt_shape; [exact S1|exact Q]]|right; exact Q]. }
    rewrite E3. cbn [bind]. exists chn', s3. split; [reflexivity|]. split; [exact I3|congruence].
Qed.

Lemma queuepatch_inv s chn ins smp :
  Inv s -> (uge chn (vchans s) = true \/ 0 <= chn < ntracks s) ->
  exists r s', queuepatch s chn ins smp = Some (r, s') /\ Inv s' /\ shape s' = shape s.
Proof.
  intros HI Hok. unfold queuepatch. destruct (uge chn (vchans s)) eqn:Eu; [exists (-1), s; auto|].
  destruct Hok as [Hok|Hc]; [discriminate|]. pose proof (I_t _ _ HI) as It. cbv zeta.
  destruct (zget_some (vmap s) chn ltac:(unfold vchans in *; lia)) as [voc Hvoc]. fold (getm s chn) in Hvoc. rewrite Hvoc. cbn [bind].
  destruct (Z.ltb_spec (-1) voc) as [Hlt|Hge].
  - destruct (mapped_facts _ s chn voc HI Hvoc ltac:(lia)) as (_ & Hvr & v & Hv & Hcv). rewrite Hv. cbn [bind].
    destruct (0 <=? ins).
    + destruct (setv_same_step noD s voc v (mkV (v_chn v) (v_root v) (v_act v) (v_vol v) ins (v_smp v) (v_key v)) HI Hv eq_refl eq_refl) as (s1 & E1 & I1 & S1 & _).
      { destruct (I_q _ _ HI) as [Q|Q]; [left; exact Q|right; cbn [v_act]; eapply Q; exact Hv]. }
      rewrite E1. cbn [bind]. exists chn, s1. auto.
    + cbn [bind]. exists chn, s. auto.
  - destruct ((if ins <? 0 then -1 else smp) <? 0); [exists (-1), s; auto|].
    apply setpatch_inv; [exact HI|]. right. split; [exact Hc|right; reflexivity].
Qed.

(* ------------------------------------------------------------------ libxmp_virt_pastnote *)
Lemma pastnote_loop_inv n : forall c s chn act, Inv s ->
  exists s', pastnote_loop n c s chn act = Some s' /\ Inv s' /\ shape s' = shape s.
Proof.
  induction n as [|n IH]; intros c s chn act HI; cbn [pastnote_loop]; [exists s; auto|].
  destruct (c <? vchans s); [|exists s; auto].
  assert (H1 : exists s1, (voc <- map_virt_channel s c ;;
                           (if voc <? 0 then Some s else v <- getv s voc ;; if (v_root v =? chn) && (act =? 0) then resetvoice s voc else Some s)) = Some s1 /\ Inv s1 /\ shape s1 = shape s).
  { destruct (map_virt_channel_spec s c HI) as [E|(voc & v & E & Hvoc & Hchn & Hm & Hv & Hc)]; rewrite E; cbn [bind].
    - exists s. auto.
    - destruct (Z.ltb_spec voc 0); [lia|]. rewrite Hv. cbn [bind].
      destruct ((v_root v =? chn) && (act =? 0)); [|exists s; auto].
      apply resetvoice_inv; [exact HI|]. right. exists v. split; [exact Hv|lia]. }
  destruct H1 as (s1 & E1 & I1 & S1).
  destruct (map_virt_channel s c) as [voc|] eqn:Emv; [|discriminate]. cbn [bind] in E1 |- *.
  rewrite E1. cbn [bind]. destruct (IH (c + 1) s1 chn act I1) as (s2 & E2 & I2 & S2).
  exists s2. split; [exact E2|]. split; [exact I2|congruence].
Qed.

(* ------------------------------------------------------------------ libxmp_virt_reset *)
Lemma zget_map {A B} (f : A -> B) l i : zget (map f l) i = option_map f (zget l i).
Proof. unfold zget. destruct (i <? 0); [reflexivity|]. apply nth_error_map. Qed.

Lemma virt_reset_Inv s : Inv s -> Inv (virt_reset s) /\ shape (virt_reset s) = shape s.
Proof.
  intros HI. pose proof (I_n _ _ HI) as In. pose proof (I_t _ _ HI) as It.
  destruct (Z.ltb_spec (vchans s) 1) as [Hlt|Hge].
  - unfold virt_reset. destruct (Z.ltb_spec (vchans s) 1); [|lia]. auto.
  - split.
    + apply Inv_of_invb; [apply virt_reset_inv; assumption|]. right. unfold virt_reset. destruct (Z.ltb_spec (vchans s) 1); [lia|].
      intros i v Hv. unfold getv in Hv. cbn [voices] in Hv. rewrite zget_map in Hv. destruct (zget (voices s) i); [|discriminate].
      cbn in Hv. injection Hv as <-. reflexivity.
    + unfold virt_reset. destruct (Z.ltb_spec (vchans s) 1); [lia|]. unfold shape, maxvoc, vchans, zlen. cbn [voices vmap ntracks mute].
      rewrite !map_length. reflexivity.
Qed.

(* ------------------------------------------------------------------ every operation of the differential driver *)
Lemma vstep_inv s o : Inv s -> op_okb s o = true ->
  exists r s', vstep s o = Some (r, s') /\ Inv s' /\ shape s' = shape s.
Proof.
  intros HI Hok. destruct o as [|voc|c|c vol|c nna|c i sm k nna d a|c i sm|c a]; cbn [vstep op_okb] in *.
  - exists 0, (virt_reset s). split; [reflexivity|apply virt_reset_Inv; exact HI].
  - destruct (resetvoice_inv s voc HI) as (s' & E & I' & S').
    { apply orb_prop in Hok as [H|H]; [left; exact H|right]. destruct (getv s voc) as [v|]; [|discriminate].
      exists v. split; [reflexivity|]. unfold in_use in H. apply Z.leb_le in H. exact H. }
    rewrite E. cbn [bind]. exists 0, s'. auto.
  - destruct (resetchannel_inv s c HI) as (s' & E & I' & S'). rewrite E. cbn [bind]. exists 0, s'. auto.
  - destruct (setvol_inv s c vol HI) as (s' & E & I' & S'). rewrite E. cbn [bind]. exists 0, s'. auto.
  - destruct (setnna_inv s c nna HI) as (s' & E & I' & S').
    { apply orb_prop in Hok as [H|H]; [left; apply virtb_iff; exact H|right; apply Z.eqb_eq; exact H]. }
    rewrite E. cbn [bind]. exists 0, s'. auto.
  - apply setpatch_inv; [exact HI|]. apply orb_prop in Hok as [H|H]; [left; exact H|right].
    apply andb_prop in H as [H Hq]. apply andb_prop in H as [H1 H2]. apply Z.leb_le in H1. apply Z.ltb_lt in H2. split; [lia|].
    apply orb_prop in Hq as [Q|Q]; [left; apply virtb_iff; exact Q|right; apply Z.eqb_eq; exact Q].
  - apply queuepatch_inv; [exact HI|]. apply orb_prop in Hok as [H|H]; [left; exact H|right].
    apply andb_prop in H as [H1 H2]. apply Z.leb_le in H1. apply Z.ltb_lt in H2. lia.
  - destruct (pastnote_loop_inv (length (vmap s)) (ntracks s) s c a HI) as (s' & E & I' & S').
    unfold pastnote. rewrite E. cbn [bind]. exists 0, s'. auto.
Qed.

(* every state reachable through operations whose arguments meet op_okb *)
Inductive reach : vst -> vst -> Prop :=
| reach_refl s : reach s s
| reach_step s o r s1 s2 : op_okb s o = true -> vstep s o = Some (r, s1) -> reach s1 s2 -> reach s s2.

Lemma reach_inv s s' : reach s s' -> Inv s -> Inv s' /\ shape s' = shape s.
Proof.
  induction 1 as [s|s o r s1 s2 Hok Hstep Hreach IH]; intros HI; [auto|].
  destruct (vstep_inv s o HI Hok) as (r' & s1' & E & I1 & S1). rewrite Hstep in E. injection E as <- <-.
  destruct (IH I1) as [I2 S2]. split; [exact I2|congruence].
Qed.
