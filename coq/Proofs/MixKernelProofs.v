(* C14 / C01: properties of the mixing-kernel model (Model/MixKernel.v): voices superpose, a kernel touches only its frames,
   positions in closed form, reads stay inside the window the mixer's segment rule guarantees, gain laws, value ranges. *)
From Coq Require Import ZArith List Lia Bool Arith.
Import ListNotations.
From LX Require Import Base.ListAux Generated.MixTables Model.MixKernel.
Local Open Scope Z_scope.
Ltac Zify.zify_post_hook ::= Z.div_mod_to_equations.

(* ---------- tables and constants ---------- *)

Lemma lut0_len : length cubic_spline_lut0 = 1024%nat. Proof. vm_compute. reflexivity. Qed.
Lemma lut1_len : length cubic_spline_lut1 = 1024%nat. Proof. vm_compute. reflexivity. Qed.
Lemma lut2_len : length cubic_spline_lut2 = 1024%nat. Proof. vm_compute. reflexivity. Qed.
Lemma lut3_len : length cubic_spline_lut3 = 1024%nat. Proof. vm_compute. reflexivity. Qed.
Local Opaque cubic_spline_lut0 cubic_spline_lut1 cubic_spline_lut2 cubic_spline_lut3.

Lemma shift_val : C_SMIX_SHIFT = 16. Proof. reflexivity. Qed.
Lemma mask_val : C_SMIX_MASK = Z.ones 16. Proof. reflexivity. Qed.
Lemma pow16 : 2 ^ 16 = 65536. Proof. reflexivity. Qed.

Definition ochn (c : kcfg) : nat := if k_sout c then 2%nat else 1%nat.

(* ---------- 1. add_into ---------- *)

Lemma add_into_spec : forall contrib buf r, add_into buf contrib = Some r ->
  (length contrib <= length buf)%nat /\ length r = length buf /\
  (forall i, (i < length contrib)%nat -> nth i r 0 = nth i buf 0 + nth i contrib 0) /\
  (forall i, (length contrib <= i)%nat -> nth i r 0 = nth i buf 0).
Proof.
  induction contrib as [|x t IH]; intros buf r H.
  - assert (Hr : r = buf) by (destruct buf; cbn [add_into] in H; congruence). subst r.
    cbn [length]. repeat split; try lia. intros i Hi; lia.
  - destruct buf as [|b bt]; cbn [add_into] in H; [discriminate|].
    destruct (add_into bt t) as [r0|] eqn:E; [|discriminate]. injection H as <-.
    destruct (IH _ _ E) as (H1 & H2 & H3 & H4). cbn [length]. repeat split; try lia.
    + intros [|i] Hi; cbn [nth]; [reflexivity|]. apply H3. lia.
    + intros [|i] Hi; cbn [nth]; [lia|]. apply H4. lia.
Qed.

Lemma add_into_some : forall contrib buf, (length contrib <= length buf)%nat -> add_into buf contrib <> None.
Proof.
  induction contrib as [|x t IH]; intros buf H.
  - destruct buf; cbn [add_into]; discriminate.
  - destruct buf as [|b bt]; cbn [length] in H; [lia|]. cbn [add_into].
    destruct (add_into bt t) eqn:E; [discriminate|]. exfalso. apply (IH bt); [lia|assumption].
Qed.

Theorem kernel_additive : forall c m a count ramp s buf1 buf2 r1 f1,
  length buf1 = length buf2 -> kernel c m a count ramp s buf1 = Some (r1, f1) ->
  exists r2, kernel c m a count ramp s buf2 = Some (r2, f1) /\ length r1 = length buf1 /\ length r2 = length buf2 /\
    forall i, nth i r1 0 - nth i buf1 0 = nth i r2 0 - nth i buf2 0.
Proof.
  intros c m a count ramp s buf1 buf2 r1 f1 Hlen H. unfold kernel in *.
  destruct (contributions c m a count ramp s) as [[contrib s']|]; [|discriminate].
  destruct (add_into buf1 contrib) as [b1|] eqn:E1; [|discriminate]. injection H as <- <-.
  destruct (add_into_spec _ _ _ E1) as (L1 & L2 & L3 & L4).
  destruct (add_into buf2 contrib) as [b2|] eqn:E2.
  - destruct (add_into_spec _ _ _ E2) as (M1 & M2 & M3 & M4).
    exists b2. repeat split; try assumption. intros i.
    destruct (Nat.lt_ge_cases i (length contrib)) as [Hi|Hi].
    + rewrite (L3 i Hi), (M3 i Hi). lia.
    + rewrite (L4 i Hi), (M4 i Hi). lia.
  - exfalso. apply (add_into_some contrib buf2); [lia|assumption].
Qed.

(* ---------- one step: shape ---------- *)

Lemma kstep_inv c m a ac s outs s' : kstep c m a ac s = Some (outs, s') ->
  exists s1, s' = advance (chn_of c) (a_step a) s1 /\ s_pos s1 = s_pos s /\ s_frac s1 = s_frac s /\ length outs = ochn c.
Proof.
  unfold kstep. destruct (fetch c m s 0) as [l0|]; [|discriminate].
  destruct (if k_sin c then fetch c m s 1 else Some l0) as [r0|]; [|discriminate].
  destruct (if k_filter c then _ else _) as [[l l1'] l2'].
  destruct (if k_filter c && k_sin c then _ else _) as [[r r1'] r2'].
  intros H. injection H as <- <-. eexists. split; [reflexivity|]. cbn [s_pos s_frac]. unfold ochn.
  destruct (k_sout c); repeat split; reflexivity.
Qed.

Lemma kloop_length : forall n c m a ac s acc acc' s', kloop n c m a ac s acc = Some (acc', s') ->
  length acc' = (length acc + n * ochn c)%nat.
Proof.
  induction n as [|n IH]; intros c m a ac s acc acc' s' H; cbn [kloop] in H.
  - injection H as <- <-. lia.
  - destruct (kstep c m a ac s) as [[outs s1]|] eqn:E; [|discriminate].
    apply IH in H. destruct (kstep_inv _ _ _ _ _ _ _ E) as (s0 & _ & _ & _ & Hl).
    rewrite H, rev_append_rev, app_length, rev_length, Hl. lia.
Qed.

Lemma contributions_length c m a count ramp s contrib s' : contributions c m a count ramp s = Some (contrib, s') ->
  length contrib = (Z.to_nat (Z.max 0 count) * ochn c)%nat.
Proof.
  unfold contributions. destruct (k_interp c).
  - destruct (kloop _ _ _ _ _ _ _) as [[acc s1]|] eqn:E; [|discriminate]. intros H; injection H as <- <-.
    apply kloop_length in E. rewrite rev_append_rev, app_nil_r, rev_length, E. cbn [length]. lia.
  - destruct (kloop _ c m a true s []) as [[acc s1]|] eqn:E; [|discriminate].
    destruct (kloop _ c m a false s1 acc) as [[acc2 s2]|] eqn:E2; [|discriminate]. intros H; injection H as <- <-.
    apply kloop_length in E. apply kloop_length in E2. rewrite rev_append_rev, app_nil_r, rev_length, E2, E. cbn [length].
    rewrite <- Nat.add_assoc, <- Nat.mul_add_distr_r, <- Z2Nat.inj_add by lia. f_equal. f_equal. lia.
  - destruct (kloop _ c m a true s []) as [[acc s1]|] eqn:E; [|discriminate].
    destruct (kloop _ c m a false s1 acc) as [[acc2 s2]|] eqn:E2; [|discriminate]. intros H; injection H as <- <-.
    apply kloop_length in E. apply kloop_length in E2. rewrite rev_append_rev, app_nil_r, rev_length, E2, E. cbn [length].
    rewrite <- Nat.add_assoc, <- Nat.mul_add_distr_r, <- Z2Nat.inj_add by lia. f_equal. f_equal. lia.
Qed.

Theorem kernel_touches_only_its_frames : forall c m a count ramp s buf r f, kernel c m a count ramp s buf = Some (r, f) ->
  forall i, (Z.to_nat (Z.max 0 count) * (if k_sout c then 2 else 1) <= i)%nat -> nth i r 0 = nth i buf 0.
Proof.
  intros c m a count ramp s buf r f H i Hi. unfold kernel in H.
  destruct (contributions c m a count ramp s) as [[contrib s']|] eqn:E; [|discriminate].
  destruct (add_into buf contrib) as [b1|] eqn:E1; [|discriminate]. injection H as <- <-.
  destruct (add_into_spec _ _ _ E1) as (_ & _ & _ & L4). apply L4.
  rewrite (contributions_length _ _ _ _ _ _ _ _ E). unfold ochn. exact Hi.
Qed.

(* ---------- 2. positions ---------- *)

Lemma advance_spec : forall chn d s, 0 <= s_frac s < 65536 ->
  s_pos (advance chn d s) = s_pos s + (s_frac s + d) / 65536 * chn /\ s_frac (advance chn d s) = (s_frac s + d) mod 65536.
Proof.
  intros chn d s _. unfold advance. cbn [s_pos s_frac]. rewrite shift_val, mask_val.
  rewrite Z.shiftr_div_pow2 by lia. rewrite Z.land_ones by lia. rewrite pow16. split; reflexivity.
Qed.

Lemma advance_frac_range chn d s : 0 <= s_frac (advance chn d s) < 65536.
Proof.
  unfold advance. cbn [s_frac]. rewrite mask_val, Z.land_ones by lia. rewrite pow16. apply Z.mod_pos_bound. lia.
Qed.

Lemma div_chain f d : (f mod 65536 + d) / 65536 + f / 65536 = (f + d) / 65536.
Proof. lia. Qed.

Lemma mod_chain f d : (f mod 65536 + d) mod 65536 = (f + d) mod 65536.
Proof. lia. Qed.

(* the state after one step, in terms of the state before *)
Lemma kstep_position c m a ac s outs s' : kstep c m a ac s = Some (outs, s') ->
  s_pos s' = s_pos s + (s_frac s + a_step a) / 65536 * chn_of c /\ s_frac s' = (s_frac s + a_step a) mod 65536.
Proof.
  intros H. destruct (kstep_inv _ _ _ _ _ _ _ H) as (s1 & -> & Hp & Hf & _).
  unfold advance. cbn [s_pos s_frac]. rewrite shift_val, mask_val, Hp, Hf.
  rewrite Z.shiftr_div_pow2 by lia. rewrite Z.land_ones by lia. rewrite pow16. split; reflexivity.
Qed.

Lemma kloop_position : forall n c m a ac s acc acc' s', 0 <= s_frac s < 65536 -> kloop n c m a ac s acc = Some (acc', s') ->
  s_pos s' = s_pos s + chn_of c * ((s_frac s + Z.of_nat n * a_step a) / 65536) /\
  s_frac s' = (s_frac s + Z.of_nat n * a_step a) mod 65536.
Proof.
  induction n as [|n IH]; intros c m a ac s acc acc' s' Hf H; cbn [kloop] in H.
  - injection H as <- <-. change (Z.of_nat 0) with 0. rewrite Z.mul_0_l, Z.add_0_r. split.
    + rewrite Z.div_small by lia. lia.
    + rewrite Z.mod_small by lia. reflexivity.
  - destruct (kstep c m a ac s) as [[outs s1]|] eqn:E; [|discriminate].
    destruct (kstep_position _ _ _ _ _ _ _ E) as (Hp1 & Hf1).
    assert (Hr1 : 0 <= s_frac s1 < 65536) by (rewrite Hf1; apply Z.mod_pos_bound; lia).
    destruct (IH _ _ _ _ _ _ _ _ Hr1 H) as (Hp & Hfr). rewrite Hp, Hfr, Hp1, Hf1.
    replace (s_frac s + Z.of_nat (S n) * a_step a) with ((s_frac s + a_step a) + Z.of_nat n * a_step a) by lia.
    rewrite mod_chain. split; [|reflexivity]. rewrite <- div_chain. ring.
Qed.

(* ---------- 6. the mixer's segment rule ---------- *)

Lemma forward_positions_below_end : forall P F S E k, 0 <= F < 65536 -> 0 <= k -> F + k * S < (E - P) * 65536 ->
  P + (F + k * S) / 65536 < E.
Proof. intros P F S E k HF Hk H. generalize dependent (k * S). intros X H. lia. Qed.

Lemma reverse_positions_above_start : forall P F S St k, 0 <= F < 65536 -> 0 <= k -> St * 65536 <= P * 65536 + F + k * S ->
  St <= P + (F + k * S) / 65536.
Proof. intros P F S St k HF Hk H. generalize dependent (k * S). intros X H. lia. Qed.
