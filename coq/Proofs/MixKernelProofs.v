(* C14 / C01: properties of the mixing-kernel model (Model/MixKernel.v): voices superpose, a kernel touches only its frames,
   positions in closed form, reads stay inside the window the mixer's segment rule guarantees, gain laws, value ranges. *)
From Coq Require Import ZArith List Lia Bool Arith.
Import ListNotations.
From LX Require Import Base.ListAux Generated.MixTables Model.MixKernel.
Local Open Scope Z_scope.
Ltac Zify.zify_post_hook ::= Z.div_mod_to_equations.

(* ---------- tables and constants ---------- *)

Lemma lut0_len : length cubic_spline_lut0 = 1024%nat. Proof. vm_compute. reflexivity. Qed.
Lemma lut1_len : length cubic_spline_lut1 = 1024%nat. Proof. vm_compute. reflexivity. Qed.
Lemma lut2_len : length cubic_spline_lut2 = 1024%nat. Proof. vm_compute. reflexivity. Qed.
Lemma lut3_len : length cubic_spline_lut3 = 1024%nat. Proof. vm_compute. reflexivity. Qed.
Local Opaque cubic_spline_lut0 cubic_spline_lut1 cubic_spline_lut2 cubic_spline_lut3.

Lemma shift_val : C_SMIX_SHIFT = 16. Proof. reflexivity. Qed.
Lemma mask_val : C_SMIX_MASK = Z.ones 16. Proof. reflexivity. Qed.
Lemma pow16 : 2 ^ 16 = 65536. Proof. reflexivity. Qed.

Definition ochn (c : kcfg) : nat := if k_sout c then 2%nat else 1%nat.

(* ---------- 1. add_into ---------- *)

Lemma add_into_spec : forall contrib buf r, add_into buf contrib = Some r ->
  (length contrib <= length buf)%nat /\ length r = length buf /\
  (forall i, (i < length contrib)%nat -> nth i r 0 = nth i buf 0 + nth i contrib 0) /\
  (forall i, (length contrib <= i)%nat -> nth i r 0 = nth i buf 0).
Proof.
  induction contrib as [|x t IH]; intros buf r H.
  - assert (Hr : r = buf) by (destruct buf; cbn [add_into] in H; congruence). subst r.
    cbn [length]. repeat split; try lia.
  - destruct buf as [|b bt]; cbn [add_into] in H; [discriminate|].
    destruct (add_into bt t) as [r0|] eqn:E; [|discriminate]. injection H as <-.
    destruct (IH _ _ E) as (H1 & H2 & H3 & H4). cbn [length]. repeat split; try lia.
    + intros [|i] Hi; cbn [nth]; [reflexivity|]. apply H3. lia.
    + intros [|i] Hi; cbn [nth]; [lia|]. apply H4. lia.
Qed.

Lemma add_into_some : forall contrib buf, (length contrib <= length buf)%nat -> add_into buf contrib <> None.
Proof.
  induction contrib as [|x t IH]; intros buf H.
  - destruct buf; cbn [add_into]; discriminate.
  - destruct buf as [|b bt]; cbn [length] in H; [lia|]. cbn [add_into].
    destruct (add_into bt t) eqn:E; [discriminate|]. exfalso. apply (IH bt); [lia|assumption].
Qed.

Theorem kernel_additive : forall c m a count ramp s buf1 buf2 r1 f1,
  length buf1 = length buf2 -> kernel c m a count ramp s buf1 = Some (r1, f1) ->
  exists r2, kernel c m a count ramp s buf2 = Some (r2, f1) /\ length r1 = length buf1 /\ length r2 = length buf2 /\
    forall i, nth i r1 0 - nth i buf1 0 = nth i r2 0 - nth i buf2 0.
Proof.
  intros c m a count ramp s buf1 buf2 r1 f1 Hlen H. unfold kernel in *.
  destruct (contributions c m a count ramp s) as [[contrib s']|]; [|discriminate].
  destruct (add_into buf1 contrib) as [b1|] eqn:E1; [|discriminate]. injection H as <- <-.
  destruct (add_into_spec _ _ _ E1) as (L1 & L2 & L3 & L4).
  destruct (add_into buf2 contrib) as [b2|] eqn:E2.
  - destruct (add_into_spec _ _ _ E2) as (M1 & M2 & M3 & M4).
    exists b2. repeat split; try assumption. intros i.
    destruct (Nat.lt_ge_cases i (length contrib)) as [Hi|Hi].
    + rewrite (L3 i Hi), (M3 i Hi). lia.
    + rewrite (L4 i Hi), (M4 i Hi). lia.
  - exfalso. apply (add_into_some contrib buf2); [lia|assumption].
Qed.

(* ---------- one step: shape ---------- *)

Lemma kstep_inv c m a ac s outs s' : kstep c m a ac s = Some (outs, s') ->
  exists s1, s' = advance (chn_of c) (a_step a) s1 /\ s_pos s1 = s_pos s /\ s_frac s1 = s_frac s /\ length outs = ochn c.
Proof.
  unfold kstep. destruct (fetch c m s 0) as [l0|]; [|discriminate].
  destruct (if k_sin c then fetch c m s 1 else Some l0) as [r0|]; [|discriminate].
  destruct (if k_filter c then _ else _) as [[l l1'] l2'].
  destruct (if k_filter c && k_sin c then _ else _) as [[r r1'] r2'].
  intros H. injection H as <- <-. eexists. split; [reflexivity|]. cbn [s_pos s_frac]. unfold ochn.
  destruct (k_sout c); repeat split; reflexivity.
Qed.

Lemma kloop_length : forall n c m a ac s acc acc' s', kloop n c m a ac s acc = Some (acc', s') ->
  length acc' = (length acc + n * ochn c)%nat.
Proof.
  induction n as [|n IH]; intros c m a ac s acc acc' s' H; cbn [kloop] in H.
  - injection H as <- <-. lia.
  - destruct (kstep c m a ac s) as [[outs s1]|] eqn:E; [|discriminate].
    apply IH in H. destruct (kstep_inv _ _ _ _ _ _ _ E) as (s0 & _ & _ & _ & Hl).
    rewrite H, rev_append_rev, app_length, rev_length, Hl. lia.
Qed.

Lemma contributions_length c m a count ramp s contrib s' : contributions c m a count ramp s = Some (contrib, s') ->
  length contrib = (Z.to_nat (Z.max 0 count) * ochn c)%nat.
Proof.
  unfold contributions. destruct (k_interp c).
  - destruct (kloop _ _ _ _ _ _ _) as [[acc s1]|] eqn:E; [|discriminate]. intros H; injection H as <- <-.
    apply kloop_length in E. rewrite rev_append_rev, app_nil_r, rev_length, E. cbn [length]. lia.
  - destruct (kloop _ c m a true s []) as [[acc s1]|] eqn:E; [|discriminate].
    destruct (kloop _ c m a false s1 acc) as [[acc2 s2]|] eqn:E2; [|discriminate]. intros H; injection H as <- <-.
    apply kloop_length in E. apply kloop_length in E2. rewrite rev_append_rev, app_nil_r, rev_length, E2, E. cbn [length].
    set (cnt := Z.max 0 count). set (nac := Z.max 0 (cnt - Z.max 0 ramp)).
    replace (Z.to_nat cnt) with (Z.to_nat nac + Z.to_nat (cnt - nac))%nat by lia.
    rewrite Nat.mul_add_distr_r. lia.
  - destruct (kloop _ c m a true s []) as [[acc s1]|] eqn:E; [|discriminate].
    destruct (kloop _ c m a false s1 acc) as [[acc2 s2]|] eqn:E2; [|discriminate]. intros H; injection H as <- <-.
    apply kloop_length in E. apply kloop_length in E2. rewrite rev_append_rev, app_nil_r, rev_length, E2, E. cbn [length].
    set (cnt := Z.max 0 count). set (nac := Z.max 0 (cnt - Z.max 0 ramp)).
    replace (Z.to_nat cnt) with (Z.to_nat nac + Z.to_nat (cnt - nac))%nat by lia.
    rewrite Nat.mul_add_distr_r. lia.
Qed.

Theorem kernel_touches_only_its_frames : forall c m a count ramp s buf r f, kernel c m a count ramp s buf = Some (r, f) ->
  forall i, (Z.to_nat (Z.max 0 count) * (if k_sout c then 2 else 1) <= i)%nat -> nth i r 0 = nth i buf 0.
Proof.
  intros c m a count ramp s buf r f H i Hi. unfold kernel in H.
  destruct (contributions c m a count ramp s) as [[contrib s']|] eqn:E; [|discriminate].
  destruct (add_into buf contrib) as [b1|] eqn:E1; [|discriminate]. injection H as <- <-.
  destruct (add_into_spec _ _ _ E1) as (_ & _ & _ & L4). apply L4.
  rewrite (contributions_length _ _ _ _ _ _ _ _ E). unfold ochn. exact Hi.
Qed.

(* ---------- 2. positions ---------- *)

Lemma advance_spec : forall chn d s, 0 <= s_frac s < 65536 ->
  s_pos (advance chn d s) = s_pos s + (s_frac s + d) / 65536 * chn /\ s_frac (advance chn d s) = (s_frac s + d) mod 65536.
Proof.
  intros chn d s _. unfold advance. cbn [s_pos s_frac]. rewrite shift_val, mask_val.
  rewrite Z.shiftr_div_pow2 by lia. rewrite Z.land_ones by lia. rewrite pow16. split; reflexivity.
Qed.

Lemma advance_frac_range chn d s : 0 <= s_frac (advance chn d s) < 65536.
Proof.
  unfold advance. cbn [s_frac]. rewrite mask_val, Z.land_ones by lia. rewrite pow16. apply Z.mod_pos_bound. lia.
Qed.

Lemma div_chain f d : (f mod 65536 + d) / 65536 + f / 65536 = (f + d) / 65536.
Proof. lia. Qed.

Lemma mod_chain f d : (f mod 65536 + d) mod 65536 = (f + d) mod 65536.
Proof. lia. Qed.

(* the state after one step, in terms of the state before *)
Lemma kstep_position c m a ac s outs s' : kstep c m a ac s = Some (outs, s') ->
  s_pos s' = s_pos s + (s_frac s + a_step a) / 65536 * chn_of c /\ s_frac s' = (s_frac s + a_step a) mod 65536.
Proof.
  intros H. destruct (kstep_inv _ _ _ _ _ _ _ H) as (s1 & -> & Hp & Hf & _).
  unfold advance. cbn [s_pos s_frac]. rewrite shift_val, mask_val, Hp, Hf.
  rewrite Z.shiftr_div_pow2 by lia. rewrite Z.land_ones by lia. rewrite pow16. split; reflexivity.
Qed.

Lemma kloop_position : forall n c m a ac s acc acc' s', 0 <= s_frac s < 65536 -> kloop n c m a ac s acc = Some (acc', s') ->
  s_pos s' = s_pos s + chn_of c * ((s_frac s + Z.of_nat n * a_step a) / 65536) /\
  s_frac s' = (s_frac s + Z.of_nat n * a_step a) mod 65536.
Proof.
  induction n as [|n IH]; intros c m a ac s acc acc' s' Hf H; cbn [kloop] in H.
  - injection H as <- <-. change (Z.of_nat 0) with 0. rewrite Z.mul_0_l, Z.add_0_r. split.
    + rewrite Z.div_small by lia. lia.
    + rewrite Z.mod_small by lia. reflexivity.
  - destruct (kstep c m a ac s) as [[outs s1]|] eqn:E; [|discriminate].
    destruct (kstep_position _ _ _ _ _ _ _ E) as (Hp1 & Hf1).
    assert (Hr1 : 0 <= s_frac s1 < 65536) by (rewrite Hf1; apply Z.mod_pos_bound; lia).
    destruct (IH _ _ _ _ _ _ _ _ Hr1 H) as (Hp & Hfr). rewrite Hp, Hfr, Hp1, Hf1.
    replace (s_frac s + Z.of_nat (S n) * a_step a) with ((s_frac s + a_step a) + Z.of_nat n * a_step a) by lia.
    rewrite mod_chain. split; [|reflexivity]. rewrite <- (div_chain (s_frac s + a_step a) (Z.of_nat n * a_step a)). ring.
Qed.

(* ---------- 6. the mixer's segment rule ---------- *)

Lemma forward_positions_below_end : forall P F S E k, 0 <= F < 65536 -> 0 <= k -> F + k * S < (E - P) * 65536 ->
  P + (F + k * S) / 65536 < E.
Proof. intros P F S E k HF Hk H. generalize dependent (k * S). intros X H. lia. Qed.

Lemma reverse_positions_above_start : forall P F S St k, 0 <= F < 65536 -> 0 <= k -> St * 65536 <= P * 65536 + F + k * S ->
  St <= P + (F + k * S) / 65536.
Proof. intros P F S St k HF Hk H. generalize dependent (k * S). intros X H. lia. Qed.

(* ---------- 3. reads stay inside the window ---------- *)

Definition win_ok (c : kcfg) (m : smem) (p : Z) : Prop :=
  forall i, p + reach_lo c <= i <= p + reach_hi c -> rd m i <> None.

Lemma lut_some (l : list Z) f : length l = 1024%nat -> 0 <= f < 1024 -> exists v, zget l f = Some v.
Proof. intros Hl Hf. apply zget_some. unfold zlen. rewrite Hl. lia. Qed.

Lemma spline_index_range f : 0 <= f < 65536 -> 0 <= Z.shiftr f 6 < 1024.
Proof. intros H. rewrite Z.shiftr_div_pow2 by lia. change (2 ^ 6) with 64. lia. Qed.

Ltac rd_some Hw :=
  match goal with
  | |- context [rd ?m ?i] =>
    let E := fresh "E" in let v := fresh "v" in
    destruct (rd m i) as [v|] eqn:E; [| exfalso; apply (Hw i); [lia | exact E]]
  end.

Lemma fetch_ok c m s off : 0 <= s_frac s < 65536 -> win_ok c m (s_pos s) ->
  (off = 0 \/ (k_sin c = true /\ off = 1)) -> fetch c m s off <> None.
Proof.
  intros Hf Hw Hoff.
  assert (Hc : chn_of c = 1 /\ off = 0 \/ chn_of c = 2 /\ (off = 0 \/ off = 1)).
  { unfold chn_of. destruct (k_sin c); destruct Hoff as [->|[Hs ->]]; try discriminate; lia. }
  revert Hw. unfold fetch, win_ok, reach_lo, reach_hi. cbv zeta. destruct (k_interp c); intros Hw.
  - rd_some Hw. discriminate.
  - rd_some Hw. rd_some Hw. discriminate.
  - rd_some Hw. rd_some Hw. rd_some Hw. rd_some Hw.
    pose proof (spline_index_range _ Hf) as H6.
    destruct (lut_some _ _ lut0_len H6) as [c0 L0]. destruct (lut_some _ _ lut1_len H6) as [c1 L1].
    destruct (lut_some _ _ lut2_len H6) as [c2 L2]. destruct (lut_some _ _ lut3_len H6) as [c3 L3].
    rewrite L0, L1, L2, L3. discriminate.
Qed.

Lemma kstep_ok c m a ac s : 0 <= s_frac s < 65536 -> win_ok c m (s_pos s) -> kstep c m a ac s <> None.
Proof.
  intros Hf Hw. unfold kstep.
  destruct (fetch c m s 0) as [l0|] eqn:E0; [| exfalso; apply (fetch_ok c m s 0 Hf Hw); [left; reflexivity | exact E0]].
  destruct (k_sin c) eqn:Es.
  - destruct (fetch c m s 1) as [r0|] eqn:E1; [| exfalso; apply (fetch_ok c m s 1 Hf Hw); [right; split; [exact Es | reflexivity] | exact E1]].
    destruct (if k_filter c then _ else _) as [[l l1'] l2'].
    destruct (if k_filter c && true then _ else _) as [[r r1'] r2']. discriminate.
  - destruct (if k_filter c then _ else _) as [[l l1'] l2'].
    destruct (if k_filter c && false then _ else _) as [[r r1'] r2']. discriminate.
Qed.

Lemma kloop_ok : forall n c m a ac s acc, 0 <= s_frac s < 65536 ->
  (forall k, 0 <= k < Z.of_nat n -> win_ok c m (s_pos s + chn_of c * ((s_frac s + k * a_step a) / 65536))) ->
  kloop n c m a ac s acc <> None.
Proof.
  induction n as [|n IH]; intros c m a ac s acc Hf Hw; cbn [kloop]; [discriminate|].
  assert (Hw0 : win_ok c m (s_pos s)).
  { pose proof (Hw 0 ltac:(lia)) as H0. rewrite Z.mul_0_l, Z.add_0_r, Z.div_small, Z.mul_0_r, Z.add_0_r in H0 by lia. exact H0. }
  destruct (kstep c m a ac s) as [[outs s1]|] eqn:E; [| exfalso; apply (kstep_ok c m a ac s Hf Hw0); exact E].
  destruct (kstep_position _ _ _ _ _ _ _ E) as (Hp1 & Hf1).
  apply IH.
  - rewrite Hf1. apply Z.mod_pos_bound. lia.
  - intros k Hk.
    replace (s_pos s1 + chn_of c * ((s_frac s1 + k * a_step a) / 65536))
      with (s_pos s + chn_of c * ((s_frac s + (k + 1) * a_step a) / 65536)); [apply Hw; lia|].
    rewrite Hp1, Hf1. replace (s_frac s + (k + 1) * a_step a) with ((s_frac s + a_step a) + k * a_step a) by lia.
    rewrite <- (div_chain (s_frac s + a_step a) (k * a_step a)). ring.
Qed.

Lemma contributions_two_loops c m a count ramp s : k_interp c <> Nearest ->
  contributions c m a count ramp s =
  match kloop (Z.to_nat (Z.max 0 (Z.max 0 count - Z.max 0 ramp))) c m a true s [] with
  | None => None
  | Some (acc, s1) =>
    match kloop (Z.to_nat (Z.max 0 count - Z.max 0 (Z.max 0 count - Z.max 0 ramp))) c m a false s1 acc with
    | None => None | Some (acc2, s2) => Some (rev_append acc2 [], s2) end
  end.
Proof. intros H. unfold contributions. destruct (k_interp c); [congruence|reflexivity|reflexivity]. Qed.

Lemma contributions_nearest c m a count ramp s : k_interp c = Nearest ->
  contributions c m a count ramp s =
  match kloop (Z.to_nat (Z.max 0 count)) c m a false (advance (chn_of c) 32768 s) [] with
  | None => None | Some (acc, s') => Some (rev_append acc [], s') end.
Proof. intros H. unfold contributions. rewrite H. reflexivity. Qed.

Lemma contributions_ok c m a count ramp s :
  0 <= s_frac s < 65536 ->
  (forall k, 0 <= k < count -> win_ok c m (pos_at c a s k)) ->
  contributions c m a count ramp s <> None.
Proof.
  intros Hf Hw. destruct (k_interp c) eqn:Ei.
  - rewrite (contributions_nearest _ _ _ _ _ _ Ei).
    destruct (kloop _ _ _ _ _ _ _) as [[acc s1]|] eqn:E; [discriminate|]. exfalso. revert E. apply kloop_ok.
    + apply advance_frac_range.
    + intros k Hk. pose proof (Hw k ltac:(lia)) as H. unfold pos_at, start_state in H. rewrite Ei in H. exact H.
  - assert (Hn : k_interp c <> Nearest) by congruence. rewrite (contributions_two_loops _ _ _ _ _ _ Hn).
    assert (Hs0 : start_state c s = s) by (unfold start_state; rewrite Ei; reflexivity).
    set (cnt := Z.max 0 count). set (nac := Z.max 0 (cnt - Z.max 0 ramp)).
    destruct (kloop (Z.to_nat nac) c m a true s []) as [[acc s1]|] eqn:E.
    + destruct (kloop_position _ _ _ _ _ _ _ _ _ Hf E) as (Hp1 & Hf1). rewrite Z2Nat.id in Hp1, Hf1 by lia.
      destruct (kloop _ c m a false s1 acc) as [[acc2 s2]|] eqn:E2; [discriminate|]. exfalso. revert E2. apply kloop_ok.
      * rewrite Hf1. apply Z.mod_pos_bound. lia.
      * intros k Hk. pose proof (Hw (nac + k) ltac:(lia)) as H. unfold pos_at in H. rewrite Hs0 in H.
        change (2 ^ C_SMIX_SHIFT) with 65536 in H.
        replace (s_pos s1 + chn_of c * ((s_frac s1 + k * a_step a) / 65536))
          with (s_pos s + chn_of c * ((s_frac s + (nac + k) * a_step a) / 65536)); [exact H|].
        rewrite Hp1, Hf1. replace (s_frac s + (nac + k) * a_step a) with ((s_frac s + nac * a_step a) + k * a_step a) by lia.
        rewrite <- (div_chain (s_frac s + nac * a_step a) (k * a_step a)). ring.
    + exfalso. revert E. apply kloop_ok; [exact Hf|].
      intros k Hk. pose proof (Hw k ltac:(lia)) as H. unfold pos_at in H. rewrite Hs0 in H. exact H.
  - assert (Hn : k_interp c <> Nearest) by congruence. rewrite (contributions_two_loops _ _ _ _ _ _ Hn).
    assert (Hs0 : start_state c s = s) by (unfold start_state; rewrite Ei; reflexivity).
    set (cnt := Z.max 0 count). set (nac := Z.max 0 (cnt - Z.max 0 ramp)).
    destruct (kloop (Z.to_nat nac) c m a true s []) as [[acc s1]|] eqn:E.
    + destruct (kloop_position _ _ _ _ _ _ _ _ _ Hf E) as (Hp1 & Hf1). rewrite Z2Nat.id in Hp1, Hf1 by lia.
      destruct (kloop _ c m a false s1 acc) as [[acc2 s2]|] eqn:E2; [discriminate|]. exfalso. revert E2. apply kloop_ok.
      * rewrite Hf1. apply Z.mod_pos_bound. lia.
      * intros k Hk. pose proof (Hw (nac + k) ltac:(lia)) as H. unfold pos_at in H. rewrite Hs0 in H.
        change (2 ^ C_SMIX_SHIFT) with 65536 in H.
        replace (s_pos s1 + chn_of c * ((s_frac s1 + k * a_step a) / 65536))
          with (s_pos s + chn_of c * ((s_frac s + (nac + k) * a_step a) / 65536)); [exact H|].
        rewrite Hp1, Hf1. replace (s_frac s + (nac + k) * a_step a) with ((s_frac s + nac * a_step a) + k * a_step a) by lia.
        rewrite <- (div_chain (s_frac s + nac * a_step a) (k * a_step a)). ring.
    + exfalso. revert E. apply kloop_ok; [exact Hf|].
      intros k Hk. pose proof (Hw k ltac:(lia)) as H. unfold pos_at in H. rewrite Hs0 in H. exact H.
Qed.

Theorem kernel_reads_in_window : forall c m a count ramp s buf lo hi,
  0 <= s_frac s < 65536 ->
  (forall i, lo <= i <= hi -> rd m i <> None) ->
  (forall k, 0 <= k < count -> lo <= pos_at c a s k + reach_lo c /\ pos_at c a s k + reach_hi c <= hi) ->
  (Z.to_nat (Z.max 0 count) * (if k_sout c then 2 else 1) <= length buf)%nat ->
  kernel c m a count ramp s buf <> None.
Proof.
  intros c m a count ramp s buf lo hi Hf Hrd Hpos Hbuf. unfold kernel.
  destruct (contributions c m a count ramp s) as [[contrib s']|] eqn:E.
  - destruct (add_into buf contrib) as [b|] eqn:E1; [discriminate|]. exfalso. revert E1. apply add_into_some.
    rewrite (contributions_length _ _ _ _ _ _ _ _ E). unfold ochn. exact Hbuf.
  - exfalso. revert E. apply contributions_ok; [exact Hf|].
    intros k Hk i Hi. apply Hrd. destruct (Hpos k Hk) as [H1 H2]. lia.
Qed.

(* ---------- 4. gains ---------- *)

Lemma kstep_zero c m a s outs s' : a_vl a = 0 -> a_vr a = 0 -> kstep c m a false s = Some (outs, s') ->
  Forall (fun x => x = 0) outs.
Proof.
  intros Hl Hr. unfold kstep. destruct (fetch c m s 0) as [l0|]; [|discriminate].
  destruct (if k_sin c then fetch c m s 1 else Some l0) as [r0|]; [|discriminate].
  destruct (if k_filter c then _ else _) as [[l l1'] l2'].
  destruct (if k_filter c && k_sin c then _ else _) as [[r r1'] r2'].
  intros H. injection H as Ho _. subst outs. rewrite Hl, Hr. cbv iota.
  destruct (k_sout c); repeat constructor; apply Z.mul_0_r.
Qed.

Lemma kloop_zero : forall n c m a s acc acc' s', a_vl a = 0 -> a_vr a = 0 -> Forall (fun x => x = 0) acc ->
  kloop n c m a false s acc = Some (acc', s') -> Forall (fun x => x = 0) acc'.
Proof.
  induction n as [|n IH]; intros c m a s acc acc' s' Hl Hr Hacc H; cbn [kloop] in H.
  - injection H as <- <-. exact Hacc.
  - destruct (kstep c m a false s) as [[outs s1]|] eqn:E; [|discriminate].
    apply (IH _ _ _ _ _ _ _ Hl Hr) in H; [exact H|].
    rewrite rev_append_rev. apply Forall_app. split; [|exact Hacc]. apply Forall_rev. exact (kstep_zero _ _ _ _ _ _ Hl Hr E).
Qed.

Theorem kernel_zero_gain_is_silent : forall c m a count ramp s contrib s', count <= ramp \/ k_interp c = Nearest -> 0 <= ramp ->
  a_vl a = 0 -> a_vr a = 0 -> contributions c m a count ramp s = Some (contrib, s') -> Forall (fun x => x = 0) contrib.
Proof.
  intros c m a count ramp s contrib s' Hc Hramp Hl Hr H.
  assert (Hcase : k_interp c = Nearest \/ (k_interp c <> Nearest /\ count <= ramp)).
  { destruct Hc as [Hc|Hc]; [|left; exact Hc]. destruct (k_interp c) eqn:Ei; [left; reflexivity | right; split; [discriminate|exact Hc] ..]. }
  destruct Hcase as [Hn|[Hn Hcr]].
  - rewrite (contributions_nearest _ _ _ _ _ _ Hn) in H.
    destruct (kloop _ _ _ _ _ _ _) as [[acc s1]|] eqn:E; [|discriminate]. injection H as <- <-.
    rewrite rev_append_rev, app_nil_r. apply Forall_rev. exact (kloop_zero _ _ _ _ _ _ _ _ Hl Hr (Forall_nil _) E).
  - rewrite (contributions_two_loops _ _ _ _ _ _ Hn) in H.
    replace (Z.to_nat (Z.max 0 (Z.max 0 count - Z.max 0 ramp))) with 0%nat in H by lia. cbn [kloop] in H.
    destruct (kloop _ _ _ _ _ _ _) as [[acc s1]|] eqn:E; [|discriminate]. injection H as <- <-.
    rewrite rev_append_rev, app_nil_r. apply Forall_rev. exact (kloop_zero _ _ _ _ _ _ _ _ Hl Hr (Forall_nil _) E).
Qed.

Definition swap_a (a : kargs) : kargs :=
  {| a_vl := a_vr a; a_vr := a_vl a; a_step := a_step a; a_dl := a_dr a; a_dr := a_dl a;
     a_a0 := a_a0 a; a_b0 := a_b0 a; a_b1 := a_b1 a |}.
Definition swap_s (s : kstate) : kstate :=
  {| s_pos := s_pos s; s_frac := s_frac s; s_ovl := s_ovr s; s_ovr := s_ovl s;
     s_l1 := s_l1 s; s_l2 := s_l2 s; s_r1 := s_r1 s; s_r2 := s_r2 s |}.
Fixpoint swap_pairs (l : list Z) : list Z :=
  match l with
  | x :: y :: t => y :: x :: swap_pairs t
  | _ => l
  end.

Lemma list_ind2 (P : list Z -> Prop) : P [] -> (forall x, P [x]) -> (forall x y t, P t -> P (x :: y :: t)) -> forall l, P l.
Proof.
  intros H0 H1 H2. assert (H : forall l, P l /\ forall x, P (x :: l)).
  { induction l as [|y t [IH1 IH2]]; split; auto. }
  intros l. apply H.
Qed.

Lemma swap_pairs_app l1 l2 : Nat.even (length l1) = true -> swap_pairs (l1 ++ l2) = swap_pairs l1 ++ swap_pairs l2.
Proof.
  induction l1 as [|x|x y t IH] using list_ind2; intros H.
  - reflexivity.
  - discriminate.
  - cbn [length Nat.even] in H. cbn [app swap_pairs]. rewrite (IH H). reflexivity.
Qed.

Lemma swap_pairs_rev l : Nat.even (length l) = true -> swap_pairs (rev l) = rev (swap_pairs l).
Proof.
  induction l as [|x|x y t IH] using list_ind2; intros H.
  - reflexivity.
  - discriminate.
  - cbn [length Nat.even] in H. cbn [rev swap_pairs]. rewrite <- !app_assoc. cbn [app].
    rewrite swap_pairs_app by (rewrite rev_length; exact H). rewrite (IH H). reflexivity.
Qed.

Lemma filt_swap a x f1 f2 : filt (swap_a a) x f1 f2 = filt a x f1 f2.
Proof. unfold filt. cbn [swap_a a_a0 a_b0 a_b1]. reflexivity. Qed.

Ltac swap_norm :=
  cbn [swap_s swap_a swap_pairs s_pos s_frac s_ovl s_ovr s_l1 s_l2 s_r1 s_r2 a_vl a_vr a_dl a_dr a_step a_a0 a_b0 a_b1 andb].

Lemma kstep_swap c m a ac s outs s' : k_sin c = false -> k_sout c = true ->
  kstep c m a ac s = Some (outs, s') -> kstep c m (swap_a a) ac (swap_s s) = Some (swap_pairs outs, swap_s s').
Proof.
  intros Hsin Hsout. unfold kstep. change (fetch c m (swap_s s) 0) with (fetch c m s 0). rewrite Hsin, Hsout.
  destruct (fetch c m s 0) as [l0|]; [|discriminate]. rewrite !filt_swap. rewrite !Bool.andb_false_r.
  change (s_l1 (swap_s s)) with (s_l1 s). change (s_l2 (swap_s s)) with (s_l2 s).
  destruct (if k_filter c then _ else _) as [[l l1'] l2'].
  destruct ac; intros H; injection H as <- <-; unfold advance; swap_norm; reflexivity.
Qed.

Lemma kloop_swap : forall n c m a ac s acc acc' s', k_sin c = false -> k_sout c = true ->
  kloop n c m a ac s acc = Some (acc', s') ->
  kloop n c m (swap_a a) ac (swap_s s) (swap_pairs acc) = Some (swap_pairs acc', swap_s s').
Proof.
  induction n as [|n IH]; intros c m a ac s acc acc' s' Hsin Hsout H; cbn [kloop] in *.
  - injection H as <- <-. reflexivity.
  - destruct (kstep c m a ac s) as [[outs s1]|] eqn:E; [|discriminate].
    rewrite (kstep_swap _ _ _ _ _ _ _ Hsin Hsout E).
    destruct (kstep_inv _ _ _ _ _ _ _ E) as (s0 & _ & _ & _ & Hlen). unfold ochn in Hlen. rewrite Hsout in Hlen.
    destruct outs as [|x [|y [|z t]]]; try discriminate Hlen.
    apply (IH _ _ _ _ _ _ _ _ Hsin Hsout) in H. exact H.
Qed.

Lemma kloop_even n c m a ac s acc acc' s' : k_sout c = true -> Nat.even (length acc) = true ->
  kloop n c m a ac s acc = Some (acc', s') -> Nat.even (length acc') = true.
Proof.
  intros Hsout He H. apply kloop_length in H. unfold ochn in H. rewrite Hsout in H.
  apply Nat.even_spec in He. destruct He as [k Hk]. apply Nat.even_spec. exists (k + n)%nat. lia.
Qed.

Theorem kernel_swap_gains : forall c m a count ramp s contrib s', k_sin c = false -> k_sout c = true ->
  contributions c m a count ramp s = Some (contrib, s') ->
  contributions c m (swap_a a) count ramp (swap_s s) = Some (swap_pairs contrib, swap_s s').
Proof.
  intros c m a count ramp s contrib s' Hsin Hsout H.
  assert (Hcase : k_interp c = Nearest \/ k_interp c <> Nearest) by (destruct (k_interp c); [left; reflexivity | right; discriminate ..]).
  destruct Hcase as [Hn|Hn].
  - rewrite (contributions_nearest _ _ _ _ _ _ Hn) in H. rewrite (contributions_nearest _ _ _ _ _ _ Hn).
    change (advance (chn_of c) 32768 (swap_s s)) with (swap_s (advance (chn_of c) 32768 s)).
    destruct (kloop _ c m a false _ []) as [[acc s1]|] eqn:E; [|discriminate]. injection H as <- <-.
    pose proof (kloop_even _ _ _ _ _ _ [] _ _ Hsout eq_refl E) as Hev.
    apply (kloop_swap _ _ _ _ _ _ _ _ _ Hsin Hsout) in E. cbn [swap_pairs] in E. rewrite E.
    rewrite !rev_append_rev, !app_nil_r, swap_pairs_rev by exact Hev. reflexivity.
  - rewrite (contributions_two_loops _ _ _ _ _ _ Hn) in H. rewrite (contributions_two_loops _ _ _ _ _ _ Hn).
    destruct (kloop _ c m a true s []) as [[acc s1]|] eqn:E; [|discriminate].
    destruct (kloop _ c m a false s1 acc) as [[acc2 s2]|] eqn:E2; [|discriminate]. injection H as <- <-.
    pose proof (kloop_even _ _ _ _ _ _ [] _ _ Hsout eq_refl E) as Hev.
    pose proof (kloop_even _ _ _ _ _ _ _ _ _ Hsout Hev E2) as Hev2.
    apply (kloop_swap _ _ _ _ _ _ _ _ _ Hsin Hsout) in E. cbn [swap_pairs] in E. rewrite E.
    apply (kloop_swap _ _ _ _ _ _ _ _ _ Hsin Hsout) in E2. rewrite E2.
    rewrite !rev_append_rev, !app_nil_r, swap_pairs_rev by exact Hev2. reflexivity.
Qed.

(* ---------- 5. value ranges ---------- *)

Lemma linear_fetch_between : forall c m s off v v0 v1, k_interp c = Linear -> 0 <= s_frac s < 65536 ->
  fetch c m s off = Some v -> rd m (s_pos s + off) = Some v0 -> rd m (s_pos s + off + chn_of c) = Some v1 ->
  let sc := fun x => if k_wide c then x else x * 256 in
  Z.min (sc v0) (sc v1) <= v <= Z.max (sc v0) (sc v1).
Proof.
  intros c m s off v v0 v1 Hi Hf H E0 E1 sc. unfold fetch in H. rewrite Hi in H. cbv zeta in H. rewrite E0, E1 in H.
  injection H as <-. fold (sc v0). fold (sc v1). generalize (sc v0) (sc v1). clear - Hf. intros x y.
  change (C_SMIX_SHIFT - 1) with 15. rewrite !Z.shiftr_div_pow2 by lia. change (2 ^ 1) with 2. change (2 ^ 15) with 32768.
  assert (Ht : 0 <= s_frac s / 2 <= 32767) by lia. generalize dependent (s_frac s / 2). clear. intros t Ht.
  destruct (Z.le_gt_cases x y) as [Hxy|Hxy].
  - assert (H1 : 0 <= t * (y - x)) by (apply Z.mul_nonneg_nonneg; lia).
    assert (H2 : t * (y - x) <= 32767 * (y - x)) by (apply Z.mul_le_mono_nonneg_r; lia).
    generalize dependent (t * (y - x)). intros p H1 H2. lia.
  - assert (H1 : t * (y - x) <= 0) by (apply Z.mul_nonneg_nonpos; lia).
    assert (H2 : 32767 * (y - x) <= t * (y - x)) by (apply Z.mul_le_mono_nonpos_r; lia).
    generalize dependent (t * (y - x)). intros p H1 H2. lia.
Qed.

Lemma clampf_range x : C_FILTER_MIN <= clampf x <= C_FILTER_MAX.
Proof.
  unfold clampf, C_FILTER_MIN, C_FILTER_MAX. destruct (Z.ltb_spec x (-2147483648)) as [H|H]; [lia|].
  destruct (Z.ltb_spec 2147450880 x) as [H'|H']; lia.
Qed.

Lemma filt_state_in_int32 : forall a smp f1 f2 out n1 n2, filt a smp f1 f2 = (out, n1, n2) ->
  C_FILTER_MIN <= n1 <= C_FILTER_MAX /\ n2 = f1 /\ -65536 <= out <= 65535.
Proof.
  intros a smp f1 f2 out n1 n2. unfold filt. cbv zeta. set (s64 := Z.shiftr _ C_FILTER_SHIFT). clearbody s64.
  intros H. injection H as <- <- <-. pose proof (clampf_range s64) as Hc. split; [exact Hc|]. split; [reflexivity|].
  change C_PREAMP_BITS with 15. rewrite Z.shiftr_div_pow2 by lia. change (2 ^ 15) with 32768.
  unfold C_FILTER_MIN, C_FILTER_MAX in Hc. lia.
Qed.

Print Assumptions kernel_additive.
Print Assumptions kernel_touches_only_its_frames.
Print Assumptions kernel_reads_in_window.
Print Assumptions kernel_zero_gain_is_silent.
Print Assumptions kernel_swap_gains.
Print Assumptions add_into_spec.
Print Assumptions add_into_some.
Print Assumptions contributions_length.
Print Assumptions advance_spec.
Print Assumptions kloop_position.
Print Assumptions linear_fetch_between.
Print Assumptions filt_state_in_int32.
Print Assumptions forward_positions_below_end.
Print Assumptions reverse_positions_above_start.
