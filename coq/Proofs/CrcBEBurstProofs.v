(* C09: two adjacent substituted bytes (any byte-aligned error burst of at most 16 bits) inside a bzip2 block always change the
   block CRC of Model/CrcBE.v (bunzip2.c's big-endian CRC-32), for blocks of any length; hence the gate rejects. *)
From Coq Require Import ZArith List Lia Bool.
Import ListNotations.
From LX Require Import Model.CrcBE Proofs.CrcBEProofs.
Local Open Scope Z_scope.
Ltac Zify.zify_post_hook ::= Z.div_mod_to_equations.

(* states whose shifted parts agree have the same low byte (they agree on their low 24 bits) *)
Lemma shl8_eq_low x y : (x * 256) mod 4294967296 = (y * 256) mod 4294967296 -> x mod 256 = y mod 256.
Proof.
  intros E.
  assert (Ex : (x * 256) mod 4294967296 = (x mod 16777216) * 256).
  { change 4294967296 with (16777216 * 256). rewrite Z.mul_mod_distr_r by lia. reflexivity. }
  assert (Ey : (y * 256) mod 4294967296 = (y mod 16777216) * 256).
  { change 4294967296 with (16777216 * 256). rewrite Z.mul_mod_distr_r by lia. reflexivity. }
  rewrite Ex, Ey in E. assert (E24 : x mod 16777216 = y mod 16777216) by lia.
  assert (Hx : x mod 256 = (x mod 16777216) mod 256).
  { change 16777216 with (256 * 65536). rewrite Z.rem_mul_r by lia. rewrite Z.add_mod by lia.
    rewrite (Z.mul_comm 256), Z.mod_mul by lia. rewrite Z.add_0_r, !Z.mod_mod by lia. reflexivity. }
  assert (Hy : y mod 256 = (y mod 16777216) mod 256).
  { change 16777216 with (256 * 65536). rewrite Z.rem_mul_r by lia. rewrite Z.add_mod by lia.
    rewrite (Z.mul_comm 256), Z.mod_mul by lia. rewrite Z.add_0_r, !Z.mod_mod by lia. reflexivity. }
  rewrite Hx, Hy, E24. reflexivity.
Qed.

Lemma be_two_step_first_differs s b1 b2 c1 c2 : st s -> byte b1 -> byte b2 -> byte c1 -> byte c2 ->
  b1 <> c1 ->
  be_step (be_step s b1) b2 <> be_step (be_step s c1) c2.
Proof.
  intros Hs Hb1 Hb2 Hc1 Hc2 Hne E.
  pose proof (be_step_st s b1 Hs Hb1) as Hs1.
  pose proof (be_step_st s c1 Hs Hc1) as Hs1'.
  pose proof (idx_eq _ _ _ _ Hs1 Hs1' Hb2 Hc2 E) as Ei.
  rewrite (step_eq (be_step s b1) b2), (step_eq (be_step s c1) c2), Ei in E.
  apply xor_cancel2 in E.
  apply shl8_eq_low in E. rewrite !step_low in E.
  destruct (T_spec _ (idx_range s b1 Hs Hb1)) as [_ A]. destruct (T_spec _ (idx_range s c1 Hs Hc1)) as [_ B].
  assert (Eidx : idx s b1 = idx s c1) by (rewrite <- A, <- B, E; reflexivity).
  unfold idx in Eidx. apply xor_cancel in Eidx. exact (Hne Eidx).
Qed.

Lemma be_two_step_differs s b1 b2 c1 c2 : st s -> byte b1 -> byte b2 -> byte c1 -> byte c2 ->
  (b1 <> c1 \/ b2 <> c2) ->
  be_step (be_step s b1) b2 <> be_step (be_step s c1) c2.
Proof.
  intros Hs Hb1 Hb2 Hc1 Hc2 Hne.
  destruct (Z.eq_dec b1 c1) as [Eb|Nb].
  - subst c1. destruct Hne as [Hne|Hne]; [congruence|].
    intro E. apply Hne.
    apply (be_step_inj_byte (be_step s b1) b2 c2); try assumption.
    apply be_step_st; assumption.
  - apply be_two_step_first_differs; assumption.
Qed.

Lemma be_run_detects_two_bytes pre b1 b2 c1 c2 post s0 : st s0 ->
  Forall byte pre -> byte b1 -> byte b2 -> byte c1 -> byte c2 -> Forall byte post ->
  (b1 <> c1 \/ b2 <> c2) ->
  be_run s0 (pre ++ b1 :: b2 :: post) <> be_run s0 (pre ++ c1 :: c2 :: post).
Proof.
  intros H0 Hpre Hb1 Hb2 Hc1 Hc2 Hpost Hne. unfold be_run. rewrite !fold_left_app. cbn [fold_left].
  pose proof (be_run_st pre Hpre s0 H0) as Hs. unfold be_run in Hs. set (s := fold_left be_step pre s0) in *.
  apply (be_run_inj post Hpost).
  - apply be_step_st; [apply be_step_st|]; assumption.
  - apply be_step_st; [apply be_step_st|]; assumption.
  - apply be_two_step_differs; assumption.
Qed.

Theorem bz_block_crc_detects_two_bytes : forall pre b1 b2 c1 c2 post,
  Forall CrcBEProofs.byte pre -> CrcBEProofs.byte b1 -> CrcBEProofs.byte b2 -> CrcBEProofs.byte c1 -> CrcBEProofs.byte c2 ->
  Forall CrcBEProofs.byte post ->
  (b1 <> c1 \/ b2 <> c2) ->
  bz_block_crc (pre ++ b1 :: b2 :: post) <> bz_block_crc (pre ++ c1 :: c2 :: post).
Proof.
  intros pre b1 b2 c1 c2 post Hpre Hb1 Hb2 Hc1 Hc2 Hpost Hne. unfold bz_block_crc. intro E. apply xor_cancel2 in E. revert E.
  apply be_run_detects_two_bytes; auto. exact M32_st.
Qed.

Theorem bz_gate_rejects_two_byte_substitution : forall before pre b1 b2 c1 c2 post after stored,
  Forall CrcBEProofs.byte pre -> CrcBEProofs.byte b1 -> CrcBEProofs.byte b2 -> CrcBEProofs.byte c1 -> CrcBEProofs.byte c2 ->
  Forall CrcBEProofs.byte post ->
  (b1 <> c1 \/ b2 <> c2) ->
  bz_gate (before ++ (pre ++ c1 :: c2 :: post) :: after)
          (map bz_block_crc (before ++ (pre ++ b1 :: b2 :: post) :: after)) stored = false.
Proof.
  intros before pre b1 b2 c1 c2 post after stored Hpre Hb1 Hb2 Hc1 Hc2 Hpost Hne. unfold bz_gate.
  rewrite forallb_combine_bad; [rewrite andb_false_r; reflexivity|].
  apply bz_block_crc_detects_two_bytes; auto.
  destruct Hne as [Hne|Hne]; [left|right]; intro E; apply Hne; symmetry; exact E.
Qed.

Print Assumptions bz_block_crc_detects_two_bytes.
Print Assumptions bz_gate_rejects_two_byte_substitution.
