From Coq Require Import ZArith List Bool Lia.
Import ListNotations.
From LX Require Import Model.Cleanup.
Local Open Scope Z_scope.

(* the enumerations are complete *)
Lemma in_bools b : In b bools.
Proof. destruct b; cbn; auto. Qed.

Lemma all_faults_complete f : In f all_faults.
Proof.
  destruct f as [z a b c d e y g h]. unfold all_faults.
  repeat (apply in_flat_map; eexists; split; [apply in_bools|]).
  apply in_map_iff. eexists. split; [reflexivity|apply in_bools].
Qed.

Lemma all_entries_complete e : In e all_entries.
Proof. destruct e; cbn; tauto. Qed.

Definition check_all : bool :=
  forallb (fun e => forallb (fun f => forallb (fun s => forallb (fun fo => atomic_okb e f (mk_world s fo)) bools) all_states) all_faults) all_entries.

Lemma check_all_true : check_all = true.
Proof. vm_compute. reflexivity. Qed.

Lemma atomic_all e f s fo : In s all_states -> atomic_okb e f (mk_world s fo) = true.
Proof.
  intros Hs. pose proof check_all_true as H. unfold check_all in H.
  rewrite forallb_forall in H. specialize (H e (all_entries_complete e)).
  rewrite forallb_forall in H. specialize (H f (all_faults_complete f)).
  rewrite forallb_forall in H. specialize (H s Hs).
  rewrite forallb_forall in H. exact (H fo (in_bools fo)).
Qed.

(* every consistent world with no pending close-callback count is one of the enumerated ones *)
Lemma consistent_enumerated w : consistent w = true -> cb_closes w = 0 ->
  exists s, In s all_states /\ w = mk_world s (caller_file_open w).
Proof.
  destruct w as [s m p h t fo c]. unfold consistent. cbn [st mod_live player_live handles temps cb_closes caller_file_open].
  intros H Hc. subst c. apply andb_prop in H as [H Ht]. apply andb_prop in H as [H Hh]. apply Z.eqb_eq in Ht, Hh. subst h t.
  destruct s, m, p; cbn in H; try discriminate.
  - exists (Unloaded, false, false). split; [cbn; auto|reflexivity].
  - exists (Loaded, true, false). split; [cbn; auto|reflexivity].
  - exists (Playing, true, true). split; [cbn; auto|reflexivity].
Qed.
