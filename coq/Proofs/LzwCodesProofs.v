(* C08, table-level half: the LZW string table of Model/Lzw.v decodes what the greedy writer emits (dec_enc_codes), the emitted
   codes fit the width schedule (enc_codes_fit), and the composition with the bit-level half (uncompress_compress_from). *)
From Coq Require Import ZArith List Lia Bool FMapPositive.
Import ListNotations.
From LX Require Import Generated.Consts Model.Lzw.
Local Open Scope Z_scope.
Ltac Zify.zify_post_hook ::= Z.div_mod_to_equations.

(* ---------------------------------------------------------------- basics ------------------------------------------------ *)
Definition lo (p : zparams) : Z := if z_block p then 257 else 256.

Lemma lo_range p : 256 <= lo p <= 257.
Proof. unfold lo. destruct (z_block p); lia. Qed.

Lemma okb_range p : zparams_okb p = true -> 10 <= z_maxbits p <= 16.
Proof. unfold zparams_okb. intros H. apply andb_prop in H as [A B]. apply Z.leb_le in A. apply Z.leb_le in B. lia. Qed.

Lemma maxmax_range p : zparams_okb p = true -> 1024 <= maxmax p <= 65536.
Proof.
  intros H. apply okb_range in H. unfold maxmax. split.
  - change 1024 with (2 ^ 10). apply Z.pow_le_mono_r; lia.
  - change 65536 with (2 ^ 16). apply Z.pow_le_mono_r; lia.
Qed.

Lemma fuel_val : Z.of_nat str_fuel = 65600.
Proof. vm_compute. reflexivity. Qed.

Lemma tget_tset_same t c v : tget (tset t c v) c = Some v.
Proof. unfold tget, tset. apply PositiveMap.gss. Qed.

Lemma tget_tset_other t c v k : 0 < c -> 0 < k -> k <> c -> tget (tset t c v) k = tget t k.
Proof.
  intros Hc Hk Hne. unfold tget, tset. apply PositiveMap.gso. intros E. apply Z2Pos.inj in E; lia.
Qed.

Lemma dkey_inj a b c d : 0 <= a -> 0 <= b <= 255 -> 0 <= c -> 0 <= d <= 255 -> dkey a b = dkey c d -> a = c /\ b = d.
Proof. intros Ha Hb Hc Hd E. unfold dkey in E. apply Z2Pos.inj in E; lia. Qed.

(* ---------------------------------------------------------------- strings of codes ----------------------------------------- *)
(* Str l T c r: r is the string of code c in table T, last byte first; the walk only visits codes < 256 or >= l *)
Inductive Str (l : Z) (T : tabT) : Z -> list Z -> Prop :=
| Str_byte c : 0 <= c < 256 -> Str l T c [c]
| Str_ent c pre ch r : 256 <= c -> l <= c -> tget T c = Some (pre, ch) -> 0 <= ch <= 255 -> pre < c -> Str l T pre r -> Str l T c (ch :: r).

Lemma Str_nonneg l T c r : Str l T c r -> 0 <= c.
Proof. intros H. destruct H; lia. Qed.

Lemma Str_valid l T c r : Str l T c r -> 0 <= c < 256 \/ (256 <= c /\ l <= c).
Proof. intros H. destruct H; lia. Qed.

Lemma Str_nonempty l T c r : Str l T c r -> r <> [].
Proof. intros H. destruct H; discriminate. Qed.

Lemma Str_fun l T c r1 : Str l T c r1 -> forall r2, Str l T c r2 -> r1 = r2.
Proof.
  induction 1 as [c Hc|c pre ch r H256 Hl Hg Hch Hpre Hs IH]; intros r2 H2.
  - inversion H2; subst; [reflexivity|lia].
  - inversion H2 as [|c' pre' ch' r' A B G C D E]; subst; [lia|].
    rewrite Hg in G. inversion G; subst. f_equal. apply IH. assumption.
Qed.

Lemma Str_agree l T T' c r : Str l T c r -> (forall k, 256 <= k -> l <= k -> k <= c -> tget T' k = tget T k) -> Str l T' c r.
Proof.
  induction 1 as [c Hc|c pre ch r H256 Hl Hg Hch Hpre Hs IH]; intros Hag.
  - apply Str_byte. assumption.
  - apply Str_ent with pre; try assumption.
    + rewrite Hag by lia. assumption.
    + apply IH. intros k A B C. apply Hag; lia.
Qed.

Lemma Str_bytes l T c r : Str l T c r -> forallb (fun x => (0 <=? x) && (x <=? 255)) r = true.
Proof.
  induction 1 as [c Hc|c pre ch r H256 Hl Hg Hch Hpre Hs IH]; cbn [forallb].
  - destruct (Z.leb_spec 0 c); [|lia]. destruct (Z.leb_spec c 255); [|lia]. reflexivity.
  - rewrite IH. destruct (Z.leb_spec 0 ch); [|lia]. destruct (Z.leb_spec ch 255); [|lia]. reflexivity.
Qed.

Lemma Str_str_rev l T c r : Str l T c r -> forall fuel, (Z.to_nat c < fuel)%nat -> str_rev fuel T c = Some r.
Proof.
  induction 1 as [c Hc|c pre ch r H256 Hl Hg Hch Hpre Hs IH]; intros fuel Hf.
  - destruct fuel as [|f]; [lia|]. cbn [str_rev]. destruct (Z.ltb_spec c 256); [reflexivity|lia].
  - destruct fuel as [|f]; [lia|]. cbn [str_rev]. destruct (Z.ltb_spec c 256); [lia|].
    rewrite Hg. pose proof (Str_nonneg _ _ _ _ Hs) as Hp. rewrite (IH f) by lia. reflexivity.
Qed.

Lemma Str_str_fuel l T c r : Str l T c r -> c < 65600 -> str_rev str_fuel T c = Some r.
Proof. intros H Hc. apply (Str_str_rev _ _ _ _ H). pose proof fuel_val. pose proof (Str_nonneg _ _ _ _ H). lia. Qed.

Lemma Str_inv_ent l T c r : Str l T c r -> 256 <= c ->
  exists pre ch r', r = ch :: r' /\ l <= c /\ tget T c = Some (pre, ch) /\ 0 <= ch <= 255 /\ pre < c /\ Str l T pre r'.
Proof. intros H Hc. destruct H as [c Hb|c pre ch r H256 Hl Hg Hch Hpre Hs]; [lia|]. exists pre, ch, r. auto 10. Qed.

Lemma Str_inv_byte l T c r : Str l T c r -> c < 256 -> r = [c].
Proof. intros H Hc. destruct H as [c Hb|c pre ch r H256 Hl Hg Hch Hpre Hs]; [reflexivity|lia]. Qed.

Lemma last_cons_ne (x : Z) r d : r <> [] -> last (x :: r) d = last r d.
Proof. intros H. destruct r; [congruence|reflexivity]. Qed.

(* ---------------------------------------------------------------- the invariant -------------------------------------------- *)
(* G is the decoder's table completed with the entry the encoder has already numbered and the decoder has not (the pending
   entry); strings are read in G. *)
Record Inv (p : zparams) (G : tabT) (se : est) (sd : dst) : Prop := {
  i_old : 0 <= d_old sd;
  i_dfree : 256 <= d_free sd;
  i_num : (e_free se = d_free sd + 1 /\ d_free sd < maxmax p) \/ (e_free se = d_free sd /\ d_free sd = maxmax p);
  i_wf : forall k, lo p <= k < e_free se -> exists r, Str (lo p) G k r;
  i_dict : forall pre ch k, 0 <= pre -> 0 <= ch <= 255 -> PositiveMap.find (dkey pre ch) (e_dict se) = Some k ->
             lo p <= k < e_free se /\ tget G k = Some (pre, ch);
  i_agree : forall k, lo p <= k < d_free sd -> tget (d_tab sd) k = tget G k;
  i_cur : e_cur se < e_free se;
  i_pend : lo p <= d_free sd -> d_free sd < e_free se ->
             exists ch, tget G (d_free sd) = Some (d_old sd, ch) /\ forall r, Str (lo p) G (e_cur se) r -> last r 0 = ch;
  i_oldstr : lo p <= d_free sd -> d_old sd < d_free sd /\ exists r, Str (lo p) G (d_old sd) r /\ last r 0 = d_fin sd
}.

Definition emit_st (p : zparams) (sd : dst) (x : Z) (rx : list Z) : dst :=
  {| d_tab := if d_free sd <? maxmax p then tset (d_tab sd) (d_free sd) (d_old sd, last rx 0) else d_tab sd;
     d_free := if d_free sd <? maxmax p then d_free sd + 1 else d_free sd;
     d_old := x; d_fin := last rx 0; d_out := rx ++ d_out sd |}.

Lemma Str_tab p G se sd c r : Inv p G se sd -> Str (lo p) G c r -> c < d_free sd -> Str (lo p) (d_tab sd) c r.
Proof.
  intros I H Hc. apply Str_agree with G; [assumption|]. intros k A B C. apply (i_agree _ _ _ _ I). lia.
Qed.

Lemma efree_le p G se sd : Inv p G se sd -> e_free se <= maxmax p.
Proof. intros I. destruct (i_num _ _ _ _ I) as [[A B]|[A B]]; lia. Qed.

Lemma dec_emit p G se sd rx : zparams_okb p = true -> Inv p G se sd -> Str (lo p) G (e_cur se) rx ->
  dec_step p sd (e_cur se) = Some (emit_st p sd (e_cur se) rx).
Proof.
  intros Hp I Hs. pose proof (maxmax_range p Hp) as Hmm. pose proof (efree_le _ _ _ _ I) as Hef.
  pose proof (i_cur _ _ _ _ I) as Hcur. pose proof (i_old _ _ _ _ I) as Hold. pose proof (i_dfree _ _ _ _ I) as Hdf.
  pose proof (Str_valid _ _ _ _ Hs) as Hv. pose proof (lo_range p) as Hlo.
  set (x := e_cur se) in *.
  assert (Hxd : x <= d_free sd) by (destruct (i_num _ _ _ _ I) as [[A B]|[A B]]; lia).
  unfold dec_step. destruct (Z.eqb_spec (d_old sd) (-1)) as [E|_]; [lia|].
  assert (Hclr : z_block p && (x =? 256) = false).
  { destruct (Z.eqb_spec x 256) as [E|E]; [|apply andb_false_r]. unfold lo in Hv. destruct (z_block p); [lia|reflexivity]. }
  rewrite Hclr. destruct (Z.ltb_spec (d_free sd) x) as [E|_]; [lia|].
  assert (Hsr : (if d_free sd <=? x
                 then match str_rev str_fuel (d_tab sd) (d_old sd) with None => None | Some r => Some (d_fin sd :: r) end
                 else str_rev str_fuel (d_tab sd) x) = Some rx).
  { destruct (Z.leb_spec (d_free sd) x) as [E|E].
    - assert (Ex : x = d_free sd) by lia.
      assert (Hlod : lo p <= d_free sd) by lia.
      destruct (i_pend _ _ _ _ I Hlod) as [ch [Hg Hl]]; [lia|].
      destruct (i_oldstr _ _ _ _ I Hlod) as [Hod [ro [Hro Hfin]]].
      destruct (Str_inv_ent _ _ _ _ Hs) as [pre [ch' [r [Er [_ [Hg' [Hch [Hpre Hs']]]]]]]]; [lia|].
      rewrite Ex in Hg'. rewrite Hg in Hg'. inversion Hg'; subst pre ch'.
      rewrite (Str_fun _ _ _ _ Hs' _ Hro) in Er.
      rewrite (Str_str_fuel _ _ _ _ (Str_tab _ _ _ _ _ _ I Hro Hod)) by lia.
      specialize (Hl _ Hs). rewrite Er in Hl. rewrite last_cons_ne in Hl by (apply (Str_nonempty _ _ _ _ Hro)).
      rewrite Er. congruence.
    - apply Str_str_fuel with (lo p); [|lia]. apply (Str_tab _ _ _ _ _ _ I Hs). lia. }
  cbv zeta. rewrite Hsr. unfold emit_st. destruct (d_free sd <? maxmax p); reflexivity.
Qed.

Ltac proj_red := cbn [d_tab d_free d_old d_fin d_out e_dict e_free e_cur e_clears].
Ltac proj_red_in H := cbn [d_tab d_free d_old d_fin d_out e_dict e_free e_cur e_clears] in H.

(* the encoder extends its match: nothing changes on the decoder's side *)
Lemma inv_hit p G se sd ch k rx : Inv p G se sd -> 0 <= ch <= 255 -> Str (lo p) G (e_cur se) rx ->
  PositiveMap.find (dkey (e_cur se) ch) (e_dict se) = Some k ->
  Inv p G {| e_dict := e_dict se; e_free := e_free se; e_cur := k; e_clears := e_clears se |} sd /\ Str (lo p) G k (ch :: rx).
Proof.
  intros I Hch Hs Hf. pose proof (lo_range p) as Hlo.
  destruct (i_dict _ _ _ _ I _ _ _ (Str_nonneg _ _ _ _ Hs) Hch Hf) as [Hk Hg].
  assert (Hsk : Str (lo p) G k (ch :: rx)).
  { destruct (i_wf _ _ _ _ I k Hk) as [r Hr].
    destruct (Str_inv_ent _ _ _ _ Hr) as [pre [ch' [r' [Er [_ [Hg' [_ [Hpre _]]]]]]]]; [lia|].
    rewrite Hg in Hg'. inversion Hg'; subst pre ch'.
    apply Str_ent with (e_cur se); try assumption; lia. }
  split; [|exact Hsk].
  constructor; proj_red; try (apply I).
  - lia.
  - intros A B. destruct (i_pend _ _ _ _ I A B) as [c' [Hgc Hl]]. exists c'. split; [assumption|].
    intros r Hr. rewrite <- (Str_fun _ _ _ _ Hsk _ Hr). rewrite last_cons_ne by (apply (Str_nonempty _ _ _ _ Hs)).
    apply Hl. assumption.
Qed.

Lemma agree_emit p G se sd rx : Inv p G se sd -> Str (lo p) G (e_cur se) rx ->
  forall k, lo p <= k < d_free (emit_st p sd (e_cur se) rx) -> tget (d_tab (emit_st p sd (e_cur se) rx)) k = tget G k.
Proof.
  intros I Hs k. pose proof (lo_range p) as Hlo. unfold emit_st. proj_red.
  destruct (Z.ltb_spec (d_free sd) (maxmax p)) as [E|E]; intros Hk.
  - destruct (Z.eq_dec k (d_free sd)) as [Ek|Ek].
    + subst k. rewrite tget_tset_same.
      destruct (i_pend _ _ _ _ I) as [c' [Hg Hl]]; [lia| |].
      * destruct (i_num _ _ _ _ I) as [[A B]|[A B]]; lia.
      * rewrite Hg. rewrite (Hl _ Hs). reflexivity.
    + rewrite tget_tset_other by lia. apply (i_agree _ _ _ _ I). lia.
  - apply (i_agree _ _ _ _ I). lia.
Qed.

(* emission followed by a CLEAR *)
Lemma inv_clear p G se sd rx ch cl : zparams_okb p = true -> z_block p = true -> Inv p G se sd -> Str (lo p) G (e_cur se) rx ->
  0 <= ch <= 255 ->
  Inv p G {| e_dict := PositiveMap.empty _; e_free := 257; e_cur := ch; e_clears := cl |}
          {| d_tab := d_tab (emit_st p sd (e_cur se) rx); d_free := 256; d_old := d_old (emit_st p sd (e_cur se) rx);
             d_fin := d_fin (emit_st p sd (e_cur se) rx); d_out := d_out (emit_st p sd (e_cur se) rx) |}.
Proof.
  intros Hp Hb I Hs Hch. pose proof (maxmax_range p Hp) as Hmm.
  assert (Hlo : lo p = 257) by (unfold lo; rewrite Hb; reflexivity).
  constructor; proj_red; unfold emit_st; proj_red; try lia.
  - apply (Str_nonneg _ _ _ _ Hs).
  - intros pre c k _ _ H. rewrite PositiveMap.gempty in H. discriminate.
Qed.

(* emission, the encoder numbers a new entry *)
Lemma inv_add p G se sd rx ch cl : zparams_okb p = true -> Inv p G se sd -> Str (lo p) G (e_cur se) rx -> 0 <= ch <= 255 ->
  e_free se < maxmax p ->
  Inv p (tset G (e_free se) (e_cur se, ch))
      {| e_dict := PositiveMap.add (dkey (e_cur se) ch) (e_free se) (e_dict se); e_free := e_free se + 1; e_cur := ch; e_clears := cl |}
      (emit_st p sd (e_cur se) rx).
Proof.
  intros Hp I Hs Hch Hlt. pose proof (maxmax_range p Hp) as Hmm. pose proof (lo_range p) as Hlo.
  pose proof (i_dfree _ _ _ _ I) as Hdf. pose proof (i_cur _ _ _ _ I) as Hcur. pose proof (Str_nonneg _ _ _ _ Hs) as Hx0.
  assert (Hnum : e_free se = d_free sd + 1 /\ d_free sd < maxmax p) by (destruct (i_num _ _ _ _ I) as [[A B]|[A B]]; lia).
  destruct Hnum as [Hef Hdlt].
  pose proof (agree_emit _ _ _ _ _ I Hs) as Hag.
  assert (Hsx : forall c r, Str (lo p) G c r -> c < e_free se -> Str (lo p) (tset G (e_free se) (e_cur se, ch)) c r).
  { intros c r Hc Hlt'. apply Str_agree with G; [assumption|]. intros k A B C. apply tget_tset_other; lia. }
  assert (Hd : d_free (emit_st p sd (e_cur se) rx) = d_free sd + 1).
  { unfold emit_st. proj_red. destruct (Z.ltb_spec (d_free sd) (maxmax p)); lia. }
  constructor; proj_red; try rewrite Hd.
  - unfold emit_st. proj_red. assumption.
  - lia.
  - left. lia.
  - intros k Hk. destruct (Z.eq_dec k (e_free se)) as [Ek|Ek].
    + subst k. exists (ch :: rx). apply Str_ent with (e_cur se); try lia; [apply tget_tset_same|]. apply Hsx; assumption.
    + destruct (i_wf _ _ _ _ I k) as [r Hr]; [lia|]. exists r. apply Hsx; [assumption|lia].
  - intros pre c k Hpre Hc Hf. destruct (Pos.eq_dec (dkey pre c) (dkey (e_cur se) ch)) as [Ek|Ek].
    + rewrite Ek, PositiveMap.gss in Hf. inversion Hf; subst k.
      destruct (dkey_inj _ _ _ _ Hpre Hc Hx0 Hch Ek) as [E1 E2]. subst pre c. split; [lia|apply tget_tset_same].
    + rewrite PositiveMap.gso in Hf by assumption.
      destruct (i_dict _ _ _ _ I _ _ _ Hpre Hc Hf) as [Hk Hg]. split; [lia|]. rewrite tget_tset_other by lia. assumption.
  - intros k Hk. rewrite Hag by lia. rewrite tget_tset_other by lia. reflexivity.
  - lia.
  - intros _ _. exists ch. split.
    + unfold emit_st. proj_red. rewrite <- Hef. apply tget_tset_same.
    + intros r Hr. rewrite (Str_inv_byte _ _ _ _ Hr) by lia. reflexivity.
  - intros _. unfold emit_st. proj_red. split; [lia|]. exists rx. split; [|reflexivity]. apply Hsx; assumption.
Qed.

(* emission with a full table *)
Lemma inv_full p G se sd rx ch cl : zparams_okb p = true -> Inv p G se sd -> Str (lo p) G (e_cur se) rx -> 0 <= ch <= 255 ->
  maxmax p <= e_free se ->
  Inv p G {| e_dict := e_dict se; e_free := e_free se; e_cur := ch; e_clears := cl |} (emit_st p sd (e_cur se) rx).
Proof.
  intros Hp I Hs Hch Hge. pose proof (maxmax_range p Hp) as Hmm. pose proof (lo_range p) as Hlo.
  pose proof (i_dfree _ _ _ _ I) as Hdf. pose proof (i_cur _ _ _ _ I) as Hcur. pose proof (Str_nonneg _ _ _ _ Hs) as Hx0.
  pose proof (efree_le _ _ _ _ I) as Hle.
  pose proof (agree_emit _ _ _ _ _ I Hs) as Hag.
  assert (Hd : d_free (emit_st p sd (e_cur se) rx) = e_free se /\ e_free se = maxmax p).
  { unfold emit_st. proj_red. destruct (i_num _ _ _ _ I) as [[A B]|[A B]]; destruct (Z.ltb_spec (d_free sd) (maxmax p)); lia. }
  destruct Hd as [Hd Hef].
  constructor; proj_red; try rewrite Hd; try (apply I).
  - unfold emit_st. proj_red. assumption.
  - lia.
  - right. lia.
  - intros k Hk. apply Hag. lia.
  - lia.
  - lia.
  - intros _. unfold emit_st. proj_red. split; [lia|]. exists rx. split; [assumption|reflexivity].
Qed.

Lemma bytesb_cons ch t : bytesb (ch :: t) = true -> 0 <= ch <= 255 /\ bytesb t = true.
Proof.
  unfold bytesb. cbn [forallb]. intros H. apply andb_prop in H as [A B]. apply andb_prop in A as [A1 A2].
  apply Z.leb_le in A1. apply Z.leb_le in A2. split; [lia|assumption].
Qed.

Lemma dec_clear p s : z_block p = true -> 0 <= d_old s ->
  dec_step p s 256 = Some {| d_tab := d_tab s; d_free := 256; d_old := d_old s; d_fin := d_fin s; d_out := d_out s |}.
Proof.
  intros Hb Ho. unfold dec_step. destruct (Z.eqb_spec (d_old s) (-1)) as [E|_]; [lia|]. rewrite Hb. reflexivity.
Qed.

Lemma enc_dec_main p : zparams_okb p = true -> forall rest G se sd rx, bytesb rest = true -> Inv p G se sd ->
  Str (lo p) G (e_cur se) rx ->
  exists sd', dec_codes p sd (enc_bytes p se rest) = Some sd' /\ rev (d_out sd') = rev (d_out sd) ++ rev rx ++ rest.
Proof.
  intros Hp. induction rest as [|ch t IH]; intros G se sd rx Hb I Hs.
  - cbn [enc_bytes dec_codes]. rewrite (dec_emit _ _ _ _ _ Hp I Hs). eexists. split; [reflexivity|].
    unfold emit_st. proj_red. rewrite rev_app_distr, app_nil_r. reflexivity.
  - apply bytesb_cons in Hb as [Hch Hb]. cbn [enc_bytes].
    destruct (PositiveMap.find (dkey (e_cur se) ch) (e_dict se)) as [k|] eqn:Hf.
    + destruct (inv_hit _ _ _ _ _ _ _ I Hch Hs Hf) as [I' Hs'].
      destruct (IH _ _ _ _ Hb I' Hs') as [sd' [Hd Ho]]. exists sd'. split; [exact Hd|].
      rewrite Ho. cbn [rev]. rewrite <- !app_assoc. reflexivity.
    + destruct (z_block p && hd false (e_clears se)) eqn:Hclr.
      * apply andb_prop in Hclr as [Hblk _].
        cbn [dec_codes]. rewrite (dec_emit _ _ _ _ _ Hp I Hs).
        rewrite dec_clear; [|assumption|unfold emit_st; proj_red; apply (Str_nonneg _ _ _ _ Hs)].
        pose proof (inv_clear _ _ _ _ _ _ (tl (e_clears se)) Hp Hblk I Hs Hch) as I'.
        destruct (IH _ _ _ [ch] Hb I') as [sd' [Hd Ho]]; [proj_red; apply Str_byte; lia|].
        exists sd'. split; [exact Hd|]. rewrite Ho. unfold emit_st. proj_red.
        rewrite rev_app_distr. cbn [rev app]. rewrite <- !app_assoc. reflexivity.
      * destruct (Z.ltb_spec (e_free se) (maxmax p)) as [Hlt|Hge].
        -- cbn [dec_codes]. rewrite (dec_emit _ _ _ _ _ Hp I Hs).
           pose proof (inv_add _ _ _ _ _ _ (tl (e_clears se)) Hp I Hs Hch Hlt) as I'.
           destruct (IH _ _ _ [ch] Hb I') as [sd' [Hd Ho]]; [proj_red; apply Str_byte; lia|].
           exists sd'. split; [exact Hd|]. rewrite Ho. unfold emit_st. proj_red.
           rewrite rev_app_distr. cbn [rev app]. rewrite <- !app_assoc. reflexivity.
        -- cbn [dec_codes]. rewrite (dec_emit _ _ _ _ _ Hp I Hs).
           pose proof (inv_full _ _ _ _ _ _ (tl (e_clears se)) Hp I Hs Hch Hge) as I'.
           destruct (IH _ _ _ [ch] Hb I') as [sd' [Hd Ho]]; [proj_red; apply Str_byte; lia|].
           exists sd'. split; [exact Hd|]. rewrite Ho. unfold emit_st. proj_red.
           rewrite rev_app_distr. cbn [rev app]. rewrite <- !app_assoc. reflexivity.
Qed.

Lemma dec_first p c : 0 <= c <= 255 ->
  dec_step p (d_init p) c = Some {| d_tab := PositiveMap.empty _; d_free := lo p; d_old := c; d_fin := c; d_out := [c] |}.
Proof.
  intros Hc. unfold dec_step, d_init. proj_red. change (-1 =? -1) with true. cbv iota.
  destruct (Z.leb_spec 256 c); [lia|]. reflexivity.
Qed.

(* A1 *)
Theorem dec_enc_codes : forall p clears l, zparams_okb p = true -> bytesb l = true ->
  exists s, dec_codes p (d_init p) (encode_codes p clears l) = Some s /\ rev (d_out s) = l.
Proof.
  intros p clears l Hp Hb. pose proof (maxmax_range p Hp) as Hmm. pose proof (lo_range p) as Hlo.
  destruct l as [|c t]; [exists (d_init p); split; reflexivity|].
  apply bytesb_cons in Hb as [Hc Hb]. unfold encode_codes. fold (lo p).
  destruct t as [|ch t].
  - cbn [enc_bytes dec_codes]. proj_red. rewrite (dec_first p c Hc). eexists. split; reflexivity.
  - apply bytesb_cons in Hb as [Hch Hb]. cbn [enc_bytes]. proj_red. rewrite PositiveMap.gempty.
    destruct (z_block p && hd false clears) eqn:Hclr.
    + apply andb_prop in Hclr as [Hblk _]. cbn [dec_codes]. rewrite (dec_first p c Hc).
      rewrite dec_clear by (proj_red; assumption || lia). proj_red.
      assert (Hlo' : lo p = 257) by (unfold lo; rewrite Hblk; reflexivity).
      assert (I : Inv p (PositiveMap.empty _) {| e_dict := PositiveMap.empty _; e_free := 257; e_cur := ch; e_clears := tl clears |}
                    {| d_tab := PositiveMap.empty _; d_free := 256; d_old := c; d_fin := c; d_out := [c] |}).
      { constructor; proj_red; try lia.
        intros pre c' k _ _ H. rewrite PositiveMap.gempty in H. discriminate. }
      destruct (enc_dec_main p Hp t _ _ _ [ch] Hb I) as [sd' [Hd Ho]]; [proj_red; apply Str_byte; lia|].
      exists sd'. split; [exact Hd|]. rewrite Ho. reflexivity.
    + destruct (Z.ltb_spec (lo p) (maxmax p)) as [_|E]; [|lia].
      cbn [dec_codes]. rewrite (dec_first p c Hc).
      assert (I : Inv p (tset (PositiveMap.empty _) (lo p) (c, ch))
                    {| e_dict := PositiveMap.add (dkey c ch) (lo p) (PositiveMap.empty _); e_free := lo p + 1; e_cur := ch; e_clears := tl clears |}
                    {| d_tab := PositiveMap.empty _; d_free := lo p; d_old := c; d_fin := c; d_out := [c] |}).
      { constructor; proj_red; try lia.
        - intros k Hk. assert (k = lo p) by lia. subst k. exists [ch; c].
          apply Str_ent with c; try lia; [apply tget_tset_same|apply Str_byte; lia].
        - intros pre c' k Hpre Hc' Hf. destruct (Pos.eq_dec (dkey pre c') (dkey c ch)) as [Ek|Ek].
          + rewrite Ek, PositiveMap.gss in Hf. inversion Hf; subst k.
            destruct (dkey_inj pre c' c ch) as [E1 E2]; try lia; try assumption. subst pre c'. split; [lia|apply tget_tset_same].
          + rewrite PositiveMap.gso, PositiveMap.gempty in Hf by assumption. discriminate.
        - intros _ _. exists ch. split; [apply tget_tset_same|].
          intros r Hr. rewrite (Str_inv_byte _ _ _ _ Hr) by lia. reflexivity.
        - intros _. split; [lia|]. exists [c]. split; [apply Str_byte; lia|reflexivity]. }
      destruct (enc_dec_main p Hp t _ _ _ [ch] Hb I) as [sd' [Hd Ho]]; [proj_red; apply Str_byte; lia|].
      exists sd'. split; [exact Hd|]. rewrite Ho. reflexivity.
Qed.

(* ---------------------------------------------------------------- A2: the codes fit the schedule ---------------------------- *)
Record WInv (p : zparams) (w : wst) : Prop := {
  wi_nb : 9 <= w_nbits w <= z_maxbits p;
  wi_mc1 : w_nbits w < z_maxbits p -> w_maxcode w = 2 ^ w_nbits w - 1;
  wi_mc2 : w_nbits w = z_maxbits p -> w_maxcode w = maxmax p;
  wi_free : 256 <= w_free w <= w_maxcode w + 1;
  wi_free2 : w_free w <= maxmax p
}.

Ltac wproj_red := cbn [w_nbits w_maxcode w_free w_first].

Lemma winv_reset p : zparams_okb p = true -> forall f, 256 <= f <= 257 -> WInv p {| w_nbits := 9; w_maxcode := 511; w_free := f; w_first := false |}.
Proof.
  intros Hp f Hf. pose proof (okb_range p Hp) as Hr. pose proof (maxmax_range p Hp) as Hmm.
  constructor; wproj_red; lia.
Qed.

Lemma bump_inv p w : zparams_okb p = true -> WInv p w ->
  let w1 := if w_maxcode w <? w_free w then w_bump p w else w in
  WInv p w1 /\ w_free w1 <= w_maxcode w1 /\ w_free w1 = w_free w /\ w_first w1 = w_first w.
Proof.
  intros Hp W. pose proof (okb_range p Hp) as Hr. destruct W as [Hnb Hm1 Hm2 Hf Hf2].
  cbv zeta. destruct (Z.ltb_spec (w_maxcode w) (w_free w)) as [E|E].
  - assert (Hlt : w_nbits w < z_maxbits p) by (destruct (Z.eq_dec (w_nbits w) (z_maxbits p)) as [A|A]; [rewrite (Hm2 A) in E; lia|lia]).
    specialize (Hm1 Hlt).
    assert (Hpow : 2 ^ (w_nbits w + 1) = 2 * 2 ^ w_nbits w) by (rewrite Z.pow_add_r by lia; change (2 ^ 1) with 2; lia).
    unfold w_bump. wproj_red.
    destruct (Z.eqb_spec (w_nbits w + 1) (z_maxbits p)) as [A|A].
    + assert (Hmm : maxmax p = 2 * 2 ^ w_nbits w) by (unfold maxmax; rewrite <- A; exact Hpow).
      split; [constructor; wproj_red; lia|]. repeat split; lia.
    + split; [constructor; wproj_red; lia|]. repeat split; lia.
  - split; [constructor; assumption|]. repeat split; lia.
Qed.

Lemma fit_width p w x : zparams_okb p = true -> WInv p w -> w_free w <= w_maxcode w -> x <= w_free w -> x < maxmax p ->
  x < 2 ^ w_nbits w.
Proof.
  intros Hp W Hle Hx Hxm. destruct W as [Hnb Hm1 Hm2 Hf Hf2].
  destruct (Z.eq_dec (w_nbits w) (z_maxbits p)) as [A|A].
  - unfold maxmax in Hxm. rewrite A. assumption.
  - rewrite Hm1 in Hle by lia. lia.
Qed.

Lemma fit_step p w x rest : zparams_okb p = true -> WInv p w -> w_first w = false -> 0 <= x ->
  z_block p && (x =? 256) = false -> x <= w_free w -> x < maxmax p ->
  exists w2, sched_fit p w (x :: rest) = sched_fit p w2 rest /\ WInv p w2 /\ w_first w2 = false /\
             w_free w2 = (if w_free w <? maxmax p then w_free w + 1 else w_free w).
Proof.
  intros Hp W Hfst Hx0 Hclr Hx Hxm. cbn [sched_fit].
  destruct (bump_inv p w Hp W) as [W1 [Hle [Hfr Hf1]]].
  set (w1 := if w_maxcode w <? w_free w then w_bump p w else w) in *.
  pose proof (fit_width p w1 x Hp W1 Hle) as Hfit. rewrite Hfr in Hfit. specialize (Hfit Hx Hxm).
  destruct (Z.leb_spec 0 x); [|lia]. destruct (Z.ltb_spec x (2 ^ w_nbits w1)); [|lia]. cbn [andb].
  eexists. split; [reflexivity|].
  unfold w_after. rewrite Hf1, Hfst, Hclr. wproj_red. rewrite Hfr.
  destruct W1 as [Hnb Hm1 Hm2 Hf Hf2]. rewrite Hfr in *.
  split; [|split; reflexivity].
  constructor; wproj_red; try assumption; destruct (Z.ltb_spec (w_free w) (maxmax p)); lia.
Qed.

Lemma fit_clear p w rest : zparams_okb p = true -> z_block p = true -> WInv p w -> w_first w = false ->
  sched_fit p w (256 :: rest) = sched_fit p {| w_nbits := 9; w_maxcode := 511; w_free := 256; w_first := false |} rest.
Proof.
  intros Hp Hb W Hfst. cbn [sched_fit].
  destruct (bump_inv p w Hp W) as [W1 [Hle [Hfr Hf1]]].
  set (w1 := if w_maxcode w <? w_free w then w_bump p w else w) in *.
  assert (H512 : 2 ^ 9 <= 2 ^ w_nbits w1) by (apply Z.pow_le_mono_r; [lia|apply (wi_nb _ _ W1)]).
  change (2 ^ 9) with 512 in H512.
  change (0 <=? 256) with true. destruct (Z.ltb_spec 256 (2 ^ w_nbits w1)); [|lia]. cbn [andb].
  unfold w_after. rewrite Hf1, Hfst, Hb. reflexivity.
Qed.

Lemma fit_first p c rest : zparams_okb p = true -> 0 <= c <= 255 ->
  sched_fit p (w_init p) (c :: rest) = sched_fit p {| w_nbits := 9; w_maxcode := 511; w_free := lo p; w_first := false |} rest.
Proof.
  intros Hp Hc. pose proof (lo_range p) as Hlo. cbn [sched_fit]. unfold w_init. fold (lo p). wproj_red.
  destruct (Z.ltb_spec 511 (lo p)); [lia|]. wproj_red. change (2 ^ 9) with 512.
  destruct (Z.leb_spec 0 c); [|lia]. destruct (Z.ltb_spec c 512); [|lia]. cbn [andb].
  unfold w_after. wproj_red. reflexivity.
Qed.

Record NInv (p : zparams) (se : est) (w : wst) : Prop := {
  n_w : WInv p w;
  n_first : w_first w = false;
  n_cur : 0 <= e_cur se < e_free se;
  n_cur2 : e_cur se < 256 \/ lo p <= e_cur se;
  n_dict : forall key k, PositiveMap.find key (e_dict se) = Some k -> lo p <= k < e_free se;
  n_num : (e_free se = w_free w + 1 /\ w_free w < maxmax p) \/ (e_free se = w_free w /\ w_free w = maxmax p)
}.

Lemma ninv_emit p se w rest : zparams_okb p = true -> NInv p se w ->
  exists w2, sched_fit p w (e_cur se :: rest) = sched_fit p w2 rest /\ WInv p w2 /\ w_first w2 = false /\
             w_free w2 = (if w_free w <? maxmax p then w_free w + 1 else w_free w).
Proof.
  intros Hp N. destruct N as [W Hf Hc Hc2 Hd Hn]. apply fit_step; try assumption; try lia.
  destruct (Z.eqb_spec (e_cur se) 256) as [E|E]; [|apply andb_false_r]. unfold lo in Hc2. destruct (z_block p); [lia|reflexivity].
Qed.

Lemma enc_fit_main p : zparams_okb p = true -> forall rest se w, bytesb rest = true -> NInv p se w ->
  sched_fit p w (enc_bytes p se rest) = true.
Proof.
  intros Hp. pose proof (maxmax_range p Hp) as Hmm. pose proof (lo_range p) as Hlo.
  induction rest as [|ch t IH]; intros se w Hb N.
  - cbn [enc_bytes]. destruct (ninv_emit p se w [] Hp N) as [w2 [E _]]. rewrite E. reflexivity.
  - apply bytesb_cons in Hb as [Hch Hb]. cbn [enc_bytes].
    destruct (PositiveMap.find (dkey (e_cur se) ch) (e_dict se)) as [k|] eqn:Hf.
    + apply IH; [assumption|]. destruct N as [W Hfs Hc Hc2 Hd Hn]. pose proof (Hd _ _ Hf) as Hk.
      constructor; proj_red; try assumption; lia.
    + destruct (z_block p && hd false (e_clears se)) eqn:Hclr.
      * apply andb_prop in Hclr as [Hblk _].
        destruct (ninv_emit p se w (256 :: enc_bytes p {| e_dict := PositiveMap.empty _; e_free := 257; e_cur := ch; e_clears := tl (e_clears se) |} t) Hp N)
          as [w2 [E [W2 [Hf2 _]]]].
        rewrite E. rewrite (fit_clear p w2 _ Hp Hblk W2 Hf2). apply IH; [assumption|].
        assert (Hlo' : lo p = 257) by (unfold lo; rewrite Hblk; reflexivity).
        constructor; proj_red; wproj_red; try lia.
        -- apply winv_reset; [assumption|lia].
        -- intros key k H. rewrite PositiveMap.gempty in H. discriminate.
      * destruct (Z.ltb_spec (e_free se) (maxmax p)) as [Hlt|Hge].
        -- match goal with |- sched_fit p w (_ :: ?r) = true => destruct (ninv_emit p se w r Hp N) as [w2 [E [W2 [Hf2 Hfr]]]] end.
           rewrite E. apply IH; [assumption|]. destruct N as [W Hfs Hc Hc2 Hd Hn].
           assert (Hnum : e_free se = w_free w + 1 /\ w_free w < maxmax p) by (destruct Hn as [[A B]|[A B]]; lia).
           destruct Hnum as [Hef Hwl]. destruct (Z.ltb_spec (w_free w) (maxmax p)) as [_|A]; [|lia].
           pose proof (wi_free _ _ W) as Hwf.
           constructor; proj_red; try assumption; try lia.
           intros key k H. destruct (Pos.eq_dec key (dkey (e_cur se) ch)) as [Ek|Ek].
           ++ rewrite Ek, PositiveMap.gss in H. inversion H; subst k. lia.
           ++ rewrite PositiveMap.gso in H by assumption. apply Hd in H. lia.
        -- match goal with |- sched_fit p w (_ :: ?r) = true => destruct (ninv_emit p se w r Hp N) as [w2 [E [W2 [Hf2 Hfr]]]] end.
           rewrite E. apply IH; [assumption|]. destruct N as [W Hfs Hc Hc2 Hd Hn].
           pose proof (wi_free _ _ W) as Hwf. pose proof (wi_free2 _ _ W) as Hwf2.
           constructor; proj_red; try assumption; try lia.
           right. destruct (Z.ltb_spec (w_free w) (maxmax p)); destruct Hn as [[A B]|[A B]]; lia.
Qed.

(* A2 *)
Theorem enc_codes_fit : forall p clears l, zparams_okb p = true -> bytesb l = true ->
  sched_fit p (w_init p) (encode_codes p clears l) = true.
Proof.
  intros p clears l Hp Hb. pose proof (maxmax_range p Hp) as Hmm. pose proof (lo_range p) as Hlo.
  destruct l as [|c t]; [reflexivity|].
  apply bytesb_cons in Hb as [Hc Hb]. unfold encode_codes. fold (lo p).
  destruct t as [|ch t].
  - cbn [enc_bytes]. proj_red. rewrite (fit_first p c [] Hp Hc). reflexivity.
  - apply bytesb_cons in Hb as [Hch Hb]. cbn [enc_bytes]. proj_red. rewrite PositiveMap.gempty.
    destruct (z_block p && hd false clears) eqn:Hclr.
    + apply andb_prop in Hclr as [Hblk _]. rewrite (fit_first p c _ Hp Hc).
      rewrite fit_clear; [|assumption|assumption|apply winv_reset; assumption|reflexivity].
      assert (Hlo' : lo p = 257) by (unfold lo; rewrite Hblk; reflexivity).
      apply enc_fit_main; [assumption|assumption|].
      constructor; proj_red; wproj_red; try lia.
      * apply winv_reset; [assumption|lia].
      * intros key k H. rewrite PositiveMap.gempty in H. discriminate.
    + destruct (Z.ltb_spec (lo p) (maxmax p)) as [_|E]; [|lia].
      rewrite (fit_first p c _ Hp Hc). apply enc_fit_main; [assumption|assumption|].
      constructor; proj_red; wproj_red; try lia.
      * apply winv_reset; assumption.
      * intros key k H. destruct (Pos.eq_dec key (dkey c ch)) as [Ek|Ek].
        -- rewrite Ek, PositiveMap.gss in H. inversion H; subst k. lia.
        -- rewrite PositiveMap.gso, PositiveMap.gempty in H by assumption. discriminate.
Qed.

(* ---------------------------------------------------------------- A3: composition with the bit-level half ------------------ *)
Lemma header_params p : zparams_okb p = true ->
  {| z_maxbits := (z_maxbits p + (if z_block p then 128 else 0)) mod 32;
     z_block := 128 <=? z_maxbits p + (if z_block p then 128 else 0) |} = p.
Proof.
  intros Hp. apply okb_range in Hp. destruct p as [mb bl]. cbn [z_maxbits z_block] in *. destruct bl.
  - f_equal; [lia|]. destruct (Z.leb_spec 128 (mb + 128)); [reflexivity|lia].
  - f_equal; [lia|]. destruct (Z.leb_spec 128 (mb + 0)); [lia|reflexivity].
Qed.

Theorem uncompress_compress_from : forall p clears l,
  (forall codes, sched_fit p (w_init p) codes = true ->
     let bits := pack p (w_init p) 0 codes in let payload := bytes_of_bits (S (length bits)) bits in
     unpack (2 * length (bits_of_bytes payload) + 2) p (w_init p) 0 (bits_of_bytes payload) = codes) ->
  zparams_okb p = true -> bytesb l = true -> Z.of_nat (length l) < Consts.C_LIBXMP_DEPACK_LIMIT ->
  uncompress (compress p clears l) = Some l.
Proof.
  intros p clears l H Hp Hb Hlim.
  pose proof (H _ (enc_codes_fit p clears l Hp Hb)) as E. cbv zeta in E.
  destruct (dec_enc_codes p clears l Hp Hb) as [s [Hd Ho]].
  pose proof (okb_range p Hp) as Hr.
  unfold compress, uncompress. cbv zeta. cbn [app].
  change (31 =? 31) with true. change (157 =? 157) with true. cbn [andb negb].
  rewrite (header_params p Hp).
  destruct (Z.ltb_spec (z_maxbits p) 9); [lia|]. destruct (Z.ltb_spec 16 (z_maxbits p)); [lia|]. cbn [orb].
  rewrite E. rewrite Hd. cbv zeta. rewrite rev_append_rev, app_nil_r. rewrite Ho.
  destruct (Z.leb_spec Consts.C_LIBXMP_DEPACK_LIMIT (Z.of_nat (length l))); [lia|]. reflexivity.
Qed.

Print Assumptions dec_enc_codes.
Print Assumptions enc_codes_fit.
Print Assumptions uncompress_compress_from.
