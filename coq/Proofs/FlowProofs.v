(* C16: the sequencer step (Model/Flow.v) ends and leaves the player on an existing order that holds a real pattern, on a row
   of that pattern - for every module with the structural facts and every flow state the effects may have left. *)
From Coq Require Import ZArith List Lia Bool.
Import ListNotations.
From LX Require Import Base.ListAux Model.Flow.
Local Open Scope Z_scope.
Ltac Zify.zify_post_hook ::= Z.div_mod_to_equations.

(* ---- the structural facts as propositions *)
Record fmod_ok (m : fmod) : Prop := {
  ok_len1 : 1 <= f_len m;
  ok_len256 : f_len m <= 256;
  ok_xxolen : Z.of_nat (length (f_xxo m)) = f_len m;
  ok_rowslen : Z.of_nat (length (f_rows m)) = f_pat m;
  ok_xxo : forall o, In o (f_xxo m) -> 0 <= o <= 255;
  ok_rows : forall r, In r (f_rows m) -> 1 <= r;
  ok_rst0 : 0 <= f_rst m;
  ok_rst : f_rst m < f_len m;
  ok_entry0 : 0 <= f_entry m;
  ok_entry : f_entry m < f_len m;
  ok_pat0 : 0 <= f_pat m;
  ok_pat : f_pat m <= 256 }.

Lemma fmod_okb_ok : forall m, fmod_okb m = true -> fmod_ok m.
Proof.
  intros m H. unfold fmod_okb in H.
  repeat rewrite andb_true_iff in H.
  destruct H as [[[[[[[[[[[H1 H2] H3] H4] H5] H6] H7] H8] H9] H10] H11] H12].
  constructor.
  - apply Z.leb_le; exact H1.
  - apply Z.leb_le; exact H2.
  - apply Z.eqb_eq; exact H3.
  - apply Z.eqb_eq; exact H4.
  - intros o Hin. rewrite forallb_forall in H5. specialize (H5 o Hin).
    apply andb_true_iff in H5. destruct H5 as [Ha Hb].
    apply Z.leb_le in Ha. apply Z.leb_le in Hb. lia.
  - intros r Hin. rewrite forallb_forall in H6. specialize (H6 r Hin).
    apply Z.leb_le in H6. exact H6.
  - apply Z.leb_le; exact H7.
  - apply Z.ltb_lt; exact H8.
  - apply Z.leb_le; exact H9.
  - apply Z.ltb_lt; exact H10.
  - apply Z.leb_le; exact H11.
  - apply Z.leb_le; exact H12.
Qed.

Lemma xxo_range : forall m i, fmod_ok m -> 0 <= xxo m i <= 255.
Proof.
  intros m i Hok. unfold xxo.
  destruct (nth_in_or_default (Z.to_nat i) (f_xxo m) 0) as [Hin | Hd].
  - apply (ok_xxo m Hok). exact Hin.
  - rewrite Hd. lia.
Qed.

Lemma rows_ge1 : forall m p, fmod_ok m -> 0 <= p < f_pat m -> 1 <= rows_of m p.
Proof.
  intros m p Hok Hp. unfold rows_of.
  apply (ok_rows m Hok). apply nth_In.
  pose proof (ok_rowslen m Hok) as Hl. lia.
Qed.

(* ---- the do-while of next_order *)
Definition good (m : fmod) (o : Z) : Prop := 0 <= o < f_len m /\ xxo m o < f_pat m.

Definition rtarget (m : fmod) (ord1 : Z) : Z :=
  if (f_len m <? f_rst m) || (f_pat m <=? xxo m (f_rst m)) || (ord1 <? f_entry m) then f_entry m
  else if f_rst_in_seq m then f_rst m else f_entry m.

Definition walk_next (m : fmod) (ord1 : Z) : Z :=
  if (f_len m <=? ord1) || (f_marker m && (ord1 <? f_len m) && (xxo m ord1 =? 255)) then rtarget m ord1 else ord1.

Lemma order_walk_S : forall f m ord,
  order_walk (S f) m ord =
  if f_pat m <=? xxo m (walk_next m (ord + 1)) then order_walk f m (walk_next m (ord + 1)) else Some (walk_next m (ord + 1)).
Proof. intros. reflexivity. Qed.

Lemma rtarget_cases : forall m ord1,
  rtarget m ord1 = f_entry m \/ (rtarget m ord1 = f_rst m /\ xxo m (f_rst m) < f_pat m).
Proof.
  intros m ord1. unfold rtarget.
  destruct (f_len m <? f_rst m); cbn [orb]; [left; reflexivity|].
  destruct (Z.leb_spec (f_pat m) (xxo m (f_rst m))) as [Hle | Hlt]; cbn [orb]; [left; reflexivity|].
  destruct (ord1 <? f_entry m); [left; reflexivity|].
  destruct (f_rst_in_seq m); [right; split; [reflexivity | exact Hlt] | left; reflexivity].
Qed.

Lemma rtarget_range : forall m ord1, fmod_ok m -> 0 <= rtarget m ord1 < f_len m.
Proof.
  intros m ord1 Hok.
  pose proof (ok_rst0 m Hok). pose proof (ok_rst m Hok). pose proof (ok_entry0 m Hok). pose proof (ok_entry m Hok).
  destruct (rtarget_cases m ord1) as [E | [E _]]; rewrite E; lia.
Qed.

(* phase 2: going up from a point from which the sequence is playable *)
Lemma walk_up : forall m, fmod_ok m ->
  forall n i f, playable_from n m i = true -> 0 <= i -> (n <= f)%nat ->
  exists o, order_walk f m (i - 1) = Some o /\ good m o.
Proof.
  intros m Hok. induction n as [|n IH]; intros i f Hp Hi Hf.
  - cbn [playable_from] in Hp. discriminate Hp.
  - destruct f as [|f]; [lia|].
    cbn [playable_from] in Hp.
    rewrite order_walk_S. replace (i - 1 + 1) with i by lia.
    destruct (Z.leb_spec (f_len m) i) as [Hle | Hlt]; [discriminate Hp|].
    unfold walk_next.
    destruct (Z.leb_spec (f_len m) i) as [Hle' | _]; [lia|]. cbn [orb].
    destruct (Z.ltb_spec (xxo m i) (f_pat m)) as [Hx | Hx].
    + destruct (f_marker m && (i <? f_len m) && (xxo m i =? 255)) eqn:Em.
      * apply andb_true_iff in Em. destruct Em as [_ E255]. apply Z.eqb_eq in E255.
        pose proof (xxo_range m (rtarget m i) Hok) as Hr.
        pose proof (rtarget_range m i Hok) as Hrr.
        destruct (Z.leb_spec (f_pat m) (xxo m (rtarget m i))) as [Hc | Hc]; [lia|].
        exists (rtarget m i). split; [reflexivity|]. split; [exact Hrr | exact Hc].
      * destruct (Z.leb_spec (f_pat m) (xxo m i)) as [Hc | Hc]; [lia|].
        exists i. split; [reflexivity|]. split; [lia | exact Hc].
    + assert (Hm : f_marker m && (i <? f_len m) && (xxo m i =? 255) = false).
      { destruct (f_marker m && (xxo m i =? 255)) eqn:E; [discriminate Hp|].
        rewrite <- andb_assoc, (andb_comm (i <? f_len m)), andb_assoc, E. reflexivity. }
      rewrite Hm.
      destruct (f_marker m && (xxo m i =? 255)); [discriminate Hp|].
      destruct (Z.leb_spec (f_pat m) (xxo m i)) as [Hc | Hc]; [|lia].
      replace (order_walk f m i) with (order_walk f m (i + 1 - 1)) by (f_equal; lia).
      apply IH; [exact Hp | lia | lia].
Qed.

Lemma playable_entry_next : forall m, fmod_ok m -> playableb m = true -> f_pat m <= xxo m (f_entry m) ->
  playable_from (Z.to_nat (f_len m) - 1) m (f_entry m + 1) = true.
Proof.
  intros m Hok Hp Hx. unfold playableb in Hp.
  pose proof (ok_len1 m Hok) as Hl.
  destruct (Z.to_nat (f_len m)) as [|n] eqn:E; [lia|].
  cbn [playable_from] in Hp.
  destruct (Z.leb_spec (f_len m) (f_entry m)) as [_ | _]; [discriminate Hp|].
  destruct (Z.ltb_spec (xxo m (f_entry m)) (f_pat m)) as [Hc | _]; [lia|].
  destruct (f_marker m && (xxo m (f_entry m) =? 255)); [discriminate Hp|].
  replace (S n - 1)%nat with n by lia. exact Hp.
Qed.

(* one restart, then phase 2 *)
Lemma walk_after_restart : forall m, fmod_ok m -> playableb m = true ->
  forall f ord1, (Z.to_nat (f_len m) - 1 <= f)%nat ->
  exists o, (if f_pat m <=? xxo m (rtarget m ord1) then order_walk f m (rtarget m ord1) else Some (rtarget m ord1)) = Some o /\ good m o.
Proof.
  intros m Hok Hp f ord1 Hf.
  pose proof (ok_rst0 m Hok). pose proof (ok_rst m Hok). pose proof (ok_entry0 m Hok). pose proof (ok_entry m Hok).
  destruct (rtarget_cases m ord1) as [E | [E Hx]]; rewrite E.
  - destruct (Z.leb_spec (f_pat m) (xxo m (f_entry m))) as [Hc | Hc].
    + replace (order_walk f m (f_entry m)) with (order_walk f m (f_entry m + 1 - 1)) by (f_equal; lia).
      apply (walk_up m Hok (Z.to_nat (f_len m) - 1)%nat).
      * apply playable_entry_next; assumption.
      * lia.
      * exact Hf.
    + exists (f_entry m). split; [reflexivity|]. split; [lia | exact Hc].
  - destruct (Z.leb_spec (f_pat m) (xxo m (f_rst m))) as [Hc | Hc]; [lia|].
    exists (f_rst m). split; [reflexivity|]. split; [lia | exact Hc].
Qed.

(* one step of phase 1: the walk ends, or moves up one order inside the list *)
Lemma walk_step : forall m, fmod_ok m -> playableb m = true ->
  forall f ord, -1 <= ord -> (Z.to_nat (f_len m) - 1 <= f)%nat ->
  (exists o, order_walk (S f) m ord = Some o /\ good m o) \/
  (ord + 1 < f_len m /\ order_walk (S f) m ord = order_walk f m (ord + 1)).
Proof.
  intros m Hok Hp f ord Hord Hf.
  rewrite order_walk_S. unfold walk_next.
  destruct ((f_len m <=? ord + 1) || (f_marker m && (ord + 1 <? f_len m) && (xxo m (ord + 1) =? 255))) eqn:E.
  - left. apply walk_after_restart; assumption.
  - apply orb_false_iff in E. destruct E as [E1 _]. apply Z.leb_gt in E1.
    destruct (Z.leb_spec (f_pat m) (xxo m (ord + 1))) as [Hc | Hc].
    + right. split; [exact E1 | reflexivity].
    + left. exists (ord + 1). split; [reflexivity|]. split; [lia | exact Hc].
Qed.

Lemma walk_reaches : forall m, fmod_ok m -> playableb m = true ->
  forall k ord f, -1 <= ord -> (Z.to_nat (f_len m - ord) <= k)%nat -> (k + Z.to_nat (f_len m) <= f)%nat ->
  exists o, order_walk f m ord = Some o /\ good m o.
Proof.
  intros m Hok Hp. pose proof (ok_len1 m Hok) as Hl.
  induction k as [|k IH]; intros ord f Hord Hk Hf.
  - destruct f as [|f]; [lia|].
    destruct (walk_step m Hok Hp f ord Hord) as [Hd | [Hlt Hrec]]; [lia | exact Hd | lia].
  - destruct f as [|f]; [lia|].
    destruct (walk_step m Hok Hp f ord Hord) as [Hd | [Hlt Hrec]]; [lia | exact Hd |].
    rewrite Hrec. apply IH; lia.
Qed.

Lemma order_walk_good : forall m ord, fmod_ok m -> playableb m = true -> -1 <= ord ->
  exists o, order_walk (Z.to_nat (2 * f_len m + 4)) m ord = Some o /\ good m o.
Proof.
  intros m ord Hok Hp Hord. pose proof (ok_len1 m Hok) as Hl.
  apply (walk_reaches m Hok Hp (Z.to_nat (f_len m + 1))); lia.
Qed.

(* ---- the position clause *)
Lemma pos_okb_intro : forall m s,
  0 <= s_ord s < f_len m -> xxo m (s_ord s) < f_pat m -> s_num_rows s = rows_of m (xxo m (s_ord s)) ->
  0 <= s_row s < s_num_rows s -> pos_okb m s = true.
Proof.
  intros m s H1 H2 H3 H4. unfold pos_okb.
  repeat rewrite andb_true_iff. repeat split.
  - apply Z.leb_le; lia.
  - apply Z.ltb_lt; lia.
  - apply Z.ltb_lt; lia.
  - apply Z.eqb_eq; exact H3.
  - apply Z.leb_le; lia.
  - apply Z.ltb_lt; lia.
Qed.

Lemma pos_okb_elim : forall m s, pos_okb m s = true ->
  0 <= s_ord s < f_len m /\ xxo m (s_ord s) < f_pat m /\ s_num_rows s = rows_of m (xxo m (s_ord s)) /\
  0 <= s_row s < s_num_rows s.
Proof.
  intros m s H. unfold pos_okb in H.
  repeat rewrite andb_true_iff in H.
  destruct H as [[[[[H1 H2] H3] H4] H5] H6].
  apply Z.leb_le in H1. apply Z.ltb_lt in H2. apply Z.ltb_lt in H3. apply Z.eqb_eq in H4.
  apply Z.leb_le in H5. apply Z.ltb_lt in H6.
  repeat split; assumption.
Qed.

Theorem next_order_pos : forall m s, fmod_okb m = true -> playableb m = true -> -1 <= s_ord s -> 0 <= s_jumpline s ->
  exists s', next_order m s = Some s' /\ pos_okb m s' = true /\ s_pos s' = s_ord s' /\ s_frame s' = 0 /\ s_jumpline s' = 0.
Proof.
  intros m s Hokb Hp Hord Hjl.
  pose proof (fmod_okb_ok m Hokb) as Hok.
  destruct (order_walk_good m (s_ord s) Hok Hp Hord) as [o [Ho [Hrange Hx]]].
  unfold next_order. rewrite Ho.
  eexists. split; [reflexivity|].
  split; [| split; [reflexivity | split; reflexivity]].
  pose proof (xxo_range m o Hok) as Hxr.
  assert (Hnr : 1 <= rows_of m (xxo m o)) by (apply rows_ge1; [exact Hok | lia]).
  apply pos_okb_intro; cbn [s_ord s_row s_num_rows].
  - exact Hrange.
  - exact Hx.
  - reflexivity.
  - destruct (Z.leb_spec (rows_of m (xxo m o)) (s_jumpline s)) as [Hc | Hc]; lia.
Qed.

Corollary next_order_pos3 : forall m s, fmod_okb m = true -> playableb m = true -> -1 <= s_ord s -> 0 <= s_jumpline s ->
  exists s', next_order m s = Some s' /\ pos_okb m s' = true /\ s_frame s' = 0.
Proof.
  intros m s Hokb Hp Hord Hjl.
  destruct (next_order_pos m s Hokb Hp Hord Hjl) as [s' [H1 [H2 [_ [H3 _]]]]].
  exists s'. split; [exact H1 | split; [exact H2 | exact H3]].
Qed.

Theorem next_row_pos : forall m s, fmod_okb m = true -> playableb m = true -> pos_okb m s = true -> 0 <= s_jumpline s -> -1 <= s_jump s ->
  exists s', next_row m s = Some s' /\ pos_okb m s' = true /\ s_frame s' = 0.
Proof.
  intros m s Hokb Hp Hpos Hjl Hjump.
  destruct (pos_okb_elim m s Hpos) as [Hord [Hx [Hnr Hrow]]].
  unfold next_row. cbv zeta. cbn [s_ord s_row s_pos s_frame s_pbreak s_jump s_delay s_jumpline s_loop_dest s_loop_param s_num_rows s_rowdelay s_rowdelay_set].
  destruct (s_pbreak s =? 0); cbn [negb].
  - (* no pattern break *)
    destruct (s_rowdelay s =? 0).
    + destruct (Z.leb_spec 0 (s_loop_dest s)) as [Hld | Hld].
      * destruct (Z.leb_spec (s_num_rows s) (s_loop_dest s)) as [Hc | Hc].
        -- apply next_order_pos3; cbn [s_ord s_jumpline]; try assumption; lia.
        -- eexists. split; [reflexivity|]. split; [|reflexivity].
           apply pos_okb_intro; cbn [s_ord s_row s_num_rows]; try assumption; lia.
      * destruct (Z.leb_spec (s_num_rows s) (s_row s + 1)) as [Hc | Hc].
        -- apply next_order_pos3; cbn [s_ord s_jumpline]; try assumption; lia.
        -- eexists. split; [reflexivity|]. split; [|reflexivity].
           apply pos_okb_intro; cbn [s_ord s_row s_num_rows]; try assumption; lia.
    + destruct (Z.leb_spec 0 (s_loop_dest s)) as [Hld | Hld].
      * destruct (Z.leb_spec (s_num_rows s) (s_loop_dest s)) as [Hc | Hc].
        -- apply next_order_pos3; cbn [s_ord s_jumpline]; try assumption; lia.
        -- eexists. split; [reflexivity|]. split; [|reflexivity].
           apply pos_okb_intro; cbn [s_ord s_row s_num_rows]; try assumption; lia.
      * destruct (Z.leb_spec (s_num_rows s) (s_row s)) as [Hc | Hc].
        -- apply next_order_pos3; cbn [s_ord s_jumpline]; try assumption; lia.
        -- eexists. split; [reflexivity|]. split; [|reflexivity].
           apply pos_okb_intro; cbn [s_ord s_row s_num_rows]; try assumption; lia.
  - (* pattern break *)
    apply next_order_pos3; cbn [s_ord s_jumpline]; try assumption.
    destruct (Z.eqb_spec (s_jump s) (-1)) as [Hj | Hj]; cbn [negb]; lia.
Qed.

Print Assumptions next_order_pos.
Print Assumptions next_row_pos.
