(* C15 — Playback never alters the loaded module. *)
From Coq Require Import ZArith List Lia Bool Arith.
Import ListNotations.
From LX Require Import Base.ListAux Model.Wrap Proofs.WrapProofs.

(* The mixer's loop patch followed by its restore is the identity on the whole sample block - guard frames
   included - for every block content and length, 8/16-bit and mono/stereo (unit and window sizes are parameters),
   forward and bidirectional loops, first pass or not, and every loop position with the windows inside the block. *)
Theorem wrap_restore_id : forall p d, wpar_okb p (length d) = true ->
  wrap_reset p (snd (wrap_init p d)) (fst (wrap_init p d)) = d.
Proof. exact WrapProofs.wrap_restore_id. Qed.
Print Assumptions wrap_restore_id.

(* While patched, only the prologue and epilogue windows differ from the loaded data, and the length is unchanged. *)
Theorem patch_touches_only_windows : forall p d, w_pn p <= w_s p ->
  length (fst (wrap_init p d)) = length d /\
  forall j, ~ (w_s p - w_pn p <= j < w_s p) -> ~ (w_e p <= j < w_e p + w_en p) -> geti (fst (wrap_init p d)) j = geti d j.
Proof. intros p d H. unfold wrap_init. cbn [fst]. exact (patch_frame p d H). Qed.
Print Assumptions patch_touches_only_windows.

(* Any sequence of patch / skipped-patch / restore events - over any number of samples and voices, any parameters -
   that runs without protocol error and ends with nothing patched leaves every sample block bit-for-bit as loaded. *)
Theorem clean_run_preserves_samples : forall smps evs,
  ws_err (wrun smps evs) = false -> ws_cur (wrun smps evs) = None -> ws_smps (wrun smps evs) = smps.
Proof. intros smps evs E C. pose proof (wrun_inv smps evs E) as I. rewrite C in I. exact I. Qed.
Print Assumptions clean_run_preserves_samples.

(* ... and the cheap checker run on the event log of real playback (block lengths only) decides exactly that premise. *)
Theorem protocol_check_sound : forall smps evs, protocol_okb (map (@length Z) smps) evs = true -> ws_smps (wrun smps evs) = smps.
Proof.
  intros smps evs H. unfold protocol_okb in H. pose proof (srun_sim smps evs) as S. cbv zeta in S.
  destruct (srun (map (@length Z) smps) evs) as [[c|] [|]] eqn:R; try discriminate.
  cbn [fst snd] in S. destruct S as [S1 S2]. apply clean_run_preserves_samples; [symmetry; exact S1|apply S2; reflexivity].
Qed.
Print Assumptions protocol_check_sound.

(* The one sanctioned writer: the invert-loop position stays within 0..len and the byte it complements lies in
   data[lps .. lps+len] = data[lps .. lpe] (inclusive: the C wraps at pos > len, one byte later than Protracker). *)
Theorem invloop_writes_inside_loop : forall lps pos len, (0 <= len)%Z -> (0 <= pos <= len)%Z ->
  (lps <= invloop_index lps pos len <= lps + len)%Z /\ (0 <= invloop_next pos len <= len)%Z.
Proof. exact invloop_index_range. Qed.
Print Assumptions invloop_writes_inside_loop.

Theorem invloop_reaches_loop_end : exists lps pos len, (0 <= pos <= len)%Z /\ invloop_index lps pos len = (lps + len)%Z.
Proof. exists 10%Z, 3%Z, 4%Z. vm_compute. split; [split; discriminate|reflexivity]. Qed.
Print Assumptions invloop_reaches_loop_end.

(* non-vacuity: a 2-frame forward loop at the very start of an 8-bit sample (prologue reaches into the guard),
   not the first pass; two voices on two samples *)
Example c15_nonvacuous :
  let d := [170; 187; 204; 221; 1; 2; 3; 4; 5; 6; 7; 8]%Z in
  let p := {| w_s := 4; w_e := 6; w_pn := 1; w_en := 2; w_bidir := false; w_first := false |} in
  wpar_okb p (length d) = true /\ fst (wrap_init p d) = [170; 187; 204; 2; 1; 2; 1; 2; 5; 6; 7; 8]%Z /\
  ws_smps (wrun [d; d] [WInit 0 p; WReset; WSkip; WReset; WInit 1 p; WReset]) = [d; d] /\
  protocol_okb [12; 12] [WInit 0 p; WReset; WSkip; WReset; WInit 1 p; WReset] = true /\
  protocol_okb [12; 12] [WInit 0 p; WInit 1 p; WReset] = false.
Proof. vm_compute. repeat split; reflexivity. Qed.
