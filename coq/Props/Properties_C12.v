(* C12 — xmp_play_buffer delivers exactly the frame stream, in any chunking. *)
From Coq Require Import ZArith List Lia Bool Arith.
Import ListNotations.
From LX Require Import Model.PlayBuffer Proofs.PlayBufferProofs.

(* One call of any size: either the next `size` bytes of the frame stream, or - once the stream is
   exhausted - the rest of the stream followed by zeros (return 0), or nothing at all (return -1). *)
Theorem play_buffer_spec : forall loop x size, mono loop (src x) ->
  let r := play_buffer loop x size in
  mono loop (src (st' r)) /\
  (size <= length (stream loop x) -> ret r = 0%Z /\ out r = firstn size (stream loop x) /\ stream loop (st' r) = skipn size (stream loop x)) /\
  (length (stream loop x) < size -> stream loop (st' r) = [] /\
     if 0 <? length (stream loop x) then ret r = 0%Z /\ out r = stream loop x ++ repeat 0%Z (size - length (stream loop x))
     else ret r = (-1)%Z /\ out r = []).
Proof. exact play_buffer_spec_l. Qed.
Print Assumptions play_buffer_spec.

(* Any sequence of requested sizes: nothing dropped, repeated or reordered at chunk boundaries;
   zeros appear only after the whole stream has been delivered. *)
Theorem play_buffer_concat : forall loop sizes x, mono loop (src x) ->
  let '(o, x') := run loop x sizes in
  exists n z, o = firstn n (stream loop x) ++ repeat 0%Z z /\
              (z = 0 -> stream loop x' = skipn n (stream loop x)) /\
              (0 < z -> n = length (stream loop x) /\ stream loop x' = []).
Proof. exact play_buffer_concat_l. Qed.
Print Assumptions play_buffer_concat.

(* The hypothesis `mono` follows from the loop counter never decreasing (C16). *)
Theorem monotone_loop_counter_suffices : forall loop prev s, loops_sorted prev s -> mono loop s.
Proof. exact sorted_mono. Qed.
Print Assumptions monotone_loop_counter_suffices.

(* Carry-over state: what is left unread is never more than (a suffix of) the frame fetched last;
   the NULL-buffer call clears it and the loop counter. *)
Theorem play_buffer_state : forall loop x size,
  let r := play_buffer loop x size in
  (length (rest (st' r)) <= length (rest x) \/ exists f, In f (src x) /\ length (rest (st' r)) <= length (fbytes f)) /\
  rest (reset x) = [] /\ cur_loop (reset x) = 0.
Proof.
  intros loop x size r. split.
  - exact (fill_rest_bound loop (src x) (cur_loop x) size (rest x) false).
  - destruct (reset_spec x) as (A & B & _). auto.
Qed.
Print Assumptions play_buffer_state.

(* Frames are never empty (tick size >= 8), so a request for size > 0 bytes never returns 0 having written nothing. *)
Theorem play_buffer_progress : forall loop x size, 0 < size -> Forall (fun f => fbytes f <> []) (src x) ->
  ret (play_buffer loop x size) = 0%Z -> out (play_buffer loop x size) <> [].
Proof. intros loop x size H F R. exact (fill_progress loop (src x) (cur_loop x) size (rest x) false H F R eq_refl). Qed.
Print Assumptions play_buffer_progress.

(* non-vacuity: three frames, loop limit 1 reached by the third; chunking 2,3,4 *)
Example c12_nonvacuous :
  let x := {| rest := []; src := [ {| fbytes := [1;2;3]%Z; floop := 0 |}; {| fbytes := [4;5]%Z; floop := 0 |}; {| fbytes := [6]%Z; floop := 1 |} ]; cur_loop := 0 |} in
  mono 1 (src x) /\ fst (run 1 x [2; 2; 4; 1]) = [1;2;3;4;5;0;0;0]%Z /\ ret (play_buffer 1 (snd (run 1 x [2;2;4])) 1) = (-1)%Z.
Proof.
  cbv zeta. split; [|split; vm_compute; reflexivity].
  cbn. repeat split; try (intros H; discriminate H); try constructor.
Qed.

(* Ending and starting the player again leaves no carry-over: the new session's stream is exactly the
   frame stream of the fresh source. *)
Theorem restart_is_fresh : forall loop x fs,
  stream loop (st' (step x (Restart fs))) = concat (map fbytes (good loop fs)) /\ cur_loop (st' (step x (Restart fs))) = 0.
Proof. intros. split; reflexivity. Qed.
Print Assumptions restart_is_fresh.
