(* C14 — The mixer is linear: mute means silence, channels superpose, separation mirrors. *)
From Coq Require Import ZArith List Lia Bool Permutation.
Import ListNotations.
From LX Require Import Base.ListAux Model.Downmix Model.Mixer Proofs.MixerProofs Generated.MixTables Model.MixKernel Model.MixKernelSrc Proofs.MixKernelProofs.
Local Open Scope Z_scope.

(* mute / master volume 0: the voice volume is 0, so both gains are 0, so every voice contributes zeros, so the
   accumulator is all zeros, for any number of voices, any samples, any pan, any tick size *)
Theorem mute_is_silence : forall finalvol master pan sur,
  gains (voice_vol finalvol master true) pan sur = (0, 0) /\ gains (voice_vol finalvol 0 false) pan sur = (0, 0).
Proof. intros. rewrite voice_vol_muted, voice_vol_master0, gains_zero. auto. Qed.
Print Assumptions mute_is_silence.

Theorem zero_gains_zero_accumulator : forall n voices,
  Forall (fun smps : list (Z * Z * Z) => (2 * length smps = n)%nat /\ Forall (fun t => snd (fst t) = 0 /\ snd t = 0) smps) voices ->
  vsum n (map contrib voices) = zeros n.
Proof.
  intros n voices H. apply vsum_zeros. rewrite Forall_map. eapply Forall_impl; [|exact H].
  cbv beta. intros smps [Hn Hz]. rewrite (contrib_zero smps Hz), Hn. reflexivity.
Qed.
Print Assumptions zero_gains_zero_accumulator.

(* a zero accumulator is exact digital silence in every output format *)
Theorem zero_accumulator_is_silence : forall amp, 0 <= amp <= 12 ->
  down16s amp 0 0 = 0 /\ down16 amp 32768 0 = 32768 /\ down8s amp 0 0 = 0 /\ down8 amp 128 0 = 128.
Proof.
  intros amp H. unfold down16s, down16, down8s, down8, clip16, clip8, pre16, pre8. rewrite !Z.shiftr_0_l. vm_compute. auto.
Qed.
Print Assumptions zero_accumulator_is_silence.

(* superposition, exact on the accumulators: the mix of all voices is the sum of the mixes of any split of them
   (e.g. the voices of one channel / all the others), and does not depend on the mixing order *)
Theorem accumulators_superpose : forall n (f : list Z -> bool) bufs, all_len n bufs ->
  vsum n bufs = vadd (vsum n (filter f bufs)) (vsum n (filter (fun b => negb (f b)) bufs)).
Proof. exact vsum_partition. Qed.
Print Assumptions accumulators_superpose.

Theorem mixing_order_irrelevant : forall n a b, Permutation a b -> all_len n a -> vsum n a = vsum n b.
Proof. exact vsum_perm. Qed.
Print Assumptions mixing_order_irrelevant.

(* ... and after the output shift the full mix differs from the sum of the solo outputs by less than one
   quantisation step per channel (no clipping: the shift is all the downmix does) *)
Theorem solo_sum_within_one_step_per_channel : forall k solos, 0 <= k -> solos <> [] ->
  0 <= Z.shiftr (zsum solos) k - zsum (map (fun x => Z.shiftr x k) solos) <= Z.of_nat (length solos) - 1.
Proof. exact shiftr_sum_bound. Qed.
Print Assumptions solo_sum_within_one_step_per_channel.

(* separation: negating it negates the effective pan, which swaps the two gains, which swaps left and right of
   every voice's contribution and of the whole accumulator; separation 0 makes the gains equal *)
Theorem separation_mirrors : forall mono sur fp sep vol,
  sep_pan mono sur fp (- sep) = - sep_pan mono sur fp sep /\
  gains vol (- sep_pan mono sur fp sep) false = (snd (gains vol (sep_pan mono sur fp sep) false), fst (gains vol (sep_pan mono sur fp sep) false)) /\
  fst (gains vol (sep_pan mono sur fp 0) false) = snd (gains vol (sep_pan mono sur fp 0) false).
Proof. intros. rewrite sep_pan_neg, sep_pan_zero, gains_neg. split; [reflexivity|]. split; [reflexivity|apply gains_centre]. Qed.
Print Assumptions separation_mirrors.

Theorem swapped_gains_swap_output : forall n voices, Nat.Even n -> Forall (fun smps : list (Z * Z * Z) => (2 * length smps = n)%nat) voices ->
  vsum n (map contrib (map (map swapg) voices)) = swaplr (vsum n (map contrib voices)).
Proof.
  intros n voices He Hl. rewrite map_map. rewrite (map_ext (fun x => contrib (map swapg x)) (fun x => swaplr (contrib x))) by (intros; apply contrib_swap).
  rewrite <- map_map. apply vsum_swap; [exact He|]. unfold all_len. rewrite Forall_map. eapply Forall_impl; [|exact Hl].
  cbv beta. intros smps <-. clear. induction smps as [|[[s l] r] t IH]; [reflexivity|]. cbn. rewrite IH. lia.
Qed.
Print Assumptions swapped_gains_swap_output.

(* non-vacuity: two voices with different pans and ramps, split by channel, and mirrored *)
Example c14_nonvacuous :
  let v1 := [(1000, 30, 90); (-2000, 31, 89)] in let v2 := [(500, 64, 64); (700, 64, 64)] in
  vsum 4 (map contrib [v1; v2]) = [62000; 122000; -17200; -133200] /\
  vsum 4 (map contrib [v1; v2]) = vadd (vsum 4 [contrib v1]) (vsum 4 [contrib v2]) /\
  vsum 4 (map contrib (map (map swapg) [v1; v2])) = [122000; 62000; -133200; -17200] /\
  gains (voice_vol 64 100 false) (sep_pan false false 200 (-50)) false = (64 * 164, 64 * 92).
Proof. vm_compute. auto. Qed.


(* ---------------------------------------------------------------- the kernels of mix_all.c (Model/MixKernel.v) ---------------------
   The theorems above take every voice's contribution as given.  These say where a contribution comes from: each of the 40
   kernels - any interpolation, sample width, sample and output channel count, with or without the IT filter, any position,
   step (forwards or backwards), gains, ramp, filter coefficients and history, any sample memory - ADDS to the accumulation
   buffer a list of values, and leaves a filter history, that do not depend on what the buffer held: so whichever voices were
   mixed before, a voice adds the same thing (superposition), ... *)
Theorem kernel_additive : forall c m a count ramp s buf1 buf2 r1 f1,
  length buf1 = length buf2 -> kernel c m a count ramp s buf1 = Some (r1, f1) ->
  exists r2, kernel c m a count ramp s buf2 = Some (r2, f1) /\ length r1 = length buf1 /\ length r2 = length buf2 /\
    forall i, nth i r1 0 - nth i buf1 0 = nth i r2 0 - nth i buf2 0.
Proof. exact MixKernelProofs.kernel_additive. Qed.
Print Assumptions kernel_additive.

(* ... it touches exactly count output frames, ... *)
Theorem kernel_touches_only_its_frames : forall c m a count ramp s buf r f, kernel c m a count ramp s buf = Some (r, f) ->
  forall i, (Z.to_nat (Z.max 0 count) * (if k_sout c then 2 else 1) <= i)%nat -> nth i r 0 = nth i buf 0.
Proof. exact MixKernelProofs.kernel_touches_only_its_frames. Qed.
Print Assumptions kernel_touches_only_its_frames.

(* ... with both gains 0 and no ramp in progress it adds zeros (mute / master volume 0 at kernel level), ... *)
Theorem kernel_zero_gain_is_silent : forall c m a count ramp s contrib s', count <= ramp \/ k_interp c = Nearest -> 0 <= ramp ->
  a_vl a = 0 -> a_vr a = 0 -> contributions c m a count ramp s = Some (contrib, s') -> Forall (fun x => x = 0) contrib.
Proof. exact MixKernelProofs.kernel_zero_gain_is_silent. Qed.
Print Assumptions kernel_zero_gain_is_silent.

(* ... and for a mono sample on stereo output, exchanging the two gains (with their previous values and ramp steps) exchanges
   the left and right contributions exactly - what negating the pan or the separation does to a voice. *)
Theorem kernel_swap_gains : forall c m a count ramp s contrib s', k_sin c = false -> k_sout c = true ->
  contributions c m a count ramp s = Some (contrib, s') ->
  contributions c m (swap_a a) count ramp (swap_s s) = Some (swap_pairs contrib, swap_s s').
Proof. exact MixKernelProofs.kernel_swap_gains. Qed.
Print Assumptions kernel_swap_gains.

(* Where a kernel reads: the k-th fetch is at the closed-form position pos_at (no drift: start + chn * floor((frac + k * step) / 2^16)),
   and when the sample memory covers the interpolation reach around each of those positions no read leaves it and the call
   succeeds.  The two arithmetic facts are the mixer's "samples until the loop end / start" rule: while k * step has not
   carried the position past the end (or below the start), the k-th position is still inside. *)
Theorem kernel_positions_closed_form : forall n c m a ac s acc acc' s', 0 <= s_frac s < 65536 -> kloop n c m a ac s acc = Some (acc', s') ->
  s_pos s' = s_pos s + chn_of c * ((s_frac s + Z.of_nat n * a_step a) / 65536) /\
  s_frac s' = (s_frac s + Z.of_nat n * a_step a) mod 65536.
Proof. exact kloop_position. Qed.
Print Assumptions kernel_positions_closed_form.

Theorem kernel_reads_in_window : forall c m a count ramp s buf lo hi,
  0 <= s_frac s < 65536 ->
  (forall i, lo <= i <= hi -> rd m i <> None) ->
  (forall k, 0 <= k < count -> lo <= pos_at c a s k + reach_lo c /\ pos_at c a s k + reach_hi c <= hi) ->
  (Z.to_nat (Z.max 0 count) * (if k_sout c then 2 else 1) <= length buf)%nat ->
  kernel c m a count ramp s buf <> None.
Proof. exact MixKernelProofs.kernel_reads_in_window. Qed.
Print Assumptions kernel_reads_in_window.

Theorem forward_positions_below_end : forall P F S E k, 0 <= F < 65536 -> 0 <= k -> F + k * S < (E - P) * 65536 ->
  P + (F + k * S) / 65536 < E.
Proof. exact MixKernelProofs.forward_positions_below_end. Qed.
Print Assumptions forward_positions_below_end.

Theorem reverse_positions_above_start : forall P F S St k, 0 <= F < 65536 -> 0 <= k -> St * 65536 <= P * 65536 + F + k * S ->
  St <= P + (F + k * S) / 65536.
Proof. exact MixKernelProofs.reverse_positions_above_start. Qed.
Print Assumptions reverse_positions_above_start.

(* value ranges: linear interpolation stays between its two samples; the filter history stays inside int32 *)
Theorem linear_fetch_between : forall c m s off v v0 v1, k_interp c = Linear -> 0 <= s_frac s < 65536 ->
  fetch c m s off = Some v -> rd m (s_pos s + off) = Some v0 -> rd m (s_pos s + off + chn_of c) = Some v1 ->
  let sc := fun x => if k_wide c then x else x * 256 in
  Z.min (sc v0) (sc v1) <= v <= Z.max (sc v0) (sc v1).
Proof. exact MixKernelProofs.linear_fetch_between. Qed.
Print Assumptions linear_fetch_between.

Theorem filter_state_in_int32 : forall a smp f1 f2 out n1 n2, filt a smp f1 f2 = (out, n1, n2) ->
  C_FILTER_MIN <= n1 <= C_FILTER_MAX /\ n2 = f1 /\ -65536 <= out <= 65535.
Proof. exact filt_state_in_int32. Qed.
Print Assumptions filter_state_in_int32.

(* the tie by translation: the MIXER bodies regenerated from src/mix_all.c on this run are exactly the 40 bodies that the 40
   kernel descriptions stand for, under the names mixer.c selects them by *)
Theorem kernels_in_source_are_the_modelled_ones : source_matchesb = true.
Proof. vm_compute. reflexivity. Qed.
Print Assumptions kernels_in_source_are_the_modelled_ones.

(* non-vacuity: a linear, 16-bit, mono-sample, stereo-output kernel call with a ramp: three frames at step 1.5 from position 1.25;
   the same call on another buffer adds the same values *)
Example c14_kernel_nonvacuous :
  let c := {| k_interp := Linear; k_wide := true; k_sin := false; k_sout := true; k_filter := false |} in
  let m := {| m_data := [0; 100; 200; 300; 400; 500; 600; 700]; m_base := 0 |} in
  let a := {| a_vl := 2; a_vr := 3; a_step := 98304; a_dl := 256; a_dr := 0; a_a0 := 0; a_b0 := 0; a_b1 := 0 |} in
  let s := {| s_pos := 1; s_frac := 16384; s_ovl := 256; s_ovr := 512; s_l1 := 0; s_l2 := 0; s_r1 := 0; s_r2 := 0 |} in
  kernel c m a 3 1 s [0; 0; 0; 0; 0; 0; 9] = Some ([125; 250; 550; 550; 850; 1275; 9], (0, 0, 0, 0)) /\
  kernel c m a 3 1 s [1; 1; 1; 1; 1; 1; 1] = Some ([126; 251; 551; 551; 851; 1276; 1], (0, 0, 0, 0)) /\
  kernel c m a 3 1 s [0; 0; 0; 0; 0] = None /\ kernel c m a 5 1 s (repeat 0 10) = None.
Proof. vm_compute. repeat split; reflexivity. Qed.
