(* C14 — The mixer is linear: mute means silence, channels superpose, separation mirrors. *)
From Coq Require Import ZArith List Lia Bool Permutation.
Import ListNotations.
From LX Require Import Base.ListAux Model.Downmix Model.Mixer Proofs.MixerProofs.
Local Open Scope Z_scope.

(* mute / master volume 0: the voice volume is 0, so both gains are 0, so every voice contributes zeros, so the
   accumulator is all zeros, for any number of voices, any samples, any pan, any tick size *)
Theorem mute_is_silence : forall finalvol master pan sur,
  gains (voice_vol finalvol master true) pan sur = (0, 0) /\ gains (voice_vol finalvol 0 false) pan sur = (0, 0).
Proof. intros. rewrite voice_vol_muted, voice_vol_master0, gains_zero. auto. Qed.
Print Assumptions mute_is_silence.

Theorem zero_gains_zero_accumulator : forall n voices,
  Forall (fun smps : list (Z * Z * Z) => (2 * length smps = n)%nat /\ Forall (fun t => snd (fst t) = 0 /\ snd t = 0) smps) voices ->
  vsum n (map contrib voices) = zeros n.
Proof.
  intros n voices H. apply vsum_zeros. rewrite Forall_map. eapply Forall_impl; [|exact H].
  cbv beta. intros smps [Hn Hz]. rewrite (contrib_zero smps Hz), Hn. reflexivity.
Qed.
Print Assumptions zero_gains_zero_accumulator.

(* a zero accumulator is exact digital silence in every output format *)
Theorem zero_accumulator_is_silence : forall amp, 0 <= amp <= 12 ->
  down16s amp 0 0 = 0 /\ down16 amp 32768 0 = 32768 /\ down8s amp 0 0 = 0 /\ down8 amp 128 0 = 128.
Proof.
  intros amp H. unfold down16s, down16, down8s, down8, clip16, clip8, pre16, pre8. rewrite !Z.shiftr_0_l. vm_compute. auto.
Qed.
Print Assumptions zero_accumulator_is_silence.

(* superposition, exact on the accumulators: the mix of all voices is the sum of the mixes of any split of them
   (e.g. the voices of one channel / all the others), and does not depend on the mixing order *)
Theorem accumulators_superpose : forall n (f : list Z -> bool) bufs, all_len n bufs ->
  vsum n bufs = vadd (vsum n (filter f bufs)) (vsum n (filter (fun b => negb (f b)) bufs)).
Proof. exact vsum_partition. Qed.
Print Assumptions accumulators_superpose.

Theorem mixing_order_irrelevant : forall n a b, Permutation a b -> all_len n a -> vsum n a = vsum n b.
Proof. exact vsum_perm. Qed.
Print Assumptions mixing_order_irrelevant.

(* ... and after the output shift the full mix differs from the sum of the solo outputs by less than one
   quantisation step per channel (no clipping: the shift is all the downmix does) *)
Theorem solo_sum_within_one_step_per_channel : forall k solos, 0 <= k -> solos <> [] ->
  0 <= Z.shiftr (zsum solos) k - zsum (map (fun x => Z.shiftr x k) solos) <= Z.of_nat (length solos) - 1.
Proof. exact shiftr_sum_bound. Qed.
Print Assumptions solo_sum_within_one_step_per_channel.

(* separation: negating it negates the effective pan, which swaps the two gains, which swaps left and right of
   every voice's contribution and of the whole accumulator; separation 0 makes the gains equal *)
Theorem separation_mirrors : forall mono sur fp sep vol,
  sep_pan mono sur fp (- sep) = - sep_pan mono sur fp sep /\
  gains vol (- sep_pan mono sur fp sep) false = (snd (gains vol (sep_pan mono sur fp sep) false), fst (gains vol (sep_pan mono sur fp sep) false)) /\
  fst (gains vol (sep_pan mono sur fp 0) false) = snd (gains vol (sep_pan mono sur fp 0) false).
Proof. intros. rewrite sep_pan_neg, sep_pan_zero, gains_neg. split; [reflexivity|]. split; [reflexivity|apply gains_centre]. Qed.
Print Assumptions separation_mirrors.

Theorem swapped_gains_swap_output : forall n voices, Nat.Even n -> Forall (fun smps : list (Z * Z * Z) => (2 * length smps = n)%nat) voices ->
  vsum n (map contrib (map (map swapg) voices)) = swaplr (vsum n (map contrib voices)).
Proof.
  intros n voices He Hl. rewrite map_map. rewrite (map_ext (fun x => contrib (map swapg x)) (fun x => swaplr (contrib x))) by (intros; apply contrib_swap).
  rewrite <- map_map. apply vsum_swap; [exact He|]. unfold all_len. rewrite Forall_map. eapply Forall_impl; [|exact Hl].
  cbv beta. intros smps <-. clear. induction smps as [|[[s l] r] t IH]; [reflexivity|]. cbn. rewrite IH. lia.
Qed.
Print Assumptions swapped_gains_swap_output.

(* non-vacuity: two voices with different pans and ramps, split by channel, and mirrored *)
Example c14_nonvacuous :
  let v1 := [(1000, 30, 90); (-2000, 31, 89)] in let v2 := [(500, 64, 64); (700, 64, 64)] in
  vsum 4 (map contrib [v1; v2]) = [62000; 122000; -17200; -133200] /\
  vsum 4 (map contrib [v1; v2]) = vadd (vsum 4 [contrib v1]) (vsum 4 [contrib v2]) /\
  vsum 4 (map contrib (map (map swapg) [v1; v2])) = [122000; 62000; -133200; -17200] /\
  gains (voice_vol 64 100 false) (sep_pan false false 200 (-50)) false = (64 * 164, 64 * 92).
Proof. vm_compute. auto. Qed.
