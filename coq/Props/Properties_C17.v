(* C17 — Position control lands exactly where asked. *)
From Coq Require Import ZArith List Lia Bool.
Import ListNotations.
From LX Require Import Base.ListAux Model.Seek Proofs.SeekProofs.
Local Open Scope Z_scope.

(* Every theorem is for every module whose tables satisfy smod_okb (evaluated on every module of the tie), every
   player state `s` - whatever row, tick, pending jump, break, delay or loop it is in - and every environment
   step `a`; `on_end_marker` is the one state in which xmp_play_frame reports the end before looking at the
   request (playback standing on an S3M/IT end marker). *)
Definition on_end_marker (m : smod) (s : pst) : bool := sm_marker m && (xxo m (ord s) =? 255).

(* xmp_set_position(p), p an order that holds a pattern and belongs to a registered sequence: reports p
   (the first order is reported as -1: known finding), clears the pending flow state, and the next frame is
   row 0, tick 0 of order p in p's sequence - whether or not p is the order already playing *)
Theorem set_position_lands : forall m s a p,
  smod_okb m = true ->
  0 <= p < sm_len m -> xxo m p < sm_npat m -> seqctl m p < sm_nseq m -> entry m (seqctl m p) <= p ->
  on_end_marker m s = false ->
  let '(s1, r) := control m s (SetPos p) in
  r = (if p =? 0 then -1 else p) /\ fl s1 = flow_reset /\
  exists s2, play_frame m s1 a = FOk s2 /\ pos s2 = p /\ ord s2 = p /\ row s2 = 0 /\ frame s2 = 0 /\ sq s2 = seqctl m p.
Proof.
  intros m s a p Hok Hp Hpat Hseq Hent Hm. apply okb_okP in Hok. cbn [control].
  pose proof (x_set_position_valid m Hok s p Hp Hpat Hseq) as H. destruct (x_set_position m s p) as [s1 r].
  destruct H as (H1 & H2 & H3 & H4 & H5 & H6 & H7). split; [exact H1|]. split; [exact H3|].
  assert (Hs : 0 <= sq s1 < sm_nseq m) by (rewrite H2; pose proof (ok_ctl_rng m Hok p); pose proof (ok_len m Hok); lia).
  destruct (frame_lands m Hok s1 a p Hp Hpat Hs) as (s2 & F & G1 & G2 & G3 & G4 & G5 & _).
  - rewrite H2. exact Hent.
  - exact H5.
  - rewrite H6, H4. reflexivity.
  - rewrite H4. exact Hm.
  - exists s2. rewrite H2 in G5. repeat split; assumption.
Qed.
Print Assumptions set_position_lands.

(* the hypothesis entry <= p above is part of smod_okb: *)
Theorem member_after_entry : forall m p, smod_okb m = true -> 0 <= p < sm_len m -> xxo m p < sm_npat m -> seqctl m p < sm_nseq m ->
  entry m (seqctl m p) <= p.
Proof. intros m p Hok. apply okb_okP in Hok. apply (ok_member m Hok). Qed.
Print Assumptions member_after_entry.

(* known finding, as a theorem about the model: the first order is reported as -1 *)
Theorem set_position_first_order_returns_minus_one : forall m s,
  smod_okb m = true -> xxo m 0 < sm_npat m -> seqctl m 0 < sm_nseq m -> snd (control m s (SetPos 0)) = -1.
Proof.
  intros m s Hok Hpat Hseq. apply okb_okP in Hok. cbn [control].
  assert (Hp : 0 <= 0 < sm_len m) by (pose proof (ok_len m Hok); lia).
  pose proof (x_set_position_valid m Hok s 0 Hp Hpat Hseq) as H. destruct (x_set_position m s 0) as [s1 r]. cbn [snd]. destruct H as (H1 & _). exact H1.
Qed.
Print Assumptions set_position_first_order_returns_minus_one.

(* xmp_seek_time(t): picks the last order of the current sequence that holds a pattern and whose recorded start
   time is <= t (that this time is when straight playback enters the order is C18's theorem), and the next frame
   is row 0, tick 0 of it *)
Theorem seek_time_selects : forall m s a t i,
  smod_okb m = true -> 0 <= sq s < sm_nseq m -> on_end_marker m s = false ->
  seek_find m s t (Z.to_nat (sm_len m)) = Some i ->
  (0 <= i < sm_len m /\ seek_cand m s t i /\ forall j, i < j < sm_len m -> ~ seek_cand m s t j) /\
  let '(s1, r) := control m s (Seek t) in
  r = i /\ fl s1 = flow_reset /\
  exists s2, play_frame m s1 a = FOk s2 /\ pos s2 = i /\ ord s2 = i /\ row s2 = 0 /\ frame s2 = 0 /\ sq s2 = sq s.
Proof. intros m s a t i Hok Hs Hm Hf. apply okb_okP in Hok. cbn [control]. exact (x_seek_selects m Hok s t a Hs Hm i Hf). Qed.
Print Assumptions seek_time_selects.

(* and seek_find finds an order whenever one qualifies *)
Theorem seek_find_complete : forall m s t, smod_okb m = true ->
  seek_find m s t (Z.to_nat (sm_len m)) = None -> forall j, 0 <= j < sm_len m -> ~ seek_cand m s t j.
Proof.
  intros m s t Hok Hf j Hj. apply okb_okP in Hok. pose proof (seek_find_spec m s t (Z.to_nat (sm_len m))) as Sp. rewrite Hf in Sp.
  apply Sp. pose proof (ok_len m Hok). rewrite Z2Nat.id by lia. exact Hj.
Qed.
Print Assumptions seek_find_complete.

(* with no reposition pending (pos = ord): next / prev move exactly one order inside the sequence ... *)
Theorem next_position_steps : forall m s a,
  smod_okb m = true -> pos s = ord s -> 0 <= ord s -> ord s + 1 < sm_len m -> xxo m (ord s + 1) < sm_npat m ->
  0 <= sq s < sm_nseq m -> seqctl m (ord s + 1) = sq s -> on_end_marker m s = false ->
  let '(s1, r) := control m s Next in
  r = ord s + 1 /\ exists s2, play_frame m s1 a = FOk s2 /\ pos s2 = ord s + 1 /\ row s2 = 0 /\ frame s2 = 0 /\ sq s2 = sq s.
Proof. intros m s a Hok. apply okb_okP in Hok. cbn [control]. apply (x_next_steps m Hok). Qed.
Print Assumptions next_position_steps.

Theorem prev_position_steps : forall m s a,
  smod_okb m = true -> pos s = ord s -> 0 <= sq s < sm_nseq m -> entry m (sq s) < ord s -> ord s < sm_len m -> xxo m (ord s - 1) < sm_npat m ->
  on_end_marker m s = false ->
  let '(s1, r) := control m s Prev in
  r = ord s - 1 /\ exists s2, play_frame m s1 a = FOk s2 /\ pos s2 = ord s - 1 /\ row s2 = 0 /\ frame s2 = 0 /\ sq s2 = sq s.
Proof. intros m s a Hok. apply okb_okP in Hok. cbn [control]. apply (x_prev_steps m Hok). Qed.
Print Assumptions prev_position_steps.

(* ... and stay put at the ends: next at the last order of the list changes nothing; prev at the sequence's entry
   point restarts that order *)
Theorem next_position_at_end : forall m s,
  smod_okb m = true -> pos s = sm_len m - 1 -> 0 <= sq s < sm_nseq m ->
  let '(s1, r) := control m s Next in pos s1 = pos s /\ ord s1 = ord s /\ row s1 = row s /\ frame s1 = frame s /\ r = pos s.
Proof. intros m s Hok. apply okb_okP in Hok. cbn [control]. apply (x_next_at_end m Hok). Qed.
Print Assumptions next_position_at_end.

Theorem prev_position_at_start : forall m s a,
  smod_okb m = true -> pos s = ord s -> 0 <= sq s < sm_nseq m -> ord s = entry m (sq s) -> xxo m (ord s) < sm_npat m ->
  on_end_marker m s = false ->
  let '(s1, r) := control m s Prev in
  r = 0 /\ exists s2, play_frame m s1 a = FOk s2 /\ pos s2 = ord s /\ row s2 = 0 /\ frame s2 = 0 /\ sq s2 = sq s.
Proof. intros m s a Hok. apply okb_okP in Hok. cbn [control]. apply (x_prev_at_start m Hok). Qed.
Print Assumptions prev_position_at_start.

(* known finding, with its witness: at the last order of a sequence that is not the last order of the list,
   next_position moves into the other sequence's order *)
Definition two_seq_module : smod :=
  {| sm_len := 2; sm_npat := 1; sm_xxo := 0 :: 0 :: repeat 0 254; sm_rows := [64]; sm_marker := false; sm_rst := 0;
     sm_nseq := 2; sm_entry := [0; 1]; sm_seqctl := 0 :: 1 :: repeat 255 254;
     sm_scan_ord := [0; 1]; sm_scan_row := [0; 0]; sm_scan_num := [1; 1]; sm_time := 0 :: 0 :: repeat (-1) 254 |}.
Theorem next_position_leaves_sequence :
  smod_okb two_seq_module = true /\
  let s := {| pos := 0; ord := 0; row := 3; frame := 2; repos := false; sq := 0; loopc := 0; speed := 6; num_rows := 64; end_point := 0; fl := flow_reset |} in
  seqctl two_seq_module 1 <> sq s /\ pos (fst (control two_seq_module s Next)) = 1 /\ sq (fst (control two_seq_module s Next)) = 0.
Proof. vm_compute. repeat split; congruence. Qed.
Print Assumptions next_position_leaves_sequence.

(* xmp_set_row(r), no reposition pending, r a row of the current pattern: reports r and the next frame is tick 0
   of row r of the current order *)
Theorem set_row_lands : forall m s a r,
  smod_okb m = true -> pos s = ord s -> 0 <= ord s < sm_len m -> xxo m (ord s) < sm_npat m -> 0 <= r < rows_of m (xxo m (ord s)) ->
  0 < speed s * (1 + fl_delay (fl s)) -> on_end_marker m s = false ->
  let '(s1, ret) := control m s (SetRow r) in
  ret = r /\ exists s2, play_frame m s1 a = FOk s2 /\ pos s2 = ord s /\ ord s2 = ord s /\ row s2 = r /\ frame s2 = 0 /\ sq s2 = sq s.
Proof. intros m s a r Hok. apply okb_okP in Hok. cbn [control]. apply (x_set_row_valid m). Qed.
Print Assumptions set_row_lands.

(* xmp_restart_module: back to the sequence's entry point with loop count 0 (the scan's end position of the sequence
   lies at or after the entry point and was counted at least once: scan_endb, reported per module by the tie) *)
Theorem restart_lands : forall m s a,
  smod_okb m = true -> 0 <= sq s < sm_nseq m -> 0 <= ord s -> xxo m (entry m (sq s)) < sm_npat m -> on_end_marker m s = false ->
  entry m (sq s) <= zgd (sm_scan_ord m) (sq s) -> 1 <= zgd (sm_scan_num m) (sq s) ->
  let '(s1, _) := control m s Restart in
  fl s1 = flow_reset /\
  exists s2, play_frame m s1 a = FOk s2 /\ pos s2 = entry m (sq s) /\ row s2 = 0 /\ frame s2 = 0 /\ sq s2 = sq s /\ loopc s2 = 0.
Proof. intros m s a Hok H1 H2 H3 H4 H5 H6. apply okb_okP in Hok. split; [reflexivity|]. apply (SeekProofs.restart_lands m Hok); assumption. Qed.
Print Assumptions restart_lands.

(* after xmp_stop_module the next frame reports the end *)
Theorem stop_then_end : forall m s a, smod_okb m = true -> 0 <= ord s ->
  let '(s1, _) := control m s Stop in exists s2, play_frame m s1 a = FEnd s2 /\ pos s2 = -2.
Proof. intros m s a Hok Ho. apply okb_okP in Hok. apply (stop_ends m s a Ho). pose proof (ok_len m Hok). lia. Qed.
Print Assumptions stop_then_end.

(* targets outside the order list or the pattern are refused and leave playback where it was *)
Theorem invalid_targets_refused : forall m s,
  (forall p, p < 0 \/ sm_len m <= p -> control m s (SetPos p) = (s, EINVAL)) /\
  (forall r, let p0 := if (pos s <? 0) || (sm_len m <=? pos s) then 0 else pos s in
             sm_npat m <= xxo m p0 \/ r < 0 \/ rows_of m (xxo m p0) <= r -> control m s (SetRow r) = (s, EINVAL)).
Proof. intros m s. split; [intros p H; apply x_set_position_invalid; exact H|intros r p0 H; apply x_set_row_invalid; exact H]. Qed.
Print Assumptions invalid_targets_refused.

(* non-vacuity: a three-order module, in the middle of a pattern delay with a jump pending, set_position on the order
   being played *)
Example c17_nonvacuous :
  let m := {| sm_len := 3; sm_npat := 2; sm_xxo := 0 :: 1 :: 0 :: repeat 0 253; sm_rows := [64; 32]; sm_marker := false; sm_rst := 0;
              sm_nseq := 1; sm_entry := [0]; sm_seqctl := 0 :: 0 :: 0 :: repeat 255 253;
              sm_scan_ord := [0]; sm_scan_row := [0]; sm_scan_num := [1]; sm_time := 0 :: 7680 :: 11520 :: repeat (-1) 253 |} in
  let s := {| pos := 1; ord := 1; row := 17; frame := 9; repos := false; sq := 0; loopc := 0; speed := 6; num_rows := 32; end_point := 0;
              fl := {| fl_jumpline := 4; fl_jump := 2; fl_pbreak := 1; fl_delay := 3; fl_clean := false |} |} in
  let a := {| a_ord := 0; a_row := 0; a_frame := 0; a_loopc := 0; a_speed := 6; a_num_rows := 32; a_end_point := 0; a_fl := flow_reset |} in
  smod_okb m = true /\ on_end_marker m s = false /\
  match play_frame m (fst (control m s (SetPos 1))) a with FOk s2 => (pos s2, row s2, frame s2) = (1, 0, 0) | _ => False end /\
  snd (control m s (Seek 9000)) = 1 /\ snd (control m s (Seek 11520)) = 2.
Proof. vm_compute. repeat split; congruence. Qed.
