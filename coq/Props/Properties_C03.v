(* C03 — A successfully loaded module is structurally well-formed. *)
From Coq Require Import ZArith List Lia Bool.
Import ListNotations.
From LX Require Import Base.ListAux Generated.Consts Model.ModuleWf Model.Gate Proofs.GateProofs Model.SeqScan Proofs.SeqScanProofs Model.ModLoad Proofs.ModLoadProofs Model.C669Load Proofs.C669LoadProofs Model.MtmLoad Proofs.MtmLoadProofs Model.S3MLoad Proofs.S3MLoadProofs Proofs.LoaderStreamProofs.
Local Open Scope Z_scope.

(* Whatever a loader leaves behind (arbitrary integers in every field), if the sanity gate, the epilogue and
   prepare_scan let it through, and the loader kept the facts the gate does not establish (loader_postb: tables
   allocated to the declared counts, rows >= 1 from the allocation helpers, sample blocks from the sample loader,
   non-negative envelope indices, NUL-terminated names), then the module exposed is well-formed in every clause of
   the property except the sequence clause, which libxmp_scan_sequences establishes (sequence_table_wf below). *)
Theorem gate_establishes_wf : forall r m, finish r = Some m -> loader_postb r = true -> wf_noseq m = true.
Proof. exact gate_wf. Qed.
Print Assumptions gate_establishes_wf.

(* ... and with valid sequences the full predicate holds *)
(* the same for the whole accept decision of load_module, which also needs the scan to find an order to play *)
Theorem accepted_is_wf : forall r mk m, load_accepts r mk = Some m -> loader_postb r = true -> wf_noseq m = true.
Proof.
  intros r mk m H P. unfold load_accepts in H. destruct (finish r) as [m'|] eqn:F; [|discriminate].
  destruct (scan_finds mk m'); [|discriminate]. injection H as <-. exact (gate_wf r m' F P).
Qed.
Print Assumptions accepted_is_wf.

Theorem gate_wf_full : forall r m, finish r = Some m -> loader_postb r = true -> seqs_okb m = true -> public_wfb m = true.
Proof.
  intros r m F P S. pose proof (gate_wf r m F P) as W. unfold wf_noseq in W. unfold public_wfb. rewrite W, S. reflexivity.
Qed.
Print Assumptions gate_wf_full.

(* the gate refuses what it must: too many channels / orders, channel volume or pan out of range, a missing
   pattern, a track index outside the track table or naming a missing track *)
Theorem gate_rejects_bad : forall r,
  (C_XMP_MAX_CHANNELS < d_chn (r_m r) \/ C_XMP_MAX_MOD_LENGTH < d_len (r_m r) \/ r_has_xxp r = false) -> finish r = None.
Proof.
  intros r H. unfold finish, gate_rejects.
  destruct H as [H|[H|H]].
  - apply Z.ltb_lt in H. rewrite H. reflexivity.
  - apply Z.ltb_lt in H. rewrite H, orb_true_r. reflexivity.
  - rewrite H. cbn [negb]. rewrite !orb_true_r. reflexivity.
Qed.
Print Assumptions gate_rejects_bad.

Theorem envelope_and_sample_clamps : forall e s,
  (env_nonneg e = true -> env_okb (check_envelope e) = true) /\
  (sample_post s = true -> sample_okb (fix_sample s) = true).
Proof. intros e s. split; [apply check_envelope_ok | apply fix_sample_ok]. Qed.
Print Assumptions envelope_and_sample_clamps.

(* The hypothesis "envelope indices non-negative" is needed: the epilogue does not reject negative loop points. *)
Theorem negative_envelope_index_survives : exists e,
  env_okb (check_envelope e) = false.
Proof. exists {| e_flg := 5; e_npt := 4; e_sus := 0; e_sue := 0; e_lps := -3; e_lpe := 2 |}. vm_compute. reflexivity. Qed.
Print Assumptions negative_envelope_index_survives.

Example c03_nonvacuous :
  let m0 := {| d_chn := 1; d_len := 3; d_pat := 1; d_trk := 1; d_ins := 1; d_smp := 1; d_spd := 0; d_bpm := 5; d_rst := 99;
               d_name_ok := true; d_type_ok := true; d_xxo := [0; 1; 255]; d_chans := [(64, 128)];
               d_pats := [Some {| p_rows := 64; p_index := [0] |}]; d_trks := [Some 64];
               d_inss := [{| i_nsm := 1; i_sub := true; i_name_ok := true;
                             i_aei := {| e_flg := 7; e_npt := 33; e_sus := 0; e_sue := 0; e_lps := 40; e_lpe := 0 |};
                             i_pei := {| e_flg := 0; e_npt := 0; e_sus := 0; e_sue := 0; e_lps := 0; e_lpe := 0 |};
                             i_fei := {| e_flg := 0; e_npt := 0; e_sus := 0; e_sue := 0; e_lps := 0; e_lpe := 0 |} |}];
               d_smps := [{| sm_len := 16; sm_lps := 0; sm_lpe := 16; sm_flg := 34; sm_data := true; sm_name_ok := true; sm_sus := -5; sm_sue := 100 |}];
               d_seqs := [(0, 100)] |} in
  let r := {| r_m := m0; r_has_xxp := true; r_has_xxt := true |} in
  loader_postb r = true /\ (exists m, finish r = Some m /\ d_spd m = 6 /\ d_bpm m = 20 /\ d_rst m = 0 /\ public_wfb m = true).
Proof. cbv zeta. split; [vm_compute; reflexivity|]. eexists. split; [vm_compute; reflexivity|]. vm_compute. repeat split. Qed.

(* ---------------------------------------------------------------- the sequence clause --------------------------------- *)

(* The loop of libxmp_scan_sequences, for any scan_module whatsoever that marks its own entry point in sequence_control and never
   un-marks an order (hook H6 checks exactly that on every real call): unless the first scan finds nothing (the load fails), the
   module gets between 1 and MAX_SEQUENCES sequences, as many entry points and durations, every entry point inside the order list,
   the entry points pairwise distinct with the first one 0, and the durations non-negative (positive for all but the first). *)
Theorem sequence_table_wf : forall (St : Type) (scan : St -> Z -> Z -> list Z -> (Z * list Z) * St) (len : Z),
  1 <= len <= 256 ->
  (forall st ep seq ctrl, 0 <= ep < len -> 0 <= seq < C_MAX_SEQUENCES -> length ctrl = 256%nat ->
     length (snd (fst (scan st ep seq ctrl))) = 256%nat /\
     nth (Z.to_nat ep) (snd (fst (scan st ep seq ctrl))) UNMARKED <> UNMARKED /\
     (forall i, nth i ctrl UNMARKED <> UNMARKED -> nth i (snd (fst (scan st ep seq ctrl))) UNMARKED <> UNMARKED)) ->
  forall st n eps durs st', scan_sequences St scan st len = Some (n, eps, durs, st') ->
  seqs_wfb len n eps durs = true /\ hd 0 eps = 0 /\ (forall d, In d (tl durs) -> 0 < d).
Proof. exact scan_sequences_wf. Qed.
Print Assumptions sequence_table_wf.

(* the loop always ends by itself: its fuel (one more than the number of orders) never runs out *)
Theorem sequence_scan_terminates : forall (St : Type) (scan : St -> Z -> Z -> list Z -> (Z * list Z) * St) (len : Z),
  1 <= len <= 256 ->
  (forall st ep seq ctrl, 0 <= ep < len -> 0 <= seq < C_MAX_SEQUENCES -> length ctrl = 256%nat ->
     length (snd (fst (scan st ep seq ctrl))) = 256%nat /\
     nth (Z.to_nat ep) (snd (fst (scan st ep seq ctrl))) UNMARKED <> UNMARKED /\
     (forall i, nth i ctrl UNMARKED <> UNMARKED -> nth i (snd (fst (scan st ep seq ctrl))) UNMARKED <> UNMARKED)) ->
  forall st, 0 <= fst (fst (scan st 0 0 (repeat UNMARKED 256))) -> scan_sequences St scan st len <> None.
Proof. exact scan_sequences_fuel. Qed.
Print Assumptions sequence_scan_terminates.

(* non-vacuity: five orders; a scan that marks its entry point and the next order, with durations 10, 0 (dropped), 7 *)
Example c03_seq_nonvacuous :
  let scan := fun (st : list Z) (ep seq : Z) (ctrl : list Z) =>
    let mark := fun c => upd (upd c (Z.to_nat ep) seq) (Z.to_nat (ep + 1)) seq in
    ((hd 0 st, mark ctrl), tl st) in
  match scan_sequences (list Z) scan [10; 0; 7] 5 with
  | Some (n, eps, durs, _) => n = 2 /\ eps = [0; 4] /\ durs = [10; 7] /\ seqs_wfb 5 n eps durs = true
  | None => False
  end.
Proof. vm_compute. repeat split; reflexivity. Qed.

(* ---------------------------------------------------------------- one loader followed all the way ---------------------- *)

(* The loader post-condition is a hypothesis of the gate theorem; for the Protracker loader it is a theorem: for EVERY byte string
   with the M.K. signature that mod_load accepts - any header fields, complete, truncated anywhere after the patterns, with trailing
   bytes, a Mod's Grave .WOW, a song file without sample data - what it hands to load_module (Model/ModLoad.v: counts, order list,
   pattern / track / instrument tables, and for every sample what libxmp_load_sample made of the data really present) satisfies
   loader_postb ... *)
Theorem mod_loader_establishes_post : forall ptk file r,
  Forall (fun b => 0 <= b <= 255) file -> mod_raw ptk file = Some r -> loader_postb r = true.
Proof. exact ModLoadProofs.mod_loader_establishes_post. Qed.
Print Assumptions mod_loader_establishes_post.

(* ... so that, for this loader, whatever gets through the gate is well-formed without any assumption about the loader *)
Theorem protracker_module_is_wf : forall ptk file r m,
  Forall (fun b => 0 <= b <= 255) file -> mod_raw ptk file = Some r -> finish r = Some m -> wf_noseq m = true.
Proof. exact mod_loaded_module_is_wf. Qed.
Print Assumptions protracker_module_is_wf.

(* The same for the Composer 669 loader (Model/C669Load.v: 32-bit sample fields whose loop start may come out negative, samples of
   at most two bytes that are never loaded and keep their raw loop fields, order entries equal to the pattern count, break rows that
   must lie below 64, the hio layer's behaviour at the end of the data): every byte string the loader accepts satisfies the
   post-condition, so whatever the gate lets through is well-formed. *)
Theorem c669_loader_establishes_post : forall file r,
  Forall (fun b => 0 <= b <= 255) file -> c669_raw file = Some r -> loader_postb r = true.
Proof. exact C669LoadProofs.c669_loader_establishes_post. Qed.
Print Assumptions c669_loader_establishes_post.

Theorem composer669_module_is_wf : forall file r m,
  Forall (fun b => 0 <= b <= 255) file -> c669_raw file = Some r -> finish r = Some m -> wf_noseq m = true.
Proof. exact c669_loaded_module_is_wf. Qed.
Print Assumptions composer669_module_is_wf.

(* ... and for the MultiTracker loader (Model/MtmLoad.v), whose patterns name their tracks by number: besides the post-condition,
   every track number the loader stores is below the track count (numbers at or above it are replaced by track 0), for every
   byte string *)
Theorem mtm_loader_establishes_post : forall file r,
  Forall (fun b => 0 <= b <= 255) file -> mtm_raw file = Some r -> loader_postb r = true.
Proof. exact MtmLoadProofs.mtm_loader_establishes_post. Qed.
Print Assumptions mtm_loader_establishes_post.

Theorem multitracker_module_is_wf : forall file r m,
  Forall (fun b => 0 <= b <= 255) file -> mtm_raw file = Some r -> finish r = Some m -> wf_noseq m = true.
Proof. exact mtm_loaded_module_is_wf. Qed.
Print Assumptions multitracker_module_is_wf.

Theorem mtm_track_numbers_in_range : forall file r,
  Forall (fun b => 0 <= b <= 255) file -> mtm_raw file = Some r ->
  Forall (fun op => match op with Some p => Forall (fun t => 0 <= t < d_trk (r_m r)) (p_index p) | None => True end) (d_pats (r_m r)) /\
  Forall (fun ot => ot = Some 64) (d_trks (r_m r)) /\ zlen (d_trks (r_m r)) = d_trk (r_m r).
Proof. exact mtm_track_indices_in_range. Qed.
Print Assumptions mtm_track_numbers_in_range.

(* ... and for the Scream Tracker 3 loader (Model/S3MLoad.v), which reaches patterns, instrument headers and sample data through
   parapointers taken from the file: whatever those point at - the header, each other, past the end - an accepted file satisfies
   the post-condition *)
Theorem s3m_loader_establishes_post : forall file r,
  Forall (fun b => 0 <= b <= 255) file -> s3m_raw file = Some r -> loader_postb r = true.
Proof. exact S3MLoadProofs.s3m_loader_establishes_post. Qed.
Print Assumptions s3m_loader_establishes_post.

Theorem screamtracker3_module_is_wf : forall file r m,
  Forall (fun b => 0 <= b <= 255) file -> s3m_raw file = Some r -> finish r = Some m -> wf_noseq m = true.
Proof. exact s3m_loaded_module_is_wf. Qed.
Print Assumptions screamtracker3_module_is_wf.

(* The three loader models above read the file through position-based primitives (a byte, 16 / 32 bits little-endian, a block, an
   absolute seek).  These are not a second, independent idea of what hio does on a memory stream: each one is the corresponding
   step of the memory back-end of Model/Hio.v - the model that C07 ties to src/hio.c and memio.c by its own differential -
   including what happens at the end of the data (0xff / all-ones results, the position moved to the end, the EOF error flag
   that a successful seek clears). *)
Theorem loader_byte_read_is_hio_read8 : forall file p b e, 0 <= p ->
  let r := Hio.mem_step file (st p b e) Hio.Read8 in
  C669Load.rd8 file p = (Hio.oval (snd r), Hio.pos (fst r))
  /\ (Hio.herr (fst r) = if 1 <=? Hio.avail file p then e else Hio.EOFV).
Proof. exact rd8_is_mem_read8. Qed.
Print Assumptions loader_byte_read_is_hio_read8.

Theorem loader_16bit_read_is_hio_read : forall file p b e, 0 <= p ->
  let r := Hio.mem_step file (st p b e) (Hio.ReadN 2) in
  snd (MtmLoad.rd16l file p) = Hio.pos (fst r)
  /\ (2 <= Hio.avail file p -> exists x y, Hio.obytes (snd r) = [x; y] /\ fst (MtmLoad.rd16l file p) = x + 256 * y /\ Hio.herr (fst r) = e)
  /\ (Hio.avail file p < 2 -> fst (MtmLoad.rd16l file p) = 65535 /\ Hio.oval (snd r) = -1 /\ Hio.herr (fst r) = Hio.EOFV).
Proof. exact rd16l_is_mem_read16. Qed.
Print Assumptions loader_16bit_read_is_hio_read.

Theorem loader_32bit_read_is_hio_read : forall file p b e, 0 <= p ->
  let r := Hio.mem_step file (st p b e) (Hio.ReadN 4) in
  snd (C669Load.rd32l file p) = Hio.pos (fst r)
  /\ (4 <= Hio.avail file p -> exists x y z w, Hio.obytes (snd r) = [x; y; z; w]
        /\ fst (C669Load.rd32l file p) = x + 256 * y + 65536 * z + 16777216 * w /\ Hio.herr (fst r) = e)
  /\ (Hio.avail file p < 4 -> fst (C669Load.rd32l file p) = 4294967295 /\ Hio.oval (snd r) = -1 /\ Hio.herr (fst r) = Hio.EOFV).
Proof. exact rd32l_is_mem_read32. Qed.
Print Assumptions loader_32bit_read_is_hio_read.

Theorem loader_block_read_is_hio_read : forall file p n b e, 0 <= p -> 0 < n ->
  let r := Hio.mem_step file (st p b e) (Hio.ReadBuf 1 n) in
  C669Load.rdn file p n = (Hio.obytes (snd r), Hio.pos (fst r))
  /\ (zlen (fst (C669Load.rdn file p n)) = n <-> Hio.oval (snd r) = n).
Proof. exact rdn_is_mem_read. Qed.
Print Assumptions loader_block_read_is_hio_read.

Theorem loader_seek_is_hio_seek : forall file p b e off, 0 <= off ->
  let r := Hio.mem_step file (st p b e) (Hio.Seek off 0) in
  S3MLoad.seek_set file off = Hio.pos (fst r) /\ Hio.oval (snd r) = 0
  /\ Hio.herr (fst r) = (if e =? Hio.EOFV then 0 else e).
Proof. exact seek_set_is_mem_seek. Qed.
Print Assumptions loader_seek_is_hio_seek.

Theorem s3m_pattern_loop_entered_with_hio_error_state : forall file off b e, 0 <= off ->
  let s1 := fst (Hio.mem_step file (st 0 b e) (Hio.Seek off 0)) in
  let r := Hio.mem_step file s1 (Hio.ReadN 2) in
  e = 0 \/ e = Hio.EOFV ->
  ((C669Load.avail file (S3MLoad.seek_set file off) <? 2) = true <-> Hio.herr (fst r) <> 0).
Proof. exact s3m_pattern_entry_error_flag. Qed.
Print Assumptions s3m_pattern_loop_entered_with_hio_error_state.

(* non-vacuity: a 669 file with one pattern, two orders and one four-byte sample whose loop start is 0x80000000 (negative once
   stored in an int) and whose loop end is 3: the loader accepts it, the sample loader clamps the loop to 0..3, the gate lets it
   through and the result is well-formed *)
Example c03_669_nonvacuous :
  let file := [105; 102] ++ repeat 32 108 ++ [1; 1; 0] ++ ([0; 1] ++ repeat 255 126) ++ repeat 6 128 ++ repeat 0 128 ++
              (repeat 65 13 ++ [4; 0; 0; 0; 0; 0; 0; 128; 3; 0; 0; 0]) ++ repeat 7 1536 ++ [1; 2; 3; 4] in
  match c669_raw file with
  | Some r => loader_postb r = true /\ d_len (r_m r) = 2 /\
              map (fun s => (sm_len s, sm_lps s, sm_lpe s, sm_data s)) (d_smps (r_m r)) = [(4, 0, 3, true)] /\
              match finish r with Some m => wf_noseq m = true | None => False end
  | None => False
  end.
Proof. vm_compute. repeat split; reflexivity. Qed.
