(* C16 — Every frame reports a consistent, in-range player state.
   The voice-table invariant (the executable monitor invb of Model/Voices.v) is established by the tables
   virt_on/virt_reset create, PRESERVED BY EVERY OPERATION of virtual.c for every state and argument that the
   callers can supply (voices_inv_preserved, voices_inv_reachable: no access leaves the tables, 0 <= voices in
   use <= voices, map and voice fields stay mutually inverse), and bounds the voices in use; the buffer size is
   a whole number of frames, at most XMP_MAX_FRAMESIZE/2 sample frames; two statements that are FALSE of the
   faithful model are kept with their witnesses.  The per-frame predicate itself (Model/FrameInfo.v) and the
   voice invariant are also evaluated on every frame of the correspondence run. *)
From Coq Require Import ZArith List Lia Bool.
Import ListNotations.
From LX Require Import Base.ListAux Generated.Consts Model.Downmix Proofs.DownmixProofs Model.FrameInfo Model.Voices Proofs.VoicesProofs Proofs.VoicesInv Model.Flow Proofs.FlowProofs.
Local Open Scope Z_scope.

Theorem voices_inv_established : forall nvoc nchan ntrk mt s,
  (0 <= nvoc -> 0 <= ntrk <= nchan -> invb (virt_init nvoc nchan ntrk mt) = true) /\
  (zlen (vcount s) = vchans s -> 0 <= ntracks s <= vchans s -> 1 <= vchans s -> invb (virt_reset s) = true).
Proof. intros. split; [apply virt_init_inv | apply virt_reset_inv]. Qed.
Print Assumptions voices_inv_established.

(* One operation.  invb: the table invariant; modeb: virtual channels enabled (maxvoc <= vchans - ntracks) or no voice
   carries a new-note action; op_okb: what the callers guarantee about the arguments (Model/Voices.v).
   "vstep s o = Some _" says that no read or write of the operation left voice_array / virt_channel: every access of the
   model is checked.  Nothing but the two tables and the counter changes shape: maxvoc, vchans, ntracks, mute stay. *)
Theorem voices_inv_preserved : forall s o,
  invb s = true -> modeb s = true -> op_okb s o = true ->
  exists r s', vstep s o = Some (r, s') /\ invb s' = true /\ modeb s' = true /\
               maxvoc s' = maxvoc s /\ vchans s' = vchans s /\ ntracks s' = ntracks s /\ mute s' = mute s.
Proof.
  intros s o Hi Hm Hok. apply modeb_iff in Hm.
  destruct (vstep_inv s o (Inv_of_invb s Hi Hm) Hok) as (r & s' & E & I' & S').
  exists r, s'. split; [exact E|]. split; [apply invb_of_Inv; exact I'|]. split; [apply modeb_iff; exact (I_q _ _ I')|].
  apply shape_maxvoc. exact S'.
Qed.
Print Assumptions voices_inv_preserved.

(* Every reachable state: any number of operations, each meeting op_okb in the state it is applied to, starting from the
   tables libxmp_virt_on creates.  The conclusion is C16's clause "0 <= voices in use <= virtual channels" and the
   anchor "voice allocation/free keeps the channel<->voice map and in-use count consistent". *)
Theorem voices_inv_reachable : forall nvoc nchan ntrk mt s',
  0 <= nvoc -> 0 <= ntrk <= nchan ->
  reach (virt_init nvoc nchan ntrk mt) s' ->
  invb s' = true /\ 0 <= used s' <= maxvoc s' /\ used s' = count_used (voices s') /\ maxvoc s' = nvoc /\ vchans s' = nchan.
Proof.
  intros nvoc nchan ntrk mt s' Hv Ht Hr.
  assert (I0 : Inv (virt_init nvoc nchan ntrk mt)).
  { apply Inv_of_invb; [apply virt_init_inv; assumption|]. right. intros i v Hg. unfold getv, virt_init in Hg. cbn [voices] in Hg.
    unfold zget in Hg. destruct (i <? 0); [discriminate|]. apply nth_error_In in Hg. apply repeat_spec in Hg. subst v. reflexivity. }
  destruct (reach_inv _ _ Hr I0) as [I' S']. apply shape_maxvoc in S' as (A & B & _).
  pose proof (invb_of_Inv _ I') as Hb. destruct (invb_used_range _ Hb) as [R U].
  split; [exact Hb|]. split; [exact R|]. split; [exact U|]. rewrite A, B. unfold maxvoc, vchans, virt_init, zlen. cbn [voices vmap].
  rewrite !repeat_length. lia.
Qed.
Print Assumptions voices_inv_reachable.

(* non-vacuity: a run that meets op_okb at every step, takes the new-note-action path (relabel to a background channel),
   steals a background voice when all three are busy, and cuts by duplicate check; the theorem's premises hold along it *)
Fixpoint run_ok (s : vst) (ops : list vop) : option vst :=
  match ops with
  | [] => Some s
  | o :: t => if op_okb s o then match vstep s o with Some (_, s1) => run_ok s1 t | None => None end else None
  end.
Lemma run_ok_reach ops : forall s s', run_ok s ops = Some s' -> reach s s'.
Proof.
  induction ops as [|o t IH]; intros s s' H; cbn [run_ok] in H; [injection H as <-; constructor|].
  destruct (op_okb s o) eqn:Eo; [|discriminate]. destruct (vstep s o) as [[r s1]|] eqn:Es; [|discriminate].
  econstructor; [exact Eo|exact Es|apply IH; exact H].
Qed.
Example voices_run_nonvacuous :
  match run_ok (virt_init 3 5 2 [])
          [OSetPatch 0 0 0 60 1 0 0; OSetPatch 0 0 0 61 2 0 0; OSetPatch 0 0 1 62 1 0 0; OSetPatch 1 1 0 60 1 0 0;
           OSetVol 3 0; OSetPatch 0 0 0 60 0 3 1; OResetChannel 1; OPastNote 0 0] with
  | Some s' => (used s' <=? 3) && invb s' = true
  | None => False
  end.
Proof. vm_compute. reflexivity. Qed.

(* whenever the invariant holds: 0 <= voices in use <= number of voices, and the counter is the number of used voices *)
Theorem voices_inv_bounds_used : forall s, invb s = true -> 0 <= used s <= maxvoc s /\ used s = count_used (voices s).
Proof. exact invb_used_range. Qed.
Print Assumptions voices_inv_bounds_used.

(* the buffer holds a whole number of sample frames, determined by (rate, time factor, tempo) only *)
Theorem buffer_size_consistent : forall c f,
  buffer_okb c f = true ->
  let t := prepare_ticksize (oc_rate c) (oc_tfn c) (oc_tfd c) (fi_bpm f) in
  fi_buffer_size f = t * ((if oc_mono c then 1 else 2) * (if oc_8bit c then 1 else 2)) /\
  8 <= t <= XMP_MAX_FRAMESIZE / 2 /\ fi_total_size f = XMP_MAX_FRAMESIZE.
Proof.
  intros c f H t. unfold buffer_okb in H. apply andb_prop in H as [H1 H2].
  apply Z.eqb_eq in H1. apply Z.eqb_eq in H2. fold t in H1.
  split; [rewrite H1; apply buffer_size_whole_frames|]. split; [apply ticksize_bounds|exact H2].
Qed.
Print Assumptions buffer_size_consistent.

(* FULL-STRENGTH STATEMENT (kept visible): "the buffer size never exceeds XMP_MAX_FRAMESIZE" read in bytes,
     forall c f, buffer_okb c f = true -> fi_buffer_size f <= XMP_MAX_FRAMESIZE.
   It is false of the faithful model: the cap is XMP_MAX_FRAMESIZE/2 sample *frames*, i.e. up to
   4*(XMP_MAX_FRAMESIZE/2) bytes for 16-bit stereo.  Witness: 44100 Hz, 16-bit stereo, time factor x rate = 10000
   (OctaMED, test-dev/data/longest.med), tempo 28.  Recorded as a known finding. *)
Theorem buffer_bytes_bound_refuted : exists c f,
  buffer_okb c f = true /\ XMP_MAX_FRAMESIZE < fi_buffer_size f.
Proof.
  exists {| oc_rate := 44100; oc_mono := false; oc_8bit := false; oc_tfn := 10000; oc_tfd := 1 |}.
  exists {| fi_pos := 0; fi_pattern := 0; fi_row := 0; fi_num_rows := 64; fi_frame := 0; fi_speed := 6; fi_bpm := 28;
            fi_frame_time := 357142; fi_buffer_size := 49168; fi_total_size := 24585; fi_loop_count := 0;
            fi_virt_channels := 4; fi_virt_used := 0; fi_sequence := 0 |}.
  vm_compute. split; reflexivity.
Qed.
Print Assumptions buffer_bytes_bound_refuted.

(* The hypothesis "virtual channels enabled, or no new-note action" (modeb / op_okb) of the preservation theorem is
   necessary: without virtual channels a second note with NNA on a busy channel relabels the old voice onto the
   last *track* channel and orphans the voice that was there. *)
Theorem voices_inv_needs_virtual_channels : exists s ops,
  invb s = true /\ vchans s = ntracks s /\
  match fold_left (fun st o => match st with Some x => option_map snd (vstep x o) | None => None end) ops (Some s) with
  | Some s' => invb s' = false
  | None => True
  end.
Proof.
  exists (virt_init 3 3 3 []).
  exists [OSetPatch 0 0 0 60 1 0 0; OSetPatch 2 0 0 60 1 0 0; OSetPatch 0 0 0 60 1 0 0].
  vm_compute. repeat split.
Qed.
Print Assumptions voices_inv_needs_virtual_channels.

Example c16_nonvacuous :
  frame_info_okb {| ms_len := 2; ms_xxo := [0; 1]; ms_rows := [64; 32]; ms_nseq := 1 |}
                 {| oc_rate := 44100; oc_mono := false; oc_8bit := false; oc_tfn := 2500; oc_tfd := 1 |}
                 {| fi_pos := 1; fi_pattern := 1; fi_row := 31; fi_num_rows := 32; fi_frame := 5; fi_speed := 6; fi_bpm := 125;
                    fi_frame_time := 20000; fi_buffer_size := 3528; fi_total_size := 24585; fi_loop_count := 0;
                    fi_virt_channels := 4; fi_virt_used := 3; fi_sequence := 0 |} = true.
Proof. vm_compute. reflexivity. Qed.

(* ---------------------------------------------------------------- the position clause ---------------------------------- *)

(* The sequencer step of the player (next_order / next_row of player.c; Model/Flow.v is compared with them step by step through
   hook H7).  For every module with the structural facts C03 gives (order list of 1..256 entries, every pattern with at least one
   row, restart position and the playing sequence's entry point inside the list) whose sequence can be played at all (going up from
   its entry point a real pattern comes before the end of the list and before any end marker - what the scan requires of a
   sequence), and for EVERY flow state the effects of a row may leave behind - any pattern break, any jump target, any jump line,
   any pattern-loop destination, any row delay: the step ends, and the player is on an order inside the list that holds a real
   pattern, on a row of that pattern, with num_rows that pattern's row count. *)
Theorem next_row_keeps_position_valid : forall m s, fmod_okb m = true -> playableb m = true -> pos_okb m s = true -> 0 <= s_jumpline s -> -1 <= s_jump s ->
  exists s', next_row m s = Some s' /\ pos_okb m s' = true /\ s_frame s' = 0.
Proof. exact next_row_pos. Qed.
Print Assumptions next_row_keeps_position_valid.

(* the same for next_order alone (the reposition branch of xmp_play_frame calls it directly), from any order number >= -1 *)
Theorem next_order_reaches_a_pattern : forall m s, fmod_okb m = true -> playableb m = true -> -1 <= s_ord s -> 0 <= s_jumpline s ->
  exists s', next_order m s = Some s' /\ pos_okb m s' = true /\ s_pos s' = s_ord s' /\ s_frame s' = 0 /\ s_jumpline s' = 0.
Proof. exact next_order_pos. Qed.
Print Assumptions next_order_reaches_a_pattern.

(* non-vacuity: skip marker 0xfe and end marker 0xff in the list, a jump beyond the end, a jump line beyond the pattern *)
Example c16_flow_nonvacuous :
  let m := {| f_len := 5; f_pat := 2; f_rst := 0; f_xxo := [0; 254; 1; 255; 0]; f_rows := [64; 16]; f_marker := true; f_entry := 0; f_rst_in_seq := true |} in
  let s := {| s_ord := 0; s_row := 63; s_pos := 0; s_frame := 5; s_pbreak := 0; s_jump := -1; s_delay := 0; s_jumpline := 0; s_loop_dest := -1; s_loop_param := -1;
              s_num_rows := 64; s_rowdelay := 0; s_rowdelay_set := 0 |} in
  let sj := {| s_ord := 0; s_row := 3; s_pos := 0; s_frame := 5; s_pbreak := 1; s_jump := 200; s_delay := 0; s_jumpline := 40; s_loop_dest := -1; s_loop_param := -1;
               s_num_rows := 64; s_rowdelay := 0; s_rowdelay_set := 0 |} in
  fmod_okb m = true /\ playableb m = true /\ pos_okb m s = true /\
  option_map (fun t => (s_ord t, s_row t, s_num_rows t)) (next_row m s) = Some (2, 0, 16) /\
  option_map (fun t => (s_ord t, s_row t, s_num_rows t)) (next_row m sj) = Some (0, 40, 64) /\
  option_map (fun t => (s_ord t, s_row t)) (next_row m {| s_ord := 2; s_row := 15; s_pos := 2; s_frame := 0; s_pbreak := 0; s_jump := -1; s_delay := 0; s_jumpline := 0;
                                                         s_loop_dest := -1; s_loop_param := -1; s_num_rows := 16; s_rowdelay := 0; s_rowdelay_set := 0 |}) = Some (0, 0).
Proof. vm_compute. repeat split; reflexivity. Qed.
