(* C16 — Every frame reports a consistent, in-range player state.
   This file holds what is proved so far: the voice-table invariant is established by the tables
   virt_on/virt_reset create and bounds the voices in use; the buffer size is a whole number of frames,
   at most XMP_MAX_FRAMESIZE/2 sample frames; two statements that are FALSE of the faithful model are kept
   with their witnesses.  The per-frame predicate itself (Model/FrameInfo.v) and the voice invariant are
   evaluated on every frame of the correspondence run.  Inductive preservation of the voice invariant by
   every operation is work in progress (the three primitive moves and the pigeonhole are proved in
   DESIGN Appendix A.5 for the bookkeeping-only model). *)
From Coq Require Import ZArith List Lia Bool.
Import ListNotations.
From LX Require Import Base.ListAux Generated.Consts Model.Downmix Proofs.DownmixProofs Model.FrameInfo Model.Voices Proofs.VoicesProofs.
Local Open Scope Z_scope.

Theorem voices_inv_established : forall nvoc nchan ntrk mt s,
  (0 <= nvoc -> 0 <= ntrk <= nchan -> invb (virt_init nvoc nchan ntrk mt) = true) /\
  (zlen (vcount s) = vchans s -> 0 <= ntracks s <= vchans s -> 1 <= vchans s -> invb (virt_reset s) = true).
Proof. intros. split; [apply virt_init_inv | apply virt_reset_inv]. Qed.
Print Assumptions voices_inv_established.

(* whenever the invariant holds: 0 <= voices in use <= number of voices, and the counter is the number of used voices *)
Theorem voices_inv_bounds_used : forall s, invb s = true -> 0 <= used s <= maxvoc s /\ used s = count_used (voices s).
Proof. exact invb_used_range. Qed.
Print Assumptions voices_inv_bounds_used.

(* the buffer holds a whole number of sample frames, determined by (rate, time factor, tempo) only *)
Theorem buffer_size_consistent : forall c f,
  buffer_okb c f = true ->
  let t := prepare_ticksize (oc_rate c) (oc_tfn c) (oc_tfd c) (fi_bpm f) in
  fi_buffer_size f = t * ((if oc_mono c then 1 else 2) * (if oc_8bit c then 1 else 2)) /\
  8 <= t <= XMP_MAX_FRAMESIZE / 2 /\ fi_total_size f = XMP_MAX_FRAMESIZE.
Proof.
  intros c f H t. unfold buffer_okb in H. apply andb_prop in H as [H1 H2].
  apply Z.eqb_eq in H1. apply Z.eqb_eq in H2. fold t in H1.
  split; [rewrite H1; apply buffer_size_whole_frames|]. split; [apply ticksize_bounds|exact H2].
Qed.
Print Assumptions buffer_size_consistent.

(* FULL-STRENGTH STATEMENT (kept visible): "the buffer size never exceeds XMP_MAX_FRAMESIZE" read in bytes,
     forall c f, buffer_okb c f = true -> fi_buffer_size f <= XMP_MAX_FRAMESIZE.
   It is false of the faithful model: the cap is XMP_MAX_FRAMESIZE/2 sample *frames*, i.e. up to
   4*(XMP_MAX_FRAMESIZE/2) bytes for 16-bit stereo.  Witness: 44100 Hz, 16-bit stereo, time factor x rate = 10000
   (OctaMED, test-dev/data/longest.med), tempo 28.  Recorded as a known finding. *)
Theorem buffer_bytes_bound_refuted : exists c f,
  buffer_okb c f = true /\ XMP_MAX_FRAMESIZE < fi_buffer_size f.
Proof.
  exists {| oc_rate := 44100; oc_mono := false; oc_8bit := false; oc_tfn := 10000; oc_tfd := 1 |}.
  exists {| fi_pos := 0; fi_pattern := 0; fi_row := 0; fi_num_rows := 64; fi_frame := 0; fi_speed := 6; fi_bpm := 28;
            fi_frame_time := 357142; fi_buffer_size := 49168; fi_total_size := 24585; fi_loop_count := 0;
            fi_virt_channels := 4; fi_virt_used := 0; fi_sequence := 0 |}.
  vm_compute. split; reflexivity.
Qed.
Print Assumptions buffer_bytes_bound_refuted.

(* The hypothesis "virtual channels enabled, or no new-note action" in the (future) preservation theorem is
   necessary: without virtual channels a second note with NNA on a busy channel relabels the old voice onto the
   last *track* channel and orphans the voice that was there. *)
Theorem voices_inv_needs_virtual_channels : exists s ops,
  invb s = true /\ vchans s = ntracks s /\
  match fold_left (fun st o => match st with Some x => option_map snd (vstep x o) | None => None end) ops (Some s) with
  | Some s' => invb s' = false
  | None => True
  end.
Proof.
  exists (virt_init 3 3 3 []).
  exists [OSetPatch 0 0 0 60 1 0 0; OSetPatch 2 0 0 60 1 0 0; OSetPatch 0 0 0 60 1 0 0].
  vm_compute. repeat split.
Qed.
Print Assumptions voices_inv_needs_virtual_channels.

Example c16_nonvacuous :
  frame_info_okb {| ms_len := 2; ms_xxo := [0; 1]; ms_rows := [64; 32]; ms_nseq := 1 |}
                 {| oc_rate := 44100; oc_mono := false; oc_8bit := false; oc_tfn := 2500; oc_tfd := 1 |}
                 {| fi_pos := 1; fi_pattern := 1; fi_row := 31; fi_num_rows := 32; fi_frame := 5; fi_speed := 6; fi_bpm := 125;
                    fi_frame_time := 20000; fi_buffer_size := 3528; fi_total_size := 24585; fi_loop_count := 0;
                    fi_virt_channels := 4; fi_virt_used := 3; fi_sequence := 0 |} = true.
Proof. vm_compute. reflexivity. Qed.
