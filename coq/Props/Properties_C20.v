(* C20 — Sample decoding applies exactly the declared conversions. *)
From Coq Require Import ZArith List Lia Bool.
Import ListNotations.
From LX Require Import Base.IntWrap Base.ListAux Generated.Consts Generated.Tables Model.SampleLoad Proofs.SampleLoadProofs Generated.MixTables Model.MixKernel Proofs.MixKernelProofs Proofs.SampleKernelProofs.
Local Open Scope Z_scope.

(* Everything a successful load establishes, for every flag combination, length, loop pair,
   stream content/offset and truncation point: loop points clamped into range (strict when still
   flagged as looped; BIDIR only with its base flag), the length truncated to the whole frames actually
   present (and by no more than that), block = 4 guard bytes ++ len*framelen bytes ++ 4 guard frames,
   end guard = last frame repeated, start guard = first frame repeated backwards. *)
Theorem load_sample_postcondition : forall skip flags s file pos nbuf s' blk pos',
  load_sample skip flags s file pos nbuf = Loaded s' blk pos' ->
  loaded_facts skip flags s file pos nbuf s' blk pos'.
Proof. exact load_sample_loaded. Qed.
Print Assumptions load_sample_postcondition.

Theorem load_sample_loop_inv : forall skip flags s file pos nbuf s' blk pos',
  load_sample skip flags s file pos nbuf = Loaded s' blk pos' ->
  0 <= s_lps s' /\ s_lps s' <= s_lpe s' /\ s_lpe s' <= s_len s' /\
  (has (s_flg s') C_XMP_SAMPLE_LOOP = true -> s_lps s' < s_lpe s') /\
  (has (s_flg s') C_XMP_SAMPLE_LOOP_BIDIR = true -> has (s_flg s') C_XMP_SAMPLE_LOOP = true) /\
  (has (s_flg s') C_XMP_SAMPLE_SLOOP_BIDIR = true -> has (s_flg s') C_XMP_SAMPLE_SLOOP = true).
Proof. intros until pos'. intros H. exact (lf_loops _ _ _ _ _ _ _ _ _ (load_sample_loaded _ _ _ _ _ _ _ _ _ H)). Qed.
Print Assumptions load_sample_loop_inv.

(* allocation is in proportion to the data present: the block is 4 + (len'+4)*framelen bytes with
   len'*framelen <= bytes available (2x + 16 for ADPCM whose stored form is half the size) *)
Theorem load_sample_alloc_bound : forall skip flags s file pos nbuf s' blk pos',
  load_sample skip flags s file pos nbuf = Loaded s' blk pos' ->
  zlen blk = 4 + (s_len s' + 4) * framelen_of (s_flg s) /\ s_len s' <= C_MAX_SAMPLE_SIZE /\
  (has flags C_SAMPLE_FLAG_NOLOAD = false ->
     if has flags C_SAMPLE_FLAG_ADPCM then s_len s' * framelen_of (s_flg s) <= 2 * (zlen file - pos)
     else s_len s' * framelen_of (s_flg s) <= zlen file - pos).
Proof.
  intros until pos'. intros H. pose proof (load_sample_loaded _ _ _ _ _ _ _ _ _ H) as F.
  destruct (lf_block _ _ _ _ _ _ _ _ _ F) as (pre & body & g & -> & Lp & Lb & Lg & _).
  pose proof (lf_len' _ _ _ _ _ _ _ _ _ F). pose proof (lf_len_max _ _ _ _ _ _ _ _ _ F).
  split; [|split; [lia|]].
  - unfold zlen in *. rewrite !app_length. lia.
  - intros Hn. destruct (lf_trunc _ _ _ _ _ _ _ _ _ F Hn) as (_ & Hfit & _).
    destruct (has flags C_SAMPLE_FLAG_ADPCM); [|exact Hfit].
    set (b := s_len s' * framelen_of (s_flg s)) in *. clearbody b.
    assert ((b + 1) / 2 * 2 >= b) by (pose proof (Z.div_mod (b + 1) 2 ltac:(lia)); pose proof (Z.mod_pos_bound (b + 1) 2 ltac:(lia)); lia). lia.
Qed.
Print Assumptions load_sample_alloc_bound.

(* the C01 part: every index the two guard loops touch lies inside the allocated block *)
Theorem load_sample_guard_indices_in_block : forall fl bytelen i,
  (fl = 1 \/ fl = 2 \/ fl = 4) -> 0 <= bytelen ->
  (0 <= i < 4 * fl -> 0 <= (bytelen + i) + 4 < 4 + bytelen + 4 * fl /\ 0 <= (bytelen - fl + i) + 4 < 4 + bytelen + 4 * fl) /\
  (-4 <= i <= -1 -> 0 <= i + 4 < 4 + bytelen + 4 * fl /\ 0 <= (fl + i) + 4 < 4 + bytelen + 4 * fl).
Proof. intros fl bytelen i Hfl Hb. lia. Qed.
Print Assumptions load_sample_guard_indices_in_block.

(* the conversions: in-place passes = reference decoder (prefix sums for delta, +mid-scale for unsigned,
   doubling for 7-bit, table look-up for VIDC), in the defined order, for every 8-bit mono sample *)
Theorem convert_refines_spec_8bit_mono : forall flags flg len dest,
  has flg C_XMP_SAMPLE_16BIT = false -> has flg C_XMP_SAMPLE_STEREO = false ->
  0 <= len -> length dest = Z.to_nat len ->
  convert flags flg len dest = spec8 flags dest.
Proof. exact convert_8bit_mono. Qed.
Print Assumptions convert_refines_spec_8bit_mono.

(* the building blocks for the other layouts *)
Theorem delta_is_prefix_sums : forall l n,
  delta8 0 l = map (fun s => s mod 256) (prefix_sums 0 l) /\
  (length l = (2 * n)%nat -> delta16 0 l = bytes_of (map (fun s => s mod 65536) (prefix_sums 0 (words_of l)))).
Proof. intros l n. split; [exact (delta8_refines l) | exact (delta16_refines n l)]. Qed.
Print Assumptions delta_is_prefix_sums.

Theorem sign_endian_interleave : forall l n,
  length l = (2 * n)%nat -> Forall is_byte l ->
  words_of (sign16 l) = map (fun w => (w + 32768) mod 65536) (words_of l) /\
  words_of (swap_pairs l) = map bswap16 (words_of l) /\
  (forall k d, (k < n)%nat -> nth (2 * k) (conv_interleave false n l) d = nth k l d /\
                               nth (2 * k + 1) (conv_interleave false n l) d = nth (n + k) l d).
Proof.
  intros l n Hl Hb. split; [exact (sign16_words n l Hl Hb)|]. split; [exact (swap_pairs_words n l Hl Hb)|].
  intros k d Hk. exact (conv_interleave8_nth n l k d Hl Hk).
Qed.
Print Assumptions sign_endian_interleave.

(* The guard frames exist for the mixer: the block a loaded 8-bit mono sample occupies (4 guard bytes, the data, 4 guard frames) is
   large enough for every read of every mixing kernel of mix_all.c (Model/MixKernel.v, C14) - nearest, linear and the cubic
   spline, which looks one frame back and two ahead - as long as the fetch positions lie between frame 0 and one frame past the
   end, whatever step, position, gains and filter state the call has. *)
Theorem loaded_sample_block_covers_every_kernel_read : forall skip flags s file pos nbuf s' blk pos' c a count ramp st buf,
  load_sample skip flags s file pos nbuf = Loaded s' blk pos' ->
  framelen_of (s_flg s) = 1 ->
  k_sin c = false -> 0 <= s_frac st < 65536 ->
  (forall k, 0 <= k < count -> 0 <= pos_at c a st k <= SampleLoad.s_len s' + 1) ->
  (Z.to_nat (Z.max 0 count) * (if k_sout c then 2 else 1) <= length buf)%nat ->
  kernel c {| m_data := blk; m_base := 4 |} a count ramp st buf <> None.
Proof. exact loaded_8bit_mono_sample_covers_every_kernel. Qed.
Print Assumptions loaded_sample_block_covers_every_kernel_read.

(* ... and for every layout: 8-bit mono / stereo (the kernel's elements are the bytes of the block, origin after the 4 guard bytes)
   and 16-bit mono / stereo (the elements are its 16-bit words, origin after 2 words); positions are in elements (frame x channels) *)
Theorem loaded_8bit_sample_block_covers_every_kernel_read : forall skip flags s file pos nbuf s' blk pos' c a count ramp st buf,
  load_sample skip flags s file pos nbuf = Loaded s' blk pos' ->
  framelen_of (s_flg s) = chn_of c ->
  0 <= s_frac st < 65536 ->
  (forall k, 0 <= k < count -> 0 <= pos_at c a st k <= (SampleLoad.s_len s' + 1) * chn_of c) ->
  (Z.to_nat (Z.max 0 count) * (if k_sout c then 2 else 1) <= length buf)%nat ->
  kernel c {| m_data := blk; m_base := 4 |} a count ramp st buf <> None.
Proof. exact loaded_8bit_sample_covers_every_kernel. Qed.
Print Assumptions loaded_8bit_sample_block_covers_every_kernel_read.

Theorem loaded_16bit_sample_block_covers_every_kernel_read : forall skip flags s file pos nbuf s' blk pos' c a count ramp st buf,
  load_sample skip flags s file pos nbuf = Loaded s' blk pos' ->
  framelen_of (s_flg s) = 2 * chn_of c ->
  0 <= s_frac st < 65536 ->
  (forall k, 0 <= k < count -> 0 <= pos_at c a st k <= (SampleLoad.s_len s' + 1) * chn_of c) ->
  (Z.to_nat (Z.max 0 count) * (if k_sout c then 2 else 1) <= length buf)%nat ->
  kernel c {| m_data := words_of blk; m_base := 2 |} a count ramp st buf <> None.
Proof. exact loaded_16bit_sample_covers_every_kernel. Qed.
Print Assumptions loaded_16bit_sample_block_covers_every_kernel_read.

(* non-vacuity of the three theorems above: an 8-byte sample, spline kernel, step 1.5: the seven fetches at frames 0 1 3 4 6 7 9 (the
   last one frame past the end) succeed on the loaded block; an eighth (frame 10) leaves it *)
Example c20_block_and_kernel_nonvacuous :
  let c := {| k_interp := Spline; k_wide := false; k_sin := false; k_sout := false; k_filter := false |} in
  let a := {| a_vl := 1; a_vr := 1; a_step := 98304; a_dl := 0; a_dr := 0; a_a0 := 0; a_b0 := 0; a_b1 := 0 |} in
  let st := {| s_pos := 0; s_frac := 0; s_ovl := 0; s_ovr := 0; s_l1 := 0; s_l2 := 0; s_r1 := 0; s_r2 := 0 |} in
  match load_sample false 0 {| SampleLoad.s_len := 8; s_lps := 0; s_lpe := 0; s_flg := 0 |} [10; 20; 30; 40; 50; 60; 70; 80] 0 [] with
  | Loaded s' blk _ =>
      blk = [10; 10; 10; 10; 10; 20; 30; 40; 50; 60; 70; 80; 80; 80; 80; 80] /\
      kernel c {| m_data := blk; m_base := 4 |} a 7 7 st (repeat 0 7) = Some ([2560; 6400; 10240; 14080; 17920; 20640; 20480], (0, 0, 0, 0)) /\
      pos_at c a st 6 = 9 /\ kernel c {| m_data := blk; m_base := 4 |} a 8 8 st (repeat 0 8) = None
  | _ => False
  end.
Proof. vm_compute. repeat split; reflexivity. Qed.

(* non-vacuity: a truncated 16-bit planar-stereo delta big-endian sample with an inverted loop;
   a truncated ADPCM sample; both really produce Loaded blocks *)
Example c20_nonvacuous :
  (exists s' blk p, load_sample false (1 + 64) {| s_len := 5; s_lps := 4; s_lpe := 2; s_flg := 1 + 2 + 128 |}
                      [1;2;3;4;5;6;7;8;9;10;11;12;13] 0 [] = Loaded s' blk p /\ s_len s' = 3 /\ s_lps s' = 0 /\ s_lpe s' = 0 /\ s_flg s' = 129) /\
  (exists s' blk p, load_sample false 16384 {| s_len := 9; s_lps := 0; s_lpe := 9; s_flg := 2 |}
                      [0;1;2;3;4;5;6;7;8;9;10;11;12;13;14;15;16;33;18] 0 [] = Loaded s' blk p /\ s_len s' = 6 /\ s_lpe s' = 6 /\
                      blk = [0;0;0;0; 0;1;2;4;6;7; 7;7;7;7]).
Proof. split; eexists; eexists; eexists; vm_compute; repeat split. Qed.
