(* C01 — Arbitrary file bytes never cause memory errors or undefined behaviour (the modelled part: table accesses of the
   consumers of a loaded module; everything else by sanitizer exploration). *)
From Coq Require Import ZArith List Lia Bool.
Import ListNotations.
From LX Require Import Base.ListAux Generated.Consts Model.ModuleWf Model.Gate Proofs.GateProofs Model.Bounds Proofs.BoundsProofs Model.Envelope Proofs.EnvelopeProofs Generated.MixTables Model.Lfo Proofs.LfoProofs
  Model.ModLoad Proofs.ModLoadProofs Model.C669Load Proofs.C669LoadProofs Model.MtmLoad Proofs.MtmLoadProofs Model.S3MLoad Proofs.S3MLoadProofs
  Model.SampleLoad Proofs.SampleLoadProofs Model.MixKernel Proofs.MixKernelProofs Proofs.SampleKernelProofs.
Local Open Scope Z_scope.

(* Whatever a loader produced from whatever bytes: if the module passed the gate with the loaders' post-condition and has
   valid sequences (C03), then every table access of the modelled consumers - the row fetch of the player and of the
   scan for every order, row and channel, the restart order, the sequence entry points, every envelope point index,
   every sample's loop window, the fixed-size channel and order arrays - hits an existing entry. *)
Theorem consumers_in_bounds : forall m, public_wfb m = true -> consumers_okb m = true.
Proof. exact wf_consumers. Qed.
Print Assumptions consumers_in_bounds.

Theorem gated_modules_are_safe_to_consume : forall r m,
  finish r = Some m -> loader_postb r = true -> seqs_okb m = true -> consumers_okb m = true.
Proof.
  intros r m F P S. apply wf_consumers. pose proof (gate_wf r m F P) as W. unfold wf_noseq in W. unfold public_wfb. rewrite W, S. reflexivity.
Qed.
Print Assumptions gated_modules_are_safe_to_consume.

(* one row fetch spelled out: order o inside the list, naming a pattern: the pattern exists, has rows, and every channel's
   track exists with at least one row *)
Theorem row_fetch_hits_existing_tables : forall m o, public_wfb m = true -> 0 <= o < d_len m -> fetch_okb m o = true.
Proof.
  intros m o H Ho. pose proof (wf_consumers m H) as C. unfold consumers_okb in C.
  repeat (apply andb_prop in C; destruct C as [C ?]). rewrite forallb_forall in C. apply C.
  unfold zrange. apply in_map_iff. exists (Z.to_nat o). split; [lia|]. apply in_seq. lia.
Qed.
Print Assumptions row_fetch_hits_existing_tables.

(* non-vacuity: a two-order module; and a module whose second pattern lost a track is rejected by the predicate *)
Example c01_nonvacuous :
  let e0 := {| e_flg := 0; e_npt := 0; e_sus := 0; e_sue := 0; e_lps := 0; e_lpe := 0 |} in
  let m := {| d_chn := 2; d_len := 2; d_pat := 2; d_trk := 3; d_ins := 1; d_smp := 1; d_spd := 6; d_bpm := 125; d_rst := 1; d_name_ok := true; d_type_ok := true;
              d_xxo := [1; 0]; d_chans := [(64, 0); (64, 255)];
              d_pats := [Some {| p_rows := 64; p_index := [0; 1] |}; Some {| p_rows := 1; p_index := [2; 2] |}];
              d_trks := [Some 64; Some 64; Some 1];
              d_inss := [{| i_nsm := 1; i_sub := true; i_name_ok := true; i_aei := {| e_flg := 7; e_npt := 3; e_sus := 1; e_sue := 2; e_lps := 0; e_lpe := 2 |}; i_pei := e0; i_fei := e0 |}];
              d_smps := [{| sm_len := 100; sm_lps := 10; sm_lpe := 100; sm_flg := 2; sm_data := true; sm_name_ok := true; sm_sus := 0; sm_sue := 0 |}];
              d_seqs := [(0, 1000)] |} in
  public_wfb m = true /\ consumers_okb m = true /\
  consumers_okb {| d_chn := 2; d_len := 2; d_pat := 2; d_trk := 3; d_ins := 0; d_smp := 0; d_spd := 6; d_bpm := 125; d_rst := 0; d_name_ok := true; d_type_ok := true;
                   d_xxo := [1; 0]; d_chans := [(64, 0); (64, 255)];
                   d_pats := [Some {| p_rows := 64; p_index := [0; 1] |}; Some {| p_rows := 1; p_index := [2; 7] |}];
                   d_trks := [Some 64; Some 64; Some 1]; d_inss := []; d_smps := []; d_seqs := [(0, 1000)] |} = false.
Proof. vm_compute. repeat split; reflexivity. Qed.


(* ---------------------------------------------------------------- envelope evaluation (player.c) ------------------------- *)
(* player.c's get_envelope / update_envelope* read env->data[] (XMP_MAX_ENV_POINTS * 2 = 64 shorts) at indices computed from the
   point count, the loop and sustain points and the position.  The model (Model/Envelope.v, compared with the C functions on
   random envelopes by checks/C01.py) makes every such read a checked access; these theorems say that no access can fail when
   the envelope satisfies env_okb, for every position x, default value, release and key-off state and every update variant
   (generic, FT2, IT) - and env_okb is what public_wfb gives for every envelope of every instrument of a gated module. *)
Theorem envelope_value_access_in_bounds : forall e data x def,
  env_okb e = true -> length data = 64%nat -> exists v, get_envelope e data x def = Some v.
Proof. exact get_envelope_in_bounds. Qed.
Print Assumptions envelope_value_access_in_bounds.

Theorem envelope_update_access_in_bounds : forall mode e data x rel ko,
  env_okb e = true -> length data = 64%nat -> exists v, update_envelope mode e data x rel ko = Some v.
Proof. exact update_envelope_in_bounds. Qed.
Print Assumptions envelope_update_access_in_bounds.

(* the interpolated value stays between the smallest and the largest node value (so volume / pan envelopes whose nodes the
   loaders clamp stay in range) *)
Theorem envelope_value_within_nodes : forall e data x def lo hi,
  env_okb e = true -> length data = 64%nat -> has (e_flg e) C_XMP_ENVELOPE_ON = true -> 0 <= x ->
  (forall k, 0 <= k < e_npt e -> lo <= nth (Z.to_nat (2 * k + 1)) data 0 <= hi) ->
  forall v, get_envelope e data x def = Some v -> lo <= v <= hi.
Proof. exact get_envelope_value_range. Qed.
Print Assumptions envelope_value_within_nodes.

Definition env_safe (e : env) (data : list Z) (x def : Z) (mode : emode) (rel ko : bool) : Prop :=
  (exists v, get_envelope e data x def = Some v) /\ (exists v, update_envelope mode e data x rel ko = Some v).

Theorem gated_module_envelopes_are_safe : forall m i data x def mode rel ko,
  public_wfb m = true -> In i (d_inss m) -> length data = 64%nat ->
  env_safe (i_aei i) data x def mode rel ko /\ env_safe (i_pei i) data x def mode rel ko /\ env_safe (i_fei i) data x def mode rel ko.
Proof.
  intros m i data x def mode rel ko W I L.
  assert (K : instr_okb i = true).
  { unfold public_wfb in W. repeat (apply andb_prop in W; destruct W as [W ?]).
    repeat match goal with H : forallb instr_okb _ = true |- _ => rewrite forallb_forall in H; exact (H i I) end. }
  unfold instr_okb in K. repeat (apply andb_prop in K; destruct K as [K ?]).
  unfold env_safe. repeat split; first [apply get_envelope_in_bounds | apply update_envelope_in_bounds]; assumption.
Qed.
Print Assumptions gated_module_envelopes_are_safe.

(* non-vacuity: a looping, sustaining 4-point envelope is accepted, evaluates between its nodes, and an envelope whose loop end
   lies beyond the points is rejected by the predicate - and does read outside the 64 entries in the model *)
Example c01_envelope_nonvacuous :
  let e := {| e_flg := 7; e_npt := 4; e_sus := 1; e_sue := 2; e_lps := 0; e_lpe := 3 |} in
  let data := [0; 0; 10; 64; 20; 32; 40; 0] ++ repeat 0 56 in
  env_okb e = true /\ get_envelope e data 15 0 = Some 48 /\
  env_okb {| e_flg := 5; e_npt := 4; e_sus := 0; e_sue := 0; e_lps := 0; e_lpe := 40 |} = false /\
  update_envelope EGeneric {| e_flg := 5; e_npt := 4; e_sus := 0; e_sue := 0; e_lps := 0; e_lpe := 40 |} data 5 false false = None.
Proof. vm_compute. repeat split; reflexivity. Qed.

(* ---------------------------------------------------------------- LFOs and the random source (lfo.c, rng.c) ------------------ *)
(* libxmp_lfo_get reads sine_wave[lfo->phase].  The phase is written by libxmp_lfo_update (masked) and by libxmp_lfo_set_phase,
   which the source only ever calls with 0 (the call sites' argument texts are regenerated from the source on every run; no file
   writes the member directly): in every state reachable from the zero-initialised LFO by any sequence of operations - any
   rate, depth, waveform number - the read is inside the 64 entries, for all four player flavours, and the value is at most
   256 * |depth|.  checks/C01.py runs the same operation sequences through lfo.c / rng.c and the extracted model. *)
Theorem lfo_phase_stays_in_table : forall ops, phase_ok (fold_left lfo_op ops lfo_zero).
Proof. exact lfo_reachable_phase. Qed.
Print Assumptions lfo_phase_stays_in_table.

Theorem lfo_table_access_in_bounds : forall ops mode vib rs, 0 <= rs ->
  exists v rs', lfo_get mode vib rs (fold_left lfo_op ops lfo_zero) = Some (v, rs') /\
                Z.abs v <= 256 * Z.abs (l_depth (fold_left lfo_op ops lfo_zero)).
Proof. intros ops mode vib rs R. apply lfo_get_spec; [apply lfo_reachable_phase|exact R]. Qed.
Print Assumptions lfo_table_access_in_bounds.

Theorem lfo_phase_is_only_set_to_zero : phase_writers_okb = true.
Proof. exact phase_writers_ok. Qed.
Print Assumptions lfo_phase_is_only_set_to_zero.

(* libxmp_get_random(range) returns a value below range (0 for range 0) and keeps its state inside 32 bits *)
Theorem random_value_below_range : forall st range v s, 0 <= range -> get_random st range = (v, s) ->
  0 <= s < 2 ^ 32 /\ 0 <= v /\ (0 < range -> v < range) /\ (range = 0 -> v = 0).
Proof. exact get_random_range. Qed.
Print Assumptions random_value_below_range.

(* non-vacuity: a sequence that wraps the phase with a negative rate; and outside the invariant the access does leave the table *)
Example c01_lfo_nonvacuous :
  l_phase (fold_left lfo_op [SetRate (-5); SetDepth 3; Update; Update] lfo_zero) = 54 /\
  lfo_get RMod false 1 (fold_left lfo_op [SetRate (-5); SetDepth 3; Update; Update] lfo_zero) = Some (-212 * 3, 1) /\
  lfo_get RMod false 1 {| l_type := 0; l_rate := 1; l_depth := 1; l_phase := 64 |} = None.
Proof. vm_compute. repeat split; reflexivity. Qed.

(* ---------------------------------------------------------------- from the bytes of a file to safe consumers ------------------- *)
(* For the four loaders that are inside the model (Protracker M.K., Composer 669, MultiTracker, Scream Tracker 3: C03) nothing
   about the loader is assumed any more: whatever bytes the file holds, if the loader accepts them and the gate lets the module
   through, then - given the sequence table the scan establishes (C03's sequence theorem) - every table access of the modelled
   consumers hits an existing entry and every envelope of every instrument evaluates inside its point array. *)
Lemma noseq_and_seqs_give_public : forall m, wf_noseq m = true -> seqs_okb m = true -> public_wfb m = true.
Proof. intros m W S. unfold wf_noseq in W. unfold public_wfb. rewrite W, S. reflexivity. Qed.

Theorem protracker_file_is_safe_to_consume : forall ptk file r m,
  Forall (fun b => 0 <= b <= 255) file -> mod_raw ptk file = Some r -> finish r = Some m -> seqs_okb m = true -> consumers_okb m = true.
Proof. intros. apply wf_consumers, noseq_and_seqs_give_public; [eapply mod_loaded_module_is_wf; eauto|assumption]. Qed.
Print Assumptions protracker_file_is_safe_to_consume.

Theorem composer669_file_is_safe_to_consume : forall file r m,
  Forall (fun b => 0 <= b <= 255) file -> c669_raw file = Some r -> finish r = Some m -> seqs_okb m = true -> consumers_okb m = true.
Proof. intros. apply wf_consumers, noseq_and_seqs_give_public; [eapply c669_loaded_module_is_wf; eauto|assumption]. Qed.
Print Assumptions composer669_file_is_safe_to_consume.

Theorem multitracker_file_is_safe_to_consume : forall file r m,
  Forall (fun b => 0 <= b <= 255) file -> mtm_raw file = Some r -> finish r = Some m -> seqs_okb m = true -> consumers_okb m = true.
Proof. intros. apply wf_consumers, noseq_and_seqs_give_public; [eapply mtm_loaded_module_is_wf; eauto|assumption]. Qed.
Print Assumptions multitracker_file_is_safe_to_consume.

Theorem screamtracker3_file_is_safe_to_consume : forall file r m,
  Forall (fun b => 0 <= b <= 255) file -> s3m_raw file = Some r -> finish r = Some m -> seqs_okb m = true -> consumers_okb m = true.
Proof. intros. apply wf_consumers, noseq_and_seqs_give_public; [eapply s3m_loaded_module_is_wf; eauto|assumption]. Qed.
Print Assumptions screamtracker3_file_is_safe_to_consume.

(* ---------------------------------------------------------------- the mixer's segment rule keeps the kernels inside the sample block ---------
   mixer.c asks a kernel for at most ceil((end - pos) / step) output frames per segment, i.e. for a count with
   frac + (count - 1) * step < (E - P) * 65536, E <= len being the voice's end.  For a sample loaded by libxmp_load_sample (C20's
   model of the block: 4 guard bytes, the data, 4 guard frames) and every kernel of mix_all.c (C14's model) that rule is enough:
   every read of the call - the spline's frame behind and two ahead, the nearest kernels' half-frame rounding - is inside the
   block.  (8-bit samples, mono and stereo, playing forwards; the 16-bit layouts follow the same way from
   loaded_16bit_sample_block_covers_every_kernel_read of C20.) *)
Theorem forward_segment_reads_inside_the_sample_block : forall skip flags s file pos nbuf s' blk pos' c a count ramp st buf P E,
  load_sample skip flags s file pos nbuf = Loaded s' blk pos' ->
  framelen_of (SampleLoad.s_flg s) = chn_of c ->
  0 <= s_frac st < 65536 -> s_pos st = P * chn_of c -> 0 <= P -> E <= SampleLoad.s_len s' -> 0 < a_step a ->
  s_frac st + (count - 1) * a_step a < (E - P) * 65536 ->
  (Z.to_nat (Z.max 0 count) * (if k_sout c then 2 else 1) <= length buf)%nat ->
  kernel c {| m_data := blk; m_base := 4 |} a count ramp st buf <> None.
Proof. exact forward_segment_reads_inside_block_8bit. Qed.
Print Assumptions forward_segment_reads_inside_the_sample_block.

(* the same when a voice plays backwards (reverse and bidirectional loops): step < 0 and the rule is
   St * 65536 <= P * 65536 + frac + (count - 1) * step for the voice's start St *)
Theorem reverse_segment_reads_inside_the_sample_block : forall skip flags s file pos nbuf s' blk pos' c a count ramp st buf P St,
  load_sample skip flags s file pos nbuf = Loaded s' blk pos' ->
  framelen_of (SampleLoad.s_flg s) = chn_of c ->
  0 <= s_frac st < 65536 -> s_pos st = P * chn_of c -> 0 <= St -> P <= SampleLoad.s_len s' -> a_step a < 0 ->
  St * 65536 <= P * 65536 + s_frac st + (count - 1) * a_step a ->
  (Z.to_nat (Z.max 0 count) * (if k_sout c then 2 else 1) <= length buf)%nat ->
  kernel c {| m_data := blk; m_base := 4 |} a count ramp st buf <> None.
Proof. exact reverse_segment_reads_inside_block_8bit. Qed.
Print Assumptions reverse_segment_reads_inside_the_sample_block.
