(* C09 — Corrupted archives are rejected, never silently mis-decoded.
   Theorems about the check-value functions and the accept/reject gate.  The general claim for
   corruption inside an entropy-coded stream cannot be a theorem (a 32-bit check accepts a wrong
   payload with probability 2^-32); that part is explored by the every-bit-flip enumeration of the
   correspondence run (DESIGN section 5, C09). *)
From Coq Require Import ZArith List Lia Bool.
Import ListNotations.
From LX Require Import Generated.Tables Model.Crc Proofs.CrcProofs Proofs.CrcBurstProofs Model.CrcBE Proofs.CrcBEProofs Proofs.CrcBEBurstProofs.
Local Open Scope Z_scope.

(* the tables in crc32.c are the tables of the two polynomials (a corrupted entry breaks this) *)
Theorem table_is_polynomial :
  crc32_A_table = make_table 3988292384 /\ crc16_IBM_table = make_table 40961.
Proof. split; [exact table32_is_polynomial | exact table16_is_polynomial]. Qed.
Print Assumptions table_is_polynomial.

(* any substitution of a single byte (hence any single-bit flip) anywhere in data of any length
   changes the CRC-32 / CRC-16 *)
Theorem crc_detects_byte_substitution : forall pre b b' post,
  bytes pre -> 0 <= b < 256 -> 0 <= b' < 256 -> bytes post -> b <> b' ->
  crc32_A (pre ++ b :: post) 0 <> crc32_A (pre ++ b' :: post) 0 /\
  crc16_IBM (pre ++ b :: post) 0 <> crc16_IBM (pre ++ b' :: post) 0.
Proof. intros. split; [apply crc32_detects | apply crc16_detects]; auto. Qed.
Print Assumptions crc_detects_byte_substitution.

(* any change confined to two adjacent bytes - hence every error burst of up to 9 bits wherever it lies, and every byte-aligned
   burst of 16 bits - anywhere in data of any length changes the CRC-32 and the CRC-16 *)
Theorem crc_detects_two_adjacent_bytes : forall pre b1 b2 c1 c2 post,
  bytes pre -> 0 <= b1 < 256 -> 0 <= b2 < 256 -> 0 <= c1 < 256 -> 0 <= c2 < 256 -> bytes post ->
  (b1 <> c1 \/ b2 <> c2) ->
  crc32_A (pre ++ b1 :: b2 :: post) 0 <> crc32_A (pre ++ c1 :: c2 :: post) 0 /\
  crc16_IBM (pre ++ b1 :: b2 :: post) 0 <> crc16_IBM (pre ++ c1 :: c2 :: post) 0.
Proof. intros. split; [apply crc32_detects_two_bytes | apply crc16_detects_two_bytes]; auto. Qed.
Print Assumptions crc_detects_two_adjacent_bytes.

(* gate soundness: for stored members, a payload with one corrupted byte is rejected; a corrupted
   check or length field is rejected unless it is left equal *)
Theorem gate_sound : forall pre b b' post crc len out crc' len',
  bytes pre -> 0 <= b < 256 -> 0 <= b' < 256 -> bytes post -> b <> b' ->
  gate32 (crc32_A (pre ++ b :: post) 0) (Z.of_nat (length (pre ++ b :: post))) (pre ++ b' :: post) = false /\
  gate16 (crc16_IBM (pre ++ b :: post) 0) (Z.of_nat (length (pre ++ b :: post))) (pre ++ b' :: post) = false /\
  (gate32 crc len out = true -> (crc' <> crc \/ len' <> len) -> gate32 crc' len' out = false) /\
  (gate32 (crc32_A pre 0) (Z.of_nat (length pre)) out = true -> crc32_A out 0 = crc32_A pre 0 /\ length out = length pre).
Proof.
  intros. split; [apply gate32_rejects_substitution; auto|]. split; [apply gate16_rejects_substitution; auto|].
  split; [apply gate32_field_corruption | apply gate32_sound].
Qed.
Print Assumptions gate_sound.

Example c09_nonvacuous :
  crc32_A [49;50;51;52;53;54;55;56;57] 0 = 3421780262 /\ crc16_IBM [49;50;51;52;53;54;55;56;57] 0 = 47933 /\
  gate32 3421780262 9 [49;50;51;52;53;54;55;56;57] = true /\ gate32 3421780262 9 [49;50;51;52;53;54;55;56;56] = false.
Proof. vm_compute. repeat split. Qed.

(* ---------------------------------------------------------------- bzip2 ------------------------------------------------ *)

(* bzip2's block CRC (big-endian CRC-32, table built at run time by crc_init) changes under any substitution of one byte anywhere
   in a block of any length, and the depacker's accept decision - every block's CRC equal to the one in its header, the combined
   value equal to the stored stream CRC - therefore refuses a stream in which one decoded block differs in one byte from what the
   header CRCs were computed for, while it accepts the original. *)
Theorem bzip2_crc_detects_byte_substitution : forall pre b b' post,
  Forall CrcBEProofs.byte pre -> CrcBEProofs.byte b -> CrcBEProofs.byte b' -> Forall CrcBEProofs.byte post -> b <> b' ->
  bz_block_crc (pre ++ b :: post) <> bz_block_crc (pre ++ b' :: post).
Proof. exact bz_block_crc_detects_substitution. Qed.
Print Assumptions bzip2_crc_detects_byte_substitution.

Theorem bzip2_gate : forall before pre b b' post after stored,
  Forall CrcBEProofs.byte pre -> CrcBEProofs.byte b -> CrcBEProofs.byte b' -> Forall CrcBEProofs.byte post -> b <> b' ->
  bz_gate (before ++ (pre ++ b' :: post) :: after) (map bz_block_crc (before ++ (pre ++ b :: post) :: after)) stored = false /\
  bz_gate (before ++ (pre ++ b :: post) :: after) (map bz_block_crc (before ++ (pre ++ b :: post) :: after)) (bz_stream_crc (before ++ (pre ++ b :: post) :: after)) = true.
Proof.
  intros. split; [apply bz_gate_rejects_block_substitution; assumption | apply bz_gate_accepts_original].
Qed.
Print Assumptions bzip2_gate.

Example c09_bzip2_nonvacuous :
  bz_block_crc [49;50;51;52;53;54;55;56;57] = 4236843288 /\ nth 1 be_table 0 = 79764919 /\
  bz_gate [[1;2;3]; [4]] (map bz_block_crc [[1;2;3]; [4]]) (bz_stream_crc [[1;2;3]; [4]]) = true /\
  bz_gate [[1;2;7]; [4]] (map bz_block_crc [[1;2;3]; [4]]) (bz_stream_crc [[1;2;3]; [4]]) = false.
Proof. vm_compute. repeat split; reflexivity. Qed.

(* bzip2's big-endian CRC: any change confined to two adjacent bytes of a block of any length changes the block CRC, and the
   per-block / stream gate then refuses the stream *)
Theorem bzip2_crc_detects_two_adjacent_bytes : forall before pre b1 b2 c1 c2 post after stored,
  Forall CrcBEProofs.byte pre -> CrcBEProofs.byte b1 -> CrcBEProofs.byte b2 -> CrcBEProofs.byte c1 -> CrcBEProofs.byte c2 ->
  Forall CrcBEProofs.byte post -> (b1 <> c1 \/ b2 <> c2) ->
  bz_block_crc (pre ++ b1 :: b2 :: post) <> bz_block_crc (pre ++ c1 :: c2 :: post) /\
  bz_gate (before ++ (pre ++ c1 :: c2 :: post) :: after) (map bz_block_crc (before ++ (pre ++ b1 :: b2 :: post) :: after)) stored = false.
Proof.
  intros. split; [apply bz_block_crc_detects_two_bytes | apply bz_gate_rejects_two_byte_substitution]; assumption.
Qed.
Print Assumptions bzip2_crc_detects_two_adjacent_bytes.

