(* C04 — Failed or faulted operations are atomic: no leak, no residue, context reusable (protocol level). *)
From Coq Require Import ZArith List Bool Lia.
Import ListNotations.
From LX Require Import Model.Cleanup Proofs.CleanupProofs.
Local Open Scope Z_scope.

(* For each of the eight load / test entry points and xmp_start_player, for EVERY combination of stage failures (an empty memory buffer, stream
   will not open, archive will not unpack, an allocation fails while the names are copied, nothing recognises the data,
   the loader or the sanity gate gives up, the scan fails, the player's allocations fail) and every consistent earlier
   state of the context: afterwards the library holds no stream and no temporary file, the context is in a consistent
   state (module tables iff loaded, player buffers iff playing), the caller's FILE is as it was, a callback stream's
   close callback ran exactly once (if the stream was opened at all), a success leaves the documented state, and a
   failure returns a negative code and leaves the earlier state or the unloaded one (tests: always the earlier one). *)
Theorem faulted_calls_are_atomic : forall e f w,
  consistent w = true -> cb_closes w = 0 -> atomic_okb e f w = true.
Proof.
  intros e f w Hc H0. destruct (consistent_enumerated w Hc H0) as (s & Hs & ->). apply atomic_all. exact Hs.
Qed.
Print Assumptions faulted_calls_are_atomic.

(* spelled out for the resources: *)
Theorem no_stream_or_temp_left : forall e f w, consistent w = true -> cb_closes w = 0 ->
  handles (snd (run e f w)) = 0 /\ temps (snd (run e f w)) = 0 /\ caller_file_open (snd (run e f w)) = caller_file_open w.
Proof.
  intros e f w Hc H0. pose proof (faulted_calls_are_atomic e f w Hc H0) as A. unfold atomic_okb in A.
  destruct (run e f w) as [r w']. cbn [snd]. apply andb_prop in A as [A _]. apply andb_prop in A as [A _]. apply andb_prop in A as [A Hfo].
  unfold consistent in A. apply andb_prop in A as [A Ht]. apply andb_prop in A as [_ Hh]. apply Z.eqb_eq in Ht, Hh.
  apply Bool.eqb_prop in Hfo. auto.
Qed.
Print Assumptions no_stream_or_temp_left.

(* non-vacuity: a playing context, load by path, the loader gives up: the old module is gone, nothing is left behind *)
Example c04_nonvacuous :
  let w := mk_world (Playing, true, true) true in
  let f := {| f_empty := false; f_open := false; f_depack := false; f_names := false; f_format := false; f_loader := true; f_prepare := false; f_scan := false; f_player := false |} in
  consistent w = true /\ run LoadPath f w = (E_LOAD, mk_world (Unloaded, false, false) true) /\
  fst (run Start {| f_empty := false; f_open := false; f_depack := false; f_names := false; f_format := false; f_loader := false; f_prepare := false; f_scan := false; f_player := true |} w) = E_INTERNAL /\
  length all_faults = 512%nat.
Proof. vm_compute. repeat split; reflexivity. Qed.
