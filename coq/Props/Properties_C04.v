(* C04 — Failed or faulted operations are atomic: no leak, no residue, context reusable (protocol level). *)
From Coq Require Import ZArith List Bool Lia.
Import ListNotations.
From LX Require Import Model.Cleanup Proofs.CleanupProofs Proofs.CleanupSeqProofs.
Local Open Scope Z_scope.

(* For each of the eight load / test entry points and xmp_start_player, for EVERY combination of stage failures (an empty memory buffer, stream
   will not open, archive will not unpack, an allocation fails while the names are copied, nothing recognises the data,
   the loader or the sanity gate gives up, the scan fails, the player's allocations fail) and every consistent earlier
   state of the context: afterwards the library holds no stream and no temporary file, the context is in a consistent
   state (module tables iff loaded, player buffers iff playing), the caller's FILE is as it was, a callback stream's
   close callback ran exactly once (if the stream was opened at all), a success leaves the documented state, and a
   failure returns a negative code and leaves the earlier state or the unloaded one (tests: always the earlier one). *)
Theorem faulted_calls_are_atomic : forall e f w,
  consistent w = true -> cb_closes w = 0 -> atomic_okb e f w = true.
Proof.
  intros e f w Hc H0. destruct (consistent_enumerated w Hc H0) as (s & Hs & ->). apply atomic_all. exact Hs.
Qed.
Print Assumptions faulted_calls_are_atomic.

(* spelled out for the resources: *)
Theorem no_stream_or_temp_left : forall e f w, consistent w = true -> cb_closes w = 0 ->
  handles (snd (run e f w)) = 0 /\ temps (snd (run e f w)) = 0 /\ caller_file_open (snd (run e f w)) = caller_file_open w.
Proof.
  intros e f w Hc H0. pose proof (faulted_calls_are_atomic e f w Hc H0) as A. unfold atomic_okb in A.
  destruct (run e f w) as [r w']. cbn [snd]. apply andb_prop in A as [A _]. apply andb_prop in A as [A _]. apply andb_prop in A as [A Hfo].
  unfold consistent in A. apply andb_prop in A as [A Ht]. apply andb_prop in A as [_ Hh]. apply Z.eqb_eq in Ht, Hh.
  apply Bool.eqb_prop in Hfo. auto.
Qed.
Print Assumptions no_stream_or_temp_left.

(* Every reachable context.  For any history of entry-point calls (load / test through any of the four back-ends, player
   start), each with any combination of faults, from any consistent context: the context is consistent again, holds no
   stream and no temporary file, the caller's FILE is as it was, and the caller's close callback has been invoked exactly
   once per callback stream the library accepted (induction over the history). *)
Theorem any_call_history_leaves_no_residue : forall cs w, consistent w = true ->
  consistent (run_seq w cs) = true /\ handles (run_seq w cs) = 0 /\ temps (run_seq w cs) = 0 /\
  caller_file_open (run_seq w cs) = caller_file_open w /\
  cb_closes (run_seq w cs) = cb_closes w + cb_total cs.
Proof.
  intros cs w Hw. destruct (history_inv cs w Hw) as (H1 & H2 & H3). destruct (consistent_handles _ H1) as [Hh Ht]. auto.
Qed.
Print Assumptions any_call_history_leaves_no_residue.

(* ... and the context is reusable: after any such history a fault-free load through any back-end returns 0 and leaves the
   context loaded, and a fault-free player start after it returns 0 and leaves it playing. *)
Theorem context_reusable_after_any_history : forall cs w e, consistent w = true -> is_load e = true ->
  let w' := run_seq w cs in
  fst (run e no_faults w') = 0 /\ st (snd (run e no_faults w')) = Loaded /\
  fst (run Start no_faults (snd (run e no_faults w'))) = 0 /\ st (snd (run Start no_faults (snd (run e no_faults w')))) = Playing.
Proof. exact history_reusable. Qed.
Print Assumptions context_reusable_after_any_history.

(* a test entry point, failing or not, leaves the context's state and what it owns exactly as they were *)
Theorem testing_never_touches_the_context : forall e f w, consistent w = true -> is_load e = false -> e <> Start ->
  st (snd (run e f w)) = st w /\ mod_live (snd (run e f w)) = mod_live w /\ player_live (snd (run e f w)) = player_live w.
Proof. exact failed_test_keeps_state. Qed.
Print Assumptions testing_never_touches_the_context.

(* non-vacuity: a playing context, load by path, the loader gives up: the old module is gone, nothing is left behind *)
Example c04_nonvacuous :
  let w := mk_world (Playing, true, true) true in
  let f := {| f_empty := false; f_open := false; f_depack := false; f_names := false; f_format := false; f_loader := true; f_prepare := false; f_scan := false; f_player := false |} in
  consistent w = true /\ run LoadPath f w = (E_LOAD, mk_world (Unloaded, false, false) true) /\
  fst (run Start {| f_empty := false; f_open := false; f_depack := false; f_names := false; f_format := false; f_loader := false; f_prepare := false; f_scan := false; f_player := true |} w) = E_INTERNAL /\
  length all_faults = 512%nat.
Proof. vm_compute. repeat split; reflexivity. Qed.

(* non-vacuity of the history theorems: a four-call history with three faulted calls (callback stream whose loader gives
   up, archive that will not unpack, player allocation failing) - one close callback due, context left loaded *)
Example c04_history_nonvacuous :
  let lf := {| f_empty := false; f_open := false; f_depack := false; f_names := false; f_format := false; f_loader := true; f_prepare := false; f_scan := false; f_player := false |} in
  let df := {| f_empty := false; f_open := false; f_depack := true; f_names := false; f_format := false; f_loader := false; f_prepare := false; f_scan := false; f_player := false |} in
  let pf := {| f_empty := false; f_open := false; f_depack := false; f_names := false; f_format := false; f_loader := false; f_prepare := false; f_scan := false; f_player := true |} in
  let cs := [(LoadCb, lf); (LoadMem, no_faults); (TestPath, df); (Start, pf)] in
  let w := mk_world (Unloaded, false, false) true in
  consistent w = true /\ run_seq w cs = {| st := Loaded; mod_live := true; player_live := false; handles := 0; temps := 0; caller_file_open := true; cb_closes := 1 |} /\
  cb_total cs = 1.
Proof. vm_compute. repeat split; reflexivity. Qed.
