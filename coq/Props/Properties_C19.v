(* C19 — Core-format loaders reproduce what an independent writer encoded (Protracker M.K. layer proved; XM/S3M/IT by the
   differential only). *)
From Coq Require Import ZArith List Lia Bool.
Import ListNotations.
From LX Require Import Base.ListAux Model.ModCodec Proofs.ModCodecProofs.
Local Open Scope Z_scope.

(* Every abstract song the format can express - any title and names, any 31 instrument headers, any order list, any
   number of patterns (as many as the order list refers to), any cells, any sample bytes - is recovered exactly by the
   byte-level reader from what the writer produced. *)
Theorem decode_encode : forall s, song_okb s = true -> decode (encode s) = Some s.
Proof. exact ModCodecProofs.decode_encode. Qed.
Print Assumptions decode_encode.

(* hence the writer loses nothing: two expressible songs with the same file are the same song *)
Theorem encode_injective : forall s1 s2, song_okb s1 = true -> song_okb s2 = true -> encode s1 = encode s2 -> s1 = s2.
Proof.
  intros s1 s2 H1 H2 E. pose proof (decode_encode s1 H1) as D1. pose proof (decode_encode s2 H2) as D2.
  rewrite E in D1. rewrite D1 in D2. injection D2 as ->. reflexivity.
Qed.
Print Assumptions encode_injective.

(* the pattern cell codec alone, for every cell *)
Theorem cell_roundtrip : forall c r, cell_okb c = true -> dec_cell (enc_cell c ++ r) = Some (c, r).
Proof. exact dec_cell_rt. Qed.
Print Assumptions cell_roundtrip.

(* non-vacuity: one pattern, an instrument with a loop and two words of sample data *)
Example c19_nonvacuous :
  let i0 := {| i_name := repeat 65 22; i_len := 2; i_fine := 3; i_vol := 64; i_lps := 0; i_lpl := 2 |} in
  let ie := {| i_name := repeat 0 22; i_len := 0; i_fine := 0; i_vol := 0; i_lps := 0; i_lpl := 1 |} in
  let s := {| s_title := repeat 84 20; s_ins := i0 :: repeat ie 30; s_len := 1; s_rst := 127; s_orders := repeat 0 128;
              s_pats := [ {| c_period := 428; c_ins := 17; c_fxt := 12; c_fxp := 32 |} :: repeat {| c_period := 0; c_ins := 0; c_fxt := 0; c_fxp := 0 |} 255 ];
              s_smp := [1; 255; 2; 254] :: repeat [] 30 |} in
  song_okb s = true /\ length (encode s) = (1084 + 1024 + 4)%nat /\ firstn 4 (skipn 1084 (encode s)) = [17; 172; 28; 32] /\ decode (encode s) = Some s.
Proof. vm_compute. repeat split; reflexivity. Qed.
