(* C19 — Core-format loaders reproduce what an independent writer encoded.  Proved: the whole Protracker M.K. layout; the
   packed pattern formats of XM, S3M and IT (writer -> transcribed loader loop -> exactly the written cells, translated) and the
   note / instrument / volume renumbering of plain cells.  Instrument and sample headers of XM / S3M / IT: by the differential only. *)
From Coq Require Import ZArith List Lia Bool.
Import ListNotations.
From LX Require Import Base.ListAux Generated.Consts Model.ModCodec Proofs.ModCodecProofs Model.PatCodecs Proofs.PatXMProofs Proofs.PatS3MProofs Proofs.PatITProofs Model.ItSex Proofs.ItSexProofs.
Local Open Scope Z_scope.

(* Every abstract song the format can express - any title and names, any 31 instrument headers, any order list, any
   number of patterns (as many as the order list refers to), any cells, any sample bytes - is recovered exactly by the
   byte-level reader from what the writer produced. *)
Theorem decode_encode : forall s, song_okb s = true -> decode (encode s) = Some s.
Proof. exact ModCodecProofs.decode_encode. Qed.
Print Assumptions decode_encode.

(* hence the writer loses nothing: two expressible songs with the same file are the same song *)
Theorem encode_injective : forall s1 s2, song_okb s1 = true -> song_okb s2 = true -> encode s1 = encode s2 -> s1 = s2.
Proof.
  intros s1 s2 H1 H2 E. pose proof (decode_encode s1 H1) as D1. pose proof (decode_encode s2 H2) as D2.
  rewrite E in D1. rewrite D1 in D2. injection D2 as ->. reflexivity.
Qed.
Print Assumptions encode_injective.

(* the pattern cell codec alone, for every cell *)
Theorem cell_roundtrip : forall c r, cell_okb c = true -> dec_cell (enc_cell c ++ r) = Some (c, r).
Proof. exact dec_cell_rt. Qed.
Print Assumptions cell_roundtrip.

(* non-vacuity: one pattern, an instrument with a loop and two words of sample data *)
Example c19_nonvacuous :
  let i0 := {| i_name := repeat 65 22; i_len := 2; i_fine := 3; i_vol := 64; i_lps := 0; i_lpl := 2 |} in
  let ie := {| i_name := repeat 0 22; i_len := 0; i_fine := 0; i_vol := 0; i_lps := 0; i_lpl := 1 |} in
  let s := {| s_title := repeat 84 20; ModCodec.s_ins := i0 :: repeat ie 30; s_len := 1; s_rst := 127; s_orders := repeat 0 128;
              s_pats := [ {| c_period := 428; c_ins := 17; c_fxt := 12; c_fxp := 32 |} :: repeat {| c_period := 0; c_ins := 0; c_fxt := 0; c_fxp := 0 |} 255 ];
              s_smp := [1; 255; 2; 254] :: repeat [] 30 |} in
  song_okb s = true /\ length (encode s) = (1084 + 1024 + 4)%nat /\ firstn 4 (skipn 1084 (encode s)) = [17; 172; 28; 32] /\ decode (encode s) = Some s.
Proof. vm_compute. repeat split; reflexivity. Qed.

(* ---------------------------------------------------------------- XM packed patterns ---------------------------------- *)

(* every cell (five arbitrary bytes), stored raw or behind a packing byte naming any set of fields that covers its non-zero ones,
   is read back exactly, whatever follows *)
Theorem xm_cell_roundtrip : forall mode c r, rcell_okb c = true -> xm_mode_okb mode c = true ->
  xm_dec_cell (xm_enc_cell mode c ++ r) = Some (c, r).
Proof. exact xm_dec_enc_cell. Qed.
Print Assumptions xm_cell_roundtrip.

(* a whole pattern of rows x chn cells, each packed in any allowed way: load_xm_pattern's result is the translation of exactly
   those cells, in row-major order *)
Theorem xm_pattern_roundtrip : forall rows chn mcs, 0 <= rows -> 0 <= chn -> Z.of_nat (length mcs) = rows * chn ->
  forallb mc_okb mcs = true -> xm_load_pattern rows chn (xm_enc_cells mcs) = Some (map xm_xlat (map snd mcs)).
Proof. exact xm_load_written_pattern. Qed.
Print Assumptions xm_pattern_roundtrip.

(* the renumbering of plain cells: notes 1..96 become 13..108 with the instrument unchanged, an empty note stays empty, key-off
   becomes one of the two key-off events, and the set-volume column 0x10..0x50 becomes volume 1..65 with no second effect *)
Theorem xm_plain_cells : forall c,
  (1 <= r_note c <= 96 -> e_note (xm_xlat c) = r_note c + 12 /\ e_ins (xm_xlat c) = r_ins c) /\
  (r_note c = 0 -> e_note (xm_xlat c) = 0) /\
  (r_note c = 97 -> e_note (xm_xlat c) = C_XMP_KEY_OFF \/ (r_ins c <> 0 /\ e_note (xm_xlat c) = C_XMP_KEY_FADE)) /\
  ((r_vol c = 0 \/ 16 <= r_vol c <= 80) ->
     e_vol (xm_xlat c) = (if r_vol c =? 0 then 0 else r_vol c - 15) /\ e_f2t (xm_xlat c) = 0 /\ e_f2p (xm_xlat c) = 0).
Proof. intros c. split; [apply xm_plain_note|]. split; [apply xm_empty_note|]. split; [apply xm_keyoff_note | apply xm_plain_volume]. Qed.
Print Assumptions xm_plain_cells.

Example c19_xm_nonvacuous :
  let c1 := {| r_note := 49; r_ins := 1; r_vol := 48; r_fxt := 0; r_fxp := 0 |} in
  let c2 := {| r_note := 97; r_ins := 2; r_vol := 0; r_fxt := 14; r_fxp := 208 |} in
  let c3 := {| r_note := 0; r_ins := 0; r_vol := 0xf3; r_fxt := 3; r_fxp := 0x20 |} in
  let mcs := [(xm_min_mode c1, c1); (None, c2); (Some 31, rcell0); (xm_min_mode c3, c3)] in
  forallb mc_okb mcs = true /\ xm_enc_cells mcs = [135; 49; 1; 48; 97; 2; 0; 14; 208; 159; 0; 0; 0; 0; 0; 156; 243; 3; 32] /\
  xm_load_pattern 2 2 (xm_enc_cells mcs) =
    Some [ {| e_note := 61; e_ins := 1; e_vol := 33; e_fxt := 0; e_fxp := 0; e_f2t := 0; e_f2p := 0 |};
           {| e_note := 129; e_ins := 2; e_vol := 0; e_fxt := 14; e_fxp := 208; e_f2t := 0; e_f2p := 0 |}; ev0;
           {| e_note := 0; e_ins := 0; e_vol := 0; e_fxt := 0; e_fxp := 0; e_f2t := 3; e_f2p := 96 |} ] /\
  xm_load_pattern 2 2 [135; 49; 1] = None.
Proof. vm_compute. repeat split; reflexivity. Qed.

(* ---------------------------------------------------------------- S3M packed patterns --------------------------------- *)

(* 64 rows of channel entries (any channels 0..31, any of the three field groups, the same channel any number of times in a
   row, any bytes), followed by anything, with the packed-length counter set to what was written: the transcribed loader loop
   yields exactly the meaning of the entries, and the stream's error flag stays clear *)
Theorem s3m_pattern_roundtrip : forall chn rows tail,
  1 <= chn <= 32 -> length rows = 64%nat -> Forall (Forall (fun e => s3ment_okb e = true)) rows ->
  s3m_load_pattern chn (Z.of_nat (length (s3m_enc_rows rows))) (s3m_enc_rows rows ++ tail) = Some (map (s3m_ref_row chn) rows, false).
Proof. exact s3m_decode_encode. Qed.
Print Assumptions s3m_pattern_roundtrip.

(* plain cells: octave o / semitone k becomes note 13 + 12 o + k, the instrument is kept, volume v becomes v + 1 *)
Theorem s3m_plain_cells :
  (forall o k, 0 <= o <= 9 -> 0 <= k <= 11 -> s3m_note (o * 16 + k) = 13 + 12 * o + k) /\
  (forall chn e, 0 <= s_chn e < chn -> s_hasni e = true -> s_hasvol e = true ->
     let x := nth (Z.to_nat (s_chn e)) (s3m_apply_ent (repeat ev0 (Z.to_nat chn)) e) ev0 in
     e_note x = s3m_note (s_note e) /\ e_ins x = PatCodecs.s_ins e /\ e_vol x = (s_vol e + 1) mod 256).
Proof. split; [exact s3m_note_plain | exact s3m_apply_plain]. Qed.
Print Assumptions s3m_plain_cells.

(* ---------------------------------------------------------------- IT packed patterns ---------------------------------- *)

(* any number of rows of channel entries (channels 0..63, any subset of note / instrument / volume / command, the same channel
   any number of times in a row): load_it_pattern's loop, with its per-channel mask, last-value and S-command memories, yields
   exactly the meaning of the entries; the S-command memory (S00 recalls the last parameter) is threaded through the rows *)
Theorem it_pattern_roundtrip : forall newfx rows,
  Forall (Forall (fun e => itent_okb e = true)) rows ->
  it_load_pattern newfx (Z.of_nat (length rows)) (it_enc_rows rows) = it_ref_rows newfx (repeat 0 64) rows.
Proof. exact it_decode_encode. Qed.
Print Assumptions it_pattern_roundtrip.

(* an IT file has no channel count: the loader's scan finds the highest channel any entry names *)
Theorem it_channel_count : forall rows, Forall (Forall (fun e => itent_okb e = true)) rows ->
  it_max_channel (Z.of_nat (length rows)) (it_enc_rows rows) = fold_left Z.max (map t_chn (concat rows)) 0.
Proof. exact it_channels_from_scan. Qed.
Print Assumptions it_channel_count.

Theorem it_plain_cells :
  (forall n, 0 <= n <= 119 -> it_note n = n + 1) /\
  (forall e, 0 <= e_vol e <= 64 -> e_vol (it_xlat_volfx e) = e_vol e + 1 /\ e_f2t (it_xlat_volfx e) = e_f2t e).
Proof. split; [exact it_note_plain | exact it_vol_plain]. Qed.
Print Assumptions it_plain_cells.

Example c19_s3m_it_nonvacuous :
  let e1 := {| s_chn := 0; s_hasni := true; s_note := 0x40; PatCodecs.s_ins := 1; s_hasvol := true; s_vol := 40; s_hasfx := true; s_fxt := 1; s_fxp := 6 |} in
  let e2 := {| s_chn := 2; s_hasni := false; s_note := 0; PatCodecs.s_ins := 0; s_hasvol := false; s_vol := 0; s_hasfx := true; s_fxt := 19; s_fxp := 0x82 |} in
  let rows := [e1; e2] :: repeat [] 63 in
  let t1 := {| t_chn := 0; t_hasnote := true; t_note := 60; t_hasins := true; t_ins := 1; t_hasvol := true; t_vol := 64; t_hasfx := true; t_fxt := 19; t_fxp := 0x61 |} in
  let t2 := {| t_chn := 0; t_hasnote := false; t_note := 0; t_hasins := false; t_ins := 0; t_hasvol := false; t_vol := 0; t_hasfx := true; t_fxt := 19; t_fxp := 0 |} in
  Forall (Forall (fun e => s3ment_okb e = true)) rows /\ length rows = 64%nat /\
  firstn 13 (s3m_enc_rows rows) = [224; 64; 1; 40; 1; 6; 130; 19; 130; 0; 0; 0; 0] /\
  nth 0 (s3m_ref_row 4 [e1; e2]) ev0 = {| e_note := 61; e_ins := 1; e_vol := 41; e_fxt := 163; e_fxp := 6; e_f2t := 0; e_f2p := 0 |} /\
  nth 2 (s3m_ref_row 4 [e1; e2]) ev0 = {| e_note := 0; e_ins := 0; e_vol := 0; e_fxt := 8; e_fxp := 32; e_f2t := 0; e_f2p := 0 |} /\
  Forall (Forall (fun e => itent_okb e = true)) [[t1]; [t2]] /\
  it_enc_rows [[t1]; [t2]] = [129; 15; 60; 1; 64; 19; 97; 0; 129; 8; 19; 0; 0] /\
  map (fun row => nth 0 row ev0) (it_load_pattern true 2 (it_enc_rows [[t1]; [t2]])) =
    [ {| e_note := 61; e_ins := 1; e_vol := 65; e_fxt := 14; e_fxp := 225; e_f2t := 0; e_f2p := 0 |};
      {| e_note := 0; e_ins := 0; e_vol := 0; e_fxt := 14; e_fxp := 225; e_f2t := 0; e_f2p := 0 |} ].
Proof. vm_compute. repeat split; repeat constructor. Qed.

(* ---------------------------------------------------------------- IT compressed samples ------------------------------- *)

(* any 8- or 16-bit sample, IT 2.14 (delta) or IT 2.15 (double delta), of any length - several blocks of 0x8000 / 0x4000 samples,
   each with its own byte count, bit reader and integrators - written by the model's writer and followed by any bytes: the
   transcribed itsex_decompress8 / 16 unpacks exactly the samples, reports success and leaves the stream at what follows *)
Theorem it_sample_roundtrip : forall wide it215 l tail, smp_okb wide l = true ->
  ItSex.decompress (S (length l)) wide it215 (length l) (ItSex.compress (S (length l)) wide it215 l ++ tail) = (l, true, tail).
Proof. exact decompress_compress. Qed.
Print Assumptions it_sample_roundtrip.

(* ... and what the writer produces is a byte stream (each block's byte count fits its 16-bit field) *)
Theorem it_sample_writer_emits_bytes : forall wide it215 l, smp_okb wide l = true ->
  Forall (fun b => 0 <= b < 256) (ItSex.compress (S (length l)) wide it215 l).
Proof. exact compress_bytes. Qed.
Print Assumptions it_sample_writer_emits_bytes.

Example c19_itsex_nonvacuous :
  let l := [0; 255; 3; 128; 129; 7] in
  smp_okb false l = true /\ ItSex.compress 7 false true l = [7; 0; 0; 254; 21; 200; 67; 168; 16] /\
  ItSex.decompress 7 false true 6 (ItSex.compress 7 false true l ++ [42]) = (l, true, [42]) /\
  ItSex.decompress 7 false true 6 [7; 0; 0; 254; 21; 200] = ([0; 0; 0; 0; 0; 0], false, []) /\
  ItSex.decompress 7 true false 2 (ItSex.compress 3 true false [65535; 1]) = ([65535; 1], true, []).
Proof. vm_compute. repeat split; reflexivity. Qed.
