(* C05 — The public API obeys its documented state machine for any calls and arguments. *)
From Coq Require Import ZArith List Lia Bool.
Import ListNotations.
From LX Require Import Base.ListAux Generated.Consts Model.Api Proofs.ApiProofs Proofs.ApiContract Proofs.ApiState.
Local Open Scope Z_scope.

(* For every history of calls with arbitrary integer arguments (and any load/start outcomes), every call's
   result is one the documented contract allows for the state the context is in: -XMP_ERROR_STATE where the
   state forbids the call, -XMP_ERROR_INVALID for out-of-range arguments, success otherwise, void calls return
   nothing - and no call indexes outside its table (MemErr is never allowed by spec_allows). *)
Theorem api_refines_spec : forall h, Forall call_wf h -> all_allowed init h = true.
Proof. intros h Hw. apply history_meets_contract; [exact init_wf|exact Hw]. Qed.
Print Assumptions api_refines_spec.

(* ... from any well-formed context, too (not only a fresh one) *)
Theorem api_refines_spec_any_state : forall c k, ctx_wf c -> call_wf k ->
  spec_allows c k (snd (step c k)) = true /\ ctx_wf (fst (step c k)).
Proof. intros c k Hc Hk. split; [apply api_meets_contract; assumption | apply step_wf; exact Hc]. Qed.
Print Assumptions api_refines_spec_any_state.

(* The state changes only as documented: load -> loaded (or unloaded when the load fails after the old module
   was released), release -> unloaded, successful start -> playing, end -> loaded; no other call changes it. *)
Theorem state_changes_only_as_documented : forall c k, state (fst (step c k)) = next_state c k.
Proof. exact state_discipline. Qed.
Print Assumptions state_changes_only_as_documented.

(* xmp_start_player establishes the documented defaults ... *)
Theorem start_player_defaults : forall c rate fmt, snd (step c (CStart rate fmt 0)) = RExact 0 ->
  let c' := fst (step c (CStart rate fmt 0)) in
  state c' = PLAYING /\ amp c' = 1 /\ mix c' = 100 /\ interp c' = 1 /\ dsp c' = 1 /\ volume c' = 100 /\ smix_volume c' = 100 /\
  cvol c' = repeat 100 64 /\ pflags c' = pflags c /\ cflags c' = cflags c /\ mode c' = mode c.
Proof. exact start_defaults. Qed.
Print Assumptions start_player_defaults.

(* ... and after any history of control calls xmp_get_player reads back that default or the last value that was
   successfully (in range, in state) set since; likewise the channel volume *)
Theorem get_returns_last_set : forall h c, forallb control_call h = true -> state c = PLAYING ->
  let c' := snd (run c h) in
  snd (step c' (CGetPlayer P_AMP)) = RExact (last_set P_AMP (range 0 3) (amp c) h) /\
  snd (step c' (CGetPlayer P_MIX)) = RExact (last_set P_MIX (range (-100) 100) (mix c) h) /\
  snd (step c' (CGetPlayer P_INTERP)) = RExact (last_set P_INTERP (range 0 2) (interp c) h) /\
  snd (step c' (CGetPlayer P_DSP)) = RExact (last_set P_DSP anyv (dsp c) h) /\
  snd (step c' (CGetPlayer P_VOLUME)) = RExact (last_set P_VOLUME (range 0 200) (volume c) h) /\
  snd (step c' (CGetPlayer P_SMIX_VOLUME)) = RExact (last_set P_SMIX_VOLUME (range 0 200) (smix_volume c) h) /\
  snd (step c' (CGetPlayer P_FLAGS)) = RExact (last_set P_FLAGS anyv (pflags c) h) /\
  snd (step c' (CGetPlayer P_CFLAGS)) = RExact (last_set P_CFLAGS anyv (cflags c) h) /\
  snd (step c' (CGetPlayer P_MODE)) = RExact (last_set P_MODE (range 0 10) (mode c) h).
Proof.
  intros h c A B. cbn zeta.
  repeat split; [apply read_back_amp | apply read_back_mix | apply read_back_interp | apply read_back_dsp | apply read_back_volume
                | apply read_back_smix_volume | apply read_back_flags | apply read_back_cflags | apply read_back_mode]; assumption.
Qed.
Print Assumptions get_returns_last_set.

Theorem channel_vol_reads_back : forall c ch v, ctx_wf c -> state c = PLAYING -> 0 <= ch < 64 -> 0 <= v <= 100 ->
  snd (step (fst (step c (CVol ch v))) (CVol ch (-1))) = RExact v.
Proof. exact channel_vol_read_back. Qed.
Print Assumptions channel_vol_reads_back.

(* non-vacuity: a real history - load, start, out-of-range and in-range sets, reads, a refused call, release *)
Example c05_nonvacuous :
  let h := [CGetPlayer P_AMP; CLoad (LOk {| sh_chn := 4; sh_len := 10; sh_ins := 15 |} 0 0 [0;0;0;0]); CSetPlayer P_AMP 2;
            CStart 44100 0 0; CSetPlayer P_AMP 4; CSetPlayer P_AMP 3; CGetPlayer P_AMP; CSetPos 10; CSetPos (-1); CInject 64;
            CMute 64 1; CMute 3 1; CMute 3 (-1); CRelease; CPlayFrame] in
  fst (run init h) = [RExact E_STATE; RExact 0; RExact E_STATE; RExact 0; RExact E_INVALID; RExact 0; RExact 3; RExact E_INVALID; RExact E_INVALID;
                      RVoid; RExact E_INVALID; RExact 0; RExact 1; RVoid; RExact E_STATE] /\ all_allowed init h = true.
Proof. vm_compute. split; reflexivity. Qed.
