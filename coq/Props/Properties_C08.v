(* C08 — Built-in unpacking is transparent and byte-exact (RLE90 layer proved; the other codecs by differential). *)
From Coq Require Import ZArith List Lia Bool.
Import ListNotations.
From LX Require Import Model.Rle90 Proofs.Rle90Proofs.
Local Open Scope Z_scope.

(* For every byte string - any length, any content, runs of any length, the marker byte itself anywhere - the RLE90
   decoder of ARC / Spark / ArcFS method 3 gives back exactly what the writer was given. *)
Theorem rle90_decode_encode : forall l, decode (encode l) = l.
Proof. exact decode_encode. Qed.
Print Assumptions rle90_decode_encode.

Theorem rle90_encode_emits_bytes : forall l, Forall (fun b => 0 <= b <= 255) l -> Forall (fun b => 0 <= b <= 255) (encode l).
Proof. exact encode_bytes. Qed.
Print Assumptions rle90_encode_emits_bytes.

(* non-vacuity: markers, a run longer than one code can carry, a run of markers *)
Example c08_nonvacuous :
  let l := [1; 144; 144; 144; 7] ++ repeat 9 600 ++ [144] in
  Nat.ltb (length (encode l)) (length l) = true /\ decode (encode l) = l /\ firstn 6 (encode l) = [1; 144; 0; 144; 3; 7] /\ decode [5; 144; 4; 144; 0; 144; 2] = [5; 5; 5; 5; 144; 144].
Proof. vm_compute. repeat split; reflexivity. Qed.
