(* C08 — Built-in unpacking is transparent and byte-exact (proved: the RLE90 layer of ARC / ArcFS and compress(1) LZW with its bit
   packing, width schedule and CLEAR codes; the other codecs by differential). *)
From Coq Require Import ZArith List Lia Bool.
Import ListNotations.
From LX Require Import Generated.Consts Model.Rle90 Proofs.Rle90Proofs Model.Lzw Proofs.LzwBitsProofs Proofs.LzwCodesProofs Model.Crc Model.Inflate Proofs.InflateCodesProofs Proofs.InflateStreamProofs Proofs.InflateGzipProofs Model.PP20 Proofs.PP20Proofs Model.ArcLzw Proofs.ArcLzwProofs.
Local Open Scope Z_scope.

(* For every byte string - any length, any content, runs of any length, the marker byte itself anywhere - the RLE90
   decoder of ARC / Spark / ArcFS method 3 gives back exactly what the writer was given. *)
Theorem rle90_decode_encode : forall l, Rle90.decode (Rle90.encode l) = l.
Proof. exact Rle90Proofs.decode_encode. Qed.
Print Assumptions rle90_decode_encode.

Theorem rle90_encode_emits_bytes : forall l, Forall (fun b => 0 <= b <= 255) l -> Forall (fun b => 0 <= b <= 255) (Rle90.encode l).
Proof. exact Rle90Proofs.encode_bytes. Qed.
Print Assumptions rle90_encode_emits_bytes.

(* non-vacuity: markers, a run longer than one code can carry, a run of markers *)
Example c08_nonvacuous :
  let l := [1; 144; 144; 144; 7] ++ repeat 9 600 ++ [144] in
  Nat.ltb (length (encode l)) (length l) = true /\ Rle90.decode (Rle90.encode l) = l /\ firstn 6 (encode l) = [1; 144; 0; 144; 3; 7] /\ Rle90.decode [5; 144; 4; 144; 0; 144; 2] = [5; 5; 5; 5; 144; 144].
Proof. vm_compute. repeat split; reflexivity. Qed.

(* ---------------------------------------------------------------- compress (.Z) --------------------------------------- *)

(* For every byte string, every maximum code width 10..16, block mode on or off and every placement of CLEAR codes the writer may
   choose, the transcribed decrunch_compress (header check, bit reader with the width schedule and its group alignment, string
   table with the KwKwK case, CLEAR) gives back exactly the bytes that were packed. *)
Theorem uncompress_compress : forall p clears l, zparams_okb p = true -> bytesb l = true ->
  Z.of_nat (length l) < C_LIBXMP_DEPACK_LIMIT ->        (* the library's unpack ceiling: longer outputs are refused *)
  uncompress (Lzw.compress p clears l) = Some l.
Proof.
  intros p clears l Hp Hl Hlim. apply uncompress_compress_from; [|exact Hp|exact Hl|exact Hlim].
  intros codes Hfit. apply unpack_of_compress_payload; [|exact Hfit].
  unfold zparams_okb in Hp. apply andb_prop in Hp as [H1 H2]. apply Z.leb_le in H1. apply Z.leb_le in H2. lia.
Qed.
Print Assumptions uncompress_compress.

(* the two halves it is made of: the code sequence survives the bit packing, and the table decoder inverts the greedy encoder *)
Theorem lzw_bit_packing_lossless : forall p codes tailz fuel,
  10 <= z_maxbits p <= 16 -> sched_fit p (w_init p) codes = true ->
  Forall (fun b => b = false) tailz -> (length tailz < 8)%nat -> (2 * length codes + 2 <= fuel)%nat ->
  unpack fuel p (w_init p) 0 (pack p (w_init p) 0 codes ++ tailz) = codes.
Proof. exact unpack_pack. Qed.
Print Assumptions lzw_bit_packing_lossless.

Theorem lzw_codes_roundtrip : forall p clears l, zparams_okb p = true -> bytesb l = true ->
  (exists s, dec_codes p (d_init p) (encode_codes p clears l) = Some s /\ rev (d_out s) = l) /\
  sched_fit p (w_init p) (encode_codes p clears l) = true.
Proof. intros. split; [apply dec_enc_codes | apply enc_codes_fit]; assumption. Qed.
Print Assumptions lzw_codes_roundtrip.

(* non-vacuity: a payload that makes the encoder use the KwKwK code and a CLEAR; a corrupt stream is refused *)
Example c08_lzw_nonvacuous :
  let p := {| z_maxbits := 12; z_block := true |} in
  let l := [97; 97; 97; 97; 97; 97; 98; 97; 98; 97; 98; 97] in
  zparams_okb p = true /\ bytesb l = true /\
  encode_codes p [false; false; true] l = [97; 257; 258; 256; 98; 97; 257; 257] /\
  Lzw.compress p [false; false; true] l = [31; 157; 140; 97; 2; 10; 4; 8; 0; 0; 0; 0; 98; 194; 4; 12; 8] /\
  uncompress (Lzw.compress p [false; false; true] l) = Some l /\
  uncompress [31; 157; 140; 97; 6; 10] = None.
Proof. vm_compute. repeat split; reflexivity. Qed.

(* ---------------------------------------------------------------- DEFLATE and the gzip member ------------------------- *)

(* Any sequence of stored blocks (any bytes, up to 65535 each, at any bit position) and fixed-Huffman blocks (any literals and any
   length / distance pairs with 3 <= length <= 258, 1 <= distance <= 32768 reaching back no further than what was produced, copies
   overlapping their own output included), written by the model's writer: the format-level decoder gives back exactly what the
   segments stand for. *)
Theorem inflate_deflate : forall segs, segs_okb segs 0 = true -> inflate (deflate segs) = Some (rev (segs_expand segs [])).
Proof. exact (inflate_deflate_from codes_spec expand_length enc_tokens_length). Qed.
Print Assumptions inflate_deflate.

(* ... and wrapped as a gzip member with any combination of the optional header fields (FEXTRA, FNAME, FCOMMENT, FHCRC), the
   transcribed decrunch_gzip - header walk, inflate of everything but the last 8 bytes, CRC-32 and ISIZE checks - returns the payload *)
Theorem gunzip_gzip_member : forall name comment extra hcrc segs,
  segs_okb segs 0 = true ->
  (forall n, name = Some n -> Forall (fun c => 1 <= c <= 255) n) -> (forall c, comment = Some c -> Forall (fun x => 1 <= x <= 255) c) ->
  (forall e, extra = Some e -> Z.of_nat (length e) < 65536) ->
  Z.of_nat (length (segs_expand segs [])) < 2 ^ 32 -> segs_expand segs [] <> [] ->
  gunzip (gzip_member name comment extra hcrc segs) = Some (rev (segs_expand segs [])).
Proof. exact (gunzip_gzip_member_from inflate_deflate). Qed.
Print Assumptions gunzip_gzip_member.

(* the writer's tokenizer is sound: its tokens are well-formed and stand for the data, so a Fixed segment of tokenize data carries data *)
Theorem tokenizer_sound : forall fuel data out, bytesb data = true -> (length data <= fuel)%nat ->
  tokens_okb (tokenize fuel data out) (Z.of_nat (length out)) = true /\ expand (tokenize fuel data out) out = rev_append data out.
Proof. exact tokenize_sound. Qed.
Print Assumptions tokenizer_sound.

Example c08_inflate_nonvacuous :
  let data := [97; 98; 99; 97; 98; 99; 97; 98; 99; 97; 98; 99; 120] in
  let ts := tokenize 14 data [] in
  let segs := [Stored [1; 2; 3]; Fixed (tokenize 14 data [3; 2; 1])] in
  ts = [Lit 97; Lit 98; Lit 99; Match 9 3; Lit 120] /\ segs_okb segs 0 = true /\
  rev (segs_expand segs []) = [1; 2; 3] ++ data /\
  inflate (deflate segs) = Some ([1; 2; 3] ++ data) /\
  gunzip (gzip_member (Some [115]) None None true segs) = Some ([1; 2; 3] ++ data) /\
  inflate [3; 0] = Some [] /\ inflate [7; 0] = None.
Proof. vm_compute. repeat split; reflexivity. Qed.

(* ---------------------------------------------------------------- PowerPacker (PP20) ---------------------------------- *)

(* For every efficiency table the format allows and every sequence of well-formed steps (literal runs of any length, matches of
   any length >= 2 reaching back no further than what was emitted, offsets within the width of their length class): the
   transcribed decrunch_pp - header and trailer checks, the backwards bit reader, the literal / match loop writing the output from
   its end - returns exactly what the steps stand for. *)
Theorem pp_unpack_pack : forall eff ss, eff_okb eff = true -> steps_okb eff ss 0 = true ->
  steps_expand ss [] <> [] -> Z.of_nat (length (steps_expand ss [])) < 2 ^ 24 ->
  pp_unpack (pp_pack eff ss) = Some (steps_expand ss []).
Proof. exact PP20Proofs.pp_unpack_pack. Qed.
Print Assumptions pp_unpack_pack.

(* with the model's tokenizer: every non-empty byte string below 16 MiB survives packing and unpacking *)
Theorem pp_roundtrip : forall eff data, eff_okb eff = true -> forallb (fun x => (0 <=? x) && (x <=? 255)) data = true -> data <> [] ->
  Z.of_nat (length data) < 2 ^ 24 -> pp_unpack (pp_pack_data eff data) = Some data.
Proof. exact PP20Proofs.pp_roundtrip. Qed.
Print Assumptions pp_roundtrip.

Example c08_pp_nonvacuous :
  let data := [1; 2; 3; 1; 2; 3; 1; 2; 3; 1; 2; 3; 9] in
  let f := pp_pack_data [9; 10; 12; 13] data in
  eff_okb [9; 10; 12; 13] = true /\ Nat.eqb (length f mod 4) 0 = true /\ firstn 8 f = [80; 80; 50; 48; 9; 10; 12; 13] /\
  pp_unpack f = Some data /\ pp_unpack (firstn 8 f ++ [0; 0; 0; 0] ++ skipn 12 f) = None.
Proof. vm_compute. repeat split; reflexivity. Qed.

(* ---------------------------------------------------------------- the LZW methods of ARC / Spark / ArcFS ------------- *)

(* For every non-empty byte string: the transcribed arc_unpack - codes read eight at a time with the rest of a group dropped when
   the width grows, the table that is never erased, the KwKwK case, the declared output size - gives back what the model's writer
   packed as "squashed" (method 9), as Spark "compressed" at any maximum width 9..16 (method 0xff) and as "crunched" (method 8:
   the streaming RLE90 decoder over the 8 KiB blocks of the LZW output, its state carried across the blocks). *)
Theorem arc_squashed_roundtrip : forall l, bytesb l = true -> l <> [] -> arc_unpack 9 (Z.of_nat (length l)) (pack_squashed l) = Some l.
Proof. exact squashed_roundtrip. Qed.
Print Assumptions arc_squashed_roundtrip.

Theorem arc_compressed_roundtrip : forall maxw l, 9 <= maxw <= 16 -> bytesb l = true -> l <> [] ->
  arc_unpack 127 (Z.of_nat (length l)) (pack_compressed maxw l) = Some l.
Proof. exact compressed_roundtrip. Qed.
Print Assumptions arc_compressed_roundtrip.

Theorem arc_crunched_roundtrip : forall l, bytesb l = true -> l <> [] -> arc_unpack 8 (Z.of_nat (length l)) (pack_crunched Rle90.encode l) = Some l.
Proof. exact crunched_roundtrip. Qed.
Print Assumptions arc_crunched_roundtrip.

Example c08_arc_nonvacuous :
  let l := [97; 97; 97; 97; 97; 97; 98; 144; 144; 144; 144; 144; 99] in
  arc_unpack 9 13 (pack_squashed l) = Some l /\ arc_unpack 8 13 (pack_crunched Rle90.encode l) = Some l /\
  arc_unpack 127 13 (pack_compressed 9 l) = Some l /\ arc_unpack 9 14 (pack_squashed l) = None /\
  arc_unpack 9 12 (pack_squashed l) = Some (firstn 12 l).
Proof. vm_compute. repeat split; reflexivity. Qed.
