(* C08 — Built-in unpacking is transparent and byte-exact (proved: the RLE90 layer of ARC / ArcFS and compress(1) LZW with its bit
   packing, width schedule and CLEAR codes; the other codecs by differential). *)
From Coq Require Import ZArith List Lia Bool.
Import ListNotations.
From LX Require Import Generated.Consts Model.Rle90 Proofs.Rle90Proofs Model.Lzw Proofs.LzwBitsProofs Proofs.LzwCodesProofs.
Local Open Scope Z_scope.

(* For every byte string - any length, any content, runs of any length, the marker byte itself anywhere - the RLE90
   decoder of ARC / Spark / ArcFS method 3 gives back exactly what the writer was given. *)
Theorem rle90_decode_encode : forall l, decode (encode l) = l.
Proof. exact decode_encode. Qed.
Print Assumptions rle90_decode_encode.

Theorem rle90_encode_emits_bytes : forall l, Forall (fun b => 0 <= b <= 255) l -> Forall (fun b => 0 <= b <= 255) (encode l).
Proof. exact encode_bytes. Qed.
Print Assumptions rle90_encode_emits_bytes.

(* non-vacuity: markers, a run longer than one code can carry, a run of markers *)
Example c08_nonvacuous :
  let l := [1; 144; 144; 144; 7] ++ repeat 9 600 ++ [144] in
  Nat.ltb (length (encode l)) (length l) = true /\ decode (encode l) = l /\ firstn 6 (encode l) = [1; 144; 0; 144; 3; 7] /\ decode [5; 144; 4; 144; 0; 144; 2] = [5; 5; 5; 5; 144; 144].
Proof. vm_compute. repeat split; reflexivity. Qed.

(* ---------------------------------------------------------------- compress (.Z) --------------------------------------- *)

(* For every byte string, every maximum code width 10..16, block mode on or off and every placement of CLEAR codes the writer may
   choose, the transcribed decrunch_compress (header check, bit reader with the width schedule and its group alignment, string
   table with the KwKwK case, CLEAR) gives back exactly the bytes that were packed. *)
Theorem uncompress_compress : forall p clears l, zparams_okb p = true -> bytesb l = true ->
  Z.of_nat (length l) < C_LIBXMP_DEPACK_LIMIT ->        (* the library's unpack ceiling: longer outputs are refused *)
  uncompress (Lzw.compress p clears l) = Some l.
Proof.
  intros p clears l Hp Hl Hlim. apply uncompress_compress_from; [|exact Hp|exact Hl|exact Hlim].
  intros codes Hfit. apply unpack_of_compress_payload; [|exact Hfit].
  unfold zparams_okb in Hp. apply andb_prop in Hp as [H1 H2]. apply Z.leb_le in H1. apply Z.leb_le in H2. lia.
Qed.
Print Assumptions uncompress_compress.

(* the two halves it is made of: the code sequence survives the bit packing, and the table decoder inverts the greedy encoder *)
Theorem lzw_bit_packing_lossless : forall p codes tailz fuel,
  10 <= z_maxbits p <= 16 -> sched_fit p (w_init p) codes = true ->
  Forall (fun b => b = false) tailz -> (length tailz < 8)%nat -> (2 * length codes + 2 <= fuel)%nat ->
  unpack fuel p (w_init p) 0 (pack p (w_init p) 0 codes ++ tailz) = codes.
Proof. exact unpack_pack. Qed.
Print Assumptions lzw_bit_packing_lossless.

Theorem lzw_codes_roundtrip : forall p clears l, zparams_okb p = true -> bytesb l = true ->
  (exists s, dec_codes p (d_init p) (encode_codes p clears l) = Some s /\ rev (d_out s) = l) /\
  sched_fit p (w_init p) (encode_codes p clears l) = true.
Proof. intros. split; [apply dec_enc_codes | apply enc_codes_fit]; assumption. Qed.
Print Assumptions lzw_codes_roundtrip.

(* non-vacuity: a payload that makes the encoder use the KwKwK code and a CLEAR; a corrupt stream is refused *)
Example c08_lzw_nonvacuous :
  let p := {| z_maxbits := 12; z_block := true |} in
  let l := [97; 97; 97; 97; 97; 97; 98; 97; 98; 97; 98; 97] in
  zparams_okb p = true /\ bytesb l = true /\
  encode_codes p [false; false; true] l = [97; 257; 258; 256; 98; 97; 257; 257] /\
  Lzw.compress p [false; false; true] l = [31; 157; 140; 97; 2; 10; 4; 8; 0; 0; 0; 0; 98; 194; 4; 12; 8] /\
  uncompress (Lzw.compress p [false; false; true] l) = Some l /\
  uncompress [31; 157; 140; 97; 6; 10] = None.
Proof. vm_compute. repeat split; reflexivity. Qed.
