(* C10 — Loading untrusted modules stays inside the module's directory and process. *)
From Coq Require Import ZArith List Lia Bool.
Import ListNotations.
From LX Require Import Model.PathSan Proofs.PathSanProofs Model.Inventory Generated.Syscalls.
Local Open Scope Z_scope.

(* Names taken from file contents: if the sanitiser accepts, the result is a non-empty string of printable
   ASCII, a character-wise image of a prefix of the input ('\' and one ':' become '/'), contains no "..",
   is not ".", and does not start with '/' or '\' - so it cannot name anything outside the directory it is
   appended to. *)
Theorem sanitised_relative_confined : forall name n out,
  copy_name_for_fopen name n = Some out ->
  length out = Nat.min (Z.to_nat (n - 1)) (length name) /\
  Forall printable out /\
  Forall2 img (firstn (length out) name) out /\
  has_dotdot out = false /\
  (2 < n -> out <> [] /\ out <> [DOT]) /\
  (forall c t, out = c :: t -> c <> SLASH /\ c <> BSLASH).
Proof. exact copy_name_confined. Qed.
Print Assumptions sanitised_relative_confined.

(* The companion actually opened is dir/e or dirname++e where e is an entry of that directory's own
   listing; a requested name containing '/' can only match an entry containing '/' (there is none: POSIX readdir). *)
Theorem find_instrument_confined : forall ipath dirname ins p,
  find_instrument_file ipath dirname ins = Some p ->
  ((exists dir listing e, ipath = Some (dir, Some listing) /\ In e listing /\ caseeq e ins = true /\ p = dir ++ [SLASH] ++ e) \/
   (exists dir listing e, dirname = Some (dir, Some listing) /\ In e listing /\ caseeq e ins = true /\ p = dir ++ e)) /\
  (forall e, caseeq e ins = true -> In SLASH ins -> In SLASH e).
Proof. intros. split; [apply PathSanProofs.find_instrument_confined; assumption | intros e; apply caseeq_slash]. Qed.
Print Assumptions find_instrument_confined.

(* Companions named after the module's own file name live in the module's directory: basename has no '/'. *)
Theorem own_name_companions_confined : forall p, p = get_dirname p ++ get_basename p /\ ~ In SLASH (get_basename p).
Proof. exact basename_spec. Qed.
Print Assumptions own_name_companions_confined.

(* Another program is started only for path entry points, only on an MO3 / Rar signature no built-in
   depacker claims, and then with one of two fixed argument vectors holding the path as a single element. *)
Theorem exec_only_helpers : forall e hs hdr internal,
  entry_may_exec e hs hdr internal = true ->
  (e = LoadPath \/ e = TestPath) /\ 100 <= hs /\ internal = false /\
  ((is_mo3 hdr = true /\ decrunch_decision hs hdr internal true = External argv_mo3) \/
   (is_rar hdr = true /\ decrunch_decision hs hdr internal true = External argv_rar)).
Proof. exact PathSanProofs.exec_only_helpers. Qed.
Print Assumptions exec_only_helpers.

(* The compiled library's file/process-facing surface is exactly the one the model reasons about:
   only hio.o references fopen, only depacker.o fork/execvp, and every loader that opens files named by
   file contents also references the sanitiser and the listing lookup. *)
Theorem surface_is_the_modelled_one :
  subset syscall_inventory allowed_surface = true /\ subset allowed_surface syscall_inventory = true /\
  openers_sanitise syscall_inventory = true.
Proof. vm_compute. repeat split. Qed.
Print Assumptions surface_is_the_modelled_one.

Example c10_nonvacuous :
  copy_name_for_fopen [83;84;45;48;49;58;107;105;99;107] 32 = Some [83;84;45;48;49;47;107;105;99;107] /\   (* "ST-01:kick" -> "ST-01/kick" *)
  copy_name_for_fopen [46;46;47;120] 32 = None /\ copy_name_for_fopen [47;101;116;99] 32 = None /\
  copy_name_for_fopen [97;58;92;120] 32 = None /\ copy_name_for_fopen [97;92;98] 3 = Some [97;47] /\
  entry_may_exec LoadPath 200 [82;97;114;33] false = true /\ entry_may_exec LoadMem 200 [82;97;114;33] false = false /\
  entry_may_exec TestFile 200 [77;79;51] false = false.
Proof. vm_compute. repeat split. Qed.
