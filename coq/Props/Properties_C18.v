(* C18 — The reported duration is exact for modules with linear flow. *)
From Coq Require Import ZArith QArith List Lia Bool.
Import ListNotations.
From LX Require Import Base.ListAux Model.Linear Proofs.LinearProofs.
Local Open Scope Z_scope.

(* For every module over the vocabulary - any order list, pattern count and lengths, any speeds, tempos, delays
   and jump targets (inside or outside the order list), any restart order - the duration the scan reports for the
   main sequence equals, exactly (in Q, before the final (int) truncation), the time the player renders from the
   start until the loop counter first increments; and the start time recorded for each order equals the time the
   player has rendered when it first enters that order.  The loop counter increments exactly when the player enters
   an order (row 0) it has already played: the order at which the scan stopped. *)
Theorem scan_matches_player_linear : forall m r,
  scan m = Some r ->
  exists q, play m r = Some q /\ (q_time_to_loop q == r_duration r)%Q /\ Forall2 TR (r_order_times r) (q_order_times q) /\
            q_entered q = r_visited r.
Proof.
  intros m r H. unfold scan in H. unfold play.
  assert (HR : Rel m {| s_speed := lm_spd m; s_bpm := lm_bpm m; s_fc := 0; s_rc := 0; s_time := 0 |} {| p_speed := lm_spd m; p_bpm := lm_bpm m; p_time := 0 |}).
  { unfold Rel, potential; cbn [s_speed s_bpm s_fc s_rc s_time p_speed p_bpm p_time]. split; [reflexivity|]. split; [reflexivity|].
    replace (0 + 0 * lm_spd m) with 0 by ring. rewrite ticks_0. ring. }
  destruct (orders_sim m _ _ _ _ _ r H eq_refl _ [] HR (Forall2_nil _)) as (q & Hq & Ht & Ho & He).
  exists q. auto.
Qed.
Print Assumptions scan_matches_player_linear.

(* last clause: the player's loop counter increments on entering order r_end_ord at row 0; the orders it entered
   before that are pairwise distinct (no row was played twice - orders are always entered at row 0 and left for good
   in this vocabulary) and the order at which it increments is one of them (a row already played is being re-entered) *)
Theorem loop_counter_exactly_on_reentry : forall m r q,
  scan m = Some r -> play m r = Some q ->
  NoDup (q_entered q) /\ In (r_end_ord r) (q_entered q).
Proof.
  intros m r q Hs Hp. destruct (scan_matches_player_linear m r Hs) as (q' & Hq' & _ & _ & He).
  rewrite Hp in Hq'. injection Hq' as <-. rewrite He.
  unfold scan in Hs. eapply scan_orders_stop; [exact Hs|constructor].
Qed.
Print Assumptions loop_counter_exactly_on_reentry.

(* the scan terminates within |orders| + 1 iterations of its outer loop on every well-formed module
   (the C02 statement for this fragment of scan_module) *)
Theorem scan_terminates : forall m, lmod_okb m = true -> scan m <> None.
Proof.
  intros m H. unfold lmod_okb in H. repeat (apply andb_prop in H; destruct H as [H ?]).
  repeat match goal with HX : (_ <=? _) = true |- _ => apply Z.leb_le in HX | HX : (_ <? _) = true |- _ => apply Z.ltb_lt in HX end.
  unfold scan. apply scan_orders_terminates.
  - lia.
  - lia.
  - constructor.
  - intros y [].
  - lia.
  - cbn [length]. unfold len, zlen in *. lia.
Qed.
Print Assumptions scan_terminates.

(* per row: the scan's lazy bookkeeping advances its potential by exactly what the player renders for the row *)
Theorem row_accounting : forall m s p e, Rel m s p -> Rel m (scan_row m s e) (play_row m p e).
Proof. exact row_sim. Qed.
Print Assumptions row_accounting.

(* non-vacuity: speed, tempo, delay and a jump beyond the end of a 3-order list, restart at order 1 *)
Example c18_nonvacuous :
  let m := {| lm_orders := [0; 1; 0]; lm_pats := [[FxSpeed 3; FxNone; FxDelay 2; FxTempo 150]; [FxNone; FxJump 9; FxNone]];
              lm_spd := 6; lm_bpm := 125; lm_rst := 1; lm_tf := 2500 # 1 |} in
  lmod_okb m = true /\
  match scan m with
  | Some r => r_end_ord r = 1 /\ r_visited r = [1; 0] /\ Qeq (r_duration r) (450 # 1) /\
              match play m r with Some q => Qeq (q_time_to_loop q) (450 # 1) | None => False end
  | None => False
  end.
Proof. vm_compute. repeat split; reflexivity. Qed.
