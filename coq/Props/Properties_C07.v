(* C07 — All four I/O entry points see the same module.
   Theorems about the stream layer every loader reads through; whether a loader's result depends on the
   characterised divergences is decided by the end-to-end comparison of the correspondence run. *)
From Coq Require Import ZArith List Lia Bool.
Import ListNotations.
From LX Require Import Base.ListAux Model.Hio Proofs.HioProofs.
Local Open Scope Z_scope.

(* FILE and memory back-ends return identical values, byte blocks, positions, eof and error flags on every
   operation sequence over every byte string that stays inside the fragment: no signed byte read at the end
   of the data, no seek beyond the end, no eof query at the end before a read has failed. *)
Theorem backends_agree_on_fragment : forall data ops,
  all_safe data init_state ops = true -> run data FILEB init_state ops = run data MEMB init_state ops.
Proof. intros data ops H. apply run_sim; [apply R_init|exact H]. Qed.
Print Assumptions backends_agree_on_fragment.

(* A callback stream whose callbacks behave like fread/fseek/ftell is the FILE back-end, result for result,
   except for hio_read8s at the end of data, zero-size block reads and a failing seek while at eof. *)
Theorem cb_refines_file : forall data ops,
  all_safe_cb data init_state ops = true -> run data CBB init_state ops = run data FILEB init_state ops.
Proof.
  intros data ops H. apply run_cb_eq_file; [|exact H]. unfold InvF, init_state; cbn [pos eofi]. split; [lia|discriminate].
Qed.
Print Assumptions cb_refines_file.

(* The three stream back-ends (path and FILE entry points share the FILE back-end) return the same observations on every
   operation sequence inside both fragments: composition of the two theorems above. *)
Theorem all_backends_agree : forall data ops,
  all_safe data init_state ops = true -> all_safe_cb data init_state ops = true ->
  run data CBB init_state ops = run data FILEB init_state ops /\ run data FILEB init_state ops = run data MEMB init_state ops.
Proof. intros data ops H1 H2. split; [exact (cb_refines_file data ops H2)|exact (backends_agree_on_fragment data ops H1)]. Qed.
Print Assumptions all_backends_agree.

(* each way of leaving the fragment is a real divergence of the back-ends (witnesses on the one-byte string [7]) *)
Theorem divergence_characterised :
  run [7] FILEB init_state [Read8; Read8s] <> run [7] MEMB init_state [Read8; Read8s] /\
  run [7] FILEB init_state [Seek 5 0; Tell] <> run [7] MEMB init_state [Seek 5 0; Tell] /\
  run [7] FILEB init_state [Read8; Eof] <> run [7] MEMB init_state [Read8; Eof] /\
  run [7] CBB init_state [Read8; Read8s] = run [7] MEMB init_state [Read8; Read8s].
Proof. exact divergences. Qed.
Print Assumptions divergence_characterised.

Example c07_nonvacuous :
  let ops := [ReadN 2; ReadBuf 3 2; Seek (-1) 2; Read8; Read8; Eof; Error; Seek 0 0; Read8s; Tell] in
  all_safe [1;2;3;200;5] init_state ops = true /\ all_safe_cb [1;2;3;200;5] init_state ops = true /\
  map oval (run [1;2;3;200;5] MEMB init_state ops) = [0; 1; 0; 5; 255; 1; -1; 0; 1; 1].
Proof. vm_compute. repeat split. Qed.
