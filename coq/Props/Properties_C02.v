(* C02 — Work and memory are bounded by real input size, never by declared sizes (scan part). *)
From Coq Require Import ZArith List Lia Bool.
Import ListNotations.
From LX Require Import Base.ListAux Model.ScanSkel Proofs.ScanSkelProofs Model.Linear Proofs.LinearProofs Model.MixLoop Proofs.MixLoopProofs Generated.Consts Model.Lzw Model.PP20 Model.Inflate Model.ItSex Model.ArcLzw
  Proofs.LzwFuelProofs Proofs.PP20FuelProofs Proofs.InflateFuelProofs Proofs.MiscFuelProofs.
Local Open Scope Z_scope.

(* Whatever the patterns contain - any jumps, breaks, loops, delays, self-referential or not: the skeleton makes no
   assumption about which row follows which - one call of scan_module performs at most 514 * 255 * R + 514 iterations
   of its loops, R being the number of (order, row) cells of the module: a bound in the size of the loaded data only. *)
Theorem scan_work_bounded : forall evs st st',
  inv st -> run st evs = Some st' -> count_main evs <= bound (Z.of_nat (length (cnt st))).
Proof.
  intros evs st st' I H. eapply Z.le_trans; [eapply run_bounded; eauto|]. apply mu_le_bound. exact I.
Qed.
Print Assumptions scan_work_bounded.

(* a logged trace accepted by the replay checker is such a run *)
Theorem accepted_trace_is_a_run : forall evs st, replay st evs = true -> exists st', run st (map fst evs) = Some st'.
Proof. exact replay_is_run. Qed.
Print Assumptions accepted_trace_is_a_run.

(* the executable scan of the linear-flow vocabulary (C18) terminates within |orders| + 1 outer iterations *)
Theorem linear_scan_terminates : forall m, lmod_okb m = true -> scan m <> None.
Proof.
  intros m H. unfold lmod_okb in H. repeat (apply andb_prop in H; destruct H as [H ?]).
  repeat match goal with HX : (_ <=? _) = true |- _ => apply Z.leb_le in HX | HX : (_ <? _) = true |- _ => apply Z.ltb_lt in HX end.
  unfold scan. apply scan_orders_terminates; try lia.
  - constructor.
  - intros y [].
  - cbn [length]. unfold len, zlen in *. lia.
Qed.
Print Assumptions linear_scan_terminates.

(* the mixer's per-voice inner loop makes at most 2 * ticksize iterations per tick, whatever the pitch, the loop
   geometry and the rounding of positions do (hook H5 counts the real iterations against maxvoc * 2 * ticksize) *)
Theorem mixer_inner_loop_bounded : forall ticksize evs s', 1 <= ticksize ->
  mrun (mstart ticksize) evs = Some s' -> Z.of_nat (length evs) <= 2 * ticksize.
Proof.
  intros T evs s' HT H. pose proof (mrun_bounded evs (mstart T) s' H) as B. cbn [mstart m_size m_usmp m_out] in B.
  assert (Z.of_nat (length evs) <= T + Z.max 0 T) by (apply B; [lia|intros _; lia]). lia.
Qed.
Print Assumptions mixer_inner_loop_bounded.

(* compress (.Z): whatever the stream declares or encodes (LZW strings reach 64 KiB per 16-bit code), an accepted stream has
   unpacked to fewer bytes than the library's fixed unpack ceiling; the differential of C08 and the over-ceiling bomb of this
   check tie the clause to decrunch_compress *)
Theorem compress_output_below_ceiling : forall file out, uncompress file = Some out -> Z.of_nat (length out) < C_LIBXMP_DEPACK_LIMIT.
Proof.
  intros file out H. unfold uncompress in H.
  destruct file as [|m1 [|m2 [|h payload]]]; try discriminate.
  destruct (negb _); [discriminate|]. destruct (_ || _); [discriminate|].
  destruct (dec_codes _ _ _) as [s|]; [|discriminate]. cbv zeta in H.
  destruct (Z.leb_spec C_LIBXMP_DEPACK_LIMIT (Z.of_nat (length (rev_append (d_out s) [])))) as [Hge|Hlt]; [discriminate|].
  injection H as <-. exact Hlt.
Qed.
Print Assumptions compress_output_below_ceiling.

(* ---------------------------------------------------------------- depackers: work bounded by the input, for EVERY input ---------
   Each transcribed decoder is a loop with an explicit iteration budget that the model sets from the size of its input.  The
   *_f functions below (defined next to the proofs) are the model's decoders with that budget as a parameter; each is the model's
   own function at the model's own budget (by computation), and the theorems say that for every byte string whatsoever -
   corrupt, truncated, hostile - a larger budget never changes the result: the loop has ended, one way or the other, within a
   number of iterations that is linear in the number of input bytes.  (The round-trip theorems of C08 say this for writer output
   only.)  The differential legs of C08 / C19 tie the models - budgets included: an exhausted budget is a reported error - to
   decrunch_compress, decrunch_pp, tinfl_decompress, itsex_decompress8/16 and arc_unpack. *)

(* compress (.Z): at most 2 * bits + 2 iterations of the code reader (a width change consumes nothing, but never twice in a row),
   and every string walk of the table ends within 65600 steps in every table a code sequence can build *)
Theorem compress_decoder_work_bounded : forall file f_unpack f_str,
  (model_unpack_fuel file <= f_unpack)%nat -> (str_fuel <= f_str)%nat -> uncompress_f f_unpack f_str file = Lzw.uncompress file.
Proof. exact uncompress_fuel. Qed.
Print Assumptions compress_decoder_work_bounded.
Theorem compress_decoder_budget_linear : forall file, (model_unpack_fuel file <= 16 * length file + 2)%nat.
Proof. exact model_unpack_fuel_linear. Qed.
Print Assumptions compress_decoder_budget_linear.

(* PowerPacker: one bit at least per iteration *)
Theorem pp_decoder_work_bounded : forall file fuel, (8 * length file < fuel)%nat -> pp_unpack_f fuel file = pp_unpack file.
Proof. exact pp_unpack_fuel. Qed.
Print Assumptions pp_decoder_work_bounded.

(* DEFLATE: every block consumes at least three bits, every symbol at least one, every code-length repeat appends at least one length *)
Theorem inflate_work_bounded : forall data fuel, (8 * length data < fuel)%nat -> inflate_f fuel data = Inflate.inflate data.
Proof. exact inflate_fuel. Qed.
Print Assumptions inflate_work_bounded.

(* IT compressed samples: a block of blen bytes asked for d samples ends within d + 8 * blen + 8 iterations (a width change
   consumes at least one bit; the reader may run past the end once), and len + 1 blocks are enough for len samples *)
Theorem itsex_block_work_bounded : forall wide it215 d left temp temp2 bits0 body acc fuel,
  (d + 8 * length body + 8 <= fuel)%nat ->
  block_loop fuel wide it215 d left temp temp2 {| b_bits := bits0; b_num := 0; b_rest := body |} acc =
  block_loop (d + 8 * length body + 8) wide it215 d left temp temp2 {| b_bits := bits0; b_num := 0; b_rest := body |} acc.
Proof. exact block_loop_fuel_enough. Qed.
Print Assumptions itsex_block_work_bounded.
Theorem itsex_work_bounded : forall wide it215 len src nblocks extra, (len + 1 <= nblocks)%nat ->
  decompress_f extra nblocks wide it215 len src = ItSex.decompress (len + 1) wide it215 len src.
Proof. exact decompress_fuel_enough. Qed.
Print Assumptions itsex_work_bounded.

(* ARC / Spark LZW (crunched, squashed, compressed): one code per iteration, eight codes per group of at least 72 bits *)
Theorem arc_lzw_work_bounded : forall fuel method dest_len src, (8 * length src + 16 <= fuel)%nat ->
  arc_unpack_f fuel method dest_len src = arc_unpack method dest_len src.
Proof. exact arc_unpack_fuel. Qed.
Print Assumptions arc_lzw_work_bounded.

(* the *_f functions are the model's decoders (by computation), and a budget that is too small does change the result: non-vacuity *)
Example c02_depackers_nonvacuous :
  (forall file, Lzw.uncompress file = uncompress_f (model_unpack_fuel file) str_fuel file) /\
  (forall data, Inflate.inflate data = inflate_f (length (Lzw.bits_of_bytes data) + 1) data) /\
  Lzw.uncompress [31; 157; 144; 65; 0; 1] = Some [65; 128] /\ uncompress_f 1 1 [31; 157; 144; 65; 0; 1] = Some [65].
Proof. split; [exact uncompress_f_model|]. split; [exact inflate_f_model|]. vm_compute. split; reflexivity. Qed.

(* non-vacuity: three cells; a loop over cell 1 until its counter wraps is a legal trace and is within the bound *)
Example c02_nonvacuous :
  let st := {| cnt := [0; 249; 0]; osl := 0; stopped := false |} in
  let evs := [EOuter; ERow 0; ERow 1; EDelay 1 3; ERow 1; ERow 1; EOuter; EOuter; ERow 2] in
  inv st /\
  match run st evs with Some st' => stopped st' = false /\ cnt st' = [1; 255; 1] | None => False end /\
  run st (evs ++ [ERow 1; EOuter]) = None /\ count_main evs = 8 /\ bound 3 = 393724.
Proof.
  cbv zeta. split; [split; [repeat constructor; lia|cbn; lia]|]. vm_compute. repeat split; reflexivity.
Qed.
