(* C02 — Work and memory are bounded by real input size, never by declared sizes (scan part). *)
From Coq Require Import ZArith List Lia Bool.
Import ListNotations.
From LX Require Import Base.ListAux Model.ScanSkel Proofs.ScanSkelProofs Model.Linear Proofs.LinearProofs Model.MixLoop Proofs.MixLoopProofs Generated.Consts Model.Lzw.
Local Open Scope Z_scope.

(* Whatever the patterns contain - any jumps, breaks, loops, delays, self-referential or not: the skeleton makes no
   assumption about which row follows which - one call of scan_module performs at most 514 * 255 * R + 514 iterations
   of its loops, R being the number of (order, row) cells of the module: a bound in the size of the loaded data only. *)
Theorem scan_work_bounded : forall evs st st',
  inv st -> run st evs = Some st' -> count_main evs <= bound (Z.of_nat (length (cnt st))).
Proof.
  intros evs st st' I H. eapply Z.le_trans; [eapply run_bounded; eauto|]. apply mu_le_bound. exact I.
Qed.
Print Assumptions scan_work_bounded.

(* a logged trace accepted by the replay checker is such a run *)
Theorem accepted_trace_is_a_run : forall evs st, replay st evs = true -> exists st', run st (map fst evs) = Some st'.
Proof. exact replay_is_run. Qed.
Print Assumptions accepted_trace_is_a_run.

(* the executable scan of the linear-flow vocabulary (C18) terminates within |orders| + 1 outer iterations *)
Theorem linear_scan_terminates : forall m, lmod_okb m = true -> scan m <> None.
Proof.
  intros m H. unfold lmod_okb in H. repeat (apply andb_prop in H; destruct H as [H ?]).
  repeat match goal with HX : (_ <=? _) = true |- _ => apply Z.leb_le in HX | HX : (_ <? _) = true |- _ => apply Z.ltb_lt in HX end.
  unfold scan. apply scan_orders_terminates; try lia.
  - constructor.
  - intros y [].
  - cbn [length]. unfold len, zlen in *. lia.
Qed.
Print Assumptions linear_scan_terminates.

(* the mixer's per-voice inner loop makes at most 2 * ticksize iterations per tick, whatever the pitch, the loop
   geometry and the rounding of positions do (hook H5 counts the real iterations against maxvoc * 2 * ticksize) *)
Theorem mixer_inner_loop_bounded : forall ticksize evs s', 1 <= ticksize ->
  mrun (mstart ticksize) evs = Some s' -> Z.of_nat (length evs) <= 2 * ticksize.
Proof.
  intros T evs s' HT H. pose proof (mrun_bounded evs (mstart T) s' H) as B. cbn [mstart m_size m_usmp m_out] in B.
  assert (Z.of_nat (length evs) <= T + Z.max 0 T) by (apply B; [lia|intros _; lia]). lia.
Qed.
Print Assumptions mixer_inner_loop_bounded.

(* compress (.Z): whatever the stream declares or encodes (LZW strings reach 64 KiB per 16-bit code), an accepted stream has
   unpacked to fewer bytes than the library's fixed unpack ceiling; the differential of C08 and the over-ceiling bomb of this
   check tie the clause to decrunch_compress *)
Theorem compress_output_below_ceiling : forall file out, uncompress file = Some out -> Z.of_nat (length out) < C_LIBXMP_DEPACK_LIMIT.
Proof.
  intros file out H. unfold uncompress in H.
  destruct file as [|m1 [|m2 [|h payload]]]; try discriminate.
  destruct (negb _); [discriminate|]. destruct (_ || _); [discriminate|].
  destruct (dec_codes _ _ _) as [s|]; [|discriminate]. cbv zeta in H.
  destruct (Z.leb_spec C_LIBXMP_DEPACK_LIMIT (Z.of_nat (length (rev_append (d_out s) [])))) as [Hge|Hlt]; [discriminate|].
  injection H as <-. exact Hlt.
Qed.
Print Assumptions compress_output_below_ceiling.

(* non-vacuity: three cells; a loop over cell 1 until its counter wraps is a legal trace and is within the bound *)
Example c02_nonvacuous :
  let st := {| cnt := [0; 249; 0]; osl := 0; stopped := false |} in
  let evs := [EOuter; ERow 0; ERow 1; EDelay 1 3; ERow 1; ERow 1; EOuter; EOuter; ERow 2] in
  inv st /\
  match run st evs with Some st' => stopped st' = false /\ cnt st' = [1; 255; 1] | None => False end /\
  run st (evs ++ [ERow 1; EOuter]) = None /\ count_main evs = 8 /\ bound 3 = 393724.
Proof.
  cbv zeta. split; [split; [repeat constructor; lia|cbn; lia]|]. vm_compute. repeat split; reflexivity.
Qed.
