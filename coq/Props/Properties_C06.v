(* C06 — Rendering is deterministic and contexts are isolated from each other. *)
From Coq Require Import List Arith Bool String Lia.
Import ListNotations.
From LX Require Import Generated.Globals Model.Isolation Proofs.IsolationProofs.

(* For any state machine of a context (any state, call and output types, any step function - in particular one
   that is a pure function of the context's own state and the call), any number of contexts, any initial states and
   ANY global order of the calls: the outputs a context produces are exactly those it produces when its own calls
   are made alone, and so is its final state. *)
Theorem contexts_are_isolated : forall (S C O : Type) (step : S -> C -> S * O) sched st i,
  outs_of O i (run_sys S C O step st sched) = run_one S C O step (st i) (calls_of C i sched) /\
  state_sys S C O step st sched i = state_one S C O step (st i) (calls_of C i sched).
Proof. intros. split; [apply isolation|apply state_isolation]. Qed.
Print Assumptions contexts_are_isolated.

(* Shared tables that are built on first use by an idempotent builder do not couple the contexts either:
   every call, in every interleaving, sees the same built tables. *)
Theorem lazy_shared_tables_do_not_couple : forall (S C O G : Type) (ginit : G -> G) (gstep : G -> S -> C -> S * O),
  (forall g, ginit (ginit g) = ginit g) ->
  forall sched g st i,
  outs_of O i (run_sys_g S C O G ginit gstep g st sched) = run_one S C O (gstep (ginit g)) (st i) (calls_of C i sched).
Proof. intros S C O G ginit gstep H. apply lazy_tables_do_not_couple. exact H. Qed.
Print Assumptions lazy_shared_tables_do_not_couple.

(* The premise about the code: the writable objects found in the library compiled from the current tree
   (regenerated on every run) are all on the list of lazily built constant tables and verification hooks. *)
Theorem shared_state_is_the_modelled_one : subset_of writable_globals allowed_globals = true.
Proof. vm_compute. reflexivity. Qed.
Print Assumptions shared_state_is_the_modelled_one.

(* non-vacuity: two counters with different step sizes, interleaved *)
Example c06_nonvacuous :
  let step := fun (s : nat) (c : nat) => (s + c, s * 10 + c) in
  let st := fun i => if Nat.eqb i 0 then 5 else 7 in
  outs_of nat 1 (run_sys nat nat nat step st [(0, 1); (1, 2); (0, 3); (1, 4); (2, 9)]) = [72; 94] /\
  run_one nat nat nat step 7 [2; 4] = [72; 94] /\ List.length (interleavings 10 [1; 2] [3; 4]) = 6.
Proof. vm_compute. repeat split; reflexivity. Qed.
