(* C13 — Output configuration changes only the encoding of the audio, not the music.
   Theorems about the model of the downmix stage and the tick-size computation;
   the timeline half of the property is decided by the correspondence run (see DESIGN §5 C13). *)
From Coq Require Import ZArith Bool.
From LX Require Import Base.IntWrap Model.Downmix Proofs.DownmixProofs Model.FrameInfo.
Local Open Scope Z_scope.

(* unsigned output is signed output plus the mid-scale offset *)
Theorem unsigned_is_signed_plus_offset : forall amp x,
  down16 amp 32768 x = (down16 amp 0 x + 32768) mod 65536 /\
  down8 amp 128 x = (down8 amp 0 x + 128) mod 256 /\
  down16 amp 32768 x = down16s amp 0 x + 32768 /\
  down8 amp 128 x = down8s amp 0 x + 128.
Proof.
  intros amp x. repeat split.
  - exact (unsigned16 amp x).
  - exact (unsigned8 amp x).
  - rewrite signed16_exact. exact (unsigned16_exact amp x).
  - rewrite signed8_exact. exact (unsigned8_exact amp x).
Qed.
Print Assumptions unsigned_is_signed_plus_offset.

(* 8-bit output is the high byte of 16-bit output, for every accumulator value and both signednesses *)
Theorem eight_bit_is_high_byte : forall amp x uns, 0 <= amp <= 3 ->
  clip8 amp x = Z.shiftr (clip16 amp x) 8 /\
  down8 amp (if uns : bool then 128 else 0) x = (down16 amp (if uns then 32768 else 0) x) / 256.
Proof. intros amp x uns H. split; [exact (hi_byte amp x H) | exact (hi_byte_encoded amp x uns H)]. Qed.
Print Assumptions eight_bit_is_high_byte.

(* each amplification step is an exact doubling of the pre-clipping value *)
Theorem amp_step_doubles : forall amp x, 0 <= amp < 3 ->
  (pre16 (amp + 1) x = pre16 amp (2 * x) /\ 2 * pre16 amp x <= pre16 (amp + 1) x <= 2 * pre16 amp x + 1) /\
  (pre8 (amp + 1) x = pre8 amp (2 * x) /\ 2 * pre8 amp x <= pre8 (amp + 1) x <= 2 * pre8 amp x + 1).
Proof. intros amp x H. split; [exact (amp_step16 amp x H) | exact (amp_step8 amp x H)]. Qed.
Print Assumptions amp_step_doubles.

Theorem downmix_in_range : forall amp offs x,
  (0 <= down16 amp offs x < 65536 /\ 0 <= down8 amp offs x < 256) /\
  (0 <= amp <= 3 -> 9 <= DOWNMIX_SHIFT - amp <= 12 /\ 17 <= DOWNMIX_SHIFT + 8 - amp <= 20).
Proof. intros amp offs x. split; [exact (downmix_range amp offs x) | exact (shift_amounts amp)]. Qed.
Print Assumptions downmix_in_range.

(* the tick size depends on (rate, time factor, tempo) only, lies in 8..XMP_MAX_FRAMESIZE/2,
   equals floor(rate*time/1000) inside that window; the buffer is a whole number of frames *)
Theorem ticksize_and_buffer : forall freq tfn tfd bpm mono eightbit,
  let t := prepare_ticksize freq tfn tfd bpm in
  8 <= t <= XMP_MAX_FRAMESIZE / 2 /\
  (0 < freq -> 0 < bpm -> 0 < tfn -> 0 < tfd ->
     8 <= (freq * tfn) / (tfd * bpm * 1000) <= XMP_MAX_FRAMESIZE / 2 -> t = (freq * tfn) / (tfd * bpm * 1000)) /\
  buffer_size mono eightbit t = t * ((if mono then 1 else 2) * (if eightbit then 1 else 2)) /\
  out_units mono t = (if mono then t else 2 * t) /\ out_units mono t <= XMP_MAX_FRAMESIZE.
Proof.
  intros freq tfn tfd bpm mono eightbit t.
  pose proof (ticksize_bounds freq tfn tfd bpm) as B.
  split; [exact B|]. split; [exact (ticksize_exact freq tfn tfd bpm)|].
  split; [exact (buffer_size_whole_frames mono eightbit t)|].
  exact (out_units_bound mono t B).
Qed.
Print Assumptions ticksize_and_buffer.

(* what a frame must report about the music - position, pattern, row, speed, tempo, frame time, voices, sequence - is the same
   requirement under every sampling rate, channel layout and sample width: of the C16 predicate only the buffer size looks at
   the output format (two configurations with the same time factor) *)
Theorem timeline_requirements_ignore_output_format : forall m c c' f, oc_tfn c = oc_tfn c' -> oc_tfd c = oc_tfd c' ->
  frametime_okb c f = frametime_okb c' f /\
  (frame_info_okb m c f = true -> buffer_okb c' f = true -> frame_info_okb m c' f = true).
Proof.
  intros m c c' f Hn Hd.
  assert (Hft : frametime_okb c f = frametime_okb c' f) by (unfold frametime_okb; rewrite Hn, Hd; reflexivity).
  split; [exact Hft|]. unfold frame_info_okb. intros H Hb.
  apply andb_prop in H as [H Hs]. apply andb_prop in H as [H Hv]. apply andb_prop in H as [H Hf]. apply andb_prop in H as [H _].
  apply andb_prop in H as [Hp Ht]. rewrite Hp, Ht, Hb, <- Hft, Hf, Hv, Hs. reflexivity.
Qed.
Print Assumptions timeline_requirements_ignore_output_format.

(* non-vacuity: concrete accumulator values on both sides of the clamp *)
Example c13_nonvacuous :
  down16 0 0 (4096 * 1234) = 1234 /\ down16 0 32768 (- 4096 * 1234) = 32768 - 1234 /\
  down8 3 128 (2^30) = 255 /\ down8 0 0 (-(2^20)*5) = 251 /\
  prepare_ticksize 44100 2500 1 125 = 882 /\ prepare_ticksize 48000 30000 1 32 = 12292.
Proof. vm_compute. repeat split. Qed.
