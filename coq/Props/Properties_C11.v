(* C11 — Test and load agree, and testing has no side effects. *)
From Coq Require Import ZArith List Lia Bool.
Import ListNotations.
From LX Require Import Model.Probe Proofs.ProbeProofs.
Local Open Scope Z_scope.

(* For every outcome of opening / unpacking and every table of format test and load outcomes: the test entry point
   returns 0 exactly when the load entry point gets past recognition (0 or a load error), -XMP_ERROR_FORMAT exactly
   when load does, and otherwise the same depack / system error. *)
Theorem test_agrees_with_load : forall p tbl,
  fst (fst (test_module p tbl)) = expected_test (load_module p tbl) /\
  (fst (fst (test_module p tbl)) = 0 <-> (load_module p tbl = 0 \/ load_module p tbl = E_LOAD)) /\
  (fst (fst (test_module p tbl)) = E_FORMAT <-> load_module p tbl = E_FORMAT).
Proof. intros p tbl. split; [apply test_load_agree|]. split; [apply test_zero_iff|apply test_format_iff]. Qed.
Print Assumptions test_agrees_with_load.

(* on failure both strings are empty *)
Theorem failed_test_leaves_empty_strings : forall p tbl,
  fst (fst (test_module p tbl)) <> 0 -> snd (fst (test_module p tbl)) = [] /\ snd (test_module p tbl) = [].
Proof. exact test_failure_empty. Qed.
Print Assumptions failed_test_leaves_empty_strings.

(* the title a test function produces (libxmp_copy_adjust of n raw bytes) is printable ASCII, at most n characters,
   and has no trailing space; the gate's libxmp_adjust_string leaves it unchanged *)
Theorem test_title_well_formed : forall r n,
  Forall (fun c => printable c = true) (copy_adjust r n) /\ (length (copy_adjust r n) <= n)%nat /\
  (copy_adjust r n <> [] -> last (copy_adjust r n) 0 <> 32) /\ adjust_string (copy_adjust r n) = copy_adjust r n.
Proof.
  intros r n. split; [apply copy_adjust_printable|]. split; [apply copy_adjust_length|]. split; [|apply adjust_of_copy_adjust].
  unfold copy_adjust. apply strip_last.
Qed.
Print Assumptions test_title_well_formed.

(* whichever of the two sanitisers a loader applies to the same raw title bytes, the test title and the module title
   are the same up to the replacement character: for every byte string and every field width *)
Theorem titles_match_up_to_replacement : forall r n, titles_agree (copy_adjust r n) (adjust_string (firstn n r)) = true.
Proof.
  intros r n. unfold titles_agree. rewrite canon_copy_vs_adjust. destruct (list_eq_dec Z.eq_dec _ _); [reflexivity|congruence].
Qed.
Print Assumptions titles_match_up_to_replacement.

(* non-vacuity: a title with a control character, a high byte, an embedded NUL and trailing spaces *)
Example c11_nonvacuous :
  copy_adjust [65; 1; 66; 200; 32; 32; 0; 67] 8 = [65; 46; 66; 46] /\
  adjust_string [65; 1; 66; 200; 32; 32; 0; 67] = [65; 32; 66] /\
  titles_agree [65; 46; 66; 46] [65; 32; 66] = true /\ titles_agree [65; 66] [65; 67] = false /\
  test_module PreOk [{| f_test := false; f_title := []; f_name := [1]; f_load_ok := true |}; {| f_test := true; f_title := [65]; f_name := [2]; f_load_ok := false |}] = (0, [65], [2]) /\
  load_module PreOk [{| f_test := false; f_title := []; f_name := [1]; f_load_ok := true |}; {| f_test := true; f_title := [65]; f_name := [2]; f_load_ok := false |}] = E_LOAD.
Proof. vm_compute. repeat split; reflexivity. Qed.
