(* C14: which kernel of mix_all.c is which instance of Model/MixKernel.v.  Generated/MixTables.v holds, regenerated from the
   source on every run, every MIXER(name) { ... } body as its list of statements; here each of the 40 kernel descriptions is
   turned into the name mixer.c selects it by and into the statements that the description stands for.  Properties_C14 proves
   (by evaluation) that the source contains exactly these 40 bodies under these names - so a kernel that starts to use another
   macro, another argument or another order of statements no longer matches.  What each macro computes is tied by the
   differential of checks/C14.py against the compiled kernels. *)
From Coq Require Import ZArith List Bool String.
Import ListNotations.
From LX Require Import Generated.MixTables Model.MixKernel.
Local Open Scope string_scope.

Definition iname (i : interp) : string := match i with Nearest => "nearest" | Linear => "linear" | Spline => "spline" end.
Definition kname (c : kcfg) : string :=
  (if k_sout c then "stereoout_" else "monoout_") ++ (if k_sin c then "stereo_" else "mono_") ++ (if k_wide c then "16bit_" else "8bit_")
  ++ iname (k_interp c) ++ (if k_filter c then "_filter" else "").

Definition upper_interp (i : interp) : string := match i with Nearest => "NEAREST" | Linear => "LINEAR" | Spline => "SPLINE" end.

Definition loop_body (c : kcfg) (ac : bool) : list string :=
  let f := upper_interp (k_interp c) ++ (if k_wide c then "_16BIT" else "_8BIT") in
  let acs := if ac then "_AC" else "" in
  [f ++ "(smpl,0)"] ++ (if k_sin c then [f ++ "(smpr,1)"] else []) ++
  (if k_filter c then [if k_sin c then "FILTER_STEREO(smpl,smpr)" else "FILTER_MONO(smpl)"] else []) ++
  [match k_sout c, k_sin c with
   | false, false => "MIX_MONO" ++ acs ++ "(smpl)"
   | false, true => "MIX_MONO_AVG" ++ acs ++ "(smpl,smpr)"
   | true, false => "MIX_STEREO" ++ acs ++ "(smpl,smpl)"
   | true, true => "MIX_STEREO" ++ acs ++ "(smpl,smpr)"
   end; "UPDATE_POS()"].

Definition expected_body (c : kcfg) : list string :=
  let ty := if k_wide c then "(int16)" else "(int8)" in
  let ms := if k_sin c then "STEREO" else "MONO" in
  match k_interp c with
  | Nearest => ["VAR_" ++ ms ++ ty; "NEAREST_ROUND()"; "LOOP{"] ++ loop_body c false ++ ["}"]
  | _ =>
    ["VAR_" ++ upper_interp (k_interp c) ++ "_" ++ ms ++ ty] ++
    (if k_filter c then ["VAR_FILTER_" ++ ms] else []) ++
    [if k_sout c then "VAR_STEREOOUT" else "VAR_MONOOUT"; "LOOP_AC{"] ++ loop_body c true ++ ["}"; "LOOP{"] ++ loop_body c false ++ ["}"] ++
    (if k_filter c then ["SAVE_FILTER_" ++ ms ++ "()"] else [])
  end.

Definition bools := [false; true].
Definition all_cfgs : list kcfg :=
  flat_map (fun i : interp * bool => flat_map (fun flt => flat_map (fun so => flat_map (fun si => map (fun w =>
    {| k_interp := fst i; k_wide := w; k_sin := si; k_sout := so; k_filter := flt |}) bools) bools) bools)
    (if snd i then bools else [false])) [(Nearest, false); (Linear, true); (Spline, true)].

Fixpoint slist_eqb (a b : list string) : bool :=
  match a, b with [], [] => true | x :: ta, y :: tb => String.eqb x y && slist_eqb ta tb | _, _ => false end.

Definition described (c : kcfg) : bool :=
  existsb (fun e => String.eqb (fst e) (kname c) && slist_eqb (snd e) (expected_body c)) mix_kernels.

Definition source_matchesb : bool :=
  forallb described all_cfgs && Nat.eqb (List.length mix_kernels) (List.length all_cfgs) &&
  forallb (fun e => existsb (fun c => String.eqb (fst e) (kname c)) all_cfgs) mix_kernels.
