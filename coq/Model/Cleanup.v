(* C04: the resource protocol of the eight load / test entry points and xmp_start_player (src/load.c, src/player.c):
   which resources each stage acquires, where each stage can fail, and what every error path releases.
   A stage's failure is an input (`faults`): a stream that will not open, an archive that will not unpack, an
   allocation failing inside that stage, data no loader recognises, a loader or the sanity gate giving up, the scan
   failing, the player's allocations failing.  Resources are counted, not named. *)
From Coq Require Import ZArith List Bool Lia.
Import ListNotations.
Local Open Scope Z_scope.

Inductive entry := LoadPath | LoadMem | LoadFile | LoadCb | TestPath | TestMem | TestFile | TestCb | Start.
Inductive cstate := Unloaded | Loaded | Playing.

Record faults := { f_empty : bool (* a memory buffer of size <= 0 *); f_open : bool; f_depack : bool; f_names : bool; f_format : bool; f_loader : bool;
                   f_prepare : bool (* libxmp_prepare_scan runs out of memory *); f_scan : bool; f_player : bool }.

Record world := {
  st : cstate;
  mod_live : bool;        (* the context owns module tables (patterns, instruments, samples, scan data, names) *)
  player_live : bool;     (* the context owns player / mixer / voice buffers *)
  handles : Z;            (* streams the library opened and has not closed *)
  temps : Z;              (* temporary files the library created and has not removed *)
  caller_file_open : bool;(* the FILE the caller passed in is still open *)
  cb_closes : Z           (* times the caller's close callback was invoked *)
}.

Definition E_INVALID := -7. Definition E_SYSTEM := -6. Definition E_DEPACK := -5. Definition E_FORMAT := -3. Definition E_LOAD := -4. Definition E_INTERNAL := -2. Definition E_STATE := -8.

Definition upd (w : world) (s : cstate) (m p : bool) (h t : Z) (c : Z) : world :=
  {| st := s; mod_live := m; player_live := p; handles := h; temps := t; caller_file_open := caller_file_open w; cb_closes := c |}.

(* xmp_release_module: ends the player if playing, frees the module *)
Definition release (w : world) : world := upd w Unloaded false false (handles w) (temps w) (cb_closes w).

(* closing the library's handle: a callback stream invokes the caller's close callback; a caller's FILE is not closed *)
Definition close_handle (e : entry) (w : world) : world :=
  upd w (st w) (mod_live w) (player_live w) (handles w - 1) (temps w) (match e with LoadCb | TestCb => cb_closes w + 1 | _ => cb_closes w end).

Definition unpacks (e : entry) : bool := match e with LoadPath | TestPath | TestFile => true | _ => false end.
Definition is_load (e : entry) : bool := match e with LoadPath | LoadMem | LoadFile | LoadCb => true | _ => false end.

(* load_module: recognition, loader, sanity gate, scan; every failure goes through xmp_release_module *)
Definition load_core (f : faults) (w : world) : Z * world :=
  if f_format f then (E_FORMAT, release w)
  else if f_loader f then (E_LOAD, release w)          (* whatever the loader had attached to the context is freed with it *)
  else if f_prepare f then (E_SYSTEM, release w)
  else if f_scan f then (E_LOAD, release w)
  else (0, upd w Loaded true false (handles w) (temps w) (cb_closes w)).

Definition run (e : entry) (f : faults) (w : world) : Z * world :=
  match e with
  | Start =>
      match st w with
      | Unloaded => (E_STATE, w)
      | _ =>
          let w1 := upd w Loaded (mod_live w) false (handles w) (temps w) (cb_closes w) in   (* a playing context is ended first *)
          if f_player f then (E_INTERNAL, w1) else (0, upd w1 Playing (mod_live w) true (handles w) (temps w) (cb_closes w))
      end
  | _ =>
      if (match e with LoadMem | TestMem => f_empty f | _ => false end) then (E_INVALID, w)
      else if f_open f then (E_SYSTEM, w)
      else
        let w1 := upd w (st w) (mod_live w) (player_live w) (handles w + 1) (temps w) (cb_closes w) in
        if unpacks e && f_depack f then (E_DEPACK, close_handle e w1)                 (* err: hio_close + unlink_temp_file *)
        else
          let w2 := if unpacks e then upd w1 (st w1) (mod_live w1) (player_live w1) (handles w1) (temps w1 + 1) (cb_closes w1) else w1 in
          let finish (r : Z) (w' : world) := (r, close_handle e (upd w' (st w') (mod_live w') (player_live w') (handles w') (if unpacks e then temps w' - 1 else temps w') (cb_closes w'))) in
          if is_load e then
            let w3 := match st w2 with Unloaded => w2 | _ => release w2 end in          (* the previous module goes once the stream is ready *)
            match e with
            | LoadPath => if f_names f then finish E_SYSTEM w3 else let '(r, w4) := load_core f w3 in finish r w4
            | _ => let '(r, w4) := load_core f w3 in finish r w4
            end
          else finish (if f_format f then E_FORMAT else 0) w2                          (* test_module touches no context *)
  end.

(* contexts as the API leaves them *)
Definition consistent (w : world) : bool :=
  match st w with
  | Unloaded => negb (mod_live w) && negb (player_live w)
  | Loaded => mod_live w && negb (player_live w)
  | Playing => mod_live w && player_live w
  end && (handles w =? 0) && (temps w =? 0).

Definition bools := [true; false].
Definition all_faults : list faults :=
  flat_map (fun z => flat_map (fun y => flat_map (fun a => flat_map (fun b => flat_map (fun c => flat_map (fun d => flat_map (fun e => flat_map (fun g => map (fun h =>
    {| f_empty := z; f_open := a; f_depack := b; f_names := c; f_format := d; f_loader := e; f_prepare := y; f_scan := g; f_player := h |}) bools) bools) bools) bools) bools) bools) bools) bools) bools.
Definition all_states : list (cstate * bool * bool) := [(Unloaded, false, false); (Loaded, true, false); (Playing, true, true)].
Definition all_entries : list entry := [LoadPath; LoadMem; LoadFile; LoadCb; TestPath; TestMem; TestFile; TestCb; Start].

Definition state_eqb (a b : cstate) : bool := match a, b with Unloaded, Unloaded | Loaded, Loaded | Playing, Playing => true | _, _ => false end.

(* the property, per call *)
Definition atomic_okb (e : entry) (f : faults) (w : world) : bool :=
  let '(r, w') := run e f w in
  consistent w' &&
  Bool.eqb (caller_file_open w') (caller_file_open w) &&
  (cb_closes w' - cb_closes w =? match e with LoadCb | TestCb => if f_open f then 0 else 1 | _ => 0 end) &&
  (if r =? 0 then
     match e with Start => state_eqb (st w') Playing | _ => if is_load e then state_eqb (st w') Loaded else state_eqb (st w') (st w) end
   else
     (r <? 0) &&
     match e with
     | Start => state_eqb (st w') (match st w with Playing => Loaded | s => s end)
     | _ => if is_load e then state_eqb (st w') (st w) || state_eqb (st w') Unloaded else state_eqb (st w') (st w)
     end).

Definition mk_world (s : cstate * bool * bool) (fo : bool) : world :=
  {| st := fst (fst s); mod_live := snd (fst s); player_live := snd s; handles := 0; temps := 0; caller_file_open := fo; cb_closes := 0 |}.

(* outcomes the model allows for an entry point from a given earlier state: (return code, state afterwards) *)
Definition outcomes (e : entry) (s : cstate * bool * bool) : list (Z * cstate) :=
  map (fun f => let '(r, w') := run e f (mk_world s true) in (r, st w')) all_faults.
