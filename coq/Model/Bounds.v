(* C01 (modelled part): the table accesses of the consumers of a loaded module - the player's row fetch
   (read_row / EVENT), the scan's row fetch, xmp_get_frame_info, next_order's restart, the sequence table, envelope
   point lookups and the mixer's loop window - as a checked-array access plan over the module dump of Model/ModuleWf.v.
   `consumers_okb m` says: every one of these accesses, for every order, row, channel, instrument and sample, hits an
   existing table entry. *)
From Coq Require Import ZArith List Lia Bool.
Import ListNotations.
From LX Require Import Base.ListAux Generated.Consts Model.ModuleWf.
Local Open Scope Z_scope.

Definition zrange (n : Z) : list Z := map Z.of_nat (seq 0 (Z.to_nat n)).

(* the pattern at order o: mod->xxp[mod->xxo[o]], its rows, and for every channel mod->xxt[index[chn]] *)
Definition fetch_okb (m : mdump) (o : Z) : bool :=
  match zget (d_xxo m) o with
  | None => false
  | Some p =>
      if p <? d_pat m then
        match zget (d_pats m) p with
        | Some (Some pt) =>
            (1 <=? p_rows pt) &&
            forallb (fun c => match zget (p_index pt) c with
                              | Some t => match zget (d_trks m) t with Some (Some r) => 1 <=? r | _ => false end
                              | None => false
                              end) (zrange (d_chn m))
        | _ => false
        end
      else true            (* not a pattern: the player and the scan skip such orders *)
  end.

(* envelope point lookups stay inside the 32-point arrays *)
Definition env_access_okb (e : env) : bool :=
  if has (e_flg e) C_XMP_ENVELOPE_ON then
    (e_npt e <=? C_XMP_MAX_ENV_POINTS) &&
    (if has (e_flg e) C_XMP_ENVELOPE_LOOP then (0 <=? e_lps e) && (e_lps e <? C_XMP_MAX_ENV_POINTS) && (0 <=? e_lpe e) && (e_lpe e <? C_XMP_MAX_ENV_POINTS) else true) &&
    (if has (e_flg e) C_XMP_ENVELOPE_SUS then (0 <=? e_sus e) && (e_sus e <? C_XMP_MAX_ENV_POINTS) && (0 <=? e_sue e) && (e_sue e <? C_XMP_MAX_ENV_POINTS) else true)
  else true.

(* the mixer's loop window lies inside the sample (the guard frames around it are C20's theorem) *)
Definition sample_access_okb (s : sample) : bool :=
  if sm_data s then (0 <=? sm_lps s) && (sm_lpe s <=? sm_len s) &&
                    (if has (sm_flg s) C_XMP_SAMPLE_SLOOP then (0 <=? sm_sus s) && (sm_sue s <=? sm_len s) else true)
  else true.

Definition consumers_okb (m : mdump) : bool :=
  forallb (fetch_okb m) (zrange (d_len m)) &&
  ((d_len m =? 0) || match zget (d_xxo m) (d_rst m) with Some _ => true | None => false end) &&      (* next_order: mod->xxo[mod->rst] *)
  forallb (fun s => (d_len m =? 0) || match zget (d_xxo m) (fst s) with Some _ => true | None => false end) (d_seqs m) &&
  forallb (fun i => env_access_okb (i_aei i) && env_access_okb (i_pei i) && env_access_okb (i_fei i)) (d_inss m) &&
  forallb sample_access_okb (d_smps m) &&
  (d_chn m <=? C_XMP_MAX_CHANNELS) && (d_len m <=? C_XMP_MAX_MOD_LENGTH).
