(* Model of the public API's state machine, argument checks and parameter store
   (src/control.c, src/load.c entry points, src/player.c start/end/play, src/smix.c).
   What loading, starting and the external WAV loader do is supplied by an oracle
   (the outcome observed on the implementation); everything the functions themselves decide -
   state guards, range checks, which table is indexed with what, which values are stored and
   read back - is modelled.  Arrays are accessed through checked functions: MemErr marks a call
   that would index outside its table. *)
From Coq Require Import ZArith List Lia Bool.
Import ListNotations.
From LX Require Import Base.ListAux Generated.Consts.
Local Open Scope Z_scope.

Definition UNLOADED := C_XMP_STATE_UNLOADED.  Definition LOADED := C_XMP_STATE_LOADED.  Definition PLAYING := C_XMP_STATE_PLAYING.
Definition E_INTERNAL := - C_XMP_ERROR_INTERNAL.  Definition E_SYSTEM := - C_XMP_ERROR_SYSTEM.
Definition E_INVALID := - C_XMP_ERROR_INVALID.    Definition E_STATE := - C_XMP_ERROR_STATE.
Definition MAXCH := C_XMP_MAX_CHANNELS.

(* xmp_set_player / xmp_get_player parameters (include/xmp.h) *)
Definition P_AMP := 0. Definition P_MIX := 1. Definition P_INTERP := 2. Definition P_DSP := 3. Definition P_FLAGS := 4.
Definition P_CFLAGS := 5. Definition P_SMPCTL := 6. Definition P_VOLUME := 7. Definition P_STATE := 8. Definition P_SMIX_VOLUME := 9.
Definition P_DEFPAN := 10. Definition P_MODE := 11. Definition P_MIXER_TYPE := 12. Definition P_VOICES := 13.

Record shape := { sh_chn : Z; sh_len : Z; sh_ins : Z }.

Record ctx := {
  state : Z;
  shp : shape;                       (* meaningful when state >= LOADED *)
  amp : Z; mix : Z; interp : Z; dsp : Z;          (* mixer_data; reset by every xmp_start_player *)
  volume : Z; smix_volume : Z;                    (* reset by every xmp_start_player *)
  pflags : Z; smpctl : Z; defpan : Z; numvoc : Z; (* persistent *)
  cflags : Z; mode : Z;                           (* per load *)
  mute : list Z; cvol : list Z;                   (* channel_mute[64], channel_vol[64]; set by xmp_start_player *)
  modmute : list Z;                               (* XMP_CHANNEL_MUTE flags of the loaded module's channels *)
  smix_on : bool; smix_chn : Z; smix_ins : Z      (* smix tables allocated; reserved channels; sample slots *)
}.

Definition init : ctx :=
  {| state := UNLOADED; shp := {| sh_chn := 0; sh_len := 0; sh_ins := 0 |};
     amp := 0; mix := 0; interp := 0; dsp := 0; volume := 0; smix_volume := 0;
     pflags := 0; smpctl := 0; defpan := 100; numvoc := 128; cflags := 0; mode := 0;
     mute := repeat 0 64; cvol := repeat 0 64; modmute := []; smix_on := false; smix_chn := 0; smix_ins := 0 |}.

Inductive ret := RExact (v : Z) | RNonNeg | RFrame (* 0 or -XMP_END *) | RVoid | MemErr.

Inductive load_outcome :=
| LEarly (code : Z)            (* failed before the previous module was released: state unchanged *)
| LLate (code : Z)             (* failed after the release: context left unloaded *)
| LOk (s : shape) (cfl md : Z) (mm : list Z).

Inductive call :=
| CLoad (o : load_outcome) | CRelease
| CStart (rate format : Z) (errcode : Z)       (* errcode: 0 = the allocations succeeded *)
| CEnd | CPlayFrame | CPlayBuffer (null : bool) | CGetFrameInfo | CGetModuleInfo | CScan
| CNext | CPrev | CSetPos (p : Z) | CSetRow (r cur_rows : Z) | CStop | CRestart | CSeek (t : Z)
| CMute (c s : Z) | CVol (c v : Z) | CSetPlayer (parm v : Z) | CGetPlayer (parm : Z) | CInject (chn : Z)
| CTempoFactor (cls : Z)                       (* 0 accepted, 1 non-positive/NaN, 2 refused: tick too long *)
| CStartSmix (chn smp : Z) (ok : bool) | CEndSmix
| CSmixPlayIns (ins note vol chn : Z) | CSmixPlaySmp (ins note vol chn : Z) | CSmixPan (chn pan : Z)
| CSmixLoad (num outcome : Z) | CSmixRelease (num : Z) | CSetInsPath.

(* ---- field updates *)
Definition set_state (c : ctx) (s : Z) : ctx :=
  {| state := s; shp := shp c; amp := amp c; mix := mix c; interp := interp c; dsp := dsp c; volume := volume c; smix_volume := smix_volume c;
     pflags := pflags c; smpctl := smpctl c; defpan := defpan c; numvoc := numvoc c; cflags := cflags c; mode := mode c;
     mute := mute c; cvol := cvol c; modmute := modmute c; smix_on := smix_on c; smix_chn := smix_chn c; smix_ins := smix_ins c |}.

Definition range (lo hi v : Z) : bool := (lo <=? v) && (v <=? hi).

(* xmp_end_player as part of other calls *)
Definition end_player (c : ctx) : ctx := if state c <? PLAYING then c else set_state c LOADED.
(* xmp_release_module *)
Definition release (c : ctx) : ctx := set_state (end_player c) UNLOADED.

Fixpoint start_mutes (mm : list Z) (old : list Z) (i chn : Z) (n : nat) : list Z :=
  match n with
  | O => []
  | S n' => (if (i <? chn) && negb (nth (Z.to_nat i) mm 0 =? 0) then 1 else 0) :: start_mutes mm old (i + 1) chn n'
  end.

Definition lget (l : list Z) (i : Z) : option Z := zget l i.
Definition lset (l : list Z) (i v : Z) : list Z := upd l (Z.to_nat i) v.

Definition step (c : ctx) (k : call) : ctx * ret :=
  match k with
  | CLoad (LEarly code) => (c, RExact code)
  | CLoad (LLate code) => (release c, RExact code)
  | CLoad (LOk s cfl md mm) =>
      let c := release c in
      ({| state := LOADED; shp := s; amp := amp c; mix := mix c; interp := interp c; dsp := dsp c; volume := volume c; smix_volume := smix_volume c;
          pflags := pflags c; smpctl := smpctl c; defpan := defpan c; numvoc := numvoc c; cflags := cfl; mode := md;
          mute := mute c; cvol := cvol c; modmute := mm; smix_on := smix_on c; smix_chn := smix_chn c; smix_ins := smix_ins c |}, RExact 0)
  | CRelease => (release c, RVoid)
  | CStart rate format errcode =>
      if (rate <? C_XMP_MIN_SRATE) || (C_XMP_MAX_SRATE <? rate) then (c, RExact E_INVALID)
      else if state c <? LOADED then (c, RExact E_STATE)
      else if MAXCH <? sh_chn (shp c) + smix_chn c then (c, RExact E_INVALID)
      else
        let c := end_player c in
        (* mixer_on and the player defaults are applied before the allocations that may fail *)
        let c' := {| state := (if errcode =? 0 then PLAYING else LOADED); shp := shp c; amp := 1; mix := 100; interp := 1; dsp := 1;
                     volume := 100; smix_volume := 100; pflags := pflags c; smpctl := smpctl c; defpan := defpan c; numvoc := numvoc c;
                     cflags := cflags c; mode := mode c;
                     mute := start_mutes (modmute c) (mute c) 0 (sh_chn (shp c)) 64; cvol := repeat 100 64; modmute := modmute c;
                     smix_on := smix_on c; smix_chn := smix_chn c; smix_ins := smix_ins c |} in
        (c', RExact errcode)
  | CEnd => (end_player c, RVoid)
  | CPlayFrame => if state c <? PLAYING then (c, RExact E_STATE) else (c, RFrame)
  | CPlayBuffer null => if null then (c, RExact 0) else if state c <? PLAYING then (c, RExact E_STATE) else (c, RFrame)
  | CGetFrameInfo | CGetModuleInfo | CScan => (c, RVoid)
  | CNext | CPrev => if state c <? PLAYING then (c, RExact E_STATE) else (c, RNonNeg)
  | CSetPos p =>
      if state c <? PLAYING then (c, RExact E_STATE)
      else if (p <? 0) || (sh_len (shp c) <=? p) then (c, RExact E_INVALID) else (c, RNonNeg)
  | CSetRow r cur_rows =>
      if state c <? PLAYING then (c, RExact E_STATE)
      else if (cur_rows <? 0) || (r <? 0) || (cur_rows <=? r) then (c, RExact E_INVALID) else (c, RExact r)
  | CStop | CRestart => (c, RVoid)
  | CSeek t => if state c <? PLAYING then (c, RExact E_STATE) else (c, RNonNeg)
  | CMute ch s =>
      if state c <? PLAYING then (c, RExact E_STATE)
      else if (ch <? 0) || (MAXCH <=? ch) then (c, RExact E_INVALID)
      else match lget (mute c) ch with
           | None => (c, MemErr)
           | Some old =>
               let new := if 2 <=? s then (if old =? 0 then 1 else 0) else if 0 <=? s then s else old in
               ({| state := state c; shp := shp c; amp := amp c; mix := mix c; interp := interp c; dsp := dsp c; volume := volume c; smix_volume := smix_volume c;
                   pflags := pflags c; smpctl := smpctl c; defpan := defpan c; numvoc := numvoc c; cflags := cflags c; mode := mode c;
                   mute := lset (mute c) ch new; cvol := cvol c; modmute := modmute c; smix_on := smix_on c; smix_chn := smix_chn c; smix_ins := smix_ins c |}, RExact old)
           end
  | CVol ch v =>
      if state c <? PLAYING then (c, RExact E_STATE)
      else if (ch <? 0) || (MAXCH <=? ch) then (c, RExact E_INVALID)
      else match lget (cvol c) ch with
           | None => (c, MemErr)
           | Some old =>
               let new := if range 0 100 v then v else old in
               ({| state := state c; shp := shp c; amp := amp c; mix := mix c; interp := interp c; dsp := dsp c; volume := volume c; smix_volume := smix_volume c;
                   pflags := pflags c; smpctl := smpctl c; defpan := defpan c; numvoc := numvoc c; cflags := cflags c; mode := mode c;
                   mute := mute c; cvol := lset (cvol c) ch new; modmute := modmute c; smix_on := smix_on c; smix_chn := smix_chn c; smix_ins := smix_ins c |}, RExact old)
           end
  | CSetPlayer parm v =>
      let guard_fail :=
        if (parm =? P_SMPCTL) || (parm =? P_DEFPAN) then LOADED <=? state c
        else if parm =? P_VOICES then PLAYING <=? state c
        else state c <? PLAYING in
      if guard_fail then (c, RExact E_STATE)
      else
        let upd (a mi it ds vo sv pf sm dp nv cf md : Z) :=
          {| state := state c; shp := shp c; amp := a; mix := mi; interp := it; dsp := ds; volume := vo; smix_volume := sv;
             pflags := pf; smpctl := sm; defpan := dp; numvoc := nv; cflags := cf; mode := md;
             mute := mute c; cvol := cvol c; modmute := modmute c; smix_on := smix_on c; smix_chn := smix_chn c; smix_ins := smix_ins c |} in
        let same := (c, RExact E_INVALID) in
        let a := amp c in let mi := mix c in let it := interp c in let ds := dsp c in let vo := volume c in let sv := smix_volume c in
        let pf := pflags c in let sm := smpctl c in let dp := defpan c in let nv := numvoc c in let cf := cflags c in let md := mode c in
        if parm =? P_AMP then (if range 0 3 v then (upd v mi it ds vo sv pf sm dp nv cf md, RExact 0) else same)
        else if parm =? P_MIX then (if range (-100) 100 v then (upd a v it ds vo sv pf sm dp nv cf md, RExact 0) else same)
        else if parm =? P_INTERP then (if range 0 2 v then (upd a mi v ds vo sv pf sm dp nv cf md, RExact 0) else same)
        else if parm =? P_DSP then (upd a mi it v vo sv pf sm dp nv cf md, RExact 0)
        else if parm =? P_FLAGS then (upd a mi it ds vo sv v sm dp nv cf md, RExact 0)
        else if parm =? P_CFLAGS then (upd a mi it ds vo sv pf sm dp nv v md, RExact 0)
        else if parm =? P_SMPCTL then (upd a mi it ds vo sv pf v dp nv cf md, RExact 0)
        else if parm =? P_VOLUME then (if range 0 200 v then (upd a mi it ds v sv pf sm dp nv cf md, RExact 0) else same)
        else if parm =? P_SMIX_VOLUME then (if range 0 200 v then (upd a mi it ds vo v pf sm dp nv cf md, RExact 0) else same)
        else if parm =? P_DEFPAN then (if range 0 100 v then (upd a mi it ds vo sv pf sm v nv cf md, RExact 0) else same)
        else if parm =? P_MODE then (if range 0 10 v then (upd a mi it ds vo sv pf sm dp nv cf v, RExact 0) else same)
        else if parm =? P_VOICES then (upd a mi it ds vo sv pf sm dp v cf md, RExact 0)
        else same
  | CGetPlayer parm =>
      if negb ((parm =? P_SMPCTL) || (parm =? P_DEFPAN) || (parm =? P_STATE)) && (state c <? PLAYING) then (c, RExact E_STATE)
      else
        (c, if parm =? P_AMP then RExact (amp c) else if parm =? P_MIX then RExact (mix c) else if parm =? P_INTERP then RExact (interp c)
            else if parm =? P_DSP then RExact (dsp c) else if parm =? P_FLAGS then RExact (pflags c) else if parm =? P_CFLAGS then RExact (cflags c)
            else if parm =? P_SMPCTL then RExact (smpctl c) else if parm =? P_VOLUME then RExact (volume c)
            else if parm =? P_SMIX_VOLUME then RExact (smix_volume c) else if parm =? P_STATE then RExact (state c)
            else if parm =? P_DEFPAN then RExact (defpan c) else if parm =? P_MODE then RExact (mode c)
            else if parm =? P_MIXER_TYPE then RNonNeg else if parm =? P_VOICES then RExact (numvoc c) else RExact E_INVALID)
  | CInject ch =>
      if state c <? PLAYING then (c, RVoid)
      else if (ch <? 0) || (MAXCH <=? ch) then (c, RVoid)           (* invalid channel: ignored *)
      else (c, RVoid)                                               (* inject_event[ch], ch in 0..63 *)
  | CTempoFactor cls =>
      if state c <? PLAYING then (c, RExact E_STATE) else if cls =? 0 then (c, RExact 0) else (c, RExact (-1))
  | CStartSmix chn smp ok =>
      if LOADED <? state c then (c, RExact E_STATE)
      else if (chn <? 1) || (MAXCH <? chn) || (smp <? 0) then (c, RExact E_INVALID)
      else if ok then
        ({| state := state c; shp := shp c; amp := amp c; mix := mix c; interp := interp c; dsp := dsp c; volume := volume c; smix_volume := smix_volume c;
            pflags := pflags c; smpctl := smpctl c; defpan := defpan c; numvoc := numvoc c; cflags := cflags c; mode := mode c;
            mute := mute c; cvol := cvol c; modmute := modmute c; smix_on := true; smix_chn := chn; smix_ins := smp |}, RExact 0)
      else (c, RExact E_INTERNAL)
  | CEndSmix =>
      ({| state := state c; shp := shp c; amp := amp c; mix := mix c; interp := interp c; dsp := dsp c; volume := volume c; smix_volume := smix_volume c;
          pflags := pflags c; smpctl := smpctl c; defpan := defpan c; numvoc := numvoc c; cflags := cflags c; mode := mode c;
          mute := mute c; cvol := cvol c; modmute := modmute c; smix_on := false; smix_chn := 0; smix_ins := 0 |}, RVoid)
  | CSmixPlayIns ins note vol chn =>
      if state c <? PLAYING then (c, RExact E_STATE)
      else if (smix_chn c <=? chn) || (chn <? 0) || (sh_ins (shp c) <=? ins) || (ins <? 0) then (c, RExact E_INVALID)
      else if MAXCH <=? sh_chn (shp c) + chn then (c, RExact E_INVALID)     (* inject_event[mod->chn + chn] *)
      else (c, RExact 0)
  | CSmixPlaySmp ins note vol chn =>
      if state c <? PLAYING then (c, RExact E_STATE)
      else if (smix_chn c <=? chn) || (chn <? 0) || (smix_ins c <=? ins) || (ins <? 0) then (c, RExact E_INVALID)
      else if MAXCH <=? sh_chn (shp c) + chn then (c, RExact E_INVALID)
      else (c, RExact 0)
  | CSmixPan chn pan =>
      if state c <? PLAYING then (c, RExact E_STATE)
      else if (smix_chn c <=? chn) || (chn <? 0) || (pan <? 0) || (255 <? pan) then (c, RExact E_INVALID)
      else (c, RExact 0)                                                    (* xc_data[mod->chn + chn], chn < smix_chn: inside virt_channels *)
  | CSmixLoad num outcome =>
      if (num <? 0) || (smix_ins c <=? num) then (c, RExact E_INVALID) else (c, RExact outcome)
  | CSmixRelease num =>
      if (num <? 0) || (smix_ins c <=? num) then (c, RExact E_INVALID) else (c, RExact 0)
  | CSetInsPath => (c, RExact 0)
  end.

Fixpoint run (c : ctx) (h : list call) : list ret * ctx :=
  match h with
  | [] => ([], c)
  | k :: t => let '(c', r) := step c k in let '(rs, cf) := run c' t in (r :: rs, cf)
  end.

(* ---- the documented contract, written as a table independent of `step`:
   the least state a call needs, and whether its integer arguments are in range *)
Definition min_state (k : call) : Z :=
  match k with
  | CStart _ _ _ => LOADED
  | CPlayFrame | CPlayBuffer false | CNext | CPrev | CSetPos _ | CSetRow _ _ | CSeek _ | CMute _ _ | CVol _ _
  | CTempoFactor _ | CSmixPlayIns _ _ _ _ | CSmixPlaySmp _ _ _ _ | CSmixPan _ _ => PLAYING
  | CSetPlayer parm _ => if (parm =? P_SMPCTL) || (parm =? P_DEFPAN) || (parm =? P_VOICES) then UNLOADED else PLAYING
  | CGetPlayer parm => if (parm =? P_SMPCTL) || (parm =? P_DEFPAN) || (parm =? P_STATE) then UNLOADED else PLAYING
  | _ => UNLOADED
  end.
Definition max_state (k : call) : Z :=       (* calls that must come before loading / before playing *)
  match k with
  | CSetPlayer parm _ => if (parm =? P_SMPCTL) || (parm =? P_DEFPAN) then UNLOADED else if parm =? P_VOICES then LOADED else PLAYING
  | CStartSmix _ _ _ => LOADED
  | _ => PLAYING
  end.
Definition args_ok (c : ctx) (k : call) : bool :=
  match k with
  | CStart rate _ _ => range C_XMP_MIN_SRATE C_XMP_MAX_SRATE rate && ((state c <? LOADED) || (sh_chn (shp c) + smix_chn c <=? MAXCH))
  | CSetPos p => range 0 (sh_len (shp c) - 1) p
  | CSetRow r rows => (0 <=? r) && (r <? rows)
  | CMute ch _ | CVol ch _ => range 0 (MAXCH - 1) ch
  | CSetPlayer parm v =>
      if parm =? P_AMP then range 0 3 v else if parm =? P_MIX then range (-100) 100 v else if parm =? P_INTERP then range 0 2 v
      else if (parm =? P_VOLUME) || (parm =? P_SMIX_VOLUME) then range 0 200 v else if parm =? P_DEFPAN then range 0 100 v
      else if parm =? P_MODE then range 0 10 v
      else (parm =? P_DSP) || (parm =? P_FLAGS) || (parm =? P_CFLAGS) || (parm =? P_SMPCTL) || (parm =? P_VOICES)
  | CGetPlayer parm => range 0 13 parm
  | CTempoFactor cls => cls =? 0
  | CStartSmix chn smp _ => range 1 MAXCH chn && (0 <=? smp)
  | CSmixPlayIns ins _ _ chn => range 0 (smix_chn c - 1) chn && range 0 (sh_ins (shp c) - 1) ins && (sh_chn (shp c) + chn <? MAXCH)
  | CSmixPlaySmp ins _ _ chn => range 0 (smix_chn c - 1) chn && range 0 (smix_ins c - 1) ins && (sh_chn (shp c) + chn <? MAXCH)
  | CSmixPan chn pan => range 0 (smix_chn c - 1) chn && range 0 255 pan
  | CSmixLoad num _ | CSmixRelease num => range 0 (smix_ins c - 1) num
  | _ => true
  end.
Definition is_void (k : call) : bool :=
  match k with CRelease | CEnd | CGetFrameInfo | CGetModuleInfo | CScan | CStop | CRestart | CInject _ | CEndSmix => true | _ => false end.

(* what the documentation allows as the result of call k in context c *)
Definition spec_allows (c : ctx) (k : call) (r : ret) : bool :=
  if is_void k then match r with RVoid => true | _ => false end
  else
    let bad_state := (state c <? min_state k) || (max_state k <? state c) in
    let bad_args := negb (args_ok c k) in
    match r with
    | MemErr => false
    | RVoid => false
    | RExact v =>
        if bad_state && bad_args then (v =? E_STATE) || (v =? E_INVALID) || (v =? -1)
        else if bad_state then v =? E_STATE
        else if bad_args then (v =? E_INVALID) || (match k with CTempoFactor _ => v =? -1 | _ => false end)
        else match k with
             | CLoad (LOk _ _ _ _) => v =? 0
             | CLoad _ => v <? 0
             | CStart _ _ e => (v =? e) && (v <=? 0)
             | CStartSmix _ _ ok => if ok then v =? 0 else v <? 0
             | CSmixLoad _ o => v =? o
             | CSetRow r _ => v =? r
             | CGetPlayer _ | CMute _ _ | CVol _ _ => true
             | _ => v =? 0
             end
    | RNonNeg | RFrame => negb bad_state && negb bad_args
    end.
