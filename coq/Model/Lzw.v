(* C08: compress(1) ".Z" streams as src/depackers/uncompress.c reads them, and a writer for them.

   The C decoder interleaves three things: (1) a bit reader that takes n_bits-wide codes (least significant bit first) from the
   bytes after the 3-byte header, (2) the width schedule: the width grows from 9 to maxbits as the number of table entries grows,
   and whenever the width changes or a CLEAR code is read the reader skips to the next multiple of 8 codes counted from the last
   such point (posbits rounding, uncompress.c:148-150 and 172-174; the refill logic at resetbuf keeps whole groups, so positions
   stay aligned), (3) the LZW string table (prefix code, suffix byte) with the "KwKwK" case and the CLEAR code of block mode,
   which resets free_ent to 256 without resetting oldcode (so the next code creates a junk entry in slot 256).

   The schedule of (2) depends only on how many codes were read and which of them were CLEAR, not on the table contents, so the
   model is written as  uncompress = decode_codes . unpack . bits  (for a corrupt stream both the C and decode_codes stop with an
   error at the same code; what unpack does after that point is irrelevant).  The writer is  pack . encode_codes. *)
From Coq Require Import ZArith List Lia Bool FMapPositive.
Import ListNotations.
From LX Require Import Generated.Consts.
Local Open Scope Z_scope.

Record zparams := { z_maxbits : Z; z_block : bool }.
Definition maxmax (p : zparams) : Z := 2 ^ z_maxbits p.

(* ---------------------------------------------------------------- bits ------------------------------------------------ *)
Fixpoint bits_of_z (n : nat) (x : Z) : list bool :=
  match n with O => [] | S k => Z.odd x :: bits_of_z k (x / 2) end.
Fixpoint z_of_bits (l : list bool) : Z :=
  match l with [] => 0 | b :: t => (if b then 1 else 0) + 2 * z_of_bits t end.
Definition bits_of_bytes (l : list Z) : list bool := concat (map (bits_of_z 8) l).
Fixpoint bytes_of_bits (fuel : nat) (l : list bool) : list Z :=
  match fuel with O => [] | S f =>
  match l with
  | [] => []
  | _ => z_of_bits (firstn 8 l) :: bytes_of_bits f (skipn 8 l)
  end end.

(* ---------------------------------------------------------------- the width schedule ----------------------------------- *)
Record wst := { w_nbits : Z; w_maxcode : Z; w_free : Z; w_first : bool }.
Definition w_init (p : zparams) : wst :=
  {| w_nbits := 9; w_maxcode := 511; w_free := if z_block p then 257 else 256; w_first := true |}.
(* bits to skip so that `used` becomes a multiple of 8 * nbits *)
Definition pad_bits (nbits : Z) (used : Z) : nat := Z.to_nat ((8 * nbits - used mod (8 * nbits)) mod (8 * nbits)).
Definition w_bump (p : zparams) (w : wst) : wst :=
  let nb := w_nbits w + 1 in
  {| w_nbits := nb; w_maxcode := if nb =? z_maxbits p then maxmax p else 2 ^ nb - 1; w_free := w_free w; w_first := w_first w |}.
(* the schedule after a code has been taken *)
Definition w_after (p : zparams) (w : wst) (code : Z) : wst :=
  if w_first w then {| w_nbits := w_nbits w; w_maxcode := w_maxcode w; w_free := w_free w; w_first := false |}
  else if z_block p && (code =? 256) then {| w_nbits := 9; w_maxcode := 511; w_free := 256; w_first := false |}
  else {| w_nbits := w_nbits w; w_maxcode := w_maxcode w; w_free := if w_free w <? maxmax p then w_free w + 1 else w_free w; w_first := false |}.
Definition is_clear (p : zparams) (w : wst) (code : Z) : bool := negb (w_first w) && z_block p && (code =? 256).

(* the code sequence of a payload (uncompress.c:127-176 without the table) *)
Fixpoint unpack (fuel : nat) (p : zparams) (w : wst) (used : Z) (bits : list bool) : list Z :=
  match fuel with O => [] | S f =>
  if w_maxcode w <? w_free w then unpack f p (w_bump p w) 0 (skipn (pad_bits (w_nbits w) used) bits)
  else
    let nb := Z.to_nat (w_nbits w) in
    if (length (firstn nb bits) <? nb)%nat then []      (* fewer than n_bits bits left: the loop ends *)
    else
    let code := z_of_bits (firstn nb bits) in
    let rest := skipn nb bits in
    if is_clear p w code then code :: unpack f p (w_after p w code) 0 (skipn (pad_bits (w_nbits w) (used + w_nbits w)) rest)
    else code :: unpack f p (w_after p w code) (used + w_nbits w) rest
  end.

(* the writer's side of the same schedule *)
Fixpoint pack (p : zparams) (w : wst) (used : Z) (codes : list Z) : list bool :=
  match codes with
  | [] => []
  | code :: t =>
    let '(w1, used1, pad1) := if w_maxcode w <? w_free w then (w_bump p w, 0, repeat false (pad_bits (w_nbits w) used)) else (w, used, []) in
    let body := bits_of_z (Z.to_nat (w_nbits w1)) code in
    if is_clear p w1 code then pad1 ++ body ++ repeat false (pad_bits (w_nbits w1) (used1 + w_nbits w1)) ++ pack p (w_after p w1 code) 0 t
    else pad1 ++ body ++ pack p (w_after p w1 code) (used1 + w_nbits w1) t
  end.

(* ---------------------------------------------------------------- the string table ------------------------------------- *)
Definition tabT := PositiveMap.t (Z * Z).           (* code -> (prefix code, suffix byte) *)
Definition tget (t : tabT) (c : Z) : option (Z * Z) := PositiveMap.find (Z.to_pos c) t.
Definition tset (t : tabT) (c : Z) (v : Z * Z) : tabT := PositiveMap.add (Z.to_pos c) v t.

(* the bytes of a code, last byte first (uncompress.c:203-209: the de_stack walk) *)
Fixpoint str_rev (fuel : nat) (t : tabT) (c : Z) : option (list Z) :=
  match fuel with O => None | S f =>
  if c <? 256 then Some [c]
  else match tget t c with
       | None => None
       | Some (pre, suf) => match str_rev f t pre with None => None | Some s => Some (suf :: s) end
       end
  end.
Definition str_fuel : nat := 65600.

Record dst := { d_tab : tabT; d_free : Z; d_old : Z; d_fin : Z; d_out : list Z (* reversed *) }.

(* one code through the table (uncompress.c:153-245); None = "corrupt input" *)
Definition dec_step (p : zparams) (s : dst) (code : Z) : option dst :=
  if d_old s =? -1 then
    if 256 <=? code then None
    else Some {| d_tab := d_tab s; d_free := d_free s; d_old := code; d_fin := code; d_out := code :: d_out s |}
  else if z_block p && (code =? 256) then
    Some {| d_tab := d_tab s; d_free := 256; d_old := d_old s; d_fin := d_fin s; d_out := d_out s |}
  else if d_free s <? code then None
  else
    let sr := if d_free s <=? code then match str_rev str_fuel (d_tab s) (d_old s) with None => None | Some r => Some (d_fin s :: r) end
              else str_rev str_fuel (d_tab s) code in
    match sr with
    | None => None
    | Some r =>                                      (* r: the string, last byte first *)
      let fin := last r 0 in
      let '(tab', free') := if d_free s <? maxmax p then (tset (d_tab s) (d_free s) (d_old s, fin), d_free s + 1) else (d_tab s, d_free s) in
      Some {| d_tab := tab'; d_free := free'; d_old := code; d_fin := fin; d_out := r ++ d_out s |}
    end.

Fixpoint dec_codes (p : zparams) (s : dst) (codes : list Z) : option dst :=
  match codes with
  | [] => Some s
  | c :: t => match dec_step p s c with None => None | Some s' => dec_codes p s' t end
  end.

Definition d_init (p : zparams) : dst :=
  {| d_tab := PositiveMap.empty _; d_free := if z_block p then 257 else 256; d_old := -1; d_fin := 0; d_out := [] |}.

(* decrunch_compress: header check (uncompress.c:96-110), then the loop.  None = return -1. *)
Definition uncompress (file : list Z) : option (list Z) :=
  match file with
  | m1 :: m2 :: h :: payload =>
    if negb ((m1 =? 31) && (m2 =? 157)) then None else
    let p := {| z_maxbits := h mod 32; z_block := 128 <=? h |} in
    if (z_maxbits p <? 9) || (16 <? z_maxbits p) then None else
    let bits := bits_of_bytes payload in
    match dec_codes p (d_init p) (unpack (2 * length bits + 2) p (w_init p) 0 bits) with
    | None => None
    | Some s =>
      let out := rev_append (d_out s) [] in          (* = rev (d_out s), linear *)
      (* the output ceiling (uncompress.c: the buffer may not grow once it holds LIBXMP_DEPACK_LIMIT bytes) *)
      if C_LIBXMP_DEPACK_LIMIT <=? Z.of_nat (length out) then None else Some out
    end
  | _ => None
  end.

(* ---------------------------------------------------------------- a writer --------------------------------------------- *)
(* greedy LZW with the dictionary keyed by (prefix code, next byte); `clears` says after which emitted codes a CLEAR is sent
   (block mode only): the n-th element decides for the n-th emitted code; missing elements mean "no". *)
Definition dictT := PositiveMap.t Z.
Definition dkey (pre ch : Z) : positive := Z.to_pos (pre * 256 + ch + 1).
Record est := { e_dict : dictT; e_free : Z; e_cur : Z; e_clears : list bool }.

Fixpoint enc_bytes (p : zparams) (s : est) (l : list Z) : list Z :=
  match l with
  | [] => [e_cur s]
  | ch :: t =>
    match PositiveMap.find (dkey (e_cur s) ch) (e_dict s) with
    | Some k => enc_bytes p {| e_dict := e_dict s; e_free := e_free s; e_cur := k; e_clears := e_clears s |} t
    | None =>
      let clr := z_block p && hd false (e_clears s) in
      if clr then e_cur s :: 256 :: enc_bytes p {| e_dict := PositiveMap.empty _; e_free := 257; e_cur := ch; e_clears := tl (e_clears s) |} t
      else if e_free s <? maxmax p then
        e_cur s :: enc_bytes p {| e_dict := PositiveMap.add (dkey (e_cur s) ch) (e_free s) (e_dict s); e_free := e_free s + 1; e_cur := ch; e_clears := tl (e_clears s) |} t
      else e_cur s :: enc_bytes p {| e_dict := e_dict s; e_free := e_free s; e_cur := ch; e_clears := tl (e_clears s) |} t
    end
  end.

Definition encode_codes (p : zparams) (clears : list bool) (l : list Z) : list Z :=
  match l with
  | [] => []
  | c :: t => enc_bytes p {| e_dict := PositiveMap.empty _; e_free := if z_block p then 257 else 256; e_cur := c; e_clears := clears |} t
  end.

Definition compress (p : zparams) (clears : list bool) (l : list Z) : list Z :=
  let bits := pack p (w_init p) 0 (encode_codes p clears l) in
  [31; 157; z_maxbits p + (if z_block p then 128 else 0)] ++ bytes_of_bits (S (length bits)) bits.

Definition zparams_okb (p : zparams) : bool := (10 <=? z_maxbits p) && (z_maxbits p <=? 16).
Definition bytesb (l : list Z) : bool := forallb (fun x => (0 <=? x) && (x <=? 255)) l.

(* every code is non-negative and fits the width the schedule gives it (the side condition under which pack loses nothing) *)
Fixpoint sched_fit (p : zparams) (w : wst) (codes : list Z) : bool :=
  match codes with
  | [] => true
  | code :: t =>
    let w1 := if w_maxcode w <? w_free w then w_bump p w else w in
    (0 <=? code) && (code <? 2 ^ w_nbits w1) && sched_fit p (w_after p w1 code) t
  end.
