(* C19: Impulse Tracker 2.14 / 2.15 compressed samples as src/loaders/itsex.c unpacks them, and a writer for them.

   A compressed sample is a sequence of blocks (0x8000 samples for 8-bit data, 0x4000 for 16-bit data); each block is a 16-bit
   little-endian byte count followed by that many bytes of a least-significant-bit-first bit stream.  The stream holds values of a
   current width `left` (1..9 or 1..17): depending on the width, some values are deltas of the sample and others change the
   width.  Deltas are integrated once (IT 2.14) or twice (IT 2.15).  Width, integrators and the bit reader restart with every
   block.  The bit reader (read_bits) refills 32 bits at a time from a zero-padded buffer and only then notices the end of the
   block, so a value that starts inside the last bytes and runs past them is completed with zero bits - transcribed as is.

   itsex_decompress8 / 16 return -1 on a read error; the loader ignores the return value and keeps what was unpacked so far (the
   destination is zero-initialised), which is why the model returns the samples together with a success flag. *)
From Coq Require Import ZArith List Lia Bool.
Import ListNotations.
Local Open Scope Z_scope.

(* ---------------------------------------------------------------- read_bits -------------------------------------------- *)
Record bitst := { b_bits : Z; b_num : Z; b_rest : list Z }.          (* in->bits, in->num_bits, the bytes not yet loaded *)

Definition word_of (l : list Z) : Z :=
  nth 0 l 0 + 256 * nth 1 l 0 + 65536 * nth 2 l 0 + 16777216 * nth 3 l 0.

(* x & READ_BITS_MASK(n), x >> n, x << n  (written with the bit operations so that the extracted code is fast; Z.land_ones,
   Z.shiftr_div_pow2 and Z.shiftl_mul_pow2 relate them to mod / div / times 2^n) *)
Definition lowbits (n x : Z) : Z := Z.land x (Z.ones n).

(* itsex.c:23-63; None = in->err set *)
Definition read_bits (s : bitst) (n : Z) : option (Z * bitst) :=
  if (n <=? 0) || (32 <=? n) then None else
  if b_num s <? n then
    match b_rest s with
    | [] => None
    | _ =>
      let offset := b_num s in
      let w := word_of (firstn 4 (b_rest s)) in
      let used := Z.of_nat (length (firstn 4 (b_rest s))) in      (* MIN(in->left, 4) *)
      let n' := n - offset in
      let v := lowbits n (b_bits s) + Z.shiftl (lowbits n' w) offset in
      Some (v, {| b_bits := Z.shiftr w n'; b_num := used * 8 - n'; b_rest := skipn 4 (b_rest s) |})
    end
  else Some (lowbits n (b_bits s), {| b_bits := Z.shiftr (b_bits s) n; b_num := b_num s - n; b_rest := b_rest s |}).

(* ---------------------------------------------------------------- one value of the stream ------------------------------ *)
Inductive action := Delta (v : Z) | Width (w : Z) | Skip.

(* itsex.c:118-166 (wide = false) and 216-263 (wide = true): what a value read at width `left` means.  The width arithmetic is
   done on uint8 as in the C. *)
Definition new_width (bits left : Z) : Z := if bits mod 256 <? left then bits mod 256 else (bits + 1) mod 256.

Definition sext (width v : Z) : Z := if v <? 2 ^ (width - 1) then v else v - 2 ^ width.   (* sign extension of a width-bit value *)

Definition classify (wide : bool) (left bits : Z) (s : bitst) : option (action * bitst) :=
  let full := if wide then 17 else 9 in          (* the width at which values are plain samples or width changes *)
  let sel := if wide then 4 else 3 in            (* bits of the width selector in the narrow mode *)
  if left <? 7 then
    if bits =? 2 ^ (left - 1) then
      match read_bits s sel with
      | None => None
      | Some (x, s') => let b := if wide then x + 1 else (x + 1) mod 256 in Some (Width (new_width b left), s')
      end
    else Some (Delta (sext left bits), s)
  else if left <? full then
    let i := (if wide then 65535 / 2 ^ (17 - left) + 8 else 255 / 2 ^ (9 - left) + 4) in
    let j := (if wide then (i - 16) mod 65536 else i - 8) in
    if (bits <=? j) || ((if wide then i mod 65536 else i) <? bits) then Some (Delta (if left <? full - 1 then sext left bits else bits), s)
    else Some (Width (new_width (bits - j) left), s)
  else if full + 1 <=? left then Some (Skip, s)
  else if 2 ^ (full - 1) <=? bits then Some (Width ((bits + 1) mod 256), s)
  else Some (Delta bits, s).

(* ---------------------------------------------------------------- a block ---------------------------------------------- *)
Definition wrapv (wide : bool) (x : Z) : Z := if wide then x mod 65536 else x mod 256.     (* uint8 / the bits of an int16 *)

(* the do-while over one block: `d` samples to produce; returns the samples (as unsigned 8 / 16-bit patterns) produced so far and
   whether the block ended without a read error.  fuel: every iteration either produces a sample or changes the width having
   consumed at least one bit. *)
Fixpoint block_loop (fuel : nat) (wide it215 : bool) (d : nat) (left temp temp2 : Z) (s : bitst) (acc : list Z) : list Z * bool :=
  match d with O => (rev_append acc [], true) | S d' =>
  match fuel with O => (rev_append acc [], false) | S f =>
  match read_bits s left with
  | None => (rev_append acc [], false)
  | Some (bits, s1) =>
    match classify wide left bits s1 with
    | None => (rev_append acc [], false)
    | Some (Width w, s2) => block_loop f wide it215 d w temp temp2 s2 acc
    | Some (Skip, s2) => block_loop f wide it215 d' left temp temp2 s2 (0 :: acc)
    | Some (Delta v, s2) =>
      let t := wrapv wide (v + temp) in
      let t2 := wrapv wide (temp2 + t) in
      block_loop f wide it215 d' left t t2 s2 ((if it215 then t2 else t) :: acc)
    end
  end end end.

Definition block_size (wide : bool) : nat := if wide then 16384%nat else 32768%nat.

(* itsex_decompress8 / 16: `len` samples from the stream `src` (the file from the sample's data onwards).  Result: len samples
   (zeros where nothing was unpacked), the success flag, and the rest of the file. *)
Fixpoint decompress (nblocks : nat) (wide it215 : bool) (len : nat) (src : list Z) : list Z * bool * list Z :=
  match nblocks with O => (repeat 0 len, (len =? 0)%nat, src) | S nb =>
  match len with O => ([], true, src) | _ =>
  match src with
  | lo :: hi :: body =>
    let blen := Z.to_nat (lo + 256 * hi) in
    if (length body <? blen)%nat then (repeat 0 len, false, [])          (* init_block: short read *)
    else
      let d := Nat.min (block_size wide) len in
      let '(smp, ok) := block_loop (d + 8 * blen + 8) wide it215 d (if wide then 17 else 9) 0 0 {| b_bits := 0; b_num := 0; b_rest := firstn blen body |} [] in
      if ok then
        let '(more, ok2, rest) := decompress nb wide it215 (len - d) (skipn blen body) in (smp ++ more, ok2, rest)
      else (smp ++ repeat 0 (len - length smp), false, skipn blen body)
  | _ => (repeat 0 len, false, [])
  end end end.

(* ---------------------------------------------------------------- a writer --------------------------------------------- *)
(* every sample is stored as a full-width value (9 bits holding an 8-bit delta, 17 bits holding a 16-bit delta): the width never
   changes.  Samples are given as unsigned bit patterns (0..255 / 0..65535). *)
Fixpoint bits_of_z (n : nat) (x : Z) : list bool :=
  match n with O => [] | S k => Z.odd x :: bits_of_z k (x / 2) end.
Fixpoint z_of_bits (l : list bool) : Z :=
  match l with [] => 0 | b :: t => (if b then 1 else 0) + 2 * z_of_bits t end.
Fixpoint bytes_of_bits (fuel : nat) (l : list bool) : list Z :=
  match fuel with O => [] | S f =>
  match l with [] => [] | _ => z_of_bits (firstn 8 l) :: bytes_of_bits f (skipn 8 l) end end.

(* the deltas of one block: first differences (2.14) or second differences (2.15), both integrators starting at 0 *)
Fixpoint deltas (wide it215 : bool) (prev prevd : Z) (l : list Z) : list Z :=
  match l with
  | [] => []
  | x :: t =>
    let d1 := wrapv wide (x - prev) in                     (* the once-integrated value the decoder must reach *)
    if it215 then wrapv wide (d1 - prevd) :: deltas wide it215 x d1 t
    else d1 :: deltas wide it215 x 0 t
  end.

Definition enc_block (wide it215 : bool) (l : list Z) : list Z :=
  let w := if wide then 17%nat else 9%nat in
  let bits := concat (map (bits_of_z w) (deltas wide it215 0 0 l)) in
  let body := bytes_of_bits (S (length bits)) bits in
  let n := Z.of_nat (length body) in
  [n mod 256; n / 256] ++ body.

Fixpoint compress (nblocks : nat) (wide it215 : bool) (l : list Z) : list Z :=
  match nblocks with O => [] | S nb =>
  match l with [] => [] | _ =>
    let d := block_size wide in
    enc_block wide it215 (firstn d l) ++ compress nb wide it215 (skipn d l)
  end end.

Definition smp_okb (wide : bool) (l : list Z) : bool := forallb (fun x => (0 <=? x) && (x <? (if wide then 65536 else 256))) l.
