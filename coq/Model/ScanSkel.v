(* C02: the control skeleton of scan_module (src/scan.c) with ALL effect processing abstracted away: the scan is
   any sequence of the three events hook H3 reports -
     EOuter        one iteration of the outer `while (42)` loop (logged after the orders_since_last_valid test and increment)
     ERow c        a row being processed: its visit counter scan_cnt[ord][row] (uint8, cell c) is incremented; a counter that
                   wraps to 0 ends the scan; orders_since_last_valid is reset
     EDelay c d    an IT row-delay effect adding d to the row's visit counter, capped at 255
   Which rows come in which order, jumps, breaks, loops, delays: all arbitrary.  `step` returns None when the event
   cannot happen in that state (not a trace of the C). *)
From Coq Require Import ZArith List Lia Bool.
Import ListNotations.
From LX Require Import Base.ListAux.
Local Open Scope Z_scope.

Inductive sev := EOuter | ERow (c : nat) | EDelay (c : nat) (d : Z).
Record sst := { cnt : list Z; osl : Z; stopped : bool }.

Definition step (st : sst) (e : sev) : option sst :=
  if stopped st then None else
  match e with
  | EOuter => if 512 <? osl st then None else Some {| cnt := cnt st; osl := osl st + 1; stopped := false |}
  | ERow c =>
      if (c <? length (cnt st))%nat then
        let v := (nth c (cnt st) 0 + 1) mod 256 in
        Some {| cnt := upd (cnt st) c v; osl := 0; stopped := v =? 0 |}
      else None
  | EDelay c d =>
      if (c <? length (cnt st))%nat && (0 <=? d) && (d <=? 15) then
        Some {| cnt := upd (cnt st) c (Z.min (nth c (cnt st) 0 + d) 255); osl := osl st; stopped := false |}
      else None
  end.

Fixpoint run (st : sst) (evs : list sev) : option sst :=
  match evs with [] => Some st | e :: t => match step st e with Some st' => run st' t | None => None end end.

Definition is_main (e : sev) : bool := match e with EDelay _ _ => false | _ => true end.
Definition count_main (evs : list sev) : Z := Z.of_nat (length (filter is_main evs)).

Definition zsum (l : list Z) : Z := fold_right Z.add 0 l.
(* the measure: visits still possible, times the longest run of row-less iterations, plus what is left of the current run *)
Definition mu (st : sst) : Z := 514 * zsum (map (fun c => 255 - c) (cnt st)) + (513 - osl st).

Definition inv (st : sst) : Prop := Forall (fun c => 0 <= c <= 255) (cnt st) /\ 0 <= osl st <= 513.

(* the bound in closed form, R = number of (order, row) cells *)
Definition bound (R : Z) : Z := 514 * 255 * R + 513 + 1.

(* a new call of scan_module (one per sequence, plus the VBlank/CIA comparison rescan): the call clears the visit counters
   (scan.c:94-98) and the loop state starts afresh *)
Definition restart (st : sst) : sst := {| cnt := map (fun _ => 0) (cnt st); osl := 0; stopped := false |}.

(* replaying a logged trace: every ERow / EDelay event carries the counter value the C reports after the update *)
Fixpoint replay (st : sst) (evs : list (sev * Z)) : bool :=
  match evs with
  | [] => true
  | (e, v) :: t =>
      match step st e with
      | None => false
      | Some st' =>
          (match e with
           | EOuter => v =? osl st'
           | ERow c | EDelay c _ => v =? nth c (cnt st') 0
           end) && replay st' t
      end
  end.

(* a whole load: several scan calls; returns the number of main events of the longest call, or None if a call's
   trace is not a trace of the skeleton *)
Fixpoint replay_calls (st : sst) (calls : list (list (sev * Z))) (worst : Z) : option Z :=
  match calls with
  | [] => Some worst
  | c :: t => let st0 := restart st in
              if replay st0 c then
                match run st0 (map fst c) with
                | Some st' => replay_calls st' t (Z.max worst (count_main (map fst c)))
                | None => None
                end
              else None
  end.
