(* Model of the path handling that decides which files a load may touch:
   libxmp_copy_name_for_fopen, libxmp_check_filename_case, libxmp_find_instrument_file
   (src/loaders/common.c, non-Amiga branch), get_dirname/get_basename (src/load.c) and the
   decision part of libxmp_decrunch (src/depackers/depacker.c).
   C strings are lists of non-zero bytes. *)
From Coq Require Import ZArith List Lia Bool.
Import ListNotations.
Local Open Scope Z_scope.

Definition cstr := list Z.
Definition DOT := 46.  Definition SLASH := 47.  Definition BSLASH := 92.  Definition COLON := 58.

Fixpoint has_dotdot (l : cstr) : bool :=
  match l with
  | a :: ((b :: _) as t) => ((a =? DOT) && (b =? DOT)) || has_dotdot t
  | _ => false
  end.

(* the copy loop: i = index, conv = converted_colon, fuel = n - 1 - i *)
Fixpoint san_loop (fuel : nat) (first : bool) (conv : bool) (l : cstr) : option cstr :=
  match fuel, l with
  | O, _ => Some []
  | _, [] => Some []
  | S f, t :: rest =>
      if (t <? 32) || (127 <=? t) then None
      else if negb first && (t =? COLON) && negb conv then
        match rest with
        | [] => None
        | t2 :: _ => if (t2 =? SLASH) || (t2 =? BSLASH) then None
                     else option_map (cons SLASH) (san_loop f false true rest)
        end
      else if t =? BSLASH then option_map (cons SLASH) (san_loop f false conv rest)
      else option_map (cons t) (san_loop f false conv rest)
  end.

(* libxmp_copy_name_for_fopen(dest, name, n): None = returns -1, Some dest = returns 0 *)
Definition copy_name_for_fopen (name : cstr) (n : Z) : option cstr :=
  match name with
  | [] => None
  | c0 :: _ =>
    if (match name with [d] => d =? DOT | _ => false end) || has_dotdot name
       || (c0 =? BSLASH) || (c0 =? SLASH) || (c0 =? COLON) then None
    else san_loop (Z.to_nat (n - 1)) true false name
  end.

(* strcasecmp = 0, ASCII *)
Definition lower (c : Z) : Z := if (65 <=? c) && (c <=? 90) then c + 32 else c.
Fixpoint caseeq (a b : cstr) : bool :=
  match a, b with
  | [], [] => true
  | x :: a', y :: b' => (lower x =? lower y) && caseeq a' b'
  | _, _ => false
  end.

(* libxmp_check_filename_case over the directory's listing (readdir order): first matching entry *)
Definition check_filename_case (listing : list cstr) (name : cstr) : option cstr :=
  find (fun e => caseeq e name) listing.

(* libxmp_find_instrument_file: ipath / dirname are optional; a listing of None means opendir failed *)
Definition find_instrument_file (ipath : option (cstr * option (list cstr))) (dirname : option (cstr * option (list cstr)))
                                (ins_name : cstr) : option cstr :=
  let try_dir (d : option (cstr * option (list cstr))) (sep : cstr) :=
    match d with
    | Some (dir, Some listing) =>
        match check_filename_case listing ins_name with Some e => Some (dir ++ sep ++ e) | None => None end
    | _ => None
    end in
  match try_dir ipath [SLASH] with
  | Some p => Some p
  | None => try_dir dirname []
  end.

(* get_dirname / get_basename: split at the last '/' *)
Fixpoint split_last_slash (l : cstr) : option (cstr * cstr) :=   (* Some (up to and incl. last '/', rest) *)
  match l with
  | [] => None
  | c :: t => match split_last_slash t with
              | Some (d, b) => Some (c :: d, b)
              | None => if c =? SLASH then Some ([c], t) else None
              end
  end.
Definition get_dirname (p : cstr) : cstr := match split_last_slash p with Some (d, _) => d | None => [] end.
Definition get_basename (p : cstr) : cstr := match split_last_slash p with Some (_, b) => b | None => p end.

(* libxmp_decrunch: what is run on the stream.  `internal` = some built-in depacker's test accepted
   the header (oracle), `hdr` = first bytes, `headersize` = bytes read (<= 1024), `have_name` = filename != NULL *)
Inductive decision := NotPacked | Internal | External (argv : list (option cstr)) | ExternalSkipped.
Definition is_mo3 (hdr : list Z) : bool := match hdr with 77 :: 79 :: 51 :: _ => true | _ => false end.
Definition is_rar (hdr : list Z) : bool := match hdr with 82 :: 97 :: 114 :: _ => true | _ => false end.
Definition str (s : list Z) : option cstr := Some s.
(* argv with the path as ONE element (None marks where the filename goes); literal arguments as byte lists *)
Definition argv_mo3 : list (option cstr) := [str [117;110;109;111;51]; str [45;115]; None; str [83;84;68;79;85;84]].
Definition argv_rar : list (option cstr) :=
  [str [117;110;114;97;114]; str [112]; str [45;105;110;117;108]; str [45;120;114;101;97;100;109;101];
   str [45;120;42;46;100;105;122]; str [45;120;42;46;110;102;111]; str [45;120;42;46;116;120;116];
   str [45;120;42;46;101;120;101]; str [45;120;42;46;99;111;109]; None].
Definition decrunch_decision (headersize : Z) (hdr : list Z) (internal : bool) (have_name : bool) : decision :=
  if headersize <? 100 then NotPacked
  else if internal then Internal
  else if is_mo3 hdr then (if have_name then External argv_mo3 else ExternalSkipped)
  else if is_rar hdr then (if have_name then External argv_rar else ExternalSkipped)
  else NotPacked.

(* which entry points pass a filename / call the depacker at all (src/load.c) *)
Inductive entry := LoadPath | LoadMem | LoadFile | LoadCb | TestPath | TestMem | TestFile | TestCb.
Definition entry_decrunches (e : entry) : bool := match e with LoadPath | TestPath | TestFile => true | _ => false end.
Definition entry_has_name (e : entry) : bool := match e with LoadPath | TestPath => true | _ => false end.
Definition entry_may_exec (e : entry) (headersize : Z) (hdr : list Z) (internal : bool) : bool :=
  entry_decrunches e &&
  match decrunch_decision headersize hdr internal (entry_has_name e) with External _ => true | _ => false end.
