(* C11: format recognition as xmp_test_module and xmp_load_module perform it (src/load.c test_module / load_module:
   the same table of format test functions walked in the same order over the same stream), the error-code mapping
   of the entry points, and the two title sanitisers (src/loaders/common.c libxmp_copy_adjust,
   src/load_helpers.c libxmp_adjust_string). *)
From Coq Require Import ZArith List Lia Bool.
Import ListNotations.
Local Open Scope Z_scope.

Definition E_FORMAT := -3.   (* -XMP_ERROR_FORMAT *)
Definition E_LOAD := -4.     (* -XMP_ERROR_LOAD *)
Definition E_DEPACK := -5.   (* -XMP_ERROR_DEPACK *)
Definition E_SYSTEM := -6.   (* -XMP_ERROR_SYSTEM *)

(* what one entry of format_loaders[] does on a given stream *)
Record fmt := { f_test : bool (* test() == 0 *); f_title : list Z; f_name : list Z; f_load_ok : bool (* loader() == 0 and the gate accepts *) }.

Fixpoint first_match (tbl : list fmt) : option fmt :=
  match tbl with [] => None | f :: t => if f_test f then Some f else first_match t end.

(* stage before recognition: opening and unpacking the stream *)
Inductive pre := PreOk | PreSystem | PreDepack.

Definition test_module (p : pre) (tbl : list fmt) : Z * list Z * list Z :=
  match p with
  | PreSystem => (E_SYSTEM, [], [])
  | PreDepack => (E_DEPACK, [], [])
  | PreOk => match first_match tbl with Some f => (0, f_title f, f_name f) | None => (E_FORMAT, [], []) end
  end.

Definition load_module (p : pre) (tbl : list fmt) : Z :=
  match p with
  | PreSystem => E_SYSTEM
  | PreDepack => E_DEPACK
  | PreOk => match first_match tbl with Some f => if f_load_ok f then 0 else E_LOAD | None => E_FORMAT end
  end.

(* what the test entry point must return given what the matching load entry point returned *)
Definition expected_test (load_ret : Z) : Z := if (load_ret =? 0) || (load_ret =? E_LOAD) then 0 else load_ret.

(* ---- titles ---- *)
Definition printable (c : Z) : bool := (32 <=? c) && (c <=? 126).
Fixpoint cstr (l : list Z) : list Z := match l with [] => [] | c :: t => if c =? 0 then [] else c :: cstr t end.
(* the C loops `while the last character is a space, cut it`: all trailing spaces go *)
Fixpoint strip (l : list Z) : list Z :=
  match l with
  | [] => []
  | c :: t => match strip t with [] => if c =? 32 then [] else [c] | r => c :: r end
  end.

(* libxmp_copy_adjust(s, r, n): strncpy of n bytes, unprintable -> '.', trailing spaces removed *)
Definition copy_adjust (r : list Z) (n : nat) : list Z :=
  strip (map (fun c => if printable c then c else 46) (cstr (firstn n r))).
(* libxmp_adjust_string(s): unprintable -> ' ', trailing spaces removed *)
Definition adjust_string (s : list Z) : list Z :=
  strip (map (fun c => if printable c then c else 32) (cstr s)).

(* "the same title up to the library's replacement of unprintable characters" *)
Definition canon (s : list Z) : list Z := strip (map (fun c => if (c =? 46) || negb (printable c) then 32 else c) (cstr s)).
Definition titles_agree (a b : list Z) : bool := if list_eq_dec Z.eq_dec (canon a) (canon b) then true else false.
