(* C08: PowerPacker "PP20" files as src/depackers/ppdepack.c unpacks them, and a writer for them.

   File: "PP20", four efficiency bytes (offset widths for match lengths 2, 3, 4 and >= 5), the crunched data (whole longwords), and a
   trailing longword: unpacked length (24 bits, big-endian) and the number of padding bits to skip first.  The crunched data is
   read from its END towards its beginning, a byte at a time, each byte least significant bit first; multi-bit values are stored
   most significant bit first in that reading order.  The output is produced from its END towards its beginning as well.  A step is
   an optional run of literals (bit 0, then the count in 2-bit chunks) followed - unless the output is complete - by a match (2 bits
   choose length 2..4 or "5 and more" with 3-bit continuation chunks; the offset width comes from the efficiency table, or is 7
   for the short form of long matches).  ppDecrunch checks for input exhaustion with `buf_src < src` before stepping back, so the
   byte just before the crunched data (the last efficiency byte) can still be drawn in: transcribed as is.
   Writing past the start of the output or matching beyond what was written fails the unpack. *)
From Coq Require Import ZArith List Lia Bool.
Import ListNotations.
Local Open Scope Z_scope.

(* ---------------------------------------------------------------- the bit source --------------------------------------- *)
Fixpoint bits_of_z (n : nat) (x : Z) : list bool :=          (* least significant first *)
  match n with O => [] | S k => Z.odd x :: bits_of_z k (x / 2) end.

(* list reversal in linear time (frev l = rev l; the standard library's rev is quadratic when extracted) *)
Definition frev {A} (l : list A) : list A := rev_append l [].

(* the bits in the order PP_READ_BITS sees them: bytes from the last to the first, each LSB first *)
Definition read_order (src : list Z) : list bool := concat (map (bits_of_z 8) (frev src)).

(* PP_READ_BITS(n): n bits, the first one read is the most significant; None = out of source bits *)
Fixpoint take_msb (n : nat) (acc : Z) (b : list bool) : option (Z * list bool) :=
  match n with
  | O => Some (acc, b)
  | S k => match b with [] => None | x :: t => take_msb k (2 * acc + (if x then 1 else 0)) t end
  end.
Definition rdbits (n : Z) (b : list bool) : option (Z * list bool) := take_msb (Z.to_nat n) 0 b.

(* ---------------------------------------------------------------- ppDecrunch ------------------------------------------- *)
(* a counter stored in chunks of `w` bits; a chunk of all ones continues *)
Fixpoint rd_count (fuel : nat) (w : Z) (acc : Z) (b : list bool) : option (Z * list bool) :=
  match fuel with O => None | S f =>
    match rdbits w b with None => None | Some (x, b1) =>
      if x =? 2 ^ w - 1 then rd_count f w (acc + x) b1 else Some (acc + x, b1) end
  end.

(* todo bytes: `take b out` reads them (literals) or copies them (match); both refuse to write more than `room` bytes *)
Fixpoint literals (n : nat) (b : list bool) (out : list Z) (room : Z) : option (list bool * list Z * Z) :=
  match n with O => Some (b, out, room) | S k =>
    match rdbits 8 b with None => None | Some (x, b1) =>
      if room <=? 0 then None else literals k b1 (x :: out) (room - 1) end
  end.
Fixpoint copy (n : nat) (off : nat) (out : list Z) (room : Z) : option (list Z * Z) :=
  match n with O => Some (out, room) | S k =>
    if room <=? 0 then None else copy k off (nth off out 0 :: out) (room - 1)
  end.

(* `out` is the written part of the destination in address order (the newest byte first), `room` the bytes still to write *)
Fixpoint pp_loop (fuel : nat) (eff : list Z) (b : list bool) (out : list Z) (room : Z) : option (list Z) :=
  match fuel with O => None | S f =>
  if room <=? 0 then Some out else
  match rdbits 1 b with None => None | Some (lit, b1) =>
    let after_literals :=
      if lit =? 0 then
        match rd_count fuel 2 1 b1 with None => None | Some (todo, b2) => literals (Z.to_nat todo) b2 out room end
      else Some (b1, out, room) in
    match after_literals with
    | None => None
    | Some (b3, out1, room1) =>
      if (lit =? 0) && (room1 =? 0) then Some out1 else
      match rdbits 2 b3 with None => None | Some (x, b4) =>
        let res :=
          if x =? 3 then
            match rdbits 1 b4 with None => None | Some (long, b5) =>
              let offbits := if long =? 0 then 7 else nth 3 eff 0 in
              match rdbits offbits b5 with None => None | Some (offset, b6) =>
                match rd_count fuel 3 5 b6 with None => None | Some (todo, b7) => Some (offset, todo, b7) end end end
          else match rdbits (nth (Z.to_nat x) eff 0) b4 with None => None | Some (offset, b5) => Some (offset, x + 2, b5) end in
        match res with
        | None => None
        | Some (offset, todo, b8) =>
          if Z.of_nat (length out1) <=? offset then None                 (* match overflow *)
          else match copy (Z.to_nat todo) (Z.to_nat offset) out1 room1 with
               | None => None
               | Some (out2, room2) => pp_loop f eff b8 out2 room2
               end
        end
      end
    end
  end end.


Definition be24 (l : list Z) : Z := nth 0 l 0 * 65536 + nth 1 l 0 * 256 + nth 2 l 0.
Definition magic : list Z := [80; 80; 50; 48].          (* "PP20" *)
Fixpoint list_eqb (a b : list Z) : bool :=
  match a, b with [], [] => true | x :: ta, y :: tb => (x =? y) && list_eqb ta tb | _, _ => false end.

(* decrunch_pp + ppdepack: None = -1 *)
Definition pp_unpack (file : list Z) : option (list Z) :=
  let len := length file in
  if (len <? 16)%nat || negb (Nat.eqb (len mod 4) 0) then None else
  if negb (list_eqb (firstn 4 file) magic) then None else
  let eff := firstn 4 (skipn 4 file) in
  if negb (forallb (fun e => (9 <=? e) && (e <=? 15)) eff) then None else
  let trailer := skipn (len - 4) file in
  let unplen := be24 trailer in
  if unplen =? 0 then None else
  let skip := nth 3 trailer 0 in
  if 32 <? skip then None else
  let src := firstn (len - 11) (skipn 7 file) in          (* the last efficiency byte, then the crunched data *)
  let bits := read_order src in
  match rdbits skip bits with
  | None => None
  | Some (_, b) => pp_loop (length b + 1) eff b [] unplen
  end.

(* ---------------------------------------------------------------- a writer --------------------------------------------- *)
Definition msb (n : Z) (v : Z) : list bool := rev (bits_of_z (Z.to_nat n) v).

(* a count n >= base in chunks of w bits *)
Fixpoint enc_count (fuel : nat) (w : Z) (v : Z) : list bool :=
  match fuel with O => [] | S f =>
    let full := 2 ^ w - 1 in
    if full <=? v then msb w full ++ enc_count f w (v - full) else msb w v
  end.

(* one step in emission order: a run of literals (possibly empty) and a match of `len` bytes from `off` + 1 bytes back, or a final run
   of literals *)
Inductive ppstep := PStep (lits : list Z) (len off : Z) | PFinal (lits : list Z).

Definition enc_lits (lits : list Z) : list bool :=
  match lits with
  | [] => [true]
  | _ => false :: enc_count (length lits) 2 (Z.of_nat (length lits) - 1) ++ concat (map (msb 8) lits)
  end.
Definition enc_match (eff : list Z) (len off : Z) : list bool :=
  if len <? 5 then msb 2 (len - 2) ++ msb (nth (Z.to_nat (len - 2)) eff 0) off
  else msb 2 3 ++ (if off <? 128 then [false] ++ msb 7 off else [true] ++ msb (nth 3 eff 0) off) ++ enc_count (Z.to_nat len) 3 (len - 5).
Definition enc_step (eff : list Z) (s : ppstep) : list bool :=
  match s with
  | PStep lits len off => enc_lits lits ++ enc_match eff len off
  | PFinal lits => enc_lits lits
  end.

(* what the steps emit (newest byte first, i.e. the unpacked data in address order) *)
Fixpoint copy1 (n : nat) (off : nat) (out : list Z) : list Z :=
  match n with O => out | S k => copy1 k off (nth off out 0 :: out) end.
Fixpoint steps_expand (ss : list ppstep) (out : list Z) : list Z :=
  match ss with
  | [] => out
  | PStep lits len off :: t => steps_expand t (copy1 (Z.to_nat len) (Z.to_nat off) (rev_append lits out))
  | PFinal lits :: t => steps_expand t (rev_append lits out)
  end.

Fixpoint z_of_bits (l : list bool) : Z := match l with [] => 0 | b :: t => (if b then 1 else 0) + 2 * z_of_bits t end.
Fixpoint bytes_of_bits (fuel : nat) (l : list bool) : list Z :=
  match fuel with O => [] | S f => match l with [] => [] | _ => z_of_bits (firstn 8 l) :: bytes_of_bits f (skipn 8 l) end end.

Definition pp_pack (eff : list Z) (ss : list ppstep) : list Z :=
  let data := steps_expand ss [] in
  let stream := concat (map (enc_step eff) ss) in
  let skip := (32 - Z.of_nat (length stream) mod 32) mod 32 in
  let bits := repeat false (Z.to_nat skip) ++ stream in
  let n := Z.of_nat (length data) in
  magic ++ eff ++ frev (bytes_of_bits (S (length bits)) bits) ++ [n / 65536; (n / 256) mod 256; n mod 256; skip].

(* well-formed steps: only the last one may lack a match, a final run is not empty, literals are bytes, matches have length >= 2 and
   reach back no further than what was emitted, with an offset that fits the width of its length class *)
Definition off_fits (eff : list Z) (len off : Z) : bool :=
  if len <? 5 then off <? 2 ^ nth (Z.to_nat (len - 2)) eff 0 else (off <? 128) || (off <? 2 ^ nth 3 eff 0).
Fixpoint steps_okb (eff : list Z) (ss : list ppstep) (outlen : Z) : bool :=
  match ss with
  | [] => true
  | PFinal lits :: t => (match t with [] => true | _ => false end) && negb (Nat.eqb (length lits) 0) && forallb (fun x => (0 <=? x) && (x <=? 255)) lits
  | PStep lits len off :: t =>
    forallb (fun x => (0 <=? x) && (x <=? 255)) lits && (2 <=? len) && (0 <=? off) && (off <? outlen + Z.of_nat (length lits)) && off_fits eff len off &&
    steps_okb eff t (outlen + Z.of_nat (length lits) + len)
  end.
Definition eff_okb (eff : list Z) : bool := Nat.eqb (length eff) 4 && forallb (fun e => (9 <=? e) && (e <=? 15)) eff.

(* ---------------------------------------------------------------- a tokenizer ------------------------------------------ *)
(* over the data in emission order (last byte first); greedy, a few candidate distances, every match verified byte by byte *)
Definition pp_cands : list Z := [0; 1; 2; 3; 7; 15; 31; 63; 255].
Fixpoint pp_match_len (fuel : nat) (data : list Z) (off : nat) (out : list Z) (acc : nat) : nat :=
  match fuel with O => acc | S f =>
    match data with
    | [] => acc
    | x :: t => match nth_error out off with
                | Some y => if x =? y then pp_match_len f t off (x :: out) (S acc) else acc
                | None => acc
                end
    end
  end.
(* lits: pending literals in emission order (reversed: newest first) *)
Fixpoint pp_tokenize (fuel : nat) (data : list Z) (out : list Z) (lits : list Z) : list ppstep :=
  match fuel with O => [] | S f =>
    match data with
    | [] => match lits with [] => [] | _ => [PFinal (frev lits)] end
    | x :: t =>
      let best := fold_left (fun (bd : nat * Z) d => let n := pp_match_len 300 data (Z.to_nat d) out 0 in if (fst bd <? n)%nat then (n, d) else bd) pp_cands (O, 0) in
      if (2 <=? fst best)%nat then
        PStep (frev lits) (Z.of_nat (fst best)) (snd best) :: pp_tokenize f (skipn (fst best) data) (copy1 (fst best) (Z.to_nat (snd best)) out) []
      else pp_tokenize f t (x :: out) (x :: lits)
    end
  end.
(* pp_pack_data eff data : the PP20 file of `data` *)
Definition pp_pack_data (eff : list Z) (data : list Z) : list Z := pp_pack eff (pp_tokenize (S (length data)) (frev data) [] []).
