(* C14: the linear part of the software mixer (src/mixer.c libxmp_mixer_softmixer, src/mix_all.c MIX_OUT,
   src/player.c process_pan / process_volume tail, src/virtual.c libxmp_virt_setvol).
   A voice's kernel produces interpolated samples `smp`; what reaches the 32-bit accumulator buffer is
   smp * vl (left) and smp * vr (right), with vl, vr derived from the voice's volume and pan; voices add up. *)
From Coq Require Import ZArith List Lia Bool.
Import ListNotations.
From LX Require Import Base.ListAux Model.Downmix.
Local Open Scope Z_scope.

(* player.c: finalpan after CLAMP(0,255); C division truncates toward zero: Z.quot *)
Definition sep_pan (mono surround : bool) (finalpan sep : Z) : Z :=
  if mono || surround then 0 else Z.quot ((finalpan - 128) * sep) 100.

(* virtual.c libxmp_virt_setvol + player.c master volume: what a channel's voice gets as its volume *)
Definition voice_vol (finalvol master : Z) (muted : bool) : Z :=
  if muted then 0 else Z.quot (finalvol * master) 100.

(* mixer.c: the S3M/IT mix volume applied to a voice's volume *)
Definition mix_vol (vol mvol mvolbase : Z) : Z :=
  if (0 <? mvolbase) && negb (mvol =? mvolbase) then Z.quot (vol * mvol) mvolbase else vol.

(* mixer.c: vol_l / vol_r of a voice (before the >> 8 the kernels apply is irrelevant for linearity: it is per voice) *)
Definition gains (vol pan : Z) (surround : bool) : Z * Z :=
  if surround then (vol * 128, - vol * 128) else (vol * (128 - pan), vol * (128 + pan)).

(* one voice's contribution to an interleaved stereo accumulator buffer: samples smp_i with the per-sample gains
   (vl_i, vr_i) the ramp gives them *)
Fixpoint contrib (smps : list (Z * Z * Z)) : list Z :=
  match smps with
  | [] => []
  | (smp, vl, vr) :: t => smp * vl :: smp * vr :: contrib t
  end.

(* accumulator buffers add pointwise (buffer[i] += ...); the buffer has n entries *)
Fixpoint vadd (a b : list Z) : list Z :=
  match a, b with
  | x :: a', y :: b' => x + y :: vadd a' b'
  | _, _ => []
  end.
Definition zeros (n : nat) : list Z := repeat 0 n.
Definition vsum (n : nat) (bufs : list (list Z)) : list Z := fold_left vadd bufs (zeros n).

(* 16-bit signed output of an accumulator value (mixer.c downmix_int_16bit, no offset) *)
Definition out16 (amp x : Z) : Z := down16s amp 0 x.

(* swapping left and right of an interleaved buffer *)
Fixpoint swaplr (l : list Z) : list Z :=
  match l with
  | a :: b :: t => b :: a :: swaplr t
  | _ => l
  end.
