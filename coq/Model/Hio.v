(* Model of the three stream back-ends behind the hio_* layer (src/hio.c, src/dataio.c,
   src/memio.c + mdataio.h, src/callbackio.h) over one byte string.
   FILE follows stdio: sticky end-of-file indicator cleared by a successful seek, seeks beyond the end allowed.
   MEM clamps seeks and derives eof from the position.  CB runs over user callbacks that are assumed to behave
   like fread/fseek/ftell (the oracle is the FILE model) and keeps its own eof flag. *)
From Coq Require Import ZArith List Lia Bool.
Import ListNotations.
From LX Require Import Base.ListAux.
Local Open Scope Z_scope.

Definition EOFV := -1.        (* EOF *)
Definition EINVAL := 22.

Record hstate := { pos : Z; eofi : bool (* FILE: end-of-file indicator; CB: f->eof *); herr : Z (* h->error *) }.
Definition init_state : hstate := {| pos := 0; eofi := false; herr := 0 |}.

Inductive backend := FILEB | MEMB | CBB.

Inductive op :=
| Read8 | Read8s
| ReadN (n : Z)                 (* 16/24/32-bit reads: n = 2, 3, 4; endianness is a pure function of the bytes *)
| ReadBuf (size num : Z)        (* hio_read(buf, size, num, h) *)
| Seek (off : Z) (whence : Z)   (* 0 SET, 1 CUR, 2 END *)
| Tell | Eof | Error.

(* observable result of an op: a number and the bytes delivered *)
Record obs := { oval : Z; obytes : list Z }.
Definition O (v : Z) (b : list Z) : obs := {| oval := v; obytes := b |}.

Definition take (data : list Z) (p k : Z) : list Z := firstn (Z.to_nat k) (skipn (Z.to_nat p) data).
Definition avail (data : list Z) (p : Z) : Z := Z.max 0 (zlen data - p).

Definition seterr (s : hstate) (e : Z) : hstate := {| pos := pos s; eofi := eofi s; herr := e |}.

Definition range_whence (wh : Z) : bool := (0 <=? wh) && (wh <=? 2).

Section Step.
Variable data : list Z.
Let size := zlen data.

(* ---- FILE *)
Definition file_readk (s : hstate) (k : Z) : hstate * list Z * bool :=   (* sequential fgetc: state, bytes, all k obtained? *)
  let a := Z.min k (avail data (pos s)) in
  if a <? k then ({| pos := pos s + a; eofi := true; herr := herr s |}, take data (pos s) a, false)
  else ({| pos := pos s + k; eofi := eofi s; herr := herr s |}, take data (pos s) k, true).

Definition file_step (s : hstate) (o : op) : hstate * obs :=
  match o with
  | Read8 => let '(s', b, ok) := file_readk s 1 in if ok then (s', O (hd 0 b) b) else (seterr s' EOFV, O 255 [])
  | Read8s => let '(s', b, ok) := file_readk s 1 in
              if ok then (s', O (let x := hd 0 b in if x <? 128 then x else x - 256) b) else (seterr s' EOFV, O 0 [])
  | ReadN n => let '(s', b, ok) := file_readk s n in if ok then (s', O 0 b) else (seterr s' EOFV, O (-1) [])
  | ReadBuf sz num =>
      if (sz <=? 0) || (num <=? 0) then (if 0 <? num then seterr s (if eofi s then EOFV else -2) else s, O 0 [])
      else
        let want := sz * num in
        let a := Z.min want (avail data (pos s)) in
        let items := a / sz in
        let s' := {| pos := pos s + a; eofi := if a <? want then true else eofi s; herr := herr s |} in
        (if items =? num then s' else seterr s' EOFV, O items (take data (pos s) a))
  | Seek off wh =>
      let base := if wh =? 0 then 0 else if wh =? 1 then pos s else size in
      if negb (range_whence wh) then (seterr s EINVAL, O (-1) [])
      else let np := base + off in
           if np <? 0 then (seterr s EINVAL, O (-1) [])
           else ({| pos := np; eofi := false; herr := if herr s =? EOFV then 0 else herr s |}, O 0 [])
  | Tell => (s, O (pos s) [])
  | Eof => (s, O (if eofi s then 1 else 0) [])
  | Error => (seterr s 0, O (herr s) [])
  end.

(* ---- MEM *)
Definition mem_step (s : hstate) (o : op) : hstate * obs :=
  let can := avail data (pos s) in
  match o with
  | Read8 => if 1 <=? can then ({| pos := pos s + 1; eofi := eofi s; herr := herr s |}, O (hd 0 (take data (pos s) 1)) (take data (pos s) 1))
             else (seterr s EOFV, O 255 [])
  | Read8s => if 1 <=? can then ({| pos := pos s + 1; eofi := eofi s; herr := herr s |},
                                 O (let x := hd 0 (take data (pos s) 1) in if x <? 128 then x else x - 256) (take data (pos s) 1))
              else (seterr s EOFV, O (-1) [])
  | ReadN n => if n <=? can then ({| pos := pos s + n; eofi := eofi s; herr := herr s |}, O 0 (take data (pos s) n))
               else ({| pos := pos s + can; eofi := eofi s; herr := EOFV |}, O (-1) [])
  | ReadBuf sz num =>
      if (sz <=? 0) || (num <=? 0) then (if 0 <? num then seterr s EOFV else s, O 0 [])
      else if can <=? 0 then (seterr s EOFV, O 0 [])
      else
        let want := sz * num in
        if can <? want then ({| pos := pos s + can; eofi := eofi s; herr := EOFV |}, O (can / sz) (take data (pos s) can))
        else ({| pos := pos s + want; eofi := eofi s; herr := herr s |}, O num (take data (pos s) want))
  | Seek off wh =>
      let base := if wh =? 0 then 0 else if wh =? 1 then pos s else size in
      if negb ((0 <=? wh) && (wh <=? 2)) then (seterr s EINVAL, O (-1) [])
      else let np := base + off in
           if np <? 0 then (seterr s EINVAL, O (-1) [])
           else ({| pos := if size <? np then size else np; eofi := eofi s; herr := if herr s =? EOFV then 0 else herr s |}, O 0 [])
  | Tell => (s, O (pos s) [])
  | Eof => (s, O (if can <=? 0 then 1 else 0) [])
  | Error => (seterr s 0, O (herr s) [])
  end.

(* ---- CB over fread/fseek/ftell-like callbacks: the callbacks' own state is a FILE-model state (position only),
        the CBFILE keeps f->eof (here: eofi) *)
Definition cb_step (s : hstate) (o : op) : hstate * obs :=
  let can := avail data (pos s) in
  match o with
  | Read8 => if 1 <=? can then ({| pos := pos s + 1; eofi := false; herr := herr s |}, O (hd 0 (take data (pos s) 1)) (take data (pos s) 1))
             else ({| pos := pos s; eofi := true; herr := EOFV |}, O 255 [])
  | Read8s => if 1 <=? can then ({| pos := pos s + 1; eofi := false; herr := herr s |},
                                 O (let x := hd 0 (take data (pos s) 1) in if x <? 128 then x else x - 256) (take data (pos s) 1))
              else ({| pos := pos s; eofi := true; herr := EOFV |}, O (-1) [])
  | ReadN n => if n <=? can then ({| pos := pos s + n; eofi := false; herr := herr s |}, O 0 (take data (pos s) n))
               else ({| pos := pos s + can; eofi := true; herr := EOFV |}, O (-1) [])     (* fread(buf, n, 1) consumes the partial item *)
  | ReadBuf sz num =>
      if (sz <=? 0) || (num <=? 0) then ({| pos := pos s; eofi := 0 <? num; herr := if 0 <? num then EOFV else herr s |}, O 0 [])
      else
        let want := sz * num in
        let a := Z.min want can in
        let items := a / sz in
        ({| pos := pos s + a; eofi := items <? num; herr := if items =? num then herr s else EOFV |}, O items (take data (pos s) a))
  | Seek off wh =>
      let base := if wh =? 0 then 0 else if wh =? 1 then pos s else size in
      if negb ((0 <=? wh) && (wh <=? 2)) then ({| pos := pos s; eofi := false; herr := EINVAL |}, O (-1) [])
      else let np := base + off in
           if np <? 0 then ({| pos := pos s; eofi := false; herr := EINVAL |}, O (-1) [])
           else ({| pos := np; eofi := false; herr := if herr s =? EOFV then 0 else herr s |}, O 0 [])
  | Tell => (s, O (pos s) [])
  | Eof => (s, O (if eofi s then 1 else 0) [])
  | Error => (seterr s 0, O (herr s) [])
  end.

Definition step (b : backend) := match b with FILEB => file_step | MEMB => mem_step | CBB => cb_step end.

Fixpoint run (b : backend) (s : hstate) (ops : list op) : list obs :=
  match ops with
  | [] => []
  | o :: t => let '(s', r) := step b s o in r :: run b s' t
  end.

(* ---- the fragment on which FILE and MEM agree: an op is safe in FILE state s when *)
Definition safe (s : hstate) (o : op) : bool :=
  match o with
  | Read8s => pos s <? size                              (* at end of data: 0 from FILE, -1 from MEM/CB *)
  | Seek off wh =>
      let base := if wh =? 0 then 0 else if wh =? 1 then pos s else size in
      base + off <=? size                                (* beyond the end: FILE keeps the position, MEM clamps *)
  | Eof => (pos s <? size) || eofi s                     (* at the end before any read failed: FILE says no, MEM yes *)
  | ReadN n => 0 <? n
  | ReadBuf sz num => (num <=? 0) || (0 <? sz)
  | _ => true
  end.

Fixpoint all_safe (s : hstate) (ops : list op) : bool :=
  match ops with
  | [] => true
  | o :: t => safe s o && all_safe (fst (file_step s o)) t
  end.

End Step.
