(* Model of libxmp_load_sample (src/loaders/sample.c), little-endian host.
   Bytes are Z in 0..255.  The allocated block is modelled whole: 4 guard bytes
   before `data`, `bytelen` bytes of sample, `extralen` guard bytes after, so
   C index data[j] is block index j+4. *)
From Coq Require Import ZArith List Lia Bool.
Import ListNotations.
From LX Require Import Base.IntWrap Base.ListAux Generated.Consts Generated.Tables.
Local Open Scope Z_scope.

Record smp := { s_len : Z; s_lps : Z; s_lpe : Z; s_flg : Z }.

Inductive result :=
| NoData (s : smp) (pos : Z)                      (* returns 0, nothing allocated *)
| Loaded (s : smp) (blk : list Z) (pos : Z)       (* returns 0, blk = data[-4 .. bytelen+extralen) *)
| Failed.                                         (* returns -1 (err2: short ADPCM read) *)

(* flag tests: masks are re-extracted from the headers (Generated/Consts.v) *)
Definition has (f mask : Z) : bool := negb (Z.land f mask =? 0).
Definition clr (f mask : Z) : Z := Z.land f (Z.lnot mask).
Definition setf (f mask : Z) : Z := Z.lor f mask.

(* ---- streams: a memory HIO handle *)
Definition can_read (file : list Z) (pos : Z) : Z := if 0 <=? pos then zlen file - pos else 0.
Definition sread (file : list Z) (pos n : Z) : list Z * Z :=       (* hio_read(buf,1,n,f) *)
  let c := can_read file pos in
  if (n <=? 0) || (c <=? 0) then ([], pos)
  else let k := Z.min n c in (firstn (Z.to_nat k) (skipn (Z.to_nat pos) file), pos + k).
Definition sseek_cur (file : list Z) (pos off : Z) : Z :=          (* hio_seek(f, off, SEEK_CUR) on memory *)
  let o := pos + off in if o <? 0 then pos else if zlen file <? o then zlen file else o.

(* ---- conversion passes, in the order of the C code *)
Definition conv_7bit (n : nat) (l : list Z) : list Z :=
  map (fun b => (b * 2) mod 256) (firstn n l) ++ skipn n l.

Fixpoint swap_pairs (l : list Z) : list Z :=
  match l with a :: b :: t => b :: a :: swap_pairs t | _ => l end.

Fixpoint delta8 (acc : Z) (l : list Z) : list Z :=
  match l with [] => [] | x :: t => let a := (x + acc) mod 65536 in (a mod 256) :: delta8 a t end.
Fixpoint delta16 (acc : Z) (l : list Z) : list Z :=
  match l with
  | lo :: hi :: t => let a := (lo + 256 * hi + acc) mod 65536 in (a mod 256) :: (a / 256) :: delta16 a t
  | _ => l
  end.
(* convert_delta(p, frames, is_16bit, channels): each channel is a run of `frames` items, accumulators restart *)
Definition conv_delta (is16 : bool) (frames : nat) (channels : nat) (l : list Z) : list Z :=
  let item := if is16 then 2%nat else 1%nat in
  let d := if is16 then delta16 0 else delta8 0 in
  let n := (frames * item)%nat in
  match channels with
  | 2%nat => d (firstn n l) ++ d (firstn n (skipn n l)) ++ skipn n (skipn n l)
  | _ => d (firstn n l) ++ skipn n l
  end.

Fixpoint sign8 (l : list Z) : list Z := match l with [] => [] | x :: t => ((x + 128) mod 256) :: sign8 t end.
Fixpoint sign16 (l : list Z) : list Z :=
  match l with lo :: hi :: t => lo :: ((hi + 128) mod 256) :: sign16 t | _ => l end.

Definition vidc1 (x : Z) : Z :=
  let amp := nth (Z.to_nat (x / 2)) vdic_table 0 in
  (if Z.odd x then - amp else amp) mod 256.
Definition conv_vidc (n : nat) (l : list Z) : list Z := map vidc1 (firstn n l) ++ skipn n l.

Fixpoint interleave8 (a b : list Z) : list Z :=
  match a, b with x :: a', y :: b' => x :: y :: interleave8 a' b' | _, _ => [] end.
Fixpoint interleave16 (a b : list Z) : list Z :=
  match a, b with x0 :: x1 :: a', y0 :: y1 :: b' => x0 :: x1 :: y0 :: y1 :: interleave16 a' b' | _, _ => [] end.
Definition conv_interleave (is16 : bool) (frames : nat) (l : list Z) : list Z :=
  let n := (if is16 then frames * 2 else frames)%nat in
  (if is16 then interleave16 else interleave8) (firstn n l) (firstn n (skipn n l)).

(* adpcm4_decoder: one input byte gives two output bytes *)
Fixpoint adpcm4 (tab : list Z) (delta : Z) (inp : list Z) : list Z :=
  match inp with
  | [] => []
  | b :: t => let d0 := (delta + nth (Z.to_nat (b mod 16)) tab 0) mod 256 in
              let d1 := (d0 + nth (Z.to_nat (b / 16)) tab 0) mod 256 in
              d0 :: d1 :: adpcm4 tab d1 t
  end.

(* ---- guard frames: the two sequential loops, on the whole block *)
Definition bget (blk : list Z) (j : Z) : Z := nth (Z.to_nat (j + 4)) blk 0.          (* data[j] *)
Definition bset (blk : list Z) (j v : Z) : list Z := upd blk (Z.to_nat (j + 4)) v.   (* data[j] = v *)

Fixpoint end_guard (n : nat) (i : Z) (bytelen framelen : Z) (blk : list Z) : list Z :=
  match n with
  | O => blk
  | S n' => end_guard n' (i + 1) bytelen framelen (bset blk (bytelen + i) (bget blk (bytelen - framelen + i)))
  end.
Fixpoint start_guard (n : nat) (i : Z) (framelen : Z) (blk : list Z) : list Z :=
  match n with
  | O => blk
  | S n' => start_guard n' (i - 1) framelen (bset blk i (bget blk (framelen + i)))
  end.

Definition pad_to (n : nat) (l : list Z) : list Z := firstn n l ++ repeat 0 (n - length l).

(* ---- sizes *)
Definition framelen_of (flg : Z) : Z :=
  (if has flg C_XMP_SAMPLE_16BIT then 2 else 1) * (if has flg C_XMP_SAMPLE_STEREO then 2 else 1).

(* truncate-to-EOF step: returns None for "return 0 without data", else (bytelen, len) *)
Definition truncate (adpcm : bool) (flg len bytelen remaining : Z) : option (Z * Z) :=
  let framelen := framelen_of flg in
  let '(over, bl, stop) :=
    if adpcm then
      let bound := 16 + Z.shiftr (bytelen + 1) 1 in
      if remaining <? 16 then (false, bytelen, true)
      else if remaining <? bound then (true, Z.shiftl (remaining - 16) 1, false) else (false, bytelen, false)
    else if remaining <? bytelen then (true, remaining, false) else (false, bytelen, false) in
  if stop then None
  else if over then
    let bl' := bl - Z.land bl (framelen - 1) in
    let l := bl' in
    let l := if has flg C_XMP_SAMPLE_16BIT then Z.shiftr l 1 else l in
    let l := if has flg C_XMP_SAMPLE_STEREO then Z.shiftr l 1 else l in
    Some (bl', l)
  else Some (bl, len).

(* loop sanity + bidir clean-up *)
Definition fix_loops (s : smp) : smp :=
  let lps := if s_lps s <? 0 then 0 else s_lps s in
  let lpe := if s_len s <? s_lpe s then s_len s else s_lpe s in
  let '(lps, lpe, flg) :=
    if (s_len s <=? lps) || (lpe <=? lps)
    then (0, 0, clr (s_flg s) (Z.lor C_XMP_SAMPLE_LOOP C_XMP_SAMPLE_LOOP_BIDIR))
    else (lps, lpe, s_flg s) in
  let flg := if has flg C_XMP_SAMPLE_LOOP_BIDIR && negb (has flg C_XMP_SAMPLE_LOOP) then clr flg C_XMP_SAMPLE_LOOP_BIDIR else flg in
  let flg := if has flg C_XMP_SAMPLE_SLOOP_BIDIR && negb (has flg C_XMP_SAMPLE_SLOOP) then clr flg C_XMP_SAMPLE_SLOOP_BIDIR else flg in
  {| s_len := s_len s; s_lps := lps; s_lpe := lpe; s_flg := flg |}.

(* the conversion pipeline on the `bytelen` bytes of dest *)
Definition convert (flags flg len : Z) (dest : list Z) : list Z :=
  let is16 := has flg C_XMP_SAMPLE_16BIT in
  let stereo := has flg C_XMP_SAMPLE_STEREO in
  let channels := if stereo then 2%nat else 1%nat in
  let nitems := (Z.to_nat len * channels)%nat in
  let d := dest in
  let d := if has flags C_SAMPLE_FLAG_7BIT then conv_7bit nitems d else d in
  let d := if is16 && has flags C_SAMPLE_FLAG_BIGEND then swap_pairs d else d in
  let d := if has flags C_SAMPLE_FLAG_DIFF then conv_delta is16 (Z.to_nat len) channels d
           else if has flags C_SAMPLE_FLAG_8BDIFF then conv_delta false (Z.to_nat (if is16 then len * 2 else len)) channels d
           else d in
  let d := if has flags C_SAMPLE_FLAG_UNS then (if is16 then sign16 d else sign8 d) else d in
  let d := if has flags C_SAMPLE_FLAG_VIDC then conv_vidc nitems d else d in
  let d := if stereo && negb (has flags C_SAMPLE_FLAG_INTERLEAVED) then conv_interleave is16 (Z.to_nat len) d else d in
  d.

Definition load_sample (smpctl_skip : bool) (flags : Z) (s : smp) (file : list Z) (pos : Z) (nbuf : list Z) : result :=
  if has flags C_SAMPLE_FLAG_ADLIB then NoData s pos
  else if s_len s <=? 0 then NoData s pos
  else if (C_MAX_SAMPLE_SIZE <? s_len s) || smpctl_skip then
    NoData s (if has flags C_SAMPLE_FLAG_NOLOAD then pos else sseek_cur file pos (s_len s))
  else
    let flg := s_flg s in
    let framelen := framelen_of flg in
    let bytelen := s_len s * framelen in
    let extralen := 4 * framelen in
    let noload := has flags C_SAMPLE_FLAG_NOLOAD in
    let adpcm := has flags C_SAMPLE_FLAG_ADPCM in
    let tr := if noload then Some (bytelen, s_len s)
              else if zlen file <=? pos then None
              else truncate adpcm flg (s_len s) bytelen (zlen file - pos) in
    match tr with
    | None => NoData s pos
    | Some (bytelen, len) =>
      let s1 := fix_loops {| s_len := len; s_lps := s_lps s; s_lpe := s_lpe s; s_flg := flg |} in
      let nb := Z.to_nat bytelen in
      (* fill dest *)
      let filled : option (list Z * Z) :=
        if noload then Some (pad_to nb nbuf, pos)
        else if adpcm then
          let x2 := Z.shiftr (bytelen + 1) 1 in
          let '(tab, p1) := sread file pos 16 in
          if negb (zlen tab =? 16) then None
          else let '(inp, p2) := sread file p1 x2 in
               if negb (zlen inp =? x2) then None
               else Some (pad_to nb (adpcm4 tab 0 inp), p2)
        else let '(d, p1) := sread file pos bytelen in Some (pad_to nb d, p1) in
      match filled with
      | None => Failed
      | Some (dest, pos') =>
        let body := convert flags (s_flg s1) (s_len s1) dest in
        let flg2 := if has flags C_SAMPLE_FLAG_FULLREP && (s_lps s1 =? 0) && (s_lpe s1 <? s_len s1)
                    then setf (s_flg s1) C_XMP_SAMPLE_LOOP_FULL else s_flg s1 in
        let blk0 := [0; 0; 0; 0] ++ pad_to nb body ++ repeat 0 (Z.to_nat extralen) in
        let blk1 := end_guard (Z.to_nat extralen) 0 bytelen framelen blk0 in
        let blk2 := start_guard 4 (-1) framelen blk1 in
        Loaded {| s_len := s_len s1; s_lps := s_lps s1; s_lpe := s_lpe s1; s_flg := flg2 |} blk2 pos'
      end
    end.
