(* C19: the Protracker M.K. file format as an independent writer lays it out (encode) and as a reader takes it apart
   (decode), byte for byte:  title[20]; 31 x (name[22], length in words BE16, finetune, volume, loop start BE16,
   loop length BE16); song length; restart byte; orders[128]; "M.K."; patterns of 64 rows x 4 channels x 4 bytes;
   sample data.  The number of patterns is 1 + the highest order entry, as every M.K. reader derives it. *)
From Coq Require Import ZArith List Lia Bool.
Import ListNotations.
From LX Require Import Base.ListAux.
Local Open Scope Z_scope.

Record minst := { i_name : list Z; i_len : Z; i_fine : Z; i_vol : Z; i_lps : Z; i_lpl : Z }.
Record mcell := { c_period : Z; c_ins : Z; c_fxt : Z; c_fxp : Z }.
Record msong := { s_title : list Z; s_ins : list minst; s_len : Z; s_rst : Z; s_orders : list Z;
                  s_pats : list (list mcell); s_smp : list (list Z) }.

Definition be16 (x : Z) : list Z := [x / 256; x mod 256].
Definition enc_inst (i : minst) : list Z := i_name i ++ be16 (i_len i) ++ [i_fine i; i_vol i] ++ be16 (i_lps i) ++ be16 (i_lpl i).
Definition enc_cell (c : mcell) : list Z :=
  [(c_ins c / 16) * 16 + c_period c / 256; c_period c mod 256; (c_ins c mod 16) * 16 + c_fxt c; c_fxp c].
Definition magic : list Z := [77; 46; 75; 46].     (* "M.K." *)

Definition encode (s : msong) : list Z :=
  s_title s ++ concat (map enc_inst (s_ins s)) ++ [s_len s; s_rst s] ++ s_orders s ++ magic ++
  concat (map (fun p => concat (map enc_cell p)) (s_pats s)) ++ concat (s_smp s).

(* ---- reading ---- *)
Definition take (n : nat) (l : list Z) : option (list Z * list Z) :=
  if (length l <? n)%nat then None else Some (firstn n l, skipn n l).

Definition dec_be16 (l : list Z) : Z := match l with [a; b] => a * 256 + b | _ => 0 end.

Definition dec_inst (l : list Z) : option (minst * list Z) :=
  match take 22 l with None => None | Some (nm, l1) =>
  match take 2 l1 with None => None | Some (ln, l2) =>
  match take 2 l2 with None => None | Some (fv, l3) =>
  match take 2 l3 with None => None | Some (ls, l4) =>
  match take 2 l4 with None => None | Some (ll, l5) =>
    Some ({| i_name := nm; i_len := dec_be16 ln; i_fine := nth 0 fv 0; i_vol := nth 1 fv 0; i_lps := dec_be16 ls; i_lpl := dec_be16 ll |}, l5)
  end end end end end.

Definition dec_cell (l : list Z) : option (mcell * list Z) :=
  match take 4 l with None => None | Some (b, r) =>
    let b0 := nth 0 b 0 in let b1 := nth 1 b 0 in let b2 := nth 2 b 0 in let b3 := nth 3 b 0 in
    Some ({| c_period := (b0 mod 16) * 256 + b1; c_ins := (b0 / 16) * 16 + b2 / 16; c_fxt := b2 mod 16; c_fxp := b3 |}, r)
  end.

(* n items with the same item reader *)
Fixpoint dec_many {A} (dec : list Z -> option (A * list Z)) (n : nat) (l : list Z) : option (list A * list Z) :=
  match n with
  | O => Some ([], l)
  | S k => match dec l with None => None | Some (x, r) =>
             match dec_many dec k r with None => None | Some (xs, r') => Some (x :: xs, r') end end
  end.

(* sample data: one block per instrument, 2 * length bytes *)
Fixpoint dec_smps (ins : list minst) (l : list Z) : option (list (list Z) * list Z) :=
  match ins with
  | [] => Some ([], l)
  | i :: t => match take (Z.to_nat (2 * i_len i)) l with None => None | Some (d, r) =>
                match dec_smps t r with None => None | Some (ds, r') => Some (d :: ds, r') end end
  end.

Definition zmax_list (l : list Z) : Z := fold_right Z.max 0 l.

Definition decode (l : list Z) : option msong :=
  match take 20 l with None => None | Some (title, l1) =>
  match dec_many dec_inst 31 l1 with None => None | Some (ins, l2) =>
  match take 2 l2 with None => None | Some (lr, l3) =>
  match take 128 l3 with None => None | Some (orders, l4) =>
  match take 4 l4 with None => None | Some (mg, l5) =>
    if negb (if list_eq_dec Z.eq_dec mg magic then true else false) then None else
    let npat := Z.to_nat (zmax_list orders + 1) in
    match dec_many (dec_many dec_cell 256) npat l5 with None => None | Some (pats, l6) =>
    match dec_smps ins l6 with None => None | Some (smps, l7) =>
      match l7 with
      | [] => Some {| s_title := title; s_ins := ins; s_len := nth 0 lr 0; s_rst := nth 1 lr 0; s_orders := orders; s_pats := pats; s_smp := smps |}
      | _ => None       (* trailing bytes: not what the writer produced *)
      end
    end end
  end end end end end.

(* ---- the songs a writer can express in this format ---- *)
Definition byteb (x : Z) : bool := (0 <=? x) && (x <=? 255).
Definition inst_okb (i : minst) : bool :=
  (Nat.eqb (length (i_name i)) 22) && forallb byteb (i_name i) && (0 <=? i_len i) && (i_len i <=? 65535) &&
  byteb (i_fine i) && byteb (i_vol i) && (0 <=? i_lps i) && (i_lps i <=? 65535) && (0 <=? i_lpl i) && (i_lpl i <=? 65535).
Definition cell_okb (c : mcell) : bool :=
  (0 <=? c_period c) && (c_period c <=? 4095) && (0 <=? c_ins c) && (c_ins c <=? 255) && (0 <=? c_fxt c) && (c_fxt c <=? 15) && byteb (c_fxp c).
Definition song_okb (s : msong) : bool :=
  (Nat.eqb (length (s_title s)) 20) && forallb byteb (s_title s) &&
  (Nat.eqb (length (s_ins s)) 31) && forallb inst_okb (s_ins s) &&
  byteb (s_len s) && byteb (s_rst s) &&
  (Nat.eqb (length (s_orders s)) 128) && forallb (fun o => (0 <=? o) && (o <=? 127)) (s_orders s) &&
  (Nat.eqb (length (s_pats s)) (Z.to_nat (zmax_list (s_orders s) + 1))) &&
  forallb (fun p => Nat.eqb (length p) 256 && forallb cell_okb p) (s_pats s) &&
  (Nat.eqb (length (s_smp s)) 31) &&
  forallb (fun p => Nat.eqb (length (snd p)) (Z.to_nat (2 * i_len (fst p))) && forallb byteb (snd p)) (combine (s_ins s) (s_smp s)).
