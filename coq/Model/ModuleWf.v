(* The C03 predicate: what every successfully loaded module must satisfy, as an executable boolean
   over a dump of the public tables (xmp_get_module_info). *)
From Coq Require Import ZArith List Lia Bool.
Import ListNotations.
From LX Require Import Base.ListAux Generated.Consts.
Local Open Scope Z_scope.

Record env := { e_flg : Z; e_npt : Z; e_sus : Z; e_sue : Z; e_lps : Z; e_lpe : Z }.
Record instr := { i_nsm : Z; i_sub : bool; i_name_ok : bool; i_aei : env; i_pei : env; i_fei : env }.
Record sample := { sm_len : Z; sm_lps : Z; sm_lpe : Z; sm_flg : Z; sm_data : bool; sm_name_ok : bool; sm_sus : Z; sm_sue : Z }.
Record pattern := { p_rows : Z; p_index : list Z }.
Record mdump := {
  d_chn : Z; d_len : Z; d_pat : Z; d_trk : Z; d_ins : Z; d_smp : Z; d_spd : Z; d_bpm : Z; d_rst : Z;
  d_name_ok : bool; d_type_ok : bool;
  d_xxo : list Z;
  d_chans : list (Z * Z);                 (* vol, pan *)
  d_pats : list (option pattern);         (* None = NULL pointer *)
  d_trks : list (option Z);               (* rows; None = NULL pointer *)
  d_inss : list instr;
  d_smps : list sample;
  d_seqs : list (Z * Z)                   (* entry point, duration *)
}.

Definition has (f mask : Z) : bool := negb (Z.land f mask =? 0).

Definition counts_okb (m : mdump) : bool :=
  (0 <=? d_chn m) && (d_chn m <=? C_XMP_MAX_CHANNELS) && (0 <=? d_len m) && (d_len m <=? C_XMP_MAX_MOD_LENGTH) &&
  (0 <=? d_pat m) && (d_pat m <=? 257) && (0 <=? d_ins m) && (d_ins m <=? 255) && (0 <=? d_smp m) && (d_smp m <=? 1024) && (0 <=? d_trk m) &&
  (zlen (d_xxo m) =? d_len m) && (zlen (d_pats m) =? d_pat m) && (zlen (d_trks m) =? d_trk m) &&
  (zlen (d_inss m) =? d_ins m) && (zlen (d_smps m) =? d_smp m) && (zlen (d_chans m) =? d_chn m).

(* a referenced pattern exists with >= 1 row and all its tracks exist with >= 1 row *)
Definition pattern_okb (m : mdump) (pi : Z) : bool :=
  match zget (d_pats m) pi with
  | Some (Some p) =>
      (1 <=? p_rows p) && (zlen (p_index p) =? d_chn m) &&
      forallb (fun t => match zget (d_trks m) t with Some (Some r) => 1 <=? r | _ => false end) (p_index p)
  | _ => false
  end.
(* every order below `pat` names a real pattern (orders >= pat are skipped / markers) *)
Definition orders_okb (m : mdump) : bool :=
  forallb (fun o => if o <? d_pat m then pattern_okb m o else true) (d_xxo m).
(* every pattern that exists is well formed, referenced or not *)
Definition all_patterns_okb (m : mdump) : bool :=
  forallb (fun op => match op with
                     | Some p => (zlen (p_index p) =? d_chn m) &&
                                 forallb (fun t => match zget (d_trks m) t with Some (Some _) => true | _ => false end) (p_index p)
                     | None => false end) (d_pats m).

Definition env_okb (e : env) : bool :=
  (if has (e_flg e) C_XMP_ENVELOPE_ON then (1 <=? e_npt e) && (e_npt e <=? C_XMP_MAX_ENV_POINTS) else true) &&
  (if has (e_flg e) C_XMP_ENVELOPE_ON && has (e_flg e) C_XMP_ENVELOPE_LOOP
   then (0 <=? e_lps e) && (e_lps e <? e_npt e) && (0 <=? e_lpe e) && (e_lpe e <? e_npt e) else true) &&
  (if has (e_flg e) C_XMP_ENVELOPE_ON && has (e_flg e) C_XMP_ENVELOPE_SUS
   then (0 <=? e_sus e) && (e_sus e <? e_npt e) && (0 <=? e_sue e) && (e_sue e <? e_npt e) else true).

Definition instr_okb (i : instr) : bool :=
  (0 <=? i_nsm i) && (if 0 <? i_nsm i then i_sub i else true) && i_name_ok i && env_okb (i_aei i) && env_okb (i_pei i) && env_okb (i_fei i).

Definition sample_okb (s : sample) : bool :=
  sm_name_ok s &&
  (if sm_data s then
     (0 <=? sm_lps s) && (sm_lps s <=? sm_lpe s) && (sm_lpe s <=? sm_len s) &&
     (if has (sm_flg s) C_XMP_SAMPLE_LOOP then sm_lps s <? sm_lpe s else true) &&
     (if has (sm_flg s) C_XMP_SAMPLE_SLOOP then (0 <=? sm_sus s) && (sm_sus s <? sm_sue s) && (sm_sue s <=? sm_len s) else true)
   else true).

Definition tempo_okb (m : mdump) : bool :=
  (1 <=? d_spd m) && (d_spd m <=? 255) && (C_XMP_MIN_BPM <=? d_bpm m) && (d_bpm m <=? 1000) &&
  ((d_len m =? 0) || ((0 <=? d_rst m) && (d_rst m <? d_len m))).

Fixpoint distinct (l : list Z) : bool :=
  match l with [] => true | x :: t => negb (existsb (Z.eqb x) t) && distinct t end.
Definition seqs_okb (m : mdump) : bool :=
  ((d_len m =? 0) || (1 <=? zlen (d_seqs m))) &&
  forallb (fun s => (0 <=? fst s) && ((fst s <? d_len m) || (d_len m =? 0)) && (0 <=? snd s)) (d_seqs m) &&
  distinct (map fst (d_seqs m)).

Definition public_wfb (m : mdump) : bool :=
  counts_okb m && d_name_ok m && d_type_ok m && orders_okb m && all_patterns_okb m &&
  forallb instr_okb (d_inss m) && forallb sample_okb (d_smps m) &&
  forallb (fun c => (0 <=? fst c) && (fst c <=? 255) && (0 <=? snd c) && (snd c <=? 255)) (d_chans m) &&
  tempo_okb m && seqs_okb m.

(* which clause fails (for replays) *)
Definition wf_report (m : mdump) : list bool :=
  [counts_okb m; d_name_ok m && d_type_ok m; orders_okb m; all_patterns_okb m; forallb instr_okb (d_inss m);
   forallb sample_okb (d_smps m); tempo_okb m; seqs_okb m].
