(* C03: what the Composer 669 loader (src/loaders/669_load.c) hands to load_module, as the raw module dump that the gate model
   (Model/Gate.v) takes - the second loader, after Protracker (Model/ModLoad.v), for which the loader post-condition is proved
   rather than checked.  Structure only: counts, order list, pattern and track tables, instruments, and for every sample its
   length / loop / flags after libxmp_load_sample (Model/SampleLoad.v) has seen the data that is really there; events are not
   modelled.  The file is read from memory through the hio layer, whose behaviour at the end of the data matters here and is
   transcribed: a byte read returns 0xff, a 32-bit read returns 0xffffffff and moves to the end, a block read returns what is
   left (memio.c, mdataio.h).  None = c669_load returns -1 (or the format test fails). *)
From Coq Require Import ZArith List Lia Bool.
Import ListNotations.
From LX Require Import Base.ListAux Generated.Consts Model.SampleLoad Model.ModuleWf Model.Gate Model.ModLoad.
Local Open Scope Z_scope.

(* ---------------------------------------------------------------- the memory stream *)
Definition avail (file : list Z) (pos : Z) : Z := Z.max 0 (zlen file - pos).
Definition rd8 (file : list Z) (pos : Z) : Z * Z :=                       (* hio_read8 *)
  match zget file pos with Some v => (v, pos + 1) | None => (255, pos) end.
Definition rd32l (file : list Z) (pos : Z) : Z * Z :=                     (* hio_read32l *)
  if 4 <=? avail file pos then
    match zget file pos, zget file (pos + 1), zget file (pos + 2), zget file (pos + 3) with
    | Some a, Some b, Some c, Some d => (a + 256 * b + 65536 * c + 16777216 * d, pos + 4)
    | _, _, _, _ => (4294967295, pos)
    end
  else (4294967295, pos + avail file pos).
(* hio_read(buf, 1, n, f): the bytes read (fewer than n at the end) and the new position *)
Definition rdn (file : list Z) (pos : Z) (n : Z) : list Z * Z :=
  let k := Z.min n (avail file pos) in (firstn (Z.to_nat k) (skipn (Z.to_nat pos) file), pos + k).

Definition to_int32 (x : Z) : Z := if x <? 2147483648 then x else x - 4294967296.    (* uint32 stored into an int *)

(* ---------------------------------------------------------------- instruments: 669_load.c:156-190 *)
Record c669_ins := { q_len : Z; q_lps : Z; q_lpe : Z }.
Fixpoint read_ins (n : nat) (file : list Z) (pos : Z) : option (list c669_ins * Z) :=
  match n with
  | O => Some ([], pos)
  | S k =>
    let '(_, p1) := rdn file pos 13 in
    let '(len, p2) := rd32l file p1 in
    let '(lps, p3) := rd32l file p2 in
    let '(lpe, p4) := rd32l file p3 in
    if C_MAX_SAMPLE_SIZE <? len then None else
    match read_ins k file p4 with
    | None => None
    | Some (r, p) => Some ({| q_len := len; q_lps := to_int32 lps; q_lpe := if 1048575 <=? lpe then 0 else lpe |} :: r, p)
    end
  end.

Definition smp_of (i : c669_ins) : smp :=
  {| SampleLoad.s_len := q_len i; s_lps := q_lps i; s_lpe := q_lpe i; s_flg := if q_lpe i =? 0 then 0 else C_XMP_SAMPLE_LOOP |}.

(* ---------------------------------------------------------------- patterns: 669_load.c:200-245 (structure: the break row check
   and the 64 * 8 * 3 bytes that must be there) *)
Fixpoint read_pats (pbrk : list Z) (file : list Z) (pos : Z) : option Z :=
  match pbrk with
  | [] => Some pos
  | b :: t =>
    if 64 <=? b then None else
    if avail file pos <? 1536 then None else read_pats t file (pos + 1536)
  end.

(* ---------------------------------------------------------------- samples: 669_load.c:250-256 *)
Fixpoint load_smps669 (ins : list c669_ins) (file : list Z) (pos : Z) : option (list sample) :=
  match ins with
  | [] => Some []
  | i :: t =>
    let s0 := smp_of i in
    if q_len i <=? 2 then
      match load_smps669 t file pos with None => None | Some r => Some (as_sample s0 false :: r) end
    else
      match load_sample false C_SAMPLE_FLAG_UNS s0 file pos [] with
      | Failed => None
      | NoData s' pos' => match load_smps669 t file pos' with None => None | Some r => Some (as_sample s' false :: r) end
      | Loaded s' _ pos' => match load_smps669 t file pos' with None => None | Some r => Some (as_sample s' true :: r) end
      end
  end.

(* number of orders: up to the first entry above the pattern count *)
Fixpoint order_len (l : list Z) (nop : Z) (acc : Z) : Z :=
  match l with [] => acc | o :: t => if nop <? o then acc else order_len t nop (acc + 1) end.

Definition chans669 : list (Z * Z) :=
  map (fun i => (64, if (i <? 8)%nat then Z.of_nat (i mod 2) * 255 else ((Z.of_nat i + 1) / 2) mod 2 * 255)) (seq 0 64).

Definition c669_test (file : list Z) : bool :=
  let id := fst (rd8 file 0) * 256 + fst (rd8 file 1) in
  ((id =? 26982) || (id =? 19022)) && (2 <=? zlen file) &&
  (fst (rd8 file 110) <=? 64) && (fst (rd8 file 111) <=? 128) && (fst (rd8 file (Z.min 240 (zlen file))) =? 255).

Definition c669_raw (file : list Z) : option raw :=
  if negb (c669_test file) then None else
  let '(nos, p1) := rd8 file 110 in
  let '(nop, p2) := rd8 file p1 in
  if (64 <? nos) || (128 <? nop) then None else
  let '(_, p3) := rd8 file p2 in
  let '(order, p4) := rdn file p3 128 in
  if negb (zlen order =? 128) then None else
  let '(speed, p5) := rdn file p4 128 in
  if negb (zlen speed =? 128) then None else
  let '(pbrk, p6) := rdn file p5 128 in
  if negb (zlen pbrk =? 128) then None else
  let len := order_len order nop 0 in
  match read_ins (Z.to_nat nos) file p6 with
  | None => None
  | Some (ins, p7) =>
    match read_pats (firstn (Z.to_nat nop) pbrk) file p7 with
    | None => None
    | Some p8 =>
      match load_smps669 ins file p8 with
      | None => None
      | Some smps =>
        Some {| r_m := {| d_chn := 8; d_len := len; d_pat := nop; d_trk := 8 * nop; d_ins := nos; d_smp := nos; d_spd := 6; d_bpm := 78; d_rst := 0;
                          d_name_ok := true; d_type_ok := true;
                          d_xxo := firstn (Z.to_nat len) order;
                          d_chans := chans669;
                          d_pats := map (fun p => Some {| p_rows := 64; p_index := map (fun c => Z.of_nat p * 8 + Z.of_nat c) (seq 0 8) |}) (seq 0 (Z.to_nat nop));
                          d_trks := repeat (Some 64) (Z.to_nat (8 * nop));
                          d_inss := map (fun i => {| i_nsm := if 0 <? q_len i then 1 else 0; i_sub := true; i_name_ok := true; i_aei := noenv; i_pei := noenv; i_fei := noenv |}) ins;
                          d_smps := smps;
                          d_seqs := [] |};
                r_has_xxp := true; r_has_xxt := true |}
      end
    end
  end.
