(* C08: the LZW methods of ARC / Spark / ArcFS archives as src/depackers/arc_unpack.c unpacks them - "crunched" (method 8: RLE90
   under 9..12-bit dynamic LZW), "squashed" (method 9: 9..13-bit dynamic LZW) and Spark's "compressed" (method 0xff: 9..N-bit, N in
   the stream) - and a writer for them.

   Codes are stored least significant bit first and are read eight at a time; when the width changes the rest of the group is
   thrown away (arc_next_code).  The table entry for a code holds (previous code, string length, last byte); entries are never
   erased: a reset (code 256 in the dynamic modes) only zeroes the lengths, and a code that was not defined yet is not refused
   but walked through whatever the table holds (calloc'ed zeros or stale links), which gives a length or, when the walk exceeds
   the table size, an error.  The decoder adds the entry for (previous code, first byte of the current string) after emitting a
   string - before it when the code is the one about to be defined (KwKwK) - and widens the codes when the next code to be
   defined no longer fits.  Without RLE the output stops at the declared size (a longer decode is cut, a shorter one fails); with
   RLE the whole stream is decoded in 8 KiB blocks, each fed to the streaming RLE90 decoder, which drops literal bytes beyond the
   declared size for the rest of the block but refuses runs beyond it. *)
From Coq Require Import ZArith List Lia Bool FMapPositive.
Import ListNotations.
From LX Require Import Model.Lzw.
Local Open Scope Z_scope.

Definition entry := (Z * Z * Z)%type.                      (* prev, length, value *)
Definition atab := PositiveMap.t entry.
Definition aget (t : atab) (c : Z) : entry :=
  if c <? 256 then (0, 1, c) else match PositiveMap.find (Z.to_pos c) t with Some e => e | None => (0, 0, 0) end.
Definition aset (t : atab) (c : Z) (e : entry) : atab := PositiveMap.add (Z.to_pos c) e t.

Record ast := { a_tab : atab; a_next : Z; a_width : Z; a_last : option Z; a_lfv : Z;
                a_bits : list bool; a_buf : list (option Z); a_bufw : Z }.

(* arc_read_bits: a failed read leaves nothing to read *)
Definition read_code (w : Z) (bits : list bool) : option Z * list bool :=
  let n := Z.to_nat w in
  if (length (firstn n bits) <? n)%nat then (None, []) else (Some (z_of_bits (firstn n bits)), skipn n bits).
Fixpoint read_group (k : nat) (w : Z) (bits : list bool) : list (option Z) * list bool :=
  match k with O => ([], bits) | S k' =>
    match read_code w bits with
    | (None, b) => (repeat None k, b)
    | (Some c, b) => let '(cs, b') := read_group k' w b in (Some c :: cs, b')
    end
  end.
(* arc_next_code *)
Definition next_code (s : ast) : option Z * ast :=
  let '(buf, bits) := match a_buf s with
                      | [] => read_group 8 (a_width s) (a_bits s)
                      | _ => if a_bufw s =? a_width s then (a_buf s, a_bits s) else read_group 8 (a_width s) (a_bits s)
                      end in
  (hd None buf, {| a_tab := a_tab s; a_next := a_next s; a_width := a_width s; a_last := a_last s; a_lfv := a_lfv s;
                   a_bits := bits; a_buf := tl buf; a_bufw := a_width s |}).

(* arc_unlzw_add *)
Definition lzw_add (maxw : Z) (s : ast) : ast :=
  match a_last s with
  | Some lc =>
    if a_next s <? 2 ^ maxw then
      let '(_, len, _) := aget (a_tab s) lc in
      let nx := a_next s + 1 in
      {| a_tab := aset (a_tab s) (a_next s) (lc, (if len =? 0 then 0 else len + 1), a_lfv s); a_next := nx;
         a_width := if (2 ^ a_width s <=? nx) && (a_width s <? maxw) then a_width s + 1 else a_width s;
         a_last := a_last s; a_lfv := a_lfv s; a_bits := a_bits s; a_buf := a_buf s; a_bufw := a_bufw s |}
    else s
  | None => s
  end.

(* arc_unlzw_get_length: 0 = failure *)
Fixpoint walk_len (fuel : nat) (t : atab) (maxcode : Z) (e : entry) (len : Z) : Z :=
  match fuel with O => 0 | S f =>
    if maxcode <=? len then 0 else
    let '(prev, _, _) := e in
    if prev <? 256 then len + 1 else walk_len f t maxcode (aget t prev) (len + 1)
  end.
Definition get_length (t : atab) (maxcode : Z) (e : entry) : Z :=
  let '(_, l, _) := e in if negb (l =? 0) then l else walk_len (Z.to_nat maxcode + 1) t maxcode e 1.

(* the `len` bytes of a code, first byte first, and that first byte *)
Fixpoint emit (n : nat) (t : atab) (e : entry) (acc : list Z) : list Z :=
  match n with O => acc | S k => let '(prev, _, v) := e in emit k t (aget t prev) (v :: acc) end.

Definition clear_lengths (t : atab) : atab := PositiveMap.map (fun e : entry => let '(p, _, v) := e in (p, 0, v)) t.

(* arc_unlzw_block over the whole stream.  limit: Some n = stop once n bytes are out (no RLE);  None = until the codes run out.
   Result: the bytes (reversed chunks are avoided: acc is newest-first), or None on a table error. *)
Fixpoint lzw_loop (fuel : nat) (maxw : Z) (dynamic : bool) (limit : option Z) (s : ast) (out : list Z) (outlen : Z) : option (list Z) :=
  match fuel with O => None | S f =>
  if match limit with Some n => n <=? outlen | None => false end then Some out else
  let '(oc, s1) := next_code s in
  match oc with
  | None => Some out
  | Some code =>
    if 2 ^ maxw <=? code then Some out
    else if dynamic && (code =? 256) then
      lzw_loop f maxw dynamic limit {| a_tab := clear_lengths (a_tab s1); a_next := 257; a_width := 9; a_last := None; a_lfv := a_lfv s1;
                                       a_bits := a_bits s1; a_buf := a_buf s1; a_bufw := a_bufw s1 |} out outlen
    else
      let kw := code =? a_next s1 in
      let s2 := if kw then lzw_add maxw s1 else s1 in
      let e := aget (a_tab s2) code in
      let len := get_length (a_tab s2) (2 ^ maxw) e in
      if len =? 0 then None else
      let str := emit (Z.to_nat len) (a_tab s2) e [] in
      let s3 := {| a_tab := a_tab s2; a_next := a_next s2; a_width := a_width s2; a_last := a_last s2; a_lfv := hd 0 str;
                   a_bits := a_bits s2; a_buf := a_buf s2; a_bufw := a_bufw s2 |} in
      let s4 := if kw then s3 else lzw_add maxw s3 in
      lzw_loop f maxw dynamic limit {| a_tab := a_tab s4; a_next := a_next s4; a_width := a_width s4; a_last := Some code; a_lfv := a_lfv s4;
                                       a_bits := a_bits s4; a_buf := a_buf s4; a_bufw := a_bufw s4 |} (rev_append str out) (outlen + len)
  end end.

Definition lzw_start (dynamic : bool) (src : list Z) : ast :=
  {| a_tab := PositiveMap.empty _; a_next := if dynamic then 257 else 256; a_width := 9; a_last := None; a_lfv := 0;
     a_bits := bits_of_bytes src; a_buf := []; a_bufw := 0 |}.

(* arc_unpack_lzw (init width 9): exactly dest_len bytes or failure *)
Definition unpack_lzw (maxw : Z) (dynamic : bool) (dest_len : Z) (src : list Z) : option (list Z) :=
  if (maxw <? 9) || (16 <? maxw) then None else
  match lzw_loop (8 * length src + 16) maxw dynamic (Some dest_len) (lzw_start dynamic src) [] 0 with
  | None => None
  | Some out => let o := rev_append out [] in
                if Z.of_nat (length o) <? dest_len then None else Some (firstn (Z.to_nat dest_len) o)
  end.

(* ---- the streaming RLE90 decoder (arc_unrle90_block) over the 8 KiB blocks of the LZW output *)
Record rst := { r_in_code : bool; r_last : Z; r_out : list Z (* newest first *); r_n : Z }.
(* one block; None = error *)
Fixpoint rle_block (fuel : nat) (dest_len : Z) (s : rst) (blk : list Z) : option rst :=
  match fuel with O => None | S f =>
  match blk with
  | [] => Some s
  | x :: t =>
    if r_in_code s then
      if x =? 0 then
        if dest_len <=? r_n s then None
        else rle_block f dest_len {| r_in_code := false; r_last := 144; r_out := 144 :: r_out s; r_n := r_n s + 1 |} t
      else
        let len := x - 1 in
        if dest_len <? r_n s + len then None
        else rle_block f dest_len {| r_in_code := false; r_last := r_last s; r_out := repeat (r_last s) (Z.to_nat len) ++ r_out s; r_n := r_n s + len |} t
    else if x =? 144 then rle_block f dest_len {| r_in_code := true; r_last := r_last s; r_out := r_out s; r_n := r_n s |} t
    else
      (* a run of literal bytes up to the next 0x90 or the end of the block *)
      let lits := (fix take (l : list Z) : list Z := match l with [] => [] | y :: u => if y =? 144 then [] else y :: take u end) blk in
      let rest := skipn (length lits) blk in
      let room := dest_len - r_n s in
      if room <? Z.of_nat (length lits) then
        if room =? 0 then Some s                                    (* "break": the rest of this block is dropped *)
        else rle_block f dest_len {| r_in_code := false; r_last := last lits 0; r_out := rev_append (firstn (Z.to_nat room) lits) (r_out s); r_n := dest_len |} rest
      else rle_block f dest_len {| r_in_code := false; r_last := last lits 0; r_out := rev_append lits (r_out s); r_n := r_n s + Z.of_nat (length lits) |} rest
  end end.

Fixpoint rle_blocks (fuel : nat) (dest_len : Z) (s : rst) (bytes : list Z) : option rst :=
  match fuel with O => None | S f =>
  match bytes with
  | [] => Some s
  | _ => match rle_block (S (length (firstn 8192 bytes))) dest_len s (firstn 8192 bytes) with
         | None => None
         | Some s' => rle_blocks f dest_len s' (skipn 8192 bytes)
         end
  end end.

(* arc_unpack_lzw_rle90 for method 8: the first byte of the stream is skipped, 9..12 bits *)
Definition unpack_crunched (dest_len : Z) (src : list Z) : option (list Z) :=
  match src with
  | _ :: _ :: _ =>
    let body := tl src in
    match lzw_loop (8 * length body + 16) 12 true None (lzw_start true body) [] 0 with
    | None => None
    | Some out =>
      let bytes := rev_append out [] in
      match rle_blocks (S (length bytes)) dest_len {| r_in_code := false; r_last := 0; r_out := []; r_n := 0 |} bytes with
      | None => None
      | Some s => if r_n s =? dest_len then Some (rev_append (r_out s) []) else None
      end
    end
  | _ => None
  end.

(* arc_unpack: methods 8 (crunched), 9 (squashed), 0xff/0x7f (compressed, width in the stream) *)
Definition arc_unpack (method : Z) (dest_len : Z) (src : list Z) : option (list Z) :=
  if method =? 8 then unpack_crunched dest_len src
  else if method =? 9 then unpack_lzw 13 true dest_len src
  else if method =? 127 then match src with w :: (_ :: _) as body => unpack_lzw w true dest_len body | _ => None end
  else None.

(* ---------------------------------------------------------------- a writer --------------------------------------------- *)
(* greedy LZW mirroring the decoder's numbering and widths.  State: dictionary (prefix code, byte) -> code, the next code the
   DECODER will define, the decoder's current width, the codes of the current group (to pad a group when the width changes). *)
Record aenc := { n_dict : PositiveMap.t Z; n_next : Z; n_width : Z; n_cnt : Z (* codes written in the current group *) }.

Definition emit_code (maxw : Z) (s : aenc) (code : Z) (defines : bool) : list bool * aenc :=
  (* write the code at the current width; then account for the entry the decoder adds after it (if `defines`) and a width change *)
  let bits := bits_of_z (Z.to_nat (n_width s)) code in
  let cnt := (n_cnt s + 1) mod 8 in
  if defines && (n_next s <? 2 ^ maxw) then
    let nx := n_next s + 1 in
    if (2 ^ n_width s <=? nx) && (n_width s <? maxw) then
      (* the decoder widens: it throws the rest of the current group of 8 codes away *)
      (bits ++ repeat false (Z.to_nat (((8 - cnt) mod 8) * n_width s)), {| n_dict := n_dict s; n_next := nx; n_width := n_width s + 1; n_cnt := 0 |})
    else (bits, {| n_dict := n_dict s; n_next := nx; n_width := n_width s; n_cnt := cnt |})
  else (bits, {| n_dict := n_dict s; n_next := n_next s; n_width := n_width s; n_cnt := cnt |}).

Fixpoint enc_loop (maxw : Z) (s : aenc) (cur : Z) (first : bool) (l : list Z) : list bool :=
  match l with
  | [] => fst (emit_code maxw s cur (negb first))
  | ch :: t =>
    match PositiveMap.find (dkey cur ch) (n_dict s) with
    | Some k => enc_loop maxw s k first t
    | None =>
      (* emitting `cur` makes the decoder define the entry (previous code, first byte of cur's string) - for the first code nothing -;
         the writer's own new entry (cur, ch) is the one the decoder defines at the NEXT code *)
      let '(bits, s1) := emit_code maxw s cur (negb first) in
      let defnum := if first then n_next s1 else n_next s1 in
      let s2 := if defnum <? 2 ^ maxw then {| n_dict := PositiveMap.add (dkey cur ch) defnum (n_dict s1); n_next := n_next s1; n_width := n_width s1; n_cnt := n_cnt s1 |} else s1 in
      bits ++ enc_loop maxw s2 ch false t
    end
  end.

Definition lzw_bits (maxw : Z) (l : list Z) : list bool :=
  match l with
  | [] => []
  | c :: t => enc_loop maxw {| n_dict := PositiveMap.empty _; n_next := 257; n_width := 9; n_cnt := 0 |} c true t
  end.
Definition lzw_bytes (maxw : Z) (l : list Z) : list Z := let b := lzw_bits maxw l in bytes_of_bits (S (length b)) b.

Definition pack_squashed (l : list Z) : list Z := lzw_bytes 13 l.
Definition pack_compressed (maxw : Z) (l : list Z) : list Z := maxw :: lzw_bytes maxw l.
Definition pack_crunched (rle : list Z -> list Z) (l : list Z) : list Z := 12 :: lzw_bytes 12 (rle l).
