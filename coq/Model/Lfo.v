(* C01: the low-frequency oscillators (src/lfo.c) and the random source they use (src/rng.c).

   An LFO holds a waveform type, a rate, a depth and a phase; libxmp_lfo_get reads sine_wave[phase] for the sine waveform - the
   only table access, here a checked one (None outside the 64 entries) - and libxmp_lfo_update steps the phase.  The table is
   regenerated from lfo.c on every run (Generated/MixTables.v).  The random waveform draws from the context's xorshift generator:
   32-bit unsigned arithmetic, written out with its wrap-around. *)
From Coq Require Import ZArith List Lia Bool.
Import ListNotations.
From LX Require Import Base.ListAux Generated.MixTables.
Local Open Scope Z_scope.

(* ---------------------------------------------------------------- rng.c *)
Definition u32 (x : Z) : Z := x mod 2 ^ 32.
Definition rng_step (st : Z) : Z :=
  let s0 := if st =? 0 then 1 else st in
  let s1 := Z.lxor s0 (u32 (Z.shiftl s0 13)) in
  let s2 := Z.lxor s1 (Z.shiftr s1 17) in
  u32 (Z.shiftl s2 5).
(* libxmp_get_random: (value, new state) *)
Definition get_random (st range : Z) : Z * Z :=
  let s := rng_step st in (Z.shiftr (range * s) 32, s).

(* ---------------------------------------------------------------- lfo.c *)
Record lfo := { l_type : Z; l_rate : Z; l_depth : Z; l_phase : Z }.
Definition WAVEFORM_SIZE : Z := 64.

(* result: value and the generator state afterwards; None = sine_wave[] read outside the table *)
Definition get_mod (rs : Z) (l : lfo) : option (Z * Z) :=
  if l_rate l =? 0 then Some (0, rs) else
  if l_type l =? 0 then match zget lfo_sine_wave (l_phase l) with Some v => Some (v * l_depth l, rs) | None => None end
  else if l_type l =? 1 then Some ((255 - l_phase l * 8) * l_depth l, rs)
  else if l_type l =? 2 then Some ((if l_phase l <? WAVEFORM_SIZE / 2 then 255 else -255) * l_depth l, rs)
  else if l_type l =? 3 then let '(r, rs') := get_random rs 512 in Some ((r - 256) * l_depth l, rs')
  else if l_type l =? 669 then Some (Z.land (l_phase l) 1 * l_depth l, rs)
  else Some (0, rs).

Definition get_st3 (rs : Z) (l : lfo) : option (Z * Z) :=
  if l_rate l =? 0 then Some (0, rs) else
  if l_type l =? 2 then Some ((if l_phase l <? WAVEFORM_SIZE / 2 then 255 else 0) * l_depth l, rs)
  else get_mod rs l.

Definition get_ft2 (rs : Z) (l : lfo) : option (Z * Z) :=
  if l_rate l =? 0 then Some (0, rs) else
  if l_type l =? 1 then
    let phase := Z.rem (l_phase l + WAVEFORM_SIZE / 2) WAVEFORM_SIZE in        (* C %: truncating *)
    Some ((phase * 8 - 255) * l_depth l, rs)
  else get_mod rs l.

Inductive rmode := RMod | RSt3 | RFt2 | RIt.
Definition lfo_get (mode : rmode) (is_vibrato : bool) (rs : Z) (l : lfo) : option (Z * Z) :=
  match mode with
  | RSt3 => get_st3 rs l
  | RFt2 => if is_vibrato then get_ft2 rs l else get_mod rs l
  | RIt => if l_rate l =? 0 then Some (0, rs) else get_st3 rs l
  | RMod => get_mod rs l
  end.

(* the operations the player performs on an LFO; the phase is only ever set to 0 (the two call sites in read_event.c; their
   argument texts are regenerated from the source as lfo_set_phase_args) *)
Inductive lop := Update | SetPhase0 | SetDepth (d : Z) | SetRate (r : Z) | SetWave (w : Z).
Definition lfo_op (l : lfo) (o : lop) : lfo :=
  match o with
  | Update => {| l_type := l_type l; l_rate := l_rate l; l_depth := l_depth l; l_phase := Z.land (l_phase l + l_rate l) (WAVEFORM_SIZE - 1) |}
  | SetPhase0 => {| l_type := l_type l; l_rate := l_rate l; l_depth := l_depth l; l_phase := 0 |}
  | SetDepth d => {| l_type := l_type l; l_rate := l_rate l; l_depth := d; l_phase := l_phase l |}
  | SetRate r => {| l_type := l_type l; l_rate := r; l_depth := l_depth l; l_phase := l_phase l |}
  | SetWave w => {| l_type := w; l_rate := l_rate l; l_depth := l_depth l; l_phase := l_phase l |}
  end.
Definition lfo_zero : lfo := {| l_type := 0; l_rate := 0; l_depth := 0; l_phase := 0 |}.    (* the channel data is zero-initialised *)
Definition phase_ok (l : lfo) : Prop := 0 <= l_phase l < WAVEFORM_SIZE.
