(* C15: the mixer's temporary patching of sample data around loop points (src/mixer.c init_sample_wraparound /
   reset_sample_wraparound) and the one sanctioned writer, the Protracker invert-loop effect (src/player.c
   update_invloop).  A sample block is a list of units (8- or 16-bit; stereo doubles the counts) indexed from the
   first unit of the block, i.e. including the guard frames in front of the data; `s`, `e` are the absolute
   indices of the loop start and end, `pn`, `en` the number of prologue / epilogue units. *)
From Coq Require Import ZArith List Lia Bool Arith.
Import ListNotations.
From LX Require Import Base.ListAux.

Definition geti (d : list Z) (i : nat) : Z := nth i d 0%Z.

(* memcpy(dst + a, l, |l|) *)
Definition restore (a : nat) (l : list Z) (d : list Z) : list Z := firstn a d ++ l ++ skipn (a + length l) d.

Record wpar := { w_s : nat; w_e : nat; w_pn : nat; w_en : nat; w_bidir : bool; w_first : bool }.
Record backup := { b_pro : list Z; b_epi : list Z }.

(* the two patch loops, in the order and with the read-after-write behaviour of the C *)
Definition patch_pro (p : wpar) (d : list Z) : list Z :=
  if w_first p then d
  else fold_left (fun d i => upd d (w_s p - w_pn p + i) (geti d (if w_bidir p then w_s p + w_pn p - 1 - i else w_e p + i - w_pn p))) (seq 0 (w_pn p)) d.
Definition patch_epi (p : wpar) (d : list Z) : list Z :=
  fold_left (fun d i => upd d (w_e p + i) (geti d (if w_bidir p then w_e p - 1 - i else w_s p + i))) (seq 0 (w_en p)) d.

Definition wrap_init (p : wpar) (d : list Z) : list Z * backup :=
  let b := {| b_pro := firstn (w_pn p) (skipn (w_s p - w_pn p) d); b_epi := firstn (w_en p) (skipn (w_e p) d) |} in
  (patch_epi p (patch_pro p d), b).

Definition wrap_reset (p : wpar) (b : backup) (d : list Z) : list Z :=
  restore (w_e p) (b_epi b) (restore (w_s p - w_pn p) (b_pro b) d).

Definition wpar_okb (p : wpar) (len : nat) : bool :=
  (w_pn p <=? w_s p) && (w_s p <=? w_e p) && (w_e p + w_en p <=? len).

(* ---- the per-tick protocol: every voice patches, mixes, restores ---- *)
Inductive wev := WInit (smp : nat) (p : wpar) | WSkip | WReset.

Record wstate := { ws_smps : list (list Z); ws_cur : option (option (nat * wpar * backup)) (* None: no ld; Some None: inactive ld; Some (Some _): patched *) ; ws_err : bool }.

Definition wstep (st : wstate) (e : wev) : wstate :=
  match e, ws_cur st with
  | WInit smp p, None =>
      let d := nth smp (ws_smps st) [] in
      if wpar_okb p (length d) && (smp <? length (ws_smps st)) then
        let '(d', b) := wrap_init p d in
        {| ws_smps := upd (ws_smps st) smp d'; ws_cur := Some (Some (smp, p, b)); ws_err := ws_err st |}
      else {| ws_smps := ws_smps st; ws_cur := ws_cur st; ws_err := true |}
  | WSkip, None => {| ws_smps := ws_smps st; ws_cur := Some None; ws_err := ws_err st |}
  | WReset, Some None => {| ws_smps := ws_smps st; ws_cur := None; ws_err := ws_err st |}
  | WReset, Some (Some (smp, p, b)) =>
      {| ws_smps := upd (ws_smps st) smp (wrap_reset p b (nth smp (ws_smps st) [])); ws_cur := None; ws_err := ws_err st |}
  | _, _ => {| ws_smps := ws_smps st; ws_cur := ws_cur st; ws_err := true |}     (* a patch over a patch, or a restore with nothing to restore *)
  end.

Definition wrun (smps : list (list Z)) (evs : list wev) : wstate :=
  fold_left wstep evs {| ws_smps := smps; ws_cur := None; ws_err := false |}.

(* ---- invert loop: position update and the index written ---- *)
Definition invloop_next (pos len : Z) : Z := if (len <? pos + 1)%Z then 0%Z else (pos + 1)%Z.
Definition invloop_index (lps pos len : Z) : Z := (lps + invloop_next pos len)%Z.

(* the control flow of wrun depends only on the block lengths: a cheap checker for long event logs *)
Definition sstep (lens : list nat) (st : option bool * bool) (e : wev) : option bool * bool :=
  match e, fst st with
  | WInit smp p, None => if wpar_okb p (nth smp lens 0) && (smp <? length lens) then (Some true, snd st) else (fst st, true)
  | WSkip, None => (Some false, snd st)
  | WReset, Some _ => (None, snd st)
  | _, _ => (fst st, true)
  end.
Definition srun (lens : list nat) (evs : list wev) : option bool * bool := fold_left (sstep lens) evs (None, false).
Definition protocol_okb (lens : list nat) (evs : list wev) : bool :=
  match srun lens evs with (None, false) => true | _ => false end.
