(* C06: a process holding several player contexts.  Each API call is a step of the state machine of ONE context
   (src/control.c, src/player.c, src/load.c ... all take the context as their first argument); the only state
   outside the contexts is the list of writable objects in the library's .data/.bss, re-extracted from the compiled
   objects on every run (Generated/Globals.v): lazily built constant tables (written once with values that do not
   depend on who builds them) and the verification hooks' own variables. *)
From Coq Require Import List Arith Bool String Lia.
Import ListNotations.
From LX Require Import Generated.Globals.

Section Sys.
Variables (S C O : Type).
Variable step : S -> C -> S * O.              (* one API call on one context *)

(* a system of contexts: context i has state st i; a schedule is the global order of the calls *)
Definition upds (st : nat -> S) (i : nat) (s : S) : nat -> S := fun j => if Nat.eqb j i then s else st j.

Fixpoint run_sys (st : nat -> S) (sched : list (nat * C)) : list (nat * O) :=
  match sched with
  | [] => []
  | (i, c) :: t => let '(s', o) := step (st i) c in (i, o) :: run_sys (upds st i s') t
  end.

Fixpoint run_one (s : S) (cs : list C) : list O :=
  match cs with [] => [] | c :: t => let '(s', o) := step s c in o :: run_one s' t end.

Definition calls_of (i : nat) (sched : list (nat * C)) : list C := map snd (filter (fun p => Nat.eqb (fst p) i) sched).
Definition outs_of (i : nat) (outs : list (nat * O)) : list O := map snd (filter (fun p => Nat.eqb (fst p) i) outs).

(* ---- shared lazily-initialised tables: G is their content, ginit builds them (idempotent), every call may trigger
        the build and reads only the built tables ---- *)
Variable G : Type.
Variable ginit : G -> G.
Variable gstep : G -> S -> C -> S * O.        (* a call that sees the tables *)

Fixpoint run_sys_g (g : G) (st : nat -> S) (sched : list (nat * C)) : list (nat * O) :=
  match sched with
  | [] => []
  | (i, c) :: t => let g' := ginit g in let '(s', o) := gstep g' (st i) c in (i, o) :: run_sys_g g' (upds st i s') t
  end.
End Sys.

(* ---- the shared state the compiled library actually has ---- *)
Definition allowed_globals : list (string * string) :=
  [("control", "xmp_version");                 (* constant string pointer, never written after load time *)
   ("format", "_farray");                      (* xmp_get_format_list: table of constant name pointers built on first use *)
   ("load", "libxmp_verif_pregate");           (* verification hook H1 *)
   ("loaders_vorbis", "crc_table");            (* stb_vorbis CRC table built on first use *)
   ("mixer", "libxmp_verif_wraparound.ld");    (* verification hook H2 *)
   ("mixer", "libxmp_verif_mixer_iters");      (* verification hook H5 *)
   ("mixer", "libxmp_verif_wraplog");          (* verification hook H2 *)
   ("scan", "libxmp_verif_scanlog");           (* verification hook H3 *)
   ("scan", "libxmp_verif_seqlog");            (* verification hook H6 *)
   ("player", "libxmp_verif_seqstep")]%string. (* verification hook H7 *)

Definition pair_eqb (a b : string * string) : bool := String.eqb (fst a) (fst b) && String.eqb (snd a) (snd b).
Definition subset_of (l m : list (string * string)) : bool := forallb (fun x => existsb (pair_eqb x) m) l.

(* schedules: all interleavings of two call lists (used by the tie to enumerate) *)
Fixpoint interleavings {A} (fuel : nat) (a b : list A) : list (list (bool * A)) :=
  match fuel with
  | O => []
  | Datatypes.S f =>
      match a, b with
      | [], [] => [[]]
      | x :: a', [] => map (cons (true, x)) (interleavings f a' [])
      | [], y :: b' => map (cons (false, y)) (interleavings f [] b')
      | x :: a', y :: b' => map (cons (true, x)) (interleavings f a' b) ++ map (cons (false, y)) (interleavings f a b')
      end
  end.
