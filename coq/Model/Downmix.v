(* Model of downmix_int_8bit / downmix_int_16bit (src/mixer.c) and of the
   tick-size computation (libxmp_mixer_get_ticksize / libxmp_mixer_prepare).
   Values are the *encoded* output units: bytes 0..255 for 8-bit output and
   words 0..65535 for 16-bit output (what lands in the caller's buffer). *)
From Coq Require Import ZArith Lia Bool.
From LX Require Import Base.IntWrap Generated.Consts.
Local Open Scope Z_scope.

Definition DOWNMIX_SHIFT := 12.
Definition XMP_MAX_FRAMESIZE := C_XMP_MAX_FRAMESIZE.   (* 24585 = 5 * XMP_MAX_SRATE * 2 / XMP_MIN_BPM; re-extracted from include/xmp.h on every run *)

(* pre-clipping value: smp = *src >> shift *)
Definition pre16 (amp x : Z) : Z := Z.shiftr x (DOWNMIX_SHIFT - amp).
Definition pre8  (amp x : Z) : Z := Z.shiftr x (DOWNMIX_SHIFT + 8 - amp).

(* the signed sample after the clamp *)
Definition clip16 (amp x : Z) : Z := clamp (-32768) 32767 (pre16 amp x).
Definition clip8  (amp x : Z) : Z := clamp (-128) 127 (pre8 amp x).

(* stored value: "*dest = smp; if (offs) *dest += offs;" on int16 / char, read back as the unsigned encoding *)
Definition down16 (amp offs x : Z) : Z := uwrap16 (wrap16 (clip16 amp x) + offs).
Definition down8  (amp offs x : Z) : Z := uwrap8 (wrap8 (clip8 amp x) + offs).

(* the same as signed C values (int16 / signed char) *)
Definition down16s (amp offs x : Z) : Z := wrap16 (wrap16 (clip16 amp x) + offs).
Definition down8s  (amp offs x : Z) : Z := wrap8 (wrap8 (clip8 amp x) + offs).

(* libxmp_mixer_get_ticksize with time_factor*rrate given as the exact rational tfn/tfd
   (the C computes in double; see DESIGN "Doubles"); then the clamp of libxmp_mixer_prepare. *)
Definition get_ticksize (freq tfn tfd bpm : Z) : Z :=
  if (freq <=? 0) || (bpm <=? 0) || (tfn <=? 0) || (tfd <=? 0) then -1
  else let calc := (freq * tfn) / (tfd * bpm * 1000) in
       if 2147483647 <? calc then -1
       else if calc <? 8 then 8 else calc.

Definition prepare_ticksize (freq tfn tfd bpm : Z) : Z :=
  let t := get_ticksize freq tfn tfd bpm in
  if (t <? 0) || (XMP_MAX_FRAMESIZE / 2 <? t) then XMP_MAX_FRAMESIZE / 2 else t.

(* number of output units (mixer.c "Render final frame") and bytes reported by xmp_get_frame_info *)
Definition out_units (mono : bool) (ticksize : Z) : Z :=
  let size := if mono then ticksize else ticksize * 2 in
  if XMP_MAX_FRAMESIZE <? size then XMP_MAX_FRAMESIZE else size.

Definition buffer_size (mono eightbit : bool) (ticksize : Z) : Z :=
  let s := ticksize in
  let s := if mono then s else s * 2 in
  if eightbit then s else s * 2.
