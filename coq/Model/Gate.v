(* Model of what load_module does to a loader's result before declaring it loaded:
   the sanity gate (src/load.c), libxmp_load_epilogue and libxmp_prepare_scan (src/load_helpers.c).
   Input and output are module dumps (Model/ModuleWf.v); sequences are computed later by the scan. *)
From Coq Require Import ZArith List Lia Bool.
Import ListNotations.
From LX Require Import Base.ListAux Generated.Consts Model.ModuleWf.
Local Open Scope Z_scope.

Record raw := { r_m : mdump; r_has_xxp : bool; r_has_xxt : bool }.

Definition clampz (lo hi x : Z) : Z := if x <? lo then lo else if hi <? x then hi else x.
Definition clr (f mask : Z) : Z := Z.land f (Z.lnot mask).

(* ---- the sanity gate: true = "goto err_load" *)
Definition gate_rejects (r : raw) : bool :=
  let m := r_m r in
  (C_XMP_MAX_CHANNELS <? d_chn m) || (C_XMP_MAX_MOD_LENGTH <? d_len m) ||
  existsb (fun c => (fst c <? 0) || (255 <? fst c) || (snd c <? 0) || (255 <? snd c)) (firstn (Z.to_nat (d_chn m)) (d_chans m)) ||
  negb (r_has_xxp r) ||
  existsb (fun op => match op with
                     | None => true
                     | Some p => existsb (fun t => (t <? 0) || (d_trk m <=? t) ||
                                                   match zget (d_trks m) t with Some (Some _) => false | _ => true end)
                                         (firstn (Z.to_nat (d_chn m)) (p_index p))
                     end) (firstn (Z.to_nat (d_pat m)) (d_pats m)).

(* ---- epilogue *)
Definition check_envelope (e : env) : env :=
  let f := e_flg e in
  let f := if (e_npt e <=? 0) || (C_XMP_MAX_ENV_POINTS <? e_npt e) then clr f C_XMP_ENVELOPE_ON else f in
  let f := if (e_npt e <=? e_lps e) || (e_npt e <=? e_lpe e) then clr f C_XMP_ENVELOPE_LOOP else f in
  let f := if (e_npt e <=? e_sus e) || (e_npt e <=? e_sue e) then clr f C_XMP_ENVELOPE_SUS else f in
  {| e_flg := f; e_npt := e_npt e; e_sus := e_sus e; e_sue := e_sue e; e_lps := e_lps e; e_lpe := e_lpe e |}.

Definition fix_instr (i : instr) : instr :=
  {| i_nsm := i_nsm i; i_sub := i_sub i; i_name_ok := i_name_ok i;
     i_aei := check_envelope (i_aei i); i_pei := check_envelope (i_pei i); i_fei := check_envelope (i_fei i) |}.

Definition fix_sample (s : sample) : sample :=
  let sus := if sm_sus s <? 0 then 0 else sm_sus s in
  let sue := if sm_len s <? sm_sue s then sm_len s else sm_sue s in
  if (sm_len s <=? sus) || (sue <=? sus)
  then {| sm_len := sm_len s; sm_lps := sm_lps s; sm_lpe := sm_lpe s; sm_flg := clr (sm_flg s) (Z.lor C_XMP_SAMPLE_SLOOP C_XMP_SAMPLE_SLOOP_BIDIR);
          sm_data := sm_data s; sm_name_ok := sm_name_ok s; sm_sus := 0; sm_sue := 0 |}
  else {| sm_len := sm_len s; sm_lps := sm_lps s; sm_lpe := sm_lpe s; sm_flg := sm_flg s;
          sm_data := sm_data s; sm_name_ok := sm_name_ok s; sm_sus := sus; sm_sue := sue |}.

Definition epilogue (m : mdump) : mdump :=
  let len := clampz 0 C_XMP_MAX_MOD_LENGTH (d_len m) in
  let pat := clampz 0 257 (d_pat m) in
  let ins := clampz 0 255 (d_ins m) in
  let smp := clampz 0 1024 (d_smp m) in
  let chn := clampz 0 C_XMP_MAX_CHANNELS (d_chn m) in
  {| d_chn := chn; d_len := len; d_pat := pat; d_trk := d_trk m; d_ins := ins; d_smp := smp;
     d_spd := if (d_spd m <=? 0) || (255 <? d_spd m) then 6 else d_spd m;
     d_bpm := clampz C_XMP_MIN_BPM 1000 (d_bpm m);
     d_rst := if len <=? d_rst m then 0 else d_rst m;
     d_name_ok := d_name_ok m; d_type_ok := d_type_ok m;
     d_xxo := firstn (Z.to_nat len) (d_xxo m);
     d_chans := firstn (Z.to_nat chn) (d_chans m);
     d_pats := firstn (Z.to_nat pat) (d_pats m);
     d_trks := d_trks m;
     d_inss := map fix_instr (firstn (Z.to_nat ins) (d_inss m));
     d_smps := map fix_sample (firstn (Z.to_nat smp) (d_smps m));
     d_seqs := d_seqs m |}.

(* ---- libxmp_prepare_scan: orders naming no pattern are skipped at the start; none left -> empty order list *)
Definition prepare_scan (r : raw) (m : mdump) : option mdump :=
  if negb (r_has_xxp r) || negb (r_has_xxt r) then None
  else if existsb (fun o => o <? d_pat m) (d_xxo m) then Some m
  else Some {| d_chn := d_chn m; d_len := 0; d_pat := d_pat m; d_trk := d_trk m; d_ins := d_ins m; d_smp := d_smp m;
               d_spd := d_spd m; d_bpm := d_bpm m; d_rst := d_rst m; d_name_ok := d_name_ok m; d_type_ok := d_type_ok m;
               d_xxo := []; d_chans := d_chans m; d_pats := d_pats m; d_trks := d_trks m; d_inss := d_inss m; d_smps := d_smps m; d_seqs := d_seqs m |}.

(* None = the load fails (-XMP_ERROR_LOAD) *)
Definition finish (r : raw) : option mdump :=
  if gate_rejects r then None else prepare_scan r (epilogue (r_m r)).

(* libxmp_scan_sequences, which load_module runs next, can still fail the load: the scan of sequence 0 walks the order list from
   order 0 and skips orders that name no pattern; with end markers (QUIRK_MARKER: S3M, IT) an 0xff entry that names no pattern
   ends it, and a scan that ends before any order holding a pattern returns -1 ("not able to find any valid orders", scan.c:730) *)
Fixpoint reaches_pattern (pat : Z) (l : list Z) : bool :=
  match l with [] => false | o :: t => if o <? pat then true else if o =? 255 then false else reaches_pattern pat t end.
Definition scan_finds (marker : bool) (m : mdump) : bool :=
  (d_len m =? 0) || negb marker || reaches_pattern (d_pat m) (firstn (Z.to_nat (d_len m)) (d_xxo m)).
(* None = the load fails (-XMP_ERROR_LOAD) *)
Definition load_accepts (r : raw) (marker : bool) : option mdump :=
  match finish r with Some m => if scan_finds marker m then Some m else None | None => None end.

(* what loaders must provide and the gate does not check (each clause is evaluated on real loader output by the tie) *)
Definition env_nonneg (e : env) : bool := (0 <=? e_lps e) && (0 <=? e_lpe e) && (0 <=? e_sus e) && (0 <=? e_sue e).
Definition loader_postb (r : raw) : bool :=
  let m := r_m r in
  (0 <=? d_chn m) && (0 <=? d_len m) && (0 <=? d_pat m) && (0 <=? d_ins m) && (0 <=? d_smp m) && (0 <=? d_trk m) && (0 <=? d_rst m) &&
  (d_pat m <=? 257) && (d_ins m <=? 255) && (d_smp m <=? 1024) &&
  (* tables allocated to the declared counts *)
  forallb (fun o => (0 <=? o) && (o <=? 255)) (d_xxo m) &&   (* unsigned char xxo[] *)
  (zlen (d_xxo m) =? d_len m) && (zlen (d_pats m) =? d_pat m) && (zlen (d_trks m) =? d_trk m) &&
  (zlen (d_inss m) =? d_ins m) && (zlen (d_smps m) =? d_smp m) && (d_chn m <=? zlen (d_chans m)) &&
  (* patterns and tracks come from the allocation helpers: rows >= 1, one index per channel *)
  forallb (fun op => match op with Some p => (1 <=? p_rows p) && (zlen (p_index p) =? d_chn m) | None => true end) (d_pats m) &&
  forallb (fun ot => match ot with Some rws => 1 <=? rws | None => true end) (d_trks m) &&
  (* instruments, samples, names *)
  forallb (fun i => (0 <=? i_nsm i) && (if 0 <? i_nsm i then i_sub i else true) && i_name_ok i &&
                    env_nonneg (i_aei i) && env_nonneg (i_pei i) && env_nonneg (i_fei i)) (d_inss m) &&
  forallb (fun s => sm_name_ok s &&
                    (if sm_data s then (0 <=? sm_lps s) && (sm_lps s <=? sm_lpe s) && (sm_lpe s <=? sm_len s) &&
                                       (if has (sm_flg s) C_XMP_SAMPLE_LOOP then sm_lps s <? sm_lpe s else true) else true)) (d_smps m) &&
  d_name_ok m && d_type_ok m.
