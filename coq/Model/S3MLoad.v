(* C03: what the Scream Tracker 3 loader (src/loaders/s3m_load.c) hands to load_module, as the raw module dump that the gate model
   takes - the fourth loader for which the loader post-condition is proved.  S3M reaches its patterns, instrument headers and
   sample data through 16-byte "parapointers" taken from the file, so every one of them is a seek to an arbitrary place (clamped to
   the end of the data by the memory stream) followed by reads that may run into the end; the packed pattern loop is the one of
   Model/PatCodecs.v (C19), entered with the stream's sticky error flag as the 16-bit length read left it.  Structure only: events
   are C19's subject.  None = s3m_load returns -1 (or the format test fails). *)
From Coq Require Import ZArith List Lia Bool.
Import ListNotations.
From LX Require Import Base.ListAux Generated.Consts Model.SampleLoad Model.ModuleWf Model.Gate Model.ModLoad Model.C669Load Model.MtmLoad Model.PatCodecs.
Local Open Scope Z_scope.

Definition le16 (l : list Z) (o : nat) : Z := nth o l 0 + 256 * nth (o + 1) l 0.
Definition le32 (l : list Z) (o : nat) : Z := nth o l 0 + 256 * nth (o + 1) l 0 + 65536 * nth (o + 2) l 0 + 16777216 * nth (o + 3) l 0.
Definition seek_set (file : list Z) (ofs : Z) : Z := Z.min ofs (zlen file).          (* mseek: clamped to the size *)

(* n 16-bit values *)
Fixpoint read_pp (n : nat) (file : list Z) (pos : Z) : list Z * Z :=
  match n with O => ([], pos) | S k => let '(v, p1) := rd16l file pos in let '(r, p) := read_pp k file p1 in (v :: r, p) end.

(* the 32 default-pan bytes: the pan of channel i becomes (x << 4) & 0xff when bit 5 of x is set *)
Fixpoint read_pans (n : nat) (file : list Z) (pos : Z) : list (option Z) * Z :=
  match n with O => ([], pos) | S k =>
    let '(x, p1) := C669Load.rd8 file pos in let '(r, p) := read_pans k file p1 in
    ((if Z.testbit x 5 then Some ((x * 16) mod 256) else None) :: r, p) end.

(* s3m_load.c:486-541: every pattern with a non-zero parapointer is parsed; a read error noticed by the loop fails the load *)
Fixpoint check_pats (pps : list Z) (chn : Z) (file : list Z) : bool :=
  match pps with
  | [] => true
  | pp :: t =>
    (if pp =? 0 then true else
       let pos := seek_set file (pp * 16) in
       let err0 := avail file pos <? 2 in
       let '(plr, p1) := rd16l file pos in
       let l := skipn (Z.to_nat p1) file in
       match s3m_loop (S (length l)) chn 64 (plr - 2) 0 (repeat ev0 (Z.to_nat chn)) [] l err0 with None => false | Some _ => true end)
    && check_pats t chn file
  end.

Definition scri : list Z := [83; 67; 82; 73].
Definition scrs : list Z := [83; 67; 82; 83].

(* s3m_load.c:553-680: instrument i (header at its parapointer, sample data at its segment) *)
Definition s3m_ins (ffi : Z) (file : list Z) (pp : Z) : option (instr * sample) :=
  let '(buf, _) := rdn file (seek_set file (pp * 16)) 80 in
  if negb (zlen buf =? 80) then None else
  let mk nsm := {| i_nsm := nsm; i_sub := true; i_name_ok := true; i_aei := noenv; i_pei := noenv; i_fei := noenv |} in
  if 2 <=? nth 0 buf 0 then
    if negb (list_eqb (firstn 4 (skipn 76 buf)) scri) then None
    else Some (mk 1, as_sample {| SampleLoad.s_len := 0; s_lps := 0; s_lpe := 0; s_flg := 0 |} false)
  else
    let len := le32 buf 16 in
    if C_MAX_SAMPLE_SIZE <? len then None else
    if (nth 0 buf 0 =? 1) && negb (list_eqb (firstn 4 (skipn 76 buf)) scrs) then None else
    let fl := nth 31 buf 0 in
    let flg := Z.lor (Z.lor (if Z.testbit fl 0 then C_XMP_SAMPLE_LOOP else 0) (if Z.testbit fl 1 then C_XMP_SAMPLE_STEREO else 0))
                     (if Z.testbit fl 2 then C_XMP_SAMPLE_16BIT else 0) in
    let s0 := {| SampleLoad.s_len := len; s_lps := to_int32 (le32 buf 20); s_lpe := to_int32 (le32 buf 24); s_flg := flg |} in
    let lflags := if nth 30 buf 0 =? 4 then C_SAMPLE_FLAG_ADPCM else if ffi =? 1 then 0 else C_SAMPLE_FLAG_UNS in
    let seg := le16 buf 14 + 65536 * nth 13 buf 0 in
    match load_sample false lflags s0 file (seek_set file (16 * seg)) [] with
    | Failed => None
    | NoData s' _ => Some (mk (if 0 <? len then 1 else 0), as_sample s' false)
    | Loaded s' _ _ => Some (mk (if 0 <? len then 1 else 0), as_sample s' true)
    end.

Fixpoint s3m_inss (ffi : Z) (file : list Z) (pps : list Z) : option (list instr * list sample) :=
  match pps with
  | [] => Some ([], [])
  | pp :: t =>
    match s3m_ins ffi file pp with None => None | Some (i, s) =>
    match s3m_inss ffi file t with None => None | Some (is, ss) => Some (i :: is, s :: ss) end end
  end.

(* the channel count: one more than the last channel that is not switched off *)
Fixpoint last_on (chset : list Z) (i acc : Z) : Z :=
  match chset with [] => acc | c :: t => last_on t (i + 1) (if c =? 255 then acc else i + 1) end.

Definition max_pat (xxo : list Z) : Z := fold_left (fun acc o => if (o <? 254) && (acc <? o) then o else acc) xxo (-1).

Definition s3m_test (file : list Z) : bool :=
  list_eqb (firstn 4 (skipn 44 file)) [83; 67; 82; 77] && (fst (C669Load.rd8 file (seek_set file 29)) =? 16).

Definition s3m_raw (file : list Z) : option raw :=
  if negb (s3m_test file) then None else
  if zlen file <? 96 then None else
  let buf := firstn 96 file in
  let ordnum := le16 buf 32 in let insnum := le16 buf 34 in let patnum := le16 buf 36 in let ffi := le16 buf 42 in
  if negb ((ffi =? 1) || (ffi =? 2)) then None else
  if (255 <? ordnum) || (255 <? insnum) || (255 <? patnum) then None else
  let mv := nth 51 buf 0 in let dp := nth 53 buf 0 in
  let chset := firstn 32 (skipn 64 buf) in
  let stereo := if ffi =? 1 then Z.testbit mv 4 else if (mv =? 2) || (mv =? 18) then Z.testbit mv 4 else Z.testbit mv 7 in
  let chn := last_on chset 0 0 in
  let '(xxo, p1) := rdn file 96 ordnum in
  if negb (zlen xxo =? ordnum) then None else
  let pat := Z.min (max_pat xxo + 1) patnum in
  if pat =? 0 then None else
  let '(pp_ins, p2) := read_pp (Z.to_nat insnum) file p1 in
  let '(pp_pat, p3) := read_pp (Z.to_nat patnum) file p2 in
  let '(pans, p4) := if dp =? 252 then read_pans 32 file p3 else (repeat None 32, p3) in
  if negb (check_pats (firstn (Z.to_nat pat) pp_pat) chn file) then None else
  match s3m_inss ffi file pp_ins with
  | None => None
  | Some (inss, smps) =>
    Some {| r_m := {| d_chn := chn; d_len := ordnum; d_pat := pat; d_trk := pat * chn; d_ins := insnum; d_smp := insnum;
                      d_spd := nth 49 buf 0; d_bpm := nth 50 buf 0; d_rst := 0;
                      d_name_ok := true; d_type_ok := true;
                      d_xxo := xxo;
                      d_chans := map (fun i =>
                                   let dflt := ((Z.of_nat i + 1) / 2) mod 2 * 255 in
                                   let c := nth i chset 255 in
                                   let p0 := if (i <? 32)%nat && negb (c =? 255)
                                             then (if stereo && (Z.land c 31 <? 16) then (if Z.land c 31 <? 8 then 48 else 192) else 128) else dflt in
                                   (64, match nth i pans None with Some p => p | None => p0 end)) (seq 0 64);
                      d_pats := map (fun p => Some {| p_rows := 64; p_index := map (fun c => Z.of_nat p * chn + Z.of_nat c) (seq 0 (Z.to_nat chn)) |}) (seq 0 (Z.to_nat pat));
                      d_trks := repeat (Some 64) (Z.to_nat (pat * chn));
                      d_inss := inss;
                      d_smps := smps;
                      d_seqs := [] |};
            r_has_xxp := true; r_has_xxt := true |}
  end.
