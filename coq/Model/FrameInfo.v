(* The C16 predicate: what xmp_get_frame_info must report after every successful xmp_play_frame,
   as an executable boolean over the public module shape, the output configuration and the frame info. *)
From Coq Require Import ZArith List Lia Bool.
Import ListNotations.
From LX Require Import Base.ListAux Generated.Consts Model.Downmix.
Local Open Scope Z_scope.

Record modshape := { ms_len : Z; ms_xxo : list Z; ms_rows : list Z (* rows of each pattern *); ms_nseq : Z }.
Record outcfg := { oc_rate : Z; oc_mono : bool; oc_8bit : bool; oc_tfn : Z; oc_tfd : Z (* time_factor*rrate as a rational *) }.
Record finfo := {
  fi_pos : Z; fi_pattern : Z; fi_row : Z; fi_num_rows : Z; fi_frame : Z; fi_speed : Z; fi_bpm : Z;
  fi_frame_time : Z; fi_buffer_size : Z; fi_total_size : Z; fi_loop_count : Z;
  fi_virt_channels : Z; fi_virt_used : Z; fi_sequence : Z }.

Definition position_okb (m : modshape) (f : finfo) : bool :=
  (0 <=? fi_pos f) && (fi_pos f <? ms_len m) &&
  match zget (ms_xxo m) (fi_pos f) with
  | Some pat => (fi_pattern f =? pat) &&
                match zget (ms_rows m) pat with
                | Some rows => (fi_num_rows f =? rows) && (0 <=? fi_row f) && (fi_row f <? rows)
                | None => false     (* not a real pattern *)
                end
  | None => false
  end.

Definition tempo_okb (f : finfo) : bool :=
  (1 <=? fi_speed f) && (fi_speed f <=? 255) && (0 <? fi_bpm f) && (0 <? fi_frame_time f) && (0 <=? fi_frame f).

(* whole frames; equal to the model's tick size for (rate, time factor, tempo), i.e. rate x frame time
   unless the 8-frame floor or the cap applies; at most XMP_MAX_FRAMESIZE/2 sample frames *)
Definition buffer_okb (c : outcfg) (f : finfo) : bool :=
  let t := prepare_ticksize (oc_rate c) (oc_tfn c) (oc_tfd c) (fi_bpm f) in
  (fi_buffer_size f =? buffer_size (oc_mono c) (oc_8bit c) t) &&
  (fi_total_size f =? XMP_MAX_FRAMESIZE).
(* the reported frame time (microseconds) is the tick duration time_factor*rrate/tempo of the *current* tempo - the same
   quantity the buffer size was computed from, so buffer size and sampling rate x frame time agree (one microsecond of
   slack for the double -> int conversion) *)
Definition frametime_okb (c : outcfg) (f : finfo) : bool :=
  let ft := (oc_tfn c * 1000) / (oc_tfd c * fi_bpm f) in
  (ft - 1 <=? fi_frame_time f) && (fi_frame_time f <=? ft + 1).

(* the documented bound in the unit the documentation uses (bytes) *)
Definition buffer_bytes_within_limit (f : finfo) : bool := fi_buffer_size f <=? XMP_MAX_FRAMESIZE.

Definition voices_okb (f : finfo) : bool :=
  (0 <=? fi_virt_used f) && (fi_virt_used f <=? fi_virt_channels f).
Definition sequence_okb (m : modshape) (f : finfo) : bool := (0 <=? fi_sequence f) && (fi_sequence f <? ms_nseq m).

Definition frame_info_okb (m : modshape) (c : outcfg) (f : finfo) : bool :=
  position_okb m f && tempo_okb f && buffer_okb c f && frametime_okb c f && voices_okb f && sequence_okb m f.

(* between position-control calls the loop counter never decreases *)
Fixpoint loops_nondecreasing (prev : Z) (l : list Z) : bool :=
  match l with [] => true | x :: t => (prev <=? x) && loops_nondecreasing x t end.
