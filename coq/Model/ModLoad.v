(* C03: what the Protracker loader (src/loaders/mod_load.c) hands to load_module for a file with the "M.K." signature, as the raw
   module dump that the gate model (Model/Gate.v) takes: the structure only - counts, order list, pattern and track tables,
   instruments, and for every sample its length / loop / flags after libxmp_load_sample (Model/SampleLoad.v) has seen the data
   that is really there.  The tracker-detection heuristics of the loader decide one thing that reaches this structure - whether
   the "Protracker loop" convention applies (ptkloop) - and are left as a parameter; Mod's Grave .WOW files (eight channels behind
   an M.K. signature, recognised by the file size) and Protracker song files (no sample data, recognised by the file size) are
   followed.  The file is loaded from memory, so a song file's companions are not found.
   None = mod_load returns -1. *)
From Coq Require Import ZArith List Lia Bool.
Import ListNotations.
From LX Require Import Base.ListAux Generated.Consts Model.ModCodec Model.SampleLoad Model.ModuleWf Model.Gate.
Local Open Scope Z_scope.

(* mod_load.c:614-621 *)
Definition mod_smp0 (i : minst) : smp :=
  let len := 2 * i_len i in
  let lps := 2 * i_lps i in
  let lpe0 := lps + 2 * i_lpl i in
  let lpe := if len <? lpe0 then len else lpe0 in
  {| SampleLoad.s_len := len; s_lps := lps; s_lpe := lpe; s_flg := if (1 <? i_lpl i) && (4 <=? lpe) then C_XMP_SAMPLE_LOOP else 0 |}.

Definition as_sample (s : smp) (data : bool) : sample :=
  {| sm_len := SampleLoad.s_len s; sm_lps := s_lps s; sm_lpe := s_lpe s; sm_flg := s_flg s; sm_data := data; sm_name_ok := true; sm_sus := 0; sm_sue := 0 |}.

Definition adpcm_tag : list Z := [65; 68; 80; 67; 77].       (* "ADPCM" *)
Fixpoint list_eqb (a b : list Z) : bool :=
  match a, b with [], [] => true | x :: ta, y :: tb => (x =? y) && list_eqb ta tb | _, _ => false end.

(* mod_load.c:1040-1083: the samples, in order, from file position `pos` *)
Fixpoint load_smps (ptkloop ptsong : bool) (ins : list minst) (file : list Z) (pos : Z) : option (list sample) :=
  match ins with
  | [] => Some []
  | i :: t =>
    let s0 := mod_smp0 i in
    if SampleLoad.s_len s0 =? 0 then
      match load_smps ptkloop ptsong t file pos with None => None | Some r => Some (as_sample s0 false :: r) end
    else if ptsong then
      match load_smps ptkloop ptsong t file pos with None => None | Some r => Some (as_sample s0 false :: r) end
    else
      let tag := firstn 5 (skipn (Z.to_nat pos) file) in
      let adpcm := list_eqb tag adpcm_tag in
      let pos1 := if adpcm then pos + 5 else pos in
      let flags := Z.lor (if ptkloop && (s_lps s0 =? 0) then C_SAMPLE_FLAG_FULLREP else 0) (if adpcm then C_SAMPLE_FLAG_ADPCM else 0) in
      match load_sample false flags s0 file pos1 [] with
      | Failed => None
      | NoData s' pos' => match load_smps ptkloop ptsong t file pos' with None => None | Some r => Some (as_sample s' false :: r) end
      | Loaded s' _ pos' => match load_smps ptkloop ptsong t file pos' with None => None | Some r => Some (as_sample s' true :: r) end
      end
  end.

Definition noenv : env := {| e_flg := 0; e_npt := 0; e_sus := 0; e_sue := 0; e_lps := 0; e_lpe := 0 |}.

(* number of patterns: 1 + the highest order entry, looking no further than the first entry above 0x7f (mod_load.c:585-592) *)
Fixpoint max_order (l : list Z) (acc : Z) : Z :=
  match l with [] => acc | o :: t => if 127 <? o then acc else max_order t (Z.max acc o) end.

Definition default_chans : list (Z * Z) := map (fun i => (64, ((Z.of_nat i + 1) / 2) mod 2 * 255)) (seq 0 64).

Definition mod_raw (ptkloop : bool) (file : list Z) : option raw :=
  match take 20 file with None => None | Some (_, l1) =>
  match dec_many dec_inst 31 l1 with None => None | Some (ins, l2) =>
  match take 2 l2 with None => None | Some (lr, l3) =>
  match take 128 l3 with None => None | Some (orders, l4) =>
  match take 4 l4 with None => None | Some (mg, l5) =>
    if negb (list_eqb mg ModCodec.magic) then None else
    let len := nth 0 lr 0 in let restart := nth 1 lr 0 in
    let rst := if (restart <? 127) && negb (restart =? 120) && (restart <? len) then restart else 0 in
    let pat := max_order orders 0 + 1 in
    let size := Z.of_nat (length file) in
    let smp_size := fold_left (fun a i => a + 2 * i_len i) ins 0 in
    let maybe_wow := forallb (fun i => (i_len i =? 0) || ((i_fine i =? 0) && (i_vol i =? 64))) ins && (restart =? 0) in
    let big := existsb (fun i => 32768 <=? i_len i) ins in          (* a sample above 64 KiB settles the tracker: the size tests are skipped *)
    let wow := negb big && maybe_wow && (1084 + pat * 2048 + smp_size =? size - size mod 2) in
    let chn := if wow then 8 else 4 in
    let ptsong := negb big && negb wow && (1084 + pat * 1024 =? size) in
    let patbytes := pat * 256 * chn in
    if Z.of_nat (length l5) <? patbytes then None else
    match load_smps ptkloop ptsong ins file (1084 + patbytes) with
    | None => None
    | Some smps =>
      Some {| r_m := {| d_chn := chn; d_len := len; d_pat := pat; d_trk := chn * pat; d_ins := 31; d_smp := 31; d_spd := 6; d_bpm := 125; d_rst := rst;
                        d_name_ok := true; d_type_ok := true;
                        d_xxo := firstn (Z.to_nat len) (orders ++ repeat 0 128);      (* xxo[] has 256 entries, the file fills 128 *)
                        d_chans := default_chans;
                        d_pats := map (fun p => Some {| p_rows := 64; p_index := map (fun c => Z.of_nat p * chn + Z.of_nat c) (seq 0 (Z.to_nat chn)) |}) (seq 0 (Z.to_nat pat));
                        d_trks := repeat (Some 64) (Z.to_nat (chn * pat));
                        d_inss := map (fun i => {| i_nsm := if 0 <? i_len i then 1 else 0; i_sub := true; i_name_ok := true; i_aei := noenv; i_pei := noenv; i_fei := noenv |}) ins;
                        d_smps := smps;
                        d_seqs := [] |};
              r_has_xxp := true; r_has_xxt := true |}
    end
  end end end end end.
