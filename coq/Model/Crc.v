(* Model of src/depackers/crc32.c: the table-driven CRC-32 ("A": zip/gzip/xz/lzx) and
   CRC-16/IBM (ARC, ArcFS, LHA), with the tables re-parsed from the source on every run,
   and of the integrity gate the depackers apply to their output. *)
From Coq Require Import ZArith List Lia Bool.
Import ListNotations.
From LX Require Import Generated.Tables.
Local Open Scope Z_scope.

(* #define CRC(table) crc = table[*buf++ ^ (crc & 0xff)] ^ (crc >> 8) *)
Definition crc_step (tab : list Z) (crc c : Z) : Z :=
  Z.lxor (nth (Z.to_nat (Z.lxor c (Z.land crc 255))) tab 0) (Z.shiftr crc 8).
Definition crc_run (tab : list Z) (crc : Z) (buf : list Z) : Z := fold_left (crc_step tab) buf crc.

Definition M32 := 4294967295.
Definition crc32_A_no_inv (buf : list Z) (crc : Z) : Z := crc_run crc32_A_table crc buf.
Definition crc32_A (buf : list Z) (crc : Z) : Z := Z.lxor (crc32_A_no_inv buf (Z.lxor crc M32)) M32.   (* ~f(~crc) on uint32 *)
Definition crc16_IBM (buf : list Z) (crc : Z) : Z := crc_run crc16_IBM_table crc buf.

(* the tables as generated from their (reflected) polynomials *)
Fixpoint crc_bits (poly : Z) (n : nat) (c : Z) : Z :=
  match n with O => c | S n' => crc_bits poly n' (if Z.odd c then Z.lxor (Z.shiftr c 1) poly else Z.shiftr c 1) end.
Definition make_table (poly : Z) : list Z := map (fun i => crc_bits poly 8 (Z.of_nat i)) (seq 0 256).

(* integrity gate: "unpacked output accepted iff its check value and length equal the stored ones" *)
Definition gate32 (stored_crc stored_len : Z) (out : list Z) : bool :=
  (crc32_A out 0 =? stored_crc) && (Z.of_nat (length out) =? stored_len).
Definition gate16 (stored_crc stored_len : Z) (out : list Z) : bool :=
  (crc16_IBM out 0 =? stored_crc) && (Z.of_nat (length out) =? stored_len).
