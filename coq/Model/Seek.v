(* C17: the position-control calls of src/control.c (set_position and its seven callers) and the part of
   xmp_play_frame (src/player.c) that acts on them: the end tests, the reposition branch with next_order,
   the frame after xmp_set_row, and check_end_of_module.  Everything else a frame does to the position
   (next_row, jumps, breaks, loops, delays) is an environment step `Adv` whose values are taken as given.

   Arrays are the C arrays at their full size (xxo[256], sequence_control[256], xxo_info[256].time), so
   reads beyond the song length see what the C sees. *)
From Coq Require Import ZArith List Lia Bool.
Import ListNotations.
From LX Require Import Base.ListAux.
Local Open Scope Z_scope.

Definition zgd (l : list Z) (i : Z) : Z := match zget l i with Some v => v | None => 0 end.

Record smod := {
  sm_len : Z; sm_npat : Z;
  sm_xxo : list Z;            (* mod->xxo[0..255] *)
  sm_rows : list Z;           (* mod->xxp[i]->rows *)
  sm_marker : bool;           (* QUIRK_MARKER: 0xfe skip / 0xff end markers in the order list *)
  sm_rst : Z;
  sm_nseq : Z;                (* m->num_sequences *)
  sm_entry : list Z;          (* m->seq_data[s].entry_point *)
  sm_seqctl : list Z;         (* p->sequence_control[0..255]; 0xff = in no sequence *)
  sm_scan_ord : list Z; sm_scan_row : list Z; sm_scan_num : list Z;   (* p->scan[s] *)
  sm_time : list Z            (* m->xxo_info[0..255].time *)
}.

Definition xxo (m : smod) (i : Z) := zgd (sm_xxo m) i.
Definition rows_of (m : smod) (pat : Z) := zgd (sm_rows m) pat.
Definition seqctl (m : smod) (i : Z) := zgd (sm_seqctl m) i.
Definition entry (m : smod) (s : Z) := zgd (sm_entry m) s.

(* flow_control fields that matter for where the next row is taken from; `fl_clean` stands for all the
   others being at the values libxmp_reset_flow gives them *)
Record flow := { fl_jumpline : Z; fl_jump : Z; fl_pbreak : Z; fl_delay : Z; fl_clean : bool }.
Definition flow_reset : flow := {| fl_jumpline := 0; fl_jump := -1; fl_pbreak := 0; fl_delay := 0; fl_clean := true |}.

Record pst := {
  pos : Z; ord : Z; row : Z; frame : Z; repos : bool;
  sq : Z;                     (* p->sequence *)
  loopc : Z;                  (* p->loop_count *)
  speed : Z;
  num_rows : Z; end_point : Z;
  fl : flow
}.

Definition set_pos (s : pst) (v : Z) : pst :=
  {| pos := v; ord := ord s; row := row s; frame := frame s; repos := repos s; sq := sq s; loopc := loopc s; speed := speed s;
     num_rows := num_rows s; end_point := end_point s; fl := fl s |}.

(* the marker walk of set_position; walking forward stops at the end of the order list (the C returns there); fuel 256 covers the array *)
Fixpoint walk (m : smod) (fuel : nat) (dir start p : Z) : Z :=
  match fuel with
  | O => p
  | S f => if sm_marker m && (xxo m p =? 254) then
             (if dir <? 0 then (if start <? p then walk m f dir start (p - 1) else p)
              else if sm_len m <=? p + 1 then p + 1 else walk m f dir start (p + 1))
           else p
  end.

(* static void set_position(ctx, pos, dir): the order list is only read for 0 <= pos < len *)
Definition set_position (m : smod) (s : pst) (p dir : Z) : pst :=
  let seq := if dir =? 0 then seqctl m p else sq s in
  if (seq =? 255) || (sm_nseq m <=? seq) then s
  else if seq <? 0 then s
  else
    let start := entry m seq in
    let inb := (0 <=? p) && (p <? sm_len m) in
    let p' := if inb then walk m 256 dir start p else p in
    let pat := xxo m p' in
    let early := inb && ((sm_len m <=? p') || ((pat <? sm_npat m) && sm_marker m && (pat =? 255))) in
    let '(nr, ep) :=
      if inb && (pat <? sm_npat m) then
        (if zgd (sm_scan_ord m) seq <? p' then (num_rows s, 0)
         else (rows_of m pat, zgd (sm_scan_num m) seq))
      else (num_rows s, end_point s) in
    if early || (sm_len m <=? p') then
      {| pos := pos s; ord := ord s; row := row s; frame := frame s; repos := repos s; sq := seq; loopc := loopc s; speed := speed s;
         num_rows := num_rows s; end_point := end_point s; fl := fl s |}
    else
      let np := if p' =? 0 then -1 else p' in
      {| pos := np; ord := ord s; row := row s; frame := frame s; repos := np =? ord s; sq := seq; loopc := loopc s; speed := speed s;
         num_rows := nr; end_point := ep; fl := flow_reset |}.

Definition EINVAL := -7.        (* -XMP_ERROR_INVALID *)
Definition XEND := -1.          (* -XMP_END *)

Definition ret_pos (s : pst) : Z := if pos s <? 0 then 0 else pos s.

Inductive ctl := SetPos (p : Z) | Next | Prev | SetRow (r : Z) | Seek (t : Z) | Stop | Restart.

Definition x_set_position (m : smod) (s : pst) (p : Z) : pst * Z :=
  if (p <? 0) || (sm_len m <=? p) then (s, EINVAL)
  else let s' := set_position m s p 0 in (s', pos s').

Definition x_next (m : smod) (s : pst) : pst * Z :=
  let s' := if pos s <? sm_len m then set_position m s (pos s + 1) 1 else s in (s', ret_pos s').

Definition x_prev (m : smod) (s : pst) : pst * Z :=
  let e := entry m (sq s) in
  let s' := if pos s =? e then set_position m s (-1) (-1)
            else if e <? pos s then set_position m s (pos s - 1) (-1) else s in
  (s', ret_pos s').

Definition x_set_row (m : smod) (s : pst) (r : Z) : pst * Z :=
  let p0 := if (pos s <? 0) || (sm_len m <=? pos s) then 0 else pos s in
  let pattern := xxo m p0 in
  if (sm_npat m <=? pattern) || (r <? 0) || (rows_of m pattern <=? r) then (s, EINVAL)
  else
    let np := if pos s <? 0 then 0 else pos s in
    ({| pos := np; ord := np; row := r; frame := -1; repos := false; sq := sq s; loopc := loopc s; speed := speed s;
        num_rows := rows_of m (xxo m np); end_point := end_point s; fl := fl s |}, r).

(* the order xmp_seek_time picks: the last order of the current sequence that holds a pattern and whose
   recorded start time is <= t *)
Fixpoint seek_find (m : smod) (s : pst) (t : Z) (n : nat) : option Z :=
  match n with
  | O => None
  | S k => let i := Z.of_nat k in
           if (xxo m i <? sm_npat m) && (seqctl m i =? sq s) && (zgd (sm_time m) i <=? t) then Some i
           else seek_find m s t k
  end.

Definition x_seek (m : smod) (s : pst) (t : Z) : pst * Z :=
  let s' := match seek_find m s t (Z.to_nat (sm_len m)) with
            | Some i => set_position m s i 1
            | None => fst (x_set_position m s 0)
            end in
  (s', ret_pos s').

Definition control (m : smod) (s : pst) (c : ctl) : pst * Z :=
  match c with
  | SetPos p => x_set_position m s p
  | Next => x_next m s
  | Prev => x_prev m s
  | SetRow r => x_set_row m s r
  | Seek t => x_seek m s t
  | Stop => (set_pos s (-2), 0)
  | Restart => ({| pos := -1; ord := ord s; row := row s; frame := frame s; repos := repos s; sq := sq s; loopc := 0; speed := speed s;
                   num_rows := num_rows s; end_point := end_point s; fl := flow_reset |}, 0)
  end.

(* ---- xmp_play_frame ---- *)

(* next_order's do/while: advance, restart at the end of the list or on an end marker, skip non-patterns *)
Fixpoint next_order_walk (m : smod) (seq : Z) (fuel : nat) (o : Z) : option Z :=
  match fuel with
  | O => None
  | S f =>
      let o1 := o + 1 in
      let mark := sm_marker m && (o1 <? sm_len m) && (xxo m o1 =? 255) in
      let o2 := if (sm_len m <=? o1) || mark then
                  (if (sm_len m <? sm_rst m) || (sm_npat m <=? xxo m (sm_rst m)) || (o1 <? entry m seq) then entry m seq
                   else if seqctl m (sm_rst m) =? seq then sm_rst m else entry m seq)
                else o1 in
      if sm_npat m <=? xxo m o2 then next_order_walk m seq f o2 else Some o2
  end.

Definition check_end (m : smod) (s : pst) : pst :=
  if (ord s =? zgd (sm_scan_ord m) (sq s)) && (row s =? zgd (sm_scan_row m) (sq s)) then
    let '(lc, ep) := if end_point s =? 0 then (loopc s + 1, zgd (sm_scan_num m) (sq s)) else (loopc s, end_point s) in
    {| pos := pos s; ord := ord s; row := row s; frame := frame s; repos := repos s; sq := sq s; loopc := lc; speed := speed s;
       num_rows := num_rows s; end_point := ep - 1; fl := fl s |}
  else s.

(* what the environment reports for a frame the model does not compute; the flow fields and the speed after any
   frame are always the environment's (the row's effects set them) *)
Record adv := { a_ord : Z; a_row : Z; a_frame : Z; a_loopc : Z; a_speed : Z; a_num_rows : Z; a_end_point : Z; a_fl : flow }.

Inductive fres := FEnd (s : pst) | FOk (s : pst) | FStuck.

Definition play_frame (m : smod) (s : pst) (a : adv) : fres :=
  if sm_len m <=? 0 then FEnd s
  else if sm_marker m && (xxo m (ord s) =? 255) then FEnd s
  else if negb (ord s =? pos s) || repos s then
    let start := entry m (sq s) in
    if pos s =? -2 then FEnd {| pos := pos s; ord := ord s; row := row s; frame := frame s; repos := false; sq := sq s; loopc := loopc s; speed := speed s;
                                num_rows := num_rows s; end_point := end_point s; fl := fl s |}
    else
      let p1 := if pos s =? -1 then start else pos s in
      let ep1 := if p1 =? start then zgd (sm_scan_num m) (sq s) else end_point s in
      let ep2 := if zgd (sm_scan_ord m) (sq s) <? p1 then 0 else ep1 in
      let o0 := if p1 - 1 <? start then start - 1 else p1 - 1 in
      match next_order_walk m (sq s) 258 o0 with
      | None => FStuck
      | Some o =>
          let nr := rows_of m (xxo m o) in
          FOk (check_end m {| pos := o; ord := o; row := 0; frame := 0; repos := false; sq := sq s; loopc := loopc s; speed := a_speed a;
                              num_rows := nr; end_point := ep2;
                              fl := a_fl a |})
      end
  else if (frame s =? -1) && (0 <? speed s * (1 + fl_delay (fl s))) then
    (* the frame after xmp_set_row (and the very first frame): tick 0 of the row already selected *)
    FOk (check_end m {| pos := pos s; ord := ord s; row := row s; frame := 0; repos := false; sq := sq s; loopc := loopc s; speed := a_speed a;
                        num_rows := num_rows s; end_point := end_point s; fl := a_fl a |})
  else
    FOk {| pos := a_ord a; ord := a_ord a; row := a_row a; frame := a_frame a; repos := false; sq := sq s; loopc := a_loopc a; speed := a_speed a;
           num_rows := a_num_rows a; end_point := a_end_point a; fl := a_fl a |}.

(* ---- what the scan guarantees about a module, as far as these functions rely on it ---- *)
Definition in_range (lo hi x : Z) : bool := (lo <=? x) && (x <=? hi).
Definition smod_okb (m : smod) : bool :=
  in_range 1 256 (sm_len m) && in_range 0 256 (sm_npat m) &&
  (Z.of_nat (length (sm_xxo m)) =? 256) && (Z.of_nat (length (sm_seqctl m)) =? 256) && (Z.of_nat (length (sm_time m)) =? 256) &&
  (Z.of_nat (length (sm_rows m)) =? sm_npat m) && forallb (fun r => 1 <=? r) (sm_rows m) &&
  forallb (in_range 0 255) (sm_xxo m) && forallb (in_range 0 255) (sm_seqctl m) &&
  in_range 1 255 (sm_nseq m) &&
  (Z.of_nat (length (sm_entry m)) =? sm_nseq m) && (Z.of_nat (length (sm_scan_ord m)) =? sm_nseq m) &&
  (Z.of_nat (length (sm_scan_row m)) =? sm_nseq m) && (Z.of_nat (length (sm_scan_num m)) =? sm_nseq m) &&
  forallb (fun e => in_range 0 (sm_len m - 1) e) (sm_entry m) &&
  in_range 0 255 (sm_rst m) &&
  (negb (sm_marker m) || (sm_npat m <=? 254)) &&
  (* an order on a pattern that belongs to a registered sequence lies at or after that sequence's entry point *)
  forallb (fun i => let i := Z.of_nat i in
                    negb ((xxo m i <? sm_npat m) && (seqctl m i <? sm_nseq m)) || (entry m (seqctl m i) <=? i))
          (seq 0 (Z.to_nat (sm_len m))).

(* the scan's end position of a sequence lies at or after its entry point and was counted at least once *)
Definition scan_endb (m : smod) : bool :=
  forallb (fun s => let s := Z.of_nat s in (entry m s <=? zgd (sm_scan_ord m) s) && (1 <=? zgd (sm_scan_num m) s))
          (seq 0 (Z.to_nat (sm_nseq m))).

(* reachable player states *)
Definition inv (m : smod) (s : pst) : Prop :=
  -2 <= pos s < sm_len m /\ 0 <= ord s < sm_len m /\ 0 <= sq s < sm_nseq m.
