(* C03 (sequence clause): the loop of libxmp_scan_sequences (src/scan.c) that partitions the order list into sequences.

   scan_module itself (the per-sequence walk over patterns) is abstracted to an arbitrary function `scan` of the entry point, the
   sequence number and the current sequence_control array, returning the sequence's time and the array as it left it; what the
   theorem needs from it is stated as hypotheses (it marks its own entry point and never un-marks an order), and hook H6 reports
   what the real scan_module returned for every call so that this loop is replayed against the real one.

     ep = 0; time[0] = scan(0, 0); seq = 1;  fail if time[0] < 0
     loop: i = first order with sequence_control[i] == 0xff;  if none, or seq == MAX_SEQUENCES: stop
           time[seq] = scan(i, seq); temp_ep[seq] = i; if time[seq] > 0 then seq++
     num_sequences = seq; entry points temp_ep[0..seq), durations time[0..seq) *)
From Coq Require Import ZArith List Lia Bool.
Import ListNotations.
From LX Require Import Generated.Consts.
Local Open Scope Z_scope.

Definition UNMARKED : Z := 255.

(* index of the first unmarked order among the first `len`, or `len` *)
Fixpoint first_free_from (i : Z) (n : nat) (ctrl : list Z) : Z :=
  match n with
  | O => i
  | S k => match ctrl with
           | [] => i + Z.of_nat n          (* cannot happen: the array has 256 entries *)
           | c :: t => if c =? UNMARKED then i else first_free_from (i + 1) k t
           end
  end.
Definition first_free (len : Z) (ctrl : list Z) : Z := first_free_from 0 (Z.to_nat len) ctrl.

Section Scan.
  Variable St : Type.
  Variable scan : St -> Z -> Z -> list Z -> (Z * list Z) * St.      (* state, entry point, sequence number, control -> (time, control'), state' *)

  Fixpoint more (fuel : nat) (st : St) (len : Z) (ctrl : list Z) (seq : Z) (eps durs : list Z) : option (Z * list Z * list Z * St) :=
    match fuel with O => None | S f =>
      let i := first_free len ctrl in
      if (i <? len) && (seq <? C_MAX_SEQUENCES) then
        let '((t, ctrl'), st') := scan st i seq ctrl in
        if 0 <? t then more f st' len ctrl' (seq + 1) (eps ++ [i]) (durs ++ [t])
        else more f st' len ctrl' seq eps durs
      else Some (seq, eps, durs, st)
    end.

  (* None = libxmp_scan_sequences returns -1 (no valid order found); the fuel never runs out (theorem) *)
  Definition scan_sequences (st : St) (len : Z) : option (Z * list Z * list Z * St) :=
    let '((t0, ctrl1), st1) := scan st 0 0 (repeat UNMARKED 256) in
    if t0 <? 0 then None else more (S (Z.to_nat len)) st1 len ctrl1 1 [0] [t0].
End Scan.

(* what the public structure must satisfy (the sequence clause of C03) *)
Definition seqs_wfb (len n : Z) (eps durs : list Z) : bool :=
  (1 <=? n) && (n <=? C_MAX_SEQUENCES) && (Z.of_nat (length eps) =? n) && (Z.of_nat (length durs) =? n) &&
  forallb (fun e => (0 <=? e) && (e <? len)) eps && forallb (fun d => 0 <=? d) durs &&
  (fix nodup (l : list Z) : bool := match l with [] => true | x :: t => negb (existsb (Z.eqb x) t) && nodup t end) eps.
