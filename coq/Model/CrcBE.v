(* C09: the CRC of bzip2 as src/depackers/bunzip2.c computes it: a big-endian (MSB-first) CRC-32 with polynomial 0x04c11db7 whose
   table crc_init builds at run time (bunzip2.c:117-129); per block  dataCRC starts at 0xffffffff, is updated byte by byte as
   (crc << 8) ^ table[(crc >> 24) ^ byte], inverted at the end (bunzip2.c:619-624); the stream CRC is rotated left by one and xored
   with each block's CRC (:625); a block whose CRC differs from the one stored in its header makes the stream check fail
   (:628-631, 721). *)
From Coq Require Import ZArith List Lia Bool.
Import ListNotations.
Local Open Scope Z_scope.

Definition M32 : Z := 4294967295.
Definition POLY_BE : Z := 79764919.                         (* 0x04c11db7 *)

(* crc_init(table, 0): entry i *)
Fixpoint be_bits (n : nat) (c : Z) : Z :=
  match n with O => c | S k => be_bits k (if 2147483648 <=? c then Z.lxor ((c * 2) mod 4294967296) POLY_BE else (c * 2) mod 4294967296) end.
Definition be_table : list Z := map (fun i => be_bits 8 (Z.of_nat i * 16777216)) (seq 0 256).

Definition be_step (crc b : Z) : Z := Z.lxor ((crc * 256) mod 4294967296) (nth (Z.to_nat (Z.lxor (crc / 16777216) b)) be_table 0).
Definition be_run (crc : Z) (data : list Z) : Z := fold_left be_step data crc.
(* the CRC of one block's data *)
Definition bz_block_crc (data : list Z) : Z := Z.lxor (be_run M32 data) M32.
(* the stream CRC over the blocks' CRCs *)
Definition bz_combine (total blockcrc : Z) : Z := Z.lxor ((total * 2) mod 4294967296 + total / 2147483648) blockcrc.
Definition bz_stream_crc (blocks : list (list Z)) : Z := fold_left (fun t d => bz_combine t (bz_block_crc d)) blocks 0.

(* the accept decision of the depacker for data that decoded into `blocks` with header CRCs `hdr` and stored stream CRC `stored`:
   every block CRC must match (a mismatch ends the run with totalCRC := headerCRC + 1, which cannot equal headerCRC) and the combined
   value must equal the stored one *)
Definition bz_gate (blocks : list (list Z)) (hdr : list Z) (stored : Z) : bool :=
  (length blocks =? length hdr)%nat && forallb (fun p => bz_block_crc (fst p) =? snd p) (combine blocks hdr) && (bz_stream_crc blocks =? stored).
