(* C02: the per-voice inner loop of libxmp_mixer_softmixer (src/mixer.c):
     for (size = usmp = ticksize; size > 0; ) { ... samples = how many output samples fit before the loop point / sample end ...
   Every iteration either produces samples >= 1 output samples (size -= samples), or finds the voice standing on its
   end / start (samples = 0) and pays one unit of the budget usmp, leaving the loop when the budget is used up.
   How many samples an iteration produces and when it makes no progress depends on pitch, loop geometry and floating
   point: all of that is an arbitrary event sequence here. *)
From Coq Require Import ZArith List Lia Bool.
Import ListNotations.
Local Open Scope Z_scope.

Inductive mev := MProgress (n : Z) | MZero.
Record mst := { m_size : Z; m_usmp : Z; m_out : bool (* left the loop through the budget *) }.

Definition mstep (s : mst) (e : mev) : option mst :=
  if m_out s || (m_size s <=? 0) then None          (* the loop has ended: no further iteration *)
  else match e with
       | MProgress n => if (1 <=? n) && (n <=? m_size s) then Some {| m_size := m_size s - n; m_usmp := m_usmp s; m_out := false |} else None
       | MZero => Some {| m_size := m_size s; m_usmp := m_usmp s - 1; m_out := m_usmp s - 1 <=? 0 |}
       end.

Fixpoint mrun (s : mst) (evs : list mev) : option mst :=
  match evs with [] => Some s | e :: t => match mstep s e with Some s' => mrun s' t | None => None end end.

Definition mstart (ticksize : Z) : mst := {| m_size := ticksize; m_usmp := ticksize; m_out := false |}.
