(* The file- and process-facing surface of the library as the path model assumes it:
   which compiled objects may reference which OS / stream-opening symbols.  The actual
   inventory is re-extracted from the objects on every run (Generated/Syscalls.v) and
   must equal this list (Props/Properties_C10.v). *)
From Coq Require Import String List Bool.
Import ListNotations.
Local Open Scope string_scope.

Definition allowed_surface : list (string * string) :=
  [ (* external helpers: fork/execvp without a shell, output into a temp file *)
    ("depackers_depacker", "dup2"); ("depackers_depacker", "execvp"); ("depackers_depacker", "fdopen");
    ("depackers_depacker", "fork"); ("depackers_depacker", "make_temp_file"); ("depackers_depacker", "pipe");
    ("depackers_depacker", "wait");
    ("filetype", "stat");
    (* the only fopen in the library *)
    ("hio", "fopen");
    (* entry points *)
    ("load", "hio_open"); ("load", "hio_open_file"); ("load", "libxmp_decrunch"); ("load", "unlink_temp_file");
    (* directory listing for case-insensitive companion lookup; XMP_INSTRUMENT_PATH *)
    ("loaders_common", "closedir"); ("loaders_common", "getenv"); ("loaders_common", "opendir"); ("loaders_common", "readdir");
    (* companions named after the module's own file name *)
    ("loaders_flt_load", "hio_open"); ("loaders_mfp_load", "hio_open");
    (* companions named by file contents: always through the sanitiser and the listing lookup *)
    ("loaders_med4_load", "hio_open"); ("loaders_med4_load", "libxmp_copy_name_for_fopen"); ("loaders_med4_load", "libxmp_find_instrument_file");
    ("loaders_mmd_common", "hio_open"); ("loaders_mmd_common", "libxmp_copy_name_for_fopen"); ("loaders_mmd_common", "libxmp_find_instrument_file");
    ("loaders_mod_load", "hio_open"); ("loaders_mod_load", "libxmp_copy_name_for_fopen"); ("loaders_mod_load", "libxmp_find_instrument_file");
    ("loaders_stm_load", "hio_open"); ("loaders_stm_load", "libxmp_copy_name_for_fopen"); ("loaders_stm_load", "libxmp_find_instrument_file");
    (* ProWizard conversion through a temp file *)
    ("loaders_pw_load", "hio_open_file2"); ("loaders_pw_load", "make_temp_file"); ("loaders_pw_load", "unlink_temp_file");
    (* xmp_smix_load_sample: a path given by the application *)
    ("smix", "hio_open");
    ("tempfile", "fdopen"); ("tempfile", "getenv"); ("tempfile", "mkstemp"); ("tempfile", "unlink") ].

Definition pair_eqb (a b : string * string) : bool := String.eqb (fst a) (fst b) && String.eqb (snd a) (snd b).
Definition subset (a b : list (string * string)) : bool := forallb (fun p => existsb (pair_eqb p) b) a.

(* objects that open files named by file contents must also reference the sanitiser and the lookup *)
Definition content_named_openers : list string := ["loaders_med4_load"; "loaders_mmd_common"; "loaders_mod_load"; "loaders_stm_load"].
Definition own_named_openers : list string := ["load"; "smix"; "loaders_flt_load"; "loaders_mfp_load"].
Definition refs (inv : list (string * string)) (o s : string) : bool := existsb (pair_eqb (o, s)) inv.
Definition openers_sanitise (inv : list (string * string)) : bool :=
  forallb (fun p => negb (String.eqb (snd p) "hio_open") ||
                    existsb (String.eqb (fst p)) own_named_openers ||
                    (refs inv (fst p) "libxmp_copy_name_for_fopen" && refs inv (fst p) "libxmp_find_instrument_file")) inv.
