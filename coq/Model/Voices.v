(* Model of the voice table of src/virtual.c (bookkeeping fields only) and of the
   voice resets the mixer performs.  Every array access is checked: an operation
   returns None where the C would read or write outside voice_array / virt_channel. *)
From Coq Require Import ZArith List Lia Bool.
Import ListNotations.
From LX Require Import Base.ListAux.
Local Open Scope Z_scope.

Record voice := mkV { v_chn : Z; v_root : Z; v_act : Z; v_vol : Z; v_ins : Z; v_smp : Z; v_key : Z }.
Definition vfree : voice := mkV (-1) (-1) 0 0 0 0 0.          (* memset 0; chn = root = FREE *)

Record vst := mkS {
  voices : list voice;       (* voice_array[maxvoc] *)
  vmap : list Z;             (* virt_channel[].map *)
  vcount : list Z;           (* virt_channel[].count (write-only in the C) *)
  used : Z;                  (* virt_used *)
  ntracks : Z;               (* num_tracks *)
  mute : list bool           (* player_data.channel_mute[XMP_MAX_CHANNELS] *)
}.

Definition maxvoc (s : vst) : Z := zlen (voices s).
Definition vchans (s : vst) : Z := zlen (vmap s).

Definition bind {A B} (o : option A) (f : A -> option B) : option B := match o with Some x => f x | None => None end.
Notation "x <- e ;; k" := (bind e (fun x => k)) (at level 61, e at next level, right associativity).

Definition zset {A} (l : list A) (i : Z) (x : A) : option (list A) :=
  if (0 <=? i) && (i <? zlen l) then Some (upd l (Z.to_nat i) x) else None.

Definition getv (s : vst) (i : Z) : option voice := zget (voices s) i.
Definition setv (s : vst) (i : Z) (v : voice) : option vst :=
  l <- zset (voices s) i v ;; Some (mkS l (vmap s) (vcount s) (used s) (ntracks s) (mute s)).
Definition getm (s : vst) (c : Z) : option Z := zget (vmap s) c.
Definition setm (s : vst) (c : Z) (x : Z) : option vst :=
  l <- zset (vmap s) c x ;; Some (mkS (voices s) l (vcount s) (used s) (ntracks s) (mute s)).
Definition addcount (s : vst) (c : Z) (d : Z) : option vst :=
  n <- zget (vcount s) c ;; l <- zset (vcount s) c (n + d) ;; Some (mkS (voices s) (vmap s) l (used s) (ntracks s) (mute s)).
Definition setused (s : vst) (u : Z) : vst := mkS (voices s) (vmap s) (vcount s) u (ntracks s) (mute s).

Definition with_vol (v : voice) (x : Z) := mkV (v_chn v) (v_root v) (v_act v) x (v_ins v) (v_smp v) (v_key v).
Definition with_act (v : voice) (x : Z) := mkV (v_chn v) (v_root v) x (v_vol v) (v_ins v) (v_smp v) (v_key v).
Definition with_chn (v : voice) (x : Z) := mkV x (v_root v) (v_act v) (v_vol v) (v_ins v) (v_smp v) (v_key v).

(* (uint32)x >= n  for int x and non-negative n *)
Definition uge (x n : Z) : bool := (x <? 0) || (n <=? x).

(* libxmp_virt_reset / the tables libxmp_virt_on creates *)
Definition virt_init (nvoc nchan ntrk : Z) (mt : list bool) : vst :=
  mkS (repeat vfree (Z.to_nat nvoc)) (repeat (-1) (Z.to_nat nchan)) (repeat 0 (Z.to_nat nchan)) 0 ntrk mt.
Definition virt_reset (s : vst) : vst :=
  if vchans s <? 1 then s
  else mkS (map (fun _ => vfree) (voices s)) (map (fun _ => -1) (vmap s)) (map (fun _ => 0) (vcount s)) 0 (ntracks s) (mute s).

(* libxmp_virt_resetvoice(ctx, voc, mute) *)
Definition resetvoice (s : vst) (voc : Z) : option vst :=
  if uge voc (maxvoc s) then Some s
  else
    v <- getv s voc ;;
    let s := setused s (used s - 1) in
    s <- addcount s (v_root v) (-1) ;;
    s <- setm s (v_chn v) (-1) ;;
    setv s voc vfree.

(* free_voice: background voice with the lowest volume (first one on ties) *)
Fixpoint lowest_bg (nt : Z) (l : list voice) (i : Z) (num vol : Z) : Z :=
  match l with
  | [] => num
  | v :: t => if (nt <=? v_chn v) && (v_vol v <? vol) then lowest_bg nt t (i + 1) i (v_vol v)
              else lowest_bg nt t (i + 1) num vol
  end.
Definition INT_MAX := 2147483647.
Definition free_voice (s : vst) : option (Z * vst) :=
  let num := lowest_bg (ntracks s) (voices s) 0 (-1) INT_MAX in
  if 0 <=? num then
    v <- getv s num ;;
    s <- setm s (v_chn v) (-1) ;;
    s <- addcount s (v_root v) (-1) ;;
    Some (num, setused s (used s - 1))
  else Some (num, s).

Fixpoint first_free (l : list voice) (i : Z) : Z :=
  match l with
  | [] => i
  | v :: t => if v_chn v =? -1 then i else first_free t (i + 1)
  end.

(* alloc_voice(ctx, chn) *)
Definition alloc_voice (s : vst) (chn : Z) : option (Z * vst) :=
  let i0 := first_free (voices s) 0 in
  r <- (if i0 =? maxvoc s then free_voice s else Some (i0, s)) ;;
  let '(i, s) := r in
  if 0 <=? i then
    s <- addcount s chn 1 ;;
    let s := setused s (used s + 1) in
    v <- getv s i ;;
    s <- setv s i (mkV chn chn (v_act v) (v_vol v) (v_ins v) (v_smp v) (v_key v)) ;;
    s <- setm s chn i ;;
    Some (i, s)
  else Some (i, s).

(* map_virt_channel *)
Definition map_virt_channel (s : vst) (chn : Z) : option Z :=   (* Some (-1) = invalid, as the C's -1 *)
  if uge chn (vchans s) then Some (-1)
  else voc <- getm s chn ;; Some (if uge voc (maxvoc s) then -1 else voc).

(* libxmp_virt_resetchannel *)
Definition resetchannel (s : vst) (chn : Z) : option vst :=
  voc <- map_virt_channel s chn ;;
  if voc <? 0 then Some s
  else
    v <- getv s voc ;;
    let s := setused s (used s - 1) in
    s <- addcount s (v_root v) (-1) ;;
    s <- setm s chn (-1) ;;
    setv s voc vfree.

(* libxmp_virt_setvol *)
Definition setvol (s : vst) (chn vol : Z) : option vst :=
  voc <- map_virt_channel s chn ;;
  if voc <? 0 then Some s
  else
    v <- getv s voc ;;
    let root := v_root v in
    muted <- (if root <? 64 then (if root <? 0 then None else Some (nth (Z.to_nat root) (mute s) false)) else Some false) ;;
    let vol := if muted then 0 else vol in
    s <- setv s voc (with_vol v vol) ;;
    if (vol =? 0) && (ntracks s <=? chn) then resetvoice s voc else Some s.

(* libxmp_virt_setnna (QUIRK_VIRTUAL only; the caller decides) *)
Definition setnna (s : vst) (chn nna : Z) : option vst :=
  voc <- map_virt_channel s chn ;;
  if voc <? 0 then Some s else v <- getv s voc ;; setv s voc (with_act v nna).

(* check_dct *)
Definition check_dct (s : vst) (i chn ins smp key nna dct dca : Z) : option vst :=
  vi <- getv s i ;;
  voc <- getm s chn ;;
  if (v_root vi =? chn) && (v_ins vi =? ins) then
    if nna =? 0 then resetvoice s i
    else
      let vi := with_act vi nna in
      if (dct =? 3) || ((dct =? 2) && (v_smp vi =? smp)) || ((dct =? 1) && (v_key vi =? key)) then
        if (nna =? 2) && (dca =? 3) then setv s i (with_act vi 2)
        else if negb (dca =? 0) then
          (if negb (i =? voc) || negb (v_act vi =? 0) then setv s i (with_act vi dca) else setv s i vi)
        else (s <- setv s i vi ;; resetvoice s i)
      else setv s i vi
  else Some s.

Fixpoint dct_loop (n : nat) (i : Z) (s : vst) (chn ins smp key nna dct dca : Z) : option vst :=
  match n with
  | O => Some s
  | S n' => s <- check_dct s i chn ins smp key nna dct dca ;; dct_loop n' (i + 1) s chn ins smp key nna dct dca
  end.

(* for (chn = num_tracks; chn < virt_channels && virt_channel[chn++].map > FREE;) ;   returns chn after the loop *)
Fixpoint bg_search (fuel : nat) (s : vst) (c : Z) : option Z :=
  match fuel with
  | O => Some c
  | S f => if c <? vchans s then
             m <- getm s c ;; if -1 <? m then bg_search f s (c + 1) else Some (c + 1)
           else Some c
  end.

(* libxmp_virt_setpatch: returns (return value, state) *)
Definition setpatch (s : vst) (chn ins smp key nna dct dca : Z) : option (Z * vst) :=
  if uge chn (vchans s) then Some (-1, s)
  else
    let smp := if ins <? 0 then -1 else smp in
    s <- (if negb (dct =? 0) then dct_loop (length (voices s)) 0 s chn ins smp key nna dct dca else Some s) ;;
    voc <- getm s chn ;;
    r <- (if -1 <? voc then
            v <- getv s voc ;;
            if negb (v_act v =? 0) then
              a <- alloc_voice s chn ;;
              let '(vf, s) := a in
              if vf <? 0 then Some (None, s)
              else
                c <- bg_search (length (vmap s)) s (ntracks s) ;;
                let c := c - 1 in
                v <- getv s voc ;;
                s <- setv s voc (with_chn v c) ;;
                s <- setm s c voc ;;
                Some (Some (c, vf), s)
            else Some (Some (chn, voc), s)
          else
            a <- alloc_voice s chn ;;
            let '(vf, s) := a in
            if vf <? 0 then Some (None, s) else Some (Some (chn, vf), s)) ;;
    let '(cv, s) := r in
    match cv with
    | None => Some (-1, s)
    | Some (chn, voc) =>
        if smp <? 0 then s <- resetvoice s voc ;; Some (chn, s)
        else
          v <- getv s voc ;;
          (* libxmp_mixer_setpatch: smp, vol = 0; then ins, act, key *)
          s <- setv s voc (mkV (v_chn v) (v_root v) nna 0 ins smp key) ;;
          Some (chn, s)
    end.

(* libxmp_virt_queuepatch *)
Definition queuepatch (s : vst) (chn ins smp : Z) : option (Z * vst) :=
  if uge chn (vchans s) then Some (-1, s)
  else
    let smp := if ins <? 0 then -1 else smp in
    voc <- getm s chn ;;
    if -1 <? voc then
      v <- getv s voc ;;
      s <- (if 0 <=? ins then setv s voc (mkV (v_chn v) (v_root v) (v_act v) (v_vol v) ins (v_smp v) (v_key v)) else Some s) ;;
      Some (chn, s)
    else if smp <? 0 then Some (-1, s)
    else setpatch s chn ins smp 0 0 0 0.

(* libxmp_virt_pastnote(ctx, chn, act): only VIRT_ACTION_CUT (0) touches the table *)
Fixpoint pastnote_loop (n : nat) (c : Z) (s : vst) (chn act : Z) : option vst :=
  match n with
  | O => Some s
  | S n' =>
      if c <? vchans s then
        voc <- map_virt_channel s c ;;
        s <- (if voc <? 0 then Some s
              else v <- getv s voc ;; if (v_root v =? chn) && (act =? 0) then resetvoice s voc else Some s) ;;
        pastnote_loop n' (c + 1) s chn act
      else Some s
  end.
Definition pastnote (s : vst) (chn act : Z) : option vst := pastnote_loop (length (vmap s)) (ntracks s) s chn act.

(* operations of the differential driver *)
Inductive vop :=
| OReset | OResetVoice (voc : Z) | OResetChannel (chn : Z) | OSetVol (chn vol : Z) | OSetNna (chn nna : Z)
| OSetPatch (chn ins smp key nna dct dca : Z) | OQueuePatch (chn ins smp : Z) | OPastNote (chn act : Z).

Definition vstep (s : vst) (o : vop) : option (Z * vst) :=
  match o with
  | OReset => Some (0, virt_reset s)
  | OResetVoice voc => s <- resetvoice s voc ;; Some (0, s)
  | OResetChannel c => s <- resetchannel s c ;; Some (0, s)
  | OSetVol c v => s <- setvol s c v ;; Some (0, s)
  | OSetNna c n => s <- setnna s c n ;; Some (0, s)
  | OSetPatch c i sm k n d a => setpatch s c i sm k n d a
  | OQueuePatch c i sm => queuepatch s c i sm
  | OPastNote c a => s <- pastnote s c a ;; Some (0, s)
  end.

(* ---- the invariant as a boolean (also used as a run-time monitor on the real tables) ---- *)
Definition in_use (v : voice) : bool := 0 <=? v_chn v.
Definition count_used (l : list voice) : Z := zlen (filter in_use l).

Definition voice_okb (s : vst) (i : Z) (v : voice) : bool :=
  if v_chn v =? -1 then v_root v =? -1
  else (0 <=? v_chn v) && (v_chn v <? vchans s) && (0 <=? v_root v) && (v_root v <? vchans s) &&
       (match getm s (v_chn v) with Some m => m =? i | None => false end).
Definition chan_okb (s : vst) (c : Z) (m : Z) : bool :=
  if m =? -1 then true
  else (0 <=? m) && (m <? maxvoc s) && (match getv s m with Some v => v_chn v =? c | None => false end).
Fixpoint forallbi {A} (f : Z -> A -> bool) (i : Z) (l : list A) : bool :=
  match l with [] => true | x :: t => f i x && forallbi f (i + 1) t end.
Definition invb (s : vst) : bool :=
  forallbi (voice_okb s) 0 (voices s) && forallbi (chan_okb s) 0 (vmap s) &&
  (used s =? count_used (voices s)) && (0 <=? used s) && (used s <=? maxvoc s) &&
  (zlen (vcount s) =? vchans s) && (0 <=? ntracks s) && (ntracks s <=? vchans s).

(* ---- the mode clause and the argument conditions of the preservation theorem (Proofs/VoicesInv.v), executable ---- *)
Definition virtb (s : vst) : bool := maxvoc s <=? vchans s - ntracks s.
Definition quietb (s : vst) : bool := forallb (fun v => v_act v =? 0) (voices s).
Definition modeb (s : vst) : bool := virtb s || quietb s.

(* what the callers of virtual.c guarantee: resetvoice on a voice in use (or an index the range check refuses); setpatch/queuepatch
   on a track channel (or an index the range check refuses); new-note actions only with virtual channels *)
Definition op_okb (s : vst) (o : vop) : bool :=
  match o with
  | OReset | OResetChannel _ | OSetVol _ _ | OPastNote _ _ => true
  | OResetVoice voc => uge voc (maxvoc s) || match getv s voc with Some v => in_use v | None => false end
  | OSetNna _ nna => virtb s || (nna =? 0)
  | OSetPatch chn _ _ _ nna _ _ => uge chn (vchans s) || ((0 <=? chn) && (chn <? ntracks s) && (virtb s || (nna =? 0)))
  | OQueuePatch chn _ _ => uge chn (vchans s) || ((0 <=? chn) && (chn <? ntracks s))
  end.

