(* C19: the packed pattern formats of XM, S3M and IT as the loaders take them apart, byte for byte, together with the
   translation of each stored cell into libxmp's event (note numbering, volume column, effect renumbering), and the packed
   streams an independent writer produces for a grid of cells.

   Transcribed from
     src/loaders/xm_load.c   load_xm_pattern  (format version > 0x0102)
     src/loaders/s3m_load.c  xlat_fx, the pattern loop of s3m_load
     src/loaders/it_load.c   xlat_fx, xlat_volfx, load_it_pattern, the channel-count scan of it_load
   Every field of struct xmp_event is an unsigned char: the places where the C can wrap are written with mod 256.
   The effect numbers (FX_x, EX_x, XMP_KEY_x) and the two translation tables come from Generated/ (re-read from the headers and
   the loaders' own initialisers on every run). *)
From Coq Require Import ZArith List Lia Bool.
Import ListNotations.
From LX Require Import Base.ListAux Generated.Consts Generated.Tables.
Local Open Scope Z_scope.

Record ev := { e_note : Z; e_ins : Z; e_vol : Z; e_fxt : Z; e_fxp : Z; e_f2t : Z; e_f2p : Z }.
Definition ev0 : ev := {| e_note := 0; e_ins := 0; e_vol := 0; e_fxt := 0; e_fxp := 0; e_f2t := 0; e_f2p := 0 |}.
Definition msn (x : Z) : Z := x / 16.
Definition lsn (x : Z) : Z := x mod 16.
Definition bit (k : Z) (b : Z) : bool := (b / 2 ^ k) mod 2 =? 1.

(* a stored cell of any of the three formats before translation: five bytes *)
Record rcell := { r_note : Z; r_ins : Z; r_vol : Z; r_fxt : Z; r_fxp : Z }.
Definition rcell0 : rcell := {| r_note := 0; r_ins := 0; r_vol := 0; r_fxt := 0; r_fxp := 0 |}.

(* ================================================================ XM ================================================== *)

(* optional field of a packed cell: present -> next byte (running out of declared data is an error), absent -> 0 *)
Definition opt_field (present : bool) (l : list Z) : option (Z * list Z) :=
  if present then match l with x :: r => Some (x, r) | [] => None end else Some (0, l).

(* xm_load.c:122-161: one cell from the pattern's data (exactly `datasize` bytes; None = "goto err") *)
Definition xm_dec_cell (l : list Z) : option (rcell * list Z) :=
  match l with
  | [] => None
  | b :: l0 =>
    if 128 <=? b then
      match opt_field (bit 0 b) l0 with None => None | Some (n, l1) =>
      match opt_field (bit 1 b) l1 with None => None | Some (i, l2) =>
      match opt_field (bit 2 b) l2 with None => None | Some (v, l3) =>
      match opt_field (bit 3 b) l3 with None => None | Some (t, l4) =>
      match opt_field (bit 4 b) l4 with None => None | Some (p, l5) =>
        Some ({| r_note := n; r_ins := i; r_vol := v; r_fxt := t; r_fxp := p |}, l5)
      end end end end end
    else match l0 with
         | i :: v :: t :: p :: r => Some ({| r_note := b; r_ins := i; r_vol := v; r_fxt := t; r_fxp := p |}, r)
         | _ => None
         end
  end.

(* xm_load.c:163-179 *)
Definition xm_fix_fxt (t : Z) : Z :=
  if (t =? 18) || (t =? 19) || (t =? 22) || (t =? 23) || (t =? 24) || (t =? 26) || (t =? 28) || (t =? 30) || (t =? 31) || (t =? 32) then 0
  else if 34 <? t then 0 else t.

(* xm_load.c:181-191 *)
Definition xm_note (note ins fxt fxp : Z) : Z :=
  if note =? 97 then
    (if (fxt =? 14) && (msn fxp =? 13) then C_XMP_KEY_OFF else if ins =? 0 then C_XMP_KEY_OFF else C_XMP_KEY_FADE)
  else if 0 <? note then (note + 12) mod 256 else note.

(* xm_load.c:193-218 *)
Definition xm_fx (fxt fxp : Z) : Z * Z :=
  let fxp1 := if fxt =? 14 then
                let p := if msn fxp =? C_EX_FINETUNE then C_EX_FINETUNE * 16 + (lsn fxp - 8) mod 16 else fxp in
                if (p =? 67) || (p =? 115) then p - 1 else p
              else fxp in
  if (fxt =? C_FX_XF_PORTA) && (msn fxp1 =? 9) then
    let l := lsn fxp1 in
    if (l =? 0) || (l =? 1) then (C_FX_SURROUND, l)
    else if (l =? 14) || (l =? 15) then (C_FX_REVERSE, l - 14)
    else (fxt, fxp1)
  else (fxt, fxp1).

(* xm_load.c:220-304: the volume column; returns vol, fxt, fxp, f2t, f2p *)
Definition xm_volcol (vol fxt fxp : Z) : Z * Z * Z * Z * Z :=
  if vol =? 0 then (0, fxt, fxp, 0, 0)
  else if (16 <=? vol) && (vol <=? 80) then (vol - 15, fxt, fxp, 0, 0)
  else
    let h := vol / 16 in
    if h =? 6 then (0, fxt, fxp, C_FX_VOLSLIDE_2, vol - 96)
    else if h =? 7 then (0, fxt, fxp, C_FX_VOLSLIDE_2, (vol - 112) * 16)
    else if h =? 8 then (0, fxt, fxp, C_FX_EXTENDED, C_EX_F_VSLIDE_DN * 16 + (vol - 128))
    else if h =? 9 then (0, fxt, fxp, C_FX_EXTENDED, C_EX_F_VSLIDE_UP * 16 + (vol - 144))
    else if h =? 10 then (0, fxt, fxp, C_FX_VIBRATO, (vol - 160) * 16)
    else if h =? 11 then (0, fxt, fxp, C_FX_VIBRATO, vol - 176)
    else if h =? 12 then (0, fxt, fxp, C_FX_SETPAN, (vol - 192) * 16)
    else if h =? 13 then (0, fxt, fxp, C_FX_PANSL_NOMEM, (vol - 208) * 16)
    else if h =? 14 then (0, fxt, fxp, C_FX_PANSL_NOMEM, vol - 224)
    else if h =? 15 then
      let f2p := (vol - 240) * 16 in
      let '(t1, p1, f2p1) :=
        if (fxt =? C_FX_TONEPORTA) || (fxt =? C_FX_TONE_VSLIDE) then
          ((if fxt =? C_FX_TONEPORTA then 0 else C_FX_VOLSLIDE), 0, (if f2p <? 128 then f2p * 2 else 255))
        else (fxt, fxp, f2p) in
      if t1 =? C_FX_OFFSET then (0, 0, 0, C_FX_TONEPORTA, f2p1) else (0, t1, p1, C_FX_TONEPORTA, f2p1)
    else (0, fxt, fxp, 0, 0).

Definition xm_xlat (c : rcell) : ev :=
  let t0 := xm_fix_fxt (r_fxt c) in
  let n := xm_note (r_note c) (r_ins c) t0 (r_fxp c) in
  let '(t1, p1) := xm_fx t0 (r_fxp c) in
  let '(v, t2, p2, f2t, f2p) := xm_volcol (r_vol c) t1 p1 in
  {| e_note := n; e_ins := r_ins c; e_vol := v; e_fxt := t2; e_fxp := p2; e_f2t := f2t; e_f2p := f2p |}.

(* n items with the same item reader *)
Fixpoint dec_cells {A} (dec : list Z -> option (A * list Z)) (n : nat) (l : list Z) : option (list A * list Z) :=
  match n with
  | O => Some ([], l)
  | S k => match dec l with None => None | Some (x, r) =>
             match dec_cells dec k r with None => None | Some (xs, r') => Some (x :: xs, r') end end
  end.

(* load_xm_pattern after the header: rows x chn cells in row-major order; `data` is the declared datasize bytes (what the
   file lacks is zero-filled by the loader).  An empty data block is an empty pattern.  None = the load fails. *)
Definition xm_load_pattern (rows chn : Z) (data : list Z) : option (list ev) :=
  let n := Z.to_nat (rows * chn) in
  match data with
  | [] => Some (repeat ev0 n)
  | _ => match dec_cells xm_dec_cell n data with None => None | Some (cs, _) => Some (map xm_xlat cs) end
  end.

(* ---- an XM writer: per cell, either the five raw bytes (only possible when the note byte is below 128) or a packing byte
   naming any set of fields that includes every non-zero one *)
Definition xm_enc_cell (mode : option Z) (c : rcell) : list Z :=
  match mode with
  | None => [r_note c; r_ins c; r_vol c; r_fxt c; r_fxp c]
  | Some m => (128 + m) ::
              (if bit 0 m then [r_note c] else []) ++ (if bit 1 m then [r_ins c] else []) ++ (if bit 2 m then [r_vol c] else []) ++
              (if bit 3 m then [r_fxt c] else []) ++ (if bit 4 m then [r_fxp c] else [])
  end.

Definition byteb (x : Z) : bool := (0 <=? x) && (x <=? 255).
Definition rcell_okb (c : rcell) : bool := byteb (r_note c) && byteb (r_ins c) && byteb (r_vol c) && byteb (r_fxt c) && byteb (r_fxp c).
Definition covers (present : bool) (x : Z) : bool := present || (x =? 0).
Definition xm_mode_okb (mode : option Z) (c : rcell) : bool :=
  match mode with
  | None => r_note c <? 128
  | Some m => (0 <=? m) && (m <=? 31) && covers (bit 0 m) (r_note c) && covers (bit 1 m) (r_ins c) && covers (bit 2 m) (r_vol c) &&
              covers (bit 3 m) (r_fxt c) && covers (bit 4 m) (r_fxp c)
  end.
Definition xm_enc_cells (mcs : list (option Z * rcell)) : list Z := concat (map (fun mc => xm_enc_cell (fst mc) (snd mc)) mcs).
(* the tightest packing: exactly the non-zero fields *)
Definition xm_min_mode (c : rcell) : option Z :=
  Some ((if r_note c =? 0 then 0 else 1) + (if r_ins c =? 0 then 0 else 2) + (if r_vol c =? 0 then 0 else 4) +
        (if r_fxt c =? 0 then 0 else 8) + (if r_fxp c =? 0 then 0 else 16)).

(* ================================================================ S3M ================================================= *)

(* s3m_load.c:129-211 xlat_fx *)
Definition s3m_xlat_fx (t p : Z) : Z * Z :=
  if Z.of_nat (length s3m_fx_table) <=? t then (0, 0) else
  let t1 := nth (Z.to_nat t) s3m_fx_table 0 in
  let h := msn p in let l := lsn p in
  if t1 =? C_FX_S3M_BPM then (if p <? 32 then (0, 0) else (t1, p))
  else if t1 =? S3M_FX_EXTENDED then
    if h =? 1 then (C_FX_EXTENDED, C_EX_GLISS * 16 + l)
    else if h =? 2 then (C_FX_EXTENDED, C_EX_FINETUNE * 16 + (l - 8) mod 16)
    else if h =? 3 then (C_FX_EXTENDED, C_EX_VIBRATO_WF * 16 + l)
    else if h =? 4 then (C_FX_EXTENDED, C_EX_TREMOLO_WF * 16 + l)
    else if (h =? 5) || (h =? 6) || (h =? 7) || (h =? 9) || (h =? 10) then (0, 0)
    else if h =? 8 then (C_FX_SETPAN, l * 16)
    else if h =? 11 then (C_FX_EXTENDED, C_EX_PATTERN_LOOP * 16 + l)
    else if h =? 12 then (if l =? 0 then (0, 0) else (C_FX_EXTENDED, p))
    else (C_FX_EXTENDED, p)
  else if t1 =? C_FX_SETPAN then
    (if p =? 164 then (C_FX_SURROUND, 1) else (t1, (if 255 <? p * 2 then 255 else p * 2)))
  else if t1 =? S3M_NONE then (0, 0)
  else (t1, p).

(* s3m_load.c:513-524 *)
Definition s3m_note (n : Z) : Z :=
  if n =? 255 then 0 else if n =? 254 then C_XMP_KEY_OFF else (13 + 12 * msn n + lsn n) mod 256.

(* hio_read8: at the end of the data the value is 0xff and the stream's error flag is raised *)
Definition rd8 (l : list Z) : Z * list Z * bool :=
  match l with x :: r => (x, r, false) | [] => (255, [], true) end.

Definition set_ev {A} (row : list A) (c : Z) (f : A -> A) (d : A) : list A :=
  if (0 <=? c) && (c <? Z.of_nat (length row)) then upd row (Z.to_nat c) (f (nth (Z.to_nat c) row d)) else row.

(* s3m_load.c:496-541: the loop over one pattern.  `l` is the file from the byte after the 16-bit packed length to its end,
   `pl` that length minus 2, `err` the stream's sticky error flag.  Channels at or above `chn` are decoded into a dummy.
   Result: the rows completed, the row in progress, the error flag; None = "goto err3" (the load fails). *)
Fixpoint s3m_loop (fuel : nat) (chn rows pl r : Z) (cur : list ev) (done : list (list ev)) (l : list Z) (err : bool)
  : option (list (list ev) * bool) :=
  match fuel with O => None | S fuel' =>
  if (pl <? 0) || (rows <=? r) then Some (rev done ++ (if r <? rows then cur :: repeat (repeat ev0 (Z.to_nat chn)) (Z.to_nat (rows - r - 1)) else []), err)
  else
    let '(b, l1, e1) := rd8 l in
    if err || e1 then None
    else if b =? 0 then s3m_loop fuel' chn rows pl (r + 1) (repeat ev0 (Z.to_nat chn)) (cur :: done) l1 false
    else
      let c := b mod 32 in
      let '(cur1, pl1, l2, err1) :=
        if bit 5 b then
          let '(n, la, ea) := rd8 l1 in let '(i, lb, eb) := rd8 la in
          (set_ev cur c (fun e => {| e_note := s3m_note n; e_ins := i; e_vol := e_vol e; e_fxt := e_fxt e; e_fxp := e_fxp e; e_f2t := e_f2t e; e_f2p := e_f2p e |}) ev0,
           pl - 2, lb, ea || eb)
        else (cur, pl, l1, false) in
      let '(cur2, pl2, l3, err2) :=
        if bit 6 b then
          let '(v, la, ea) := rd8 l2 in
          (set_ev cur1 c (fun e => {| e_note := e_note e; e_ins := e_ins e; e_vol := (v + 1) mod 256; e_fxt := e_fxt e; e_fxp := e_fxp e; e_f2t := e_f2t e; e_f2p := e_f2p e |}) ev0,
           pl1 - 1, la, err1 || ea)
        else (cur1, pl1, l2, err1) in
      let '(cur3, pl3, l4, err3) :=
        if bit 7 b then
          let '(t, la, ea) := rd8 l3 in let '(p, lb, eb) := rd8 la in
          let '(t', p') := s3m_xlat_fx t p in
          (set_ev cur2 c (fun e => {| e_note := e_note e; e_ins := e_ins e; e_vol := e_vol e; e_fxt := t'; e_fxp := p'; e_f2t := e_f2t e; e_f2p := e_f2p e |}) ev0,
           pl2 - 2, lb, err2 || ea || eb)
        else (cur2, pl2, l3, err2) in
      s3m_loop fuel' chn rows pl3 r cur3 done l4 err3
  end.

Definition s3m_load_pattern (chn : Z) (pl : Z) (l : list Z) : option (list (list ev) * bool) :=
  s3m_loop (S (length l)) chn 64 pl 0 (repeat ev0 (Z.to_nat chn)) [] l false.

(* ---- an S3M writer: per row, any number of channel entries (channel, which of the three groups follow, the bytes), then 0 *)
Record s3ment := { s_chn : Z; s_hasni : bool; s_note : Z; s_ins : Z; s_hasvol : bool; s_vol : Z; s_hasfx : bool; s_fxt : Z; s_fxp : Z }.
Definition s3m_enc_ent (e : s3ment) : list Z :=
  (s_chn e + (if s_hasni e then 32 else 0) + (if s_hasvol e then 64 else 0) + (if s_hasfx e then 128 else 0)) ::
  (if s_hasni e then [s_note e; s_ins e] else []) ++ (if s_hasvol e then [s_vol e] else []) ++ (if s_hasfx e then [s_fxt e; s_fxp e] else []).
Definition s3m_enc_row (es : list s3ment) : list Z := concat (map s3m_enc_ent es) ++ [0].
Definition s3m_enc_rows (rows : list (list s3ment)) : list Z := concat (map s3m_enc_row rows).
Definition s3ment_okb (e : s3ment) : bool :=
  (0 <=? s_chn e) && (s_chn e <=? 31) && (s_hasni e || s_hasvol e || s_hasfx e) &&
  byteb (s_note e) && byteb (s_ins e) && byteb (s_vol e) && byteb (s_fxt e) && byteb (s_fxp e).
(* what the entries of a row mean, independently of the byte format *)
Definition s3m_apply_ent (row : list ev) (e : s3ment) : list ev :=
  set_ev row (s_chn e) (fun x =>
    let '(t', p') := s3m_xlat_fx (s_fxt e) (s_fxp e) in
    {| e_note := if s_hasni e then s3m_note (s_note e) else e_note x; e_ins := if s_hasni e then s_ins e else e_ins x;
       e_vol := if s_hasvol e then (s_vol e + 1) mod 256 else e_vol x;
       e_fxt := if s_hasfx e then t' else e_fxt x; e_fxp := if s_hasfx e then p' else e_fxp x; e_f2t := e_f2t x; e_f2p := e_f2p x |}) ev0.
Definition s3m_ref_row (chn : Z) (es : list s3ment) : list ev := fold_left s3m_apply_ent es (repeat ev0 (Z.to_nat chn)).

(* ================================================================ IT ================================================== *)

(* it_load.c:94-196 xlat_fx: (translated type, parameter, new last_fxp[c]) *)
Definition it_xlat_fx (newfx : bool) (lastp : Z) (t p : Z) : Z * Z * Z :=
  let t1 := nth (Z.to_nat t) it_fx_table 0 in
  if t1 =? IT_FX_XTND then
    let p1 := if (msn p =? 0) && (p =? 0) then lastp else p in
    let last1 := if (msn p =? 0) && (p =? 0) then lastp else p in
    let h := msn p1 in let l := lsn p1 in
    let '(t2, p2) :=
      if h =? 1 then (C_FX_EXTENDED, 48 + l)
      else if h =? 2 then (0, 0)
      else if h =? 3 then (C_FX_EXTENDED, 64 + l)
      else if h =? 4 then (C_FX_EXTENDED, 112 + l)
      else if h =? 5 then (if l <=? 3 then (C_FX_PANBRELLO_WF, l) else (0, 0))
      else if h =? 6 then (C_FX_EXTENDED, 224 + l)
      else if h =? 7 then (C_FX_IT_INSTFUNC, p1 mod 16)
      else if h =? 8 then (C_FX_SETPAN, l * 16)
      else if h =? 9 then (if (l =? 0) || (l =? 1) then (C_FX_SURROUND, l) else if (l =? 14) || (l =? 15) then (C_FX_REVERSE, l - 14) else (C_FX_EXTENDED, p1))
      else if h =? 10 then (C_FX_HIOFFSET, l)
      else if h =? 11 then (C_FX_EXTENDED, 96 + l)
      else if (h =? 12) || (h =? 13) then (C_FX_EXTENDED, Z.lor (if l =? 0 then 1 else l) (h * 16))
      else if h =? 14 then (C_FX_IT_ROWDELAY, l)
      else if h =? 15 then (C_FX_MACRO_SET, l)
      else (0, 0) in
    (t2, p2, last1)
  else if t1 =? C_FX_TREMOR then
    (if negb newfx && negb (p =? 0) then (t1, (Z.lor ((msn p + 1) * 16) (lsn p + 1)) mod 256, lastp) else (t1, p, lastp))
  else if t1 =? C_FX_GLOBALVOL then (if 128 <? p then (0, 0, lastp) else (t1, p, lastp))
  else if t1 =? IT_FX_NONE then (0, 0, lastp)
  else (t1, p, lastp).

Definition it_porta_val : list Z := [0; 1; 4; 8; 16; 32; 64; 96; 128; 255].

(* it_load.c:199-245 xlat_volfx: the event's vol holds the stored byte b *)
Definition it_xlat_volfx (e : ev) : ev :=
  let b := e_vol e in
  let w v t p := {| e_note := e_note e; e_ins := e_ins e; e_vol := v; e_fxt := e_fxt e; e_fxp := e_fxp e; e_f2t := t; e_f2p := p |} in
  if b <=? 64 then w (b + 1) (e_f2t e) (e_f2p e)
  else if (65 <=? b) && (b <=? 74) then w 0 C_FX_F_VSLIDE_UP_2 (b - 65)
  else if (75 <=? b) && (b <=? 84) then w 0 C_FX_F_VSLIDE_DN_2 (b - 75)
  else if (85 <=? b) && (b <=? 94) then w 0 C_FX_VSLIDE_UP_2 (b - 85)
  else if (95 <=? b) && (b <=? 104) then w 0 C_FX_VSLIDE_DN_2 (b - 95)
  else if (105 <=? b) && (b <=? 114) then w 0 C_FX_PORTA_DN ((b - 105) * 4)
  else if (115 <=? b) && (b <=? 124) then w 0 C_FX_PORTA_UP ((b - 115) * 4)
  else if (128 <=? b) && (b <=? 192) then w 0 C_FX_SETPAN (if b =? 192 then 255 else (b - 128) * 4)
  else if (193 <=? b) && (b <=? 202) then w 0 C_FX_TONEPORTA (nth (Z.to_nat (b - 193)) it_porta_val 0)
  else if (203 <=? b) && (b <=? 212) then w 0 C_FX_VIBRATO (b - 203)
  else w 0 (e_f2t e) (e_f2p e).

(* it_load.c:1071-1084 *)
Definition it_note (b : Z) : Z :=
  if b =? 255 then C_XMP_KEY_OFF else if b =? 254 then C_XMP_KEY_CUT else if 119 <? b then C_XMP_KEY_FADE else b + 1.

(* per-channel decoder memory: mask[c], lastevent[c] (note, ins, vol byte, fxt, fxp), last_fxp[c] *)
Record itch := { m_mask : Z; m_note : Z; m_ins : Z; m_vol : Z; m_fxt : Z; m_fxp : Z; m_lastp : Z }.
Definition itch0 : itch := {| m_mask := 0; m_note := 0; m_ins := 0; m_vol := 0; m_fxt := 0; m_fxp := 0; m_lastp := 0 |}.

Definition with_note (e : ev) (x : Z) : ev := {| e_note := x; e_ins := e_ins e; e_vol := e_vol e; e_fxt := e_fxt e; e_fxp := e_fxp e; e_f2t := e_f2t e; e_f2p := e_f2p e |}.
Definition with_ins (e : ev) (x : Z) : ev := {| e_note := e_note e; e_ins := x; e_vol := e_vol e; e_fxt := e_fxt e; e_fxp := e_fxp e; e_f2t := e_f2t e; e_f2p := e_f2p e |}.
Definition with_vol (e : ev) (x : Z) : ev := {| e_note := e_note e; e_ins := e_ins e; e_vol := x; e_fxt := e_fxt e; e_fxp := e_fxp e; e_f2t := e_f2t e; e_f2p := e_f2p e |}.
Definition with_fx (e : ev) (t p : Z) : ev := {| e_note := e_note e; e_ins := e_ins e; e_vol := e_vol e; e_fxt := t; e_fxp := p; e_f2t := e_f2t e; e_f2p := e_f2p e |}.

(* the body of the loop for one channel entry after the mask is known (it_load.c:1061-1131): the event, the channel memory and
   the remaining data; the flag says whether a "break" (data exhausted) ended the pattern *)
Definition it_entry (newfx : bool) (e : ev) (m : itch) (l : list Z) : ev * itch * list Z * bool :=
  let mk := m_mask m in
  (* note *)
  let '(e1, m1, l1, brk1) :=
    if bit 0 mk then match l with [] => (e, m, l, true) | b :: r => let n := it_note b in
                       (with_note e n, {| m_mask := mk; m_note := n; m_ins := m_ins m; m_vol := m_vol m; m_fxt := m_fxt m; m_fxp := m_fxp m; m_lastp := m_lastp m |}, r, false) end
    else (e, m, l, false) in
  if brk1 then (e1, m1, l1, true) else
  let '(e2, m2, l2, brk2) :=
    if bit 1 mk then match l1 with [] => (e1, m1, l1, true) | b :: r =>
                       (with_ins e1 b, {| m_mask := mk; m_note := m_note m1; m_ins := b; m_vol := m_vol m1; m_fxt := m_fxt m1; m_fxp := m_fxp m1; m_lastp := m_lastp m1 |}, r, false) end
    else (e1, m1, l1, false) in
  if brk2 then (e2, m2, l2, true) else
  let '(e3, m3, l3, brk3) :=
    if bit 2 mk then match l2 with [] => (e2, m2, l2, true) | b :: r =>
                       (it_xlat_volfx (with_vol e2 b), {| m_mask := mk; m_note := m_note m2; m_ins := m_ins m2; m_vol := b; m_fxt := m_fxt m2; m_fxp := m_fxp m2; m_lastp := m_lastp m2 |}, r, false) end
    else (e2, m2, l2, false) in
  if brk3 then (e3, m3, l3, true) else
  let '(e4, m4, l4, brk4) :=
    if bit 3 mk then match l3 with
                     | b :: p :: r =>
                       if Z.of_nat (length it_fx_table) <=? b then (e3, m3, r, false)
                       else let '(t', p', lp') := it_xlat_fx newfx (m_lastp m3) b p in
                            (with_fx e3 t' p', {| m_mask := mk; m_note := m_note m3; m_ins := m_ins m3; m_vol := m_vol m3; m_fxt := t'; m_fxp := p'; m_lastp := lp' |}, r, false)
                     | _ => (e3, m3, l3, true)
                     end
    else (e3, m3, l3, false) in
  if brk4 then (e4, m4, l4, true) else
  let e5 := if bit 4 mk then with_note e4 (m_note m4) else e4 in
  let e6 := if bit 5 mk then with_ins e5 (m_ins m4) else e5 in
  let e7 := if bit 6 mk then it_xlat_volfx (with_vol e6 (m_vol m4)) else e6 in
  let e8 := if bit 7 mk then with_fx e7 (m_fxt m4) (m_fxp m4) else e7 in
  (e8, m4, l4, false).

(* load_it_pattern's loop over the pattern's data (exactly the declared length: a shorter file fails the load before).  All 64
   channels are decoded; the loader keeps those below the module's channel count. *)
Fixpoint it_loop (fuel : nat) (newfx : bool) (rows r : Z) (cur : list ev) (done : list (list ev)) (mem : list itch) (l : list Z)
  : list (list ev) * Z :=
  let fin (r' : Z) := (rev done ++ (if r' <? rows then cur :: repeat (repeat ev0 64) (Z.to_nat (rows - r' - 1)) else []), r') in
  match fuel with O => fin r | S fuel' =>
  if rows <=? r then fin r else
  match l with
  | [] => fin r
  | b :: l0 =>
    if b =? 0 then it_loop fuel' newfx rows (r + 1) (repeat ev0 64) (cur :: done) mem l0
    else
      let c := (b - 1) mod 64 in
      let cn := Z.to_nat c in
      let m := nth cn mem itch0 in
      let newmask := if 128 <=? b then match l0 with [] => None | mk :: l1 => Some (mk, l1) end else Some (m_mask m, l0) in
      match newmask with
      | None => fin r
      | Some (mk, l1) =>
        let m' := {| m_mask := mk; m_note := m_note m; m_ins := m_ins m; m_vol := m_vol m; m_fxt := m_fxt m; m_fxp := m_fxp m; m_lastp := m_lastp m |} in
        let '(e', m'', l2, brk) := it_entry newfx (nth cn cur ev0) m' l1 in
        let cur' := upd cur cn e' in
        let mem' := upd mem cn m'' in
        if brk then (rev done ++ cur' :: repeat (repeat ev0 64) (Z.to_nat (rows - r - 1)), r)
        else it_loop fuel' newfx rows r cur' done mem' l2
      end
  end
  end.

Definition it_load_pattern (newfx : bool) (rows : Z) (data : list Z) : list (list ev) :=
  fst (it_loop (S (length data)) newfx rows 0 (repeat ev0 64) [] (repeat itch0 64) data).

(* it_load.c:1403-1438: the channel-count scan over the same data (highest channel named by any entry; the loader starts from 0) *)
Fixpoint it_scan (fuel : nat) (rows r : Z) (mx : Z) (masks : list Z) (l : list Z) : Z :=
  match fuel with O => mx | S fuel' =>
  if rows <=? r then mx else
  match l with
  | [] => mx
  | b :: l0 =>
    if b =? 0 then it_scan fuel' rows (r + 1) mx masks l0
    else
      let c := (b - 1) mod 64 in
      let mx' := Z.max mx c in
      let cn := Z.to_nat c in
      let newmask := if 128 <=? b then match l0 with [] => None | mk :: l1 => Some (mk, l1) end else Some (nth cn masks 0, l0) in
      match newmask with
      | None => mx'
      | Some (mk, l1) =>
        let k := ((if bit 0 mk then 1 else 0) + (if bit 1 mk then 1 else 0) + (if bit 2 mk then 1 else 0) + (if bit 3 mk then 2 else 0))%nat in
        it_scan fuel' rows r mx' (upd masks cn mk) (skipn k l1)
      end
  end
  end.
Definition it_max_channel (rows : Z) (data : list Z) : Z := it_scan (S (length data)) rows 0 0 (repeat 0 64) data.

(* ---- an IT writer: per row, channel entries that always carry their mask byte (no reuse of the previous mask or values),
   then 0.  Fields: note byte (0..119, 254, 255 or a fade value), instrument, volume byte, command and parameter. *)
Record itent := { t_chn : Z; t_hasnote : bool; t_note : Z; t_hasins : bool; t_ins : Z; t_hasvol : bool; t_vol : Z; t_hasfx : bool; t_fxt : Z; t_fxp : Z }.
Definition it_ent_mask (e : itent) : Z :=
  (if t_hasnote e then 1 else 0) + (if t_hasins e then 2 else 0) + (if t_hasvol e then 4 else 0) + (if t_hasfx e then 8 else 0).
Definition it_enc_ent (e : itent) : list Z :=
  (t_chn e + 1 + 128) :: it_ent_mask e ::
  (if t_hasnote e then [t_note e] else []) ++ (if t_hasins e then [t_ins e] else []) ++ (if t_hasvol e then [t_vol e] else []) ++
  (if t_hasfx e then [t_fxt e; t_fxp e] else []).
Definition it_enc_row (es : list itent) : list Z := concat (map it_enc_ent es) ++ [0].
Definition it_enc_rows (rows : list (list itent)) : list Z := concat (map it_enc_row rows).
Definition itent_okb (e : itent) : bool :=
  (0 <=? t_chn e) && (t_chn e <=? 63) && byteb (t_note e) && byteb (t_ins e) && byteb (t_vol e) && byteb (t_fxp e) &&
  (0 <=? t_fxt e) && (t_fxt e <? Z.of_nat (length it_fx_table)).
(* what an entry means, independently of the byte format: the event of its channel and that channel's S-command memory *)
Definition it_apply_ent (newfx : bool) (st : list ev * list Z) (e : itent) : list ev * list Z :=
  let '(row, lastps) := st in
  let cn := Z.to_nat (t_chn e) in
  let x := nth cn row ev0 in
  let x1 := if t_hasnote e then with_note x (it_note (t_note e)) else x in
  let x2 := if t_hasins e then with_ins x1 (t_ins e) else x1 in
  let x3 := if t_hasvol e then it_xlat_volfx (with_vol x2 (t_vol e)) else x2 in
  if t_hasfx e then
    let '(t', p', lp') := it_xlat_fx newfx (nth cn lastps 0) (t_fxt e) (t_fxp e) in
    (upd row cn (with_fx x3 t' p'), upd lastps cn lp')
  else (upd row cn x3, lastps).
Fixpoint it_ref_rows (newfx : bool) (lastps : list Z) (rows : list (list itent)) : list (list ev) :=
  match rows with
  | [] => []
  | es :: t => let '(row, lastps') := fold_left (it_apply_ent newfx) es (repeat ev0 64, lastps) in row :: it_ref_rows newfx lastps' t
  end.
