(* C16: the sequencer step of the player - next_order and next_row (src/player.c) - on the player's position and flow-control
   state.  What the effects of the row just played left in the flow state (pattern break, position jump, jump line, pattern
   loop destination, row delay) is an arbitrary input; the module (order list, rows per pattern, restart position, the playing
   sequence's entry point) is a parameter.  Global volume, time tracking and the per-channel loop tables that next_order also
   resets do not feed back into the position and are left out. *)
From Coq Require Import ZArith List Lia Bool.
Import ListNotations.
Local Open Scope Z_scope.

Record fmod := { f_len : Z; f_pat : Z; f_rst : Z; f_xxo : list Z; f_rows : list Z;     (* rows of each pattern *)
                 f_marker : bool;                                                        (* QUIRK_MARKER: 0xff in the order list ends the song *)
                 f_entry : Z;                                                            (* seq_data[p->sequence].entry_point *)
                 f_rst_in_seq : bool }.                                                  (* libxmp_get_sequence(rst) == p->sequence *)

Record fstate := { s_ord : Z; s_row : Z; s_pos : Z; s_frame : Z;
                   s_pbreak : Z; s_jump : Z; s_delay : Z; s_jumpline : Z; s_loop_dest : Z; s_loop_param : Z;
                   s_num_rows : Z; s_rowdelay : Z; s_rowdelay_set : Z }.

Definition xxo (m : fmod) (i : Z) : Z := nth (Z.to_nat i) (f_xxo m) 0.
Definition rows_of (m : fmod) (p : Z) : Z := nth (Z.to_nat p) (f_rows m) 0.

(* the do-while of next_order (player.c:1727-1749): the order reached; None = the fuel ran out (the loop would not end) *)
Fixpoint order_walk (fuel : nat) (m : fmod) (ord : Z) : option Z :=
  match fuel with O => None | S f =>
    let ord1 := ord + 1 in
    let mark := f_marker m && (ord1 <? f_len m) && (xxo m ord1 =? 255) in
    let ord2 := if (f_len m <=? ord1) || mark then
                  if (f_len m <? f_rst m) || (f_pat m <=? xxo m (f_rst m)) || (ord1 <? f_entry m) then f_entry m
                  else if f_rst_in_seq m then f_rst m else f_entry m
                else ord1 in
    if f_pat m <=? xxo m ord2 then order_walk f m ord2 else Some ord2
  end.

(* next_order (player.c:1716-1792) *)
Definition next_order (m : fmod) (s : fstate) : option fstate :=
  match order_walk (Z.to_nat (2 * f_len m + 4)) m (s_ord s) with
  | None => None
  | Some ord =>
    let nr := rows_of m (xxo m ord) in
    let jl := if nr <=? s_jumpline s then 0 else s_jumpline s in
    Some {| s_ord := ord; s_row := jl; s_pos := ord; s_frame := 0;
            s_pbreak := s_pbreak s; s_jump := s_jump s; s_delay := s_delay s; s_jumpline := 0; s_loop_dest := s_loop_dest s; s_loop_param := s_loop_param s;
            s_num_rows := nr; s_rowdelay := s_rowdelay s; s_rowdelay_set := s_rowdelay_set s |}
  end.

(* next_row (player.c:1794-1830) *)
Definition next_row (m : fmod) (s : fstate) : option fstate :=
  let s0 := {| s_ord := s_ord s; s_row := s_row s; s_pos := s_pos s; s_frame := 0;
               s_pbreak := s_pbreak s; s_jump := s_jump s; s_delay := 0; s_jumpline := s_jumpline s; s_loop_dest := s_loop_dest s; s_loop_param := -1;
               s_num_rows := s_num_rows s; s_rowdelay := s_rowdelay s; s_rowdelay_set := s_rowdelay_set s |} in
  if negb (s_pbreak s0 =? 0) then
    let ord := if negb (s_jump s0 =? -1) then s_jump s0 - 1 else s_ord s0 in
    next_order m {| s_ord := ord; s_row := s_row s0; s_pos := s_pos s0; s_frame := 0;
                    s_pbreak := 0; s_jump := -1; s_delay := 0; s_jumpline := s_jumpline s0; s_loop_dest := s_loop_dest s0; s_loop_param := -1;
                    s_num_rows := s_num_rows s0; s_rowdelay := s_rowdelay s0; s_rowdelay_set := s_rowdelay_set s0 |}
  else
    let '(row1, rd, rds) := if s_rowdelay s0 =? 0 then (s_row s0 + 1, 0, 0) else (s_row s0, s_rowdelay s0 - 1, s_rowdelay_set s0) in
    let '(row2, ld) := if 0 <=? s_loop_dest s0 then (s_loop_dest s0, -1) else (row1, s_loop_dest s0) in
    let s1 := {| s_ord := s_ord s0; s_row := row2; s_pos := s_pos s0; s_frame := 0;
                 s_pbreak := 0; s_jump := s_jump s0; s_delay := 0; s_jumpline := s_jumpline s0; s_loop_dest := ld; s_loop_param := -1;
                 s_num_rows := s_num_rows s0; s_rowdelay := rd; s_rowdelay_set := rds |} in
    if s_num_rows s1 <=? row2 then next_order m s1 else Some s1.

(* ---- the module facts the theorem uses (C03's predicate gives the first group, the scan the last one) *)
Definition fmod_okb (m : fmod) : bool :=
  (1 <=? f_len m) && (f_len m <=? 256) && (Z.of_nat (length (f_xxo m)) =? f_len m) && (Z.of_nat (length (f_rows m)) =? f_pat m) &&
  forallb (fun o => (0 <=? o) && (o <=? 255)) (f_xxo m) && forallb (fun r => 1 <=? r) (f_rows m) &&
  (0 <=? f_rst m) && (f_rst m <? f_len m) && (0 <=? f_entry m) && (f_entry m <? f_len m) && (0 <=? f_pat m) && (f_pat m <=? 256).
(* the sequence can be played: going up from its entry point a real pattern comes before the end of the list and, when 0xff is an
   end marker, before any marker *)
Fixpoint playable_from (n : nat) (m : fmod) (i : Z) : bool :=
  match n with O => false | S k =>
    if f_len m <=? i then false
    else if xxo m i <? f_pat m then true
    else if f_marker m && (xxo m i =? 255) then false
    else playable_from k m (i + 1)
  end.
Definition playableb (m : fmod) : bool := playable_from (Z.to_nat (f_len m)) m (f_entry m).

(* the position clause of C16 *)
Definition pos_okb (m : fmod) (s : fstate) : bool :=
  (0 <=? s_ord s) && (s_ord s <? f_len m) && (xxo m (s_ord s) <? f_pat m) && (s_num_rows s =? rows_of m (xxo m (s_ord s))) &&
  (0 <=? s_row s) && (s_row s <? s_num_rows s).
