(* C08: DEFLATE (RFC 1951) as the bundled miniz decoder (src/miniz_tinfl.c, used by gunzip.c and the zip reader) must decode it, the
   gzip member framing of src/depackers/gunzip.c around it, and a writer (stored blocks and fixed-Huffman blocks with LZ77 matches).

   The decoder is written at the level of the format (in the style of zlib's reference "puff"): a bit stream, least significant bit
   of each byte first; blocks with a final flag and a type; stored blocks byte-aligned with LEN / NLEN; canonical Huffman codes
   (fixed, or dynamic with the code-length alphabet and its repeat codes 16 / 17 / 18) read most significant code bit first;
   length / distance symbols with extra bits; a copy reaches back at most as far as the output produced so far.  miniz requires
   every Huffman table to be complete (Kraft sum exactly 1) unless it uses at most one symbol (miniz_tinfl.c: "65536 != total &&
   used_syms > 1" fails); the model makes the same decision.  The tie to the C is the differential on streams from the writer and
   from zlib at every level and strategy (dynamic blocks included); see DESIGN for what is compared on damaged streams. *)
From Coq Require Import ZArith List Lia Bool.
Import ListNotations.
From LX Require Import Base.ListAux Model.Lzw Model.Crc.
Local Open Scope Z_scope.

Definition bits := list bool.

(* n bits, least significant first *)
Definition getbits (n : nat) (b : bits) : option (Z * bits) :=
  if (length (firstn n b) <? n)%nat then None else Some (z_of_bits (firstn n b), skipn n b).

(* ---------------------------------------------------------------- canonical Huffman codes ------------------------------ *)
(* a code is given by the code length of every symbol (0 = unused); h_count[len] symbols have length len, h_sym lists the used
   symbols by (length, symbol) *)
Record huff := { h_count : list Z; h_sym : list Z }.

Definition lens15 : list Z := [1; 2; 3; 4; 5; 6; 7; 8; 9; 10; 11; 12; 13; 14; 15].
Fixpoint syms_with (l : Z) (i : Z) (lens : list Z) : list Z :=
  match lens with [] => [] | x :: t => if x =? l then i :: syms_with l (i + 1) t else syms_with l (i + 1) t end.
Definition mk_huff (lens : list Z) : huff :=
  {| h_count := map (fun l => Z.of_nat (length (syms_with l 0 lens))) lens15; h_sym := concat (map (fun l => syms_with l 0 lens) lens15) |}.

(* code space left after assigning the codes of each length: 0 = complete, negative = over-subscribed *)
Definition kraft_left (counts : list Z) : Z := fold_left (fun left c => 2 * left - c) counts 1.
Definition huff_okb (h : huff) : bool :=
  let used := fold_left Z.add (h_count h) 0 in
  (kraft_left (h_count h) =? 0) || ((used <=? 1) && (0 <=? kraft_left (h_count h))).

(* one symbol: puff's decode() *)
Fixpoint decode_sym (counts : list Z) (syms : list Z) (code first index : Z) (b : bits) : option (Z * bits) :=
  match counts with
  | [] => None                                    (* ran out of codes: not a symbol of this table *)
  | cnt :: rest =>
    match b with
    | [] => None
    | bit :: b' =>
      let code := code + (if bit then 1 else 0) in
      if code - cnt <? first then Some (nth (Z.to_nat (index + (code - first))) syms 0, b')
      else decode_sym rest syms (2 * code) (2 * (first + cnt)) (index + cnt) b'
    end
  end.
Definition decode (h : huff) (b : bits) : option (Z * bits) := decode_sym (h_count h) (h_sym h) 0 0 0 b.

(* ---------------------------------------------------------------- length / distance tables (RFC 1951 3.2.5) ------------ *)
Definition len_base : list Z := [3; 4; 5; 6; 7; 8; 9; 10; 11; 13; 15; 17; 19; 23; 27; 31; 35; 43; 51; 59; 67; 83; 99; 115; 131; 163; 195; 227; 258].
Definition len_extra : list Z := [0; 0; 0; 0; 0; 0; 0; 0; 1; 1; 1; 1; 2; 2; 2; 2; 3; 3; 3; 3; 4; 4; 4; 4; 5; 5; 5; 5; 0].
Definition dist_base : list Z := [1; 2; 3; 4; 5; 7; 9; 13; 17; 25; 33; 49; 65; 97; 129; 193; 257; 385; 513; 769; 1025; 1537; 2049; 3073; 4097; 6145; 8193; 12289; 16385; 24577].
Definition dist_extra : list Z := [0; 0; 0; 0; 1; 1; 2; 2; 3; 3; 4; 4; 5; 5; 6; 6; 7; 7; 8; 8; 9; 9; 10; 10; 11; 11; 12; 12; 13; 13].

(* ---------------------------------------------------------------- the output window ------------------------------------ *)
(* the output is kept newest byte first.  A copy of `len` bytes from `d` back: when len <= d the bytes are a slice of the output;
   otherwise the last d bytes repeat. *)
Fixpoint lz_copy (fuel : nat) (len d : nat) (out : list Z) : list Z :=
  match fuel with O => out | S f =>
    if (len <=? d)%nat then firstn len (skipn (d - len) out) ++ out
    else lz_copy f (len - d) d (firstn d out ++ out)
  end.

(* ---------------------------------------------------------------- compressed blocks ------------------------------------ *)
(* codes(): literals, end of block, length / distance pairs.  fuel: every iteration consumes at least one bit *)
Fixpoint codes (fuel : nat) (lh dh : huff) (b : bits) (out : list Z) : option (bits * list Z) :=
  match fuel with O => None | S f =>
  match decode lh b with
  | None => None
  | Some (sym, b1) =>
    if sym <? 256 then codes f lh dh b1 (sym :: out)
    else if sym =? 256 then Some (b1, out)
    else if 285 <? sym then None
    else
      let k := Z.to_nat (sym - 257) in
      match getbits (Z.to_nat (nth k len_extra 0)) b1 with
      | None => None
      | Some (e1, b2) =>
        let len := nth k len_base 0 + e1 in
        match decode dh b2 with
        | None => None
        | Some (ds, b3) =>
          if 29 <? ds then None else
          let j := Z.to_nat ds in
          match getbits (Z.to_nat (nth j dist_extra 0)) b3 with
          | None => None
          | Some (e2, b4) =>
            let dist := nth j dist_base 0 + e2 in
            if Z.of_nat (length (firstn (Z.to_nat dist) out)) <? dist then None       (* reaches before the start of the output *)
            else codes f lh dh b4 (lz_copy (Z.to_nat len) (Z.to_nat len) (Z.to_nat dist) out)
          end
        end
      end
  end end.

Definition fixed_lit_lens : list Z := repeat 8 144 ++ repeat 9 112 ++ repeat 7 24 ++ repeat 8 8.
Definition fixed_dist_lens : list Z := repeat 5 30.

(* the code-length alphabet of a dynamic block *)
Definition cl_order : list Z := [16; 17; 18; 0; 8; 7; 9; 6; 10; 5; 11; 4; 12; 3; 13; 2; 14; 1; 15].

Fixpoint read_n (n : nat) (w : nat) (b : bits) : option (list Z * bits) :=
  match n with O => Some ([], b) | S k =>
    match getbits w b with None => None | Some (x, b1) =>
      match read_n k w b1 with None => None | Some (xs, b2) => Some (x :: xs, b2) end end
  end.

Fixpoint set_order (ord : list Z) (vals : list Z) (acc : list Z) : list Z :=
  match ord, vals with
  | o :: ot, v :: vt => set_order ot vt (upd acc (Z.to_nat o) v)
  | _, _ => acc
  end.

(* the literal/length and distance code lengths, run-length coded with the code-length code *)
Fixpoint read_lengths (fuel : nat) (clh : huff) (total : nat) (acc : list Z) (b : bits) : option (list Z * bits) :=
  match fuel with O => None | S f =>
  if (total <=? length acc)%nat then Some (acc, b) else
  match decode clh b with
  | None => None
  | Some (sym, b1) =>
    if sym <? 16 then read_lengths f clh total (acc ++ [sym]) b1
    else
      let '(w, base, val) := if sym =? 16 then (2%nat, 3, last acc (-1)) else if sym =? 17 then (3%nat, 3, 0) else (7%nat, 11, 0) in
      if val <? 0 then None                                   (* repeat with nothing before it *)
      else match getbits w b1 with
           | None => None
           | Some (r, b2) =>
             let n := Z.to_nat (base + r) in
             if (total <? length acc + n)%nat then None       (* runs past the declared number of lengths *)
             else read_lengths f clh total (acc ++ repeat val n) b2
           end
  end end.

Definition dynamic_tables (b : bits) : option (huff * huff * bits) :=
  match getbits 5 b with None => None | Some (nl, b1) =>
  match getbits 5 b1 with None => None | Some (nd, b2) =>
  match getbits 4 b2 with None => None | Some (nc, b3) =>
    let nlen := nl + 257 in let ndist := nd + 1 in let ncode := nc + 4 in
    if (286 <? nlen) || (30 <? ndist) then None else
    match read_n (Z.to_nat ncode) 3 b3 with None => None | Some (cls, b4) =>
      let clh := mk_huff (set_order cl_order cls (repeat 0 19)) in
      if negb (huff_okb clh) then None else
      match read_lengths (Z.to_nat (nlen + ndist) + 1) clh (Z.to_nat (nlen + ndist)) [] b4 with
      | None => None
      | Some (lens, b5) =>
        let lh := mk_huff (firstn (Z.to_nat nlen) lens) in
        let dh := mk_huff (skipn (Z.to_nat nlen) lens) in
        if negb (huff_okb lh) || negb (huff_okb dh) then None else Some (lh, dh, b5)
      end
    end
  end end end.

(* ---------------------------------------------------------------- the block loop --------------------------------------- *)
(* `pos` counts the bits consumed so far (stored blocks start at the next byte boundary) *)
Fixpoint blocks (fuel : nat) (all : nat) (b : bits) (out : list Z) : option (bits * list Z) :=
  match fuel with O => None | S f =>
  match getbits 1 b with None => None | Some (final, b1) =>
  match getbits 2 b1 with None => None | Some (typ, b2) =>
    let res :=
      if typ =? 0 then
        let pos := (all - length b2)%nat in
        let b3 := skipn ((8 - pos mod 8) mod 8) b2 in
        match getbits 16 b3 with None => None | Some (len, b4) =>
        match getbits 16 b4 with None => None | Some (nlen, b5) =>
          if negb (len + nlen =? 65535) then None else
          match read_n (Z.to_nat len) 8 b5 with None => None | Some (bytes, b6) => Some (b6, rev_append bytes out) end
        end end
      else if typ =? 1 then codes (length b2 + 1) (mk_huff fixed_lit_lens) (mk_huff fixed_dist_lens) b2 out
      else if typ =? 2 then
        match dynamic_tables b2 with None => None | Some (lh, dh, b3) => codes (length b3 + 1) lh dh b3 out end
      else None in
    match res with
    | None => None
    | Some (b', out') => if final =? 1 then Some (b', out') else blocks f all b' out'
    end
  end end end.

(* tinfl_decompress_mem_to_heap on a raw deflate stream: the output (None = failure); whatever follows the final block is ignored *)
Definition inflate (data : list Z) : option (list Z) :=
  let b := bits_of_bytes data in
  match blocks (length b + 1) (length b) b [] with
  | None => None
  | Some (_, out) => Some (rev_append out [])
  end.

(* ---------------------------------------------------------------- gzip member (gunzip.c) ------------------------------- *)
Fixpoint skip_zstr (l : list Z) : option (list Z) :=
  match l with [] => None | c :: t => if c =? 0 then Some t else skip_zstr t end.

Definition le32 (l : list Z) : Z := nth 0 l 0 + 256 * nth 1 l 0 + 65536 * nth 2 l 0 + 16777216 * nth 3 l 0.

(* decrunch_gzip: None = return -1 *)
Definition gunzip (file : list Z) : option (list Z) :=
  match file with
  | _ :: _ :: cm :: flg :: _ :: _ :: _ :: _ :: _ :: _ :: r0 =>
    if negb (cm =? 8) then None else
    let r1 := if Z.testbit flg 2 then
                match r0 with
                | lo :: hi :: t => if (length t <? Z.to_nat (lo + 256 * hi))%nat then None else Some (skipn (Z.to_nat (lo + 256 * hi)) t)
                | _ => None
                end
              else Some r0 in
    match r1 with None => None | Some r1 =>
    match (if Z.testbit flg 3 then skip_zstr r1 else Some r1) with None => None | Some r2 =>
    match (if Z.testbit flg 4 then skip_zstr r2 else Some r2) with None => None | Some r3 =>
      let r4 := if Z.testbit flg 1 then skipn 2 r3 else r3 in
      if (length r4 <? 8)%nat then None else
      let body := firstn (length r4 - 8) r4 in
      let trailer := skipn (length r4 - 8) r4 in
      match inflate body with
      | None => None
      | Some out =>
        if (length out =? 0)%nat then None     (* tinfl_decompress_mem_to_heap hands back its NULL buffer when nothing was produced *)
        else if negb (le32 (firstn 4 trailer) =? crc32_A out 0) then None
        else if negb (le32 (skipn 4 trailer) =? Z.of_nat (length out)) then None
        else Some out
      end
    end end end
  | _ => None
  end.

(* ---------------------------------------------------------------- a writer --------------------------------------------- *)
Inductive token := Lit (b : Z) | Match (len dist : Z).

(* what a token sequence stands for (newest byte first) *)
Fixpoint expand (ts : list token) (out : list Z) : list Z :=
  match ts with
  | [] => out
  | Lit x :: t => expand t (x :: out)
  | Match len dist :: t => expand t (lz_copy (Z.to_nat len) (Z.to_nat len) (Z.to_nat dist) out)
  end.

(* the code of a symbol in a canonical code, most significant bit first: puff's numbering (codes of one length are consecutive, in
   symbol order, and each length starts at twice the end of the previous one) *)
Fixpoint code_of (counts : list Z) (syms : list Z) (first index : Z) (len : nat) (s : Z) : option (list bool) :=
  match counts with
  | [] => None
  | cnt :: rest =>
    let here := firstn (Z.to_nat cnt) (skipn (Z.to_nat index) syms) in
    match (fix find (l : list Z) (k : Z) : option Z := match l with [] => None | x :: t => if x =? s then Some k else find t (k + 1) end) here 0 with
    | Some k => Some (rev (bits_of_z (S len) (first + k)))
    | None => code_of rest syms (2 * (first + cnt)) (index + cnt) (S len) s
    end
  end.
Definition encode_sym (h : huff) (s : Z) : list bool := match code_of (h_count h) (h_sym h) 0 0 0 s with Some c => c | None => [] end.

(* index of the last base that is <= v *)
Fixpoint base_index (bases : list Z) (v : Z) (i : Z) (best : Z) : Z :=
  match bases with [] => best | x :: t => if x <=? v then base_index t v (i + 1) i else best end.

Definition enc_token (lh dh : huff) (t : token) : list bool :=
  match t with
  | Lit x => encode_sym lh x
  | Match len dist =>
    let k := base_index len_base len 0 0 in
    let k := if len =? 258 then 28 else k in
    let j := base_index dist_base dist 0 0 in
    encode_sym lh (257 + k) ++ bits_of_z (Z.to_nat (nth (Z.to_nat k) len_extra 0)) (len - nth (Z.to_nat k) len_base 0) ++
    encode_sym dh j ++ bits_of_z (Z.to_nat (nth (Z.to_nat j) dist_extra 0)) (dist - nth (Z.to_nat j) dist_base 0)
  end.

(* one fixed-Huffman block *)
Definition fixed_block (final : bool) (ts : list token) : list bool :=
  [final; true; false] ++ concat (map (enc_token (mk_huff fixed_lit_lens) (mk_huff fixed_dist_lens)) ts) ++ encode_sym (mk_huff fixed_lit_lens) 256.

(* one stored block of at most 65535 bytes, starting at bit position `pos` *)
Definition stored_block (final : bool) (pos : nat) (bytes : list Z) : list bool :=
  let n := Z.of_nat (length bytes) in
  [final; false; false] ++ repeat false ((8 - (pos + 3) mod 8) mod 8) ++ bits_of_z 16 n ++ bits_of_z 16 (65535 - n) ++ concat (map (bits_of_z 8) bytes).

(* a deflate stream: a list of segments, each written as one block of the chosen kind *)
Inductive segment := Stored (bytes : list Z) | Fixed (ts : list token).

Fixpoint deflate_bits (segs : list segment) (pos : nat) : list bool :=
  match segs with
  | [] => []
  | s :: t =>
    let final := match t with [] => true | _ => false end in
    let blk := match s with Stored bytes => stored_block final pos bytes | Fixed ts => fixed_block final ts end in
    blk ++ deflate_bits t (pos + length blk)
  end.
Definition deflate (segs : list segment) : list Z := let b := deflate_bits segs 0 in bytes_of_bits (S (length b)) b.

(* what the segments stand for, given what came before *)
Fixpoint segs_expand (segs : list segment) (out : list Z) : list Z :=
  match segs with
  | [] => out
  | Stored bytes :: t => segs_expand t (rev_append bytes out)
  | Fixed ts :: t => segs_expand t (expand ts out)
  end.

(* tokens must be well-formed with respect to the output they extend *)
Fixpoint tokens_okb (ts : list token) (outlen : Z) : bool :=
  match ts with
  | [] => true
  | Lit x :: t => (0 <=? x) && (x <=? 255) && tokens_okb t (outlen + 1)
  | Match len dist :: t => (3 <=? len) && (len <=? 258) && (1 <=? dist) && (dist <=? 32768) && (dist <=? outlen) && tokens_okb t (outlen + len)
  end.
Fixpoint tokens_len (ts : list token) : Z :=
  match ts with [] => 0 | Lit _ :: t => 1 + tokens_len t | Match len _ :: t => len + tokens_len t end.
Fixpoint segs_okb (segs : list segment) (outlen : Z) : bool :=
  match segs with
  | [] => false                                   (* a stream has at least one block *)
  | [Stored bytes] => (Z.of_nat (length bytes) <=? 65535) && bytesb bytes
  | [Fixed ts] => tokens_okb ts outlen
  | Stored bytes :: t => (Z.of_nat (length bytes) <=? 65535) && bytesb bytes && segs_okb t (outlen + Z.of_nat (length bytes))
  | Fixed ts :: t => tokens_okb ts outlen && segs_okb t (outlen + tokens_len ts)
  end.

(* the gzip member around a deflate stream *)
Definition gzip_member (flg_name flg_comment : option (list Z)) (extra : option (list Z)) (hcrc : bool) (segs : list segment) : list Z :=
  let out := rev_append (segs_expand segs []) [] in
  let flg := (if hcrc then 2 else 0) + (match extra with Some _ => 4 | None => 0 end) + (match flg_name with Some _ => 8 | None => 0 end) + (match flg_comment with Some _ => 16 | None => 0 end) in
  let le n x := [x mod 256; (x / 256) mod 256; (x / 65536) mod 256; (x / 16777216) mod 256] in
  [31; 139; 8; flg; 0; 0; 0; 0; 0; 3] ++
  (match extra with Some e => [Z.of_nat (length e) mod 256; Z.of_nat (length e) / 256] ++ e | None => [] end) ++
  (match flg_name with Some n => n ++ [0] | None => [] end) ++ (match flg_comment with Some c => c ++ [0] | None => [] end) ++
  (if hcrc then [0; 0] else []) ++
  deflate segs ++ le 4 (crc32_A out 0) ++ le 4 (Z.of_nat (length out)).

(* ---------------------------------------------------------------- a tokenizer ------------------------------------------ *)
(* greedy, looks back at a few fixed distances only (enough for runs and short periods); every match it emits is verified against
   the data, so the token list stands for the data by construction *)
Definition cand_dists : list Z := [1; 2; 3; 4; 8; 16; 32; 64; 256; 1024].

Fixpoint common_prefix (a b : list Z) (n : nat) : nat :=
  match n with O => O | S k => match a, b with x :: ta, y :: tb => if x =? y then S (common_prefix ta tb k) else O | _, _ => O end end.

(* length of the match of `data` against the output at distance d (the source may overlap the destination) *)
Fixpoint match_len (fuel : nat) (data : list Z) (d : nat) (out : list Z) (acc : nat) : nat :=
  match fuel with O => acc | S f =>
    match data with
    | [] => acc
    | x :: t => match nth_error out (d - 1) with
                | Some y => if (x =? y) && (acc <? 258)%nat then match_len f t d (x :: out) (S acc) else acc
                | None => acc
                end
    end
  end.

Fixpoint tokenize (fuel : nat) (data : list Z) (out : list Z) : list token :=
  match fuel with O => [] | S f =>
    match data with
    | [] => []
    | x :: t =>
      let best := fold_left (fun (bd : nat * Z) d => let n := match_len 258 data (Z.to_nat d) out 0 in if (fst bd <? n)%nat then (n, d) else bd) cand_dists (O, 0) in
      if (3 <=? fst best)%nat then Match (Z.of_nat (fst best)) (snd best) :: tokenize f (skipn (fst best) data) (lz_copy (fst best) (fst best) (Z.to_nat (snd best)) out)
      else Lit x :: tokenize f t (x :: out)
    end
  end.
