(* C01 / C16: the envelope evaluation of the player - get_envelope and the three update_envelope variants (src/player.c:89-305) -
   with every access to the envelope's point array checked: the 32 (x, y) points are the 64 entries of `data`; None = an access
   outside the array.  The envelope record is the one of the C03 predicate (Model/ModuleWf.v): flags, number of points, loop and
   sustain point numbers. *)
From Coq Require Import ZArith List Lia Bool.
Import ListNotations.
From LX Require Import Base.ListAux Generated.Consts Model.ModuleWf.
Local Open Scope Z_scope.

Definition dat (data : list Z) (i : Z) : option Z := zget data i.

(* C integer division truncates towards zero *)
Definition cdiv (a b : Z) : Z := Z.quot a b.

(* the do-while that walks back from the last node (player.c:106-109): idx -= 2; x1 = data[idx]; while (idx > 0 && x1 > x) *)
Fixpoint walk_back (fuel : nat) (data : list Z) (idx x : Z) : option Z :=
  match fuel with O => None | S f =>
    let idx' := idx - 2 in
    match dat data idx' with
    | None => None
    | Some x1 => if (0 <? idx') && (x <? x1) then walk_back f data idx' x else Some idx'
    end
  end.

(* player.c:89-121 *)
Definition get_envelope (e : env) (data : list Z) (x def : Z) : option Z :=
  if (x <? 0) || negb (has (e_flg e) C_XMP_ENVELOPE_ON) || (e_npt e <=? 0) then Some def else
  let idx := (e_npt e - 1) * 2 in
  match dat data idx, dat data (idx + 1) with
  | Some x1, Some ylast =>
    if (x1 <=? x) || (idx =? 0) then Some ylast else
    match walk_back 40 data idx x with
    | None => None
    | Some i =>
      match dat data i, dat data (i + 1), dat data (i + 2), dat data (i + 3) with
      | Some x1, Some y1, Some x2, Some y2 =>
        if (x <? x1) || (x2 <? x1) then Some y1
        else Some (if x2 =? x1 then y2 else cdiv ((y2 - y1) * (x - x1)) (x2 - x1) + y1)
      | _, _, _, _ => None
      end
    end
  | _, _ => None
  end.

(* reads of data[2 * point] guarded by the flag that makes the C read them *)
Definition pt (data : list Z) (p : Z) : option Z := dat data (2 * p).

(* player.c:123-186 update_envelope_generic *)
Definition update_generic (e : env) (data : list Z) (x : Z) (release : bool) : option Z :=
  let has_loop := has (e_flg e) C_XMP_ENVELOPE_LOOP in
  let has_sus0 := has (e_flg e) C_XMP_ENVELOPE_SUS in
  let same := e_sus e =? e_lpe e in
  let has_sus := if has_loop && has_sus0 && same && negb release then false else has_sus0 in
  (* the C reads data[lpe] only if has_loop and data[sus] only if has_sus *)
  match (if has_loop then pt data (e_lpe e) else Some 0), (if has_sus then pt data (e_sus e) else Some 0) with
  | Some dlpe, Some dsus =>
    let release1 := if has_loop && (dlpe + 1 <? x) then true else if negb (has_loop && (dlpe + 1 <? x)) && has_sus && (dsus + 1 <? x) then true else release in
    let x1 := if has_sus && negb release1 && (dsus <=? x) then dsus else x in
    if has_loop && (dlpe <=? x1) then
      if negb (release1 && has_sus && same) then pt data (e_lps e) else Some x1
    else Some x1
  | _, _ => None
  end.

(* player.c:190-238 update_envelope_xm *)
Definition update_xm (e : env) (data : list Z) (x : Z) (release : bool) : option Z :=
  let has_loop := has (e_flg e) C_XMP_ENVELOPE_LOOP in
  let has_sus := has (e_flg e) C_XMP_ENVELOPE_SUS in
  let same := e_sus e =? e_lpe e in
  match (if has_sus then pt data (e_sus e) else Some 0) with
  | None => None
  | Some dsus =>
    let release1 := if has_sus && (dsus + 1 <? x) then true else release in
    let x1 := if has_sus && negb release1 && (dsus <=? x) then dsus else x in
    if has_loop then
      match pt data (e_lpe e) with
      | None => None
      | Some dlpe => if (x1 =? dlpe) && negb (release1 && has_sus && same) then pt data (e_lps e) else Some x1
      end
    else Some x1
  end.

(* player.c:242-274 update_envelope_it *)
Definition update_it (e : env) (data : list Z) (x : Z) (release key_off : bool) : option Z :=
  let has_loop := has (e_flg e) C_XMP_ENVELOPE_LOOP in
  let has_sus := has (e_flg e) C_XMP_ENVELOPE_SUS in
  (* first condition: has_sus && key_off && x == data[sue] + 1 : data[sue] is read only if has_sus && key_off *)
  match (if has_sus && key_off then pt data (e_sue e) else Some 0) with
  | None => None
  | Some dsue1 =>
    if has_sus && key_off && (x =? dsue1 + 1) then pt data (e_sus e)
    else if has_sus && negb release then
      match pt data (e_sue e) with None => None | Some dsue => if x =? dsue + 1 then pt data (e_sus e) else Some x end
    else if has_loop then
      match pt data (e_lpe e) with None => None | Some dlpe => if dlpe <? x then pt data (e_lps e) else Some x end
    else Some x
  end.

Inductive emode := EGeneric | EXm | EIt.

(* player.c:278-306 update_envelope *)
Definition update_envelope (mode : emode) (e : env) (data : list Z) (x : Z) (release key_off : bool) : option Z :=
  let x := if x <? 65535 then x + 1 else x in
  if x <? 0 then Some (-1)
  else if negb (has (e_flg e) C_XMP_ENVELOPE_ON) || (e_npt e <=? 0) then Some x
  else match mode with
       | EIt => update_it e data x release key_off
       | EGeneric => update_generic e data x release
       | EXm => update_xm e data x release
       end.
