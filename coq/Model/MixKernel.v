(* C14 / C01: the 40 sample-mixing kernels of src/mix_all.c as one function of a kernel description.

   A kernel reads `count` output frames' worth of samples from the voice's sample memory, starting at the voice's fixed-point
   position and advancing by `step` / 65536 sample frames per output frame, interpolates (nearest neighbour, linear, cubic spline
   from the precomputed tables), optionally runs the IT resonant filter, multiplies by the left / right gains - ramped from the
   previous gains during the first count - ramp frames ("anticlick") - and ADDS the result to the 32-bit accumulation buffer.

   The macros of mix_all.c are transcribed one for one: NEAREST_ROUND, UPDATE_POS, *_8BIT / *_16BIT, FILTER_LEFT / RIGHT,
   MIX_MONO / MIX_STEREO (_AC), AVERAGE, SAVE_FILTER_*.  Sample memory is a list with an origin: element index i (which may be
   negative: the spline looks one frame behind) is data[i + base]; a read outside the list is None, and so is a write past the
   end of the accumulation buffer.  C int arithmetic is modelled on Z without wrap-around: the products stay inside 32 (64 for the
   filter) bits for the argument ranges the mixer supplies; `>>` of a negative int is the arithmetic shift (Z.shiftr). *)
From Coq Require Import ZArith List Lia Bool.
Import ListNotations.
From LX Require Import Base.ListAux Generated.MixTables.
Local Open Scope Z_scope.

Inductive interp := Nearest | Linear | Spline.

Record kcfg := {
  k_interp : interp;
  k_wide : bool;            (* 16-bit sample data *)
  k_sin : bool;             (* stereo sample data: chn = 2 *)
  k_sout : bool;            (* stereo output *)
  k_filter : bool }.

Record smem := { m_data : list Z; m_base : Z }.
Definition rd (m : smem) (i : Z) : option Z := zget (m_data m) (i + m_base m).

Record kstate := {
  s_pos : Z;                (* element index: frame * chn *)
  s_frac : Z;
  s_ovl : Z; s_ovr : Z;     (* old_vl, old_vr *)
  s_l1 : Z; s_l2 : Z; s_r1 : Z; s_r2 : Z }.

Record kargs := {
  a_vl : Z; a_vr : Z; a_step : Z; a_dl : Z; a_dr : Z;
  a_a0 : Z; a_b0 : Z; a_b1 : Z }.

Definition chn_of (c : kcfg) : Z := if k_sin c then 2 else 1.

(* UPDATE_POS / NEAREST_ROUND: frac += d; pos += (frac >> SMIX_SHIFT) * chn; frac &= SMIX_MASK *)
Definition advance (chn d : Z) (s : kstate) : kstate :=
  let f := s_frac s + d in
  {| s_pos := s_pos s + Z.shiftr f C_SMIX_SHIFT * chn; s_frac := Z.land f C_SMIX_MASK;
     s_ovl := s_ovl s; s_ovr := s_ovr s; s_l1 := s_l1 s; s_l2 := s_l2 s; s_r1 := s_r1 s; s_r2 := s_r2 s |}.

(* one interpolated input sample, channel offset `off` (0 = left / mono, 1 = right) *)
Definition fetch (c : kcfg) (m : smem) (s : kstate) (off : Z) : option Z :=
  let chn := chn_of c in
  let p := s_pos s + off in
  match k_interp c with
  | Nearest =>
    match rd m p with None => None | Some v => Some (if k_wide c then v else v * 256) end
  | Linear =>
    match rd m p, rd m (p + chn) with
    | Some v0, Some v1 =>
      let l1 := if k_wide c then v0 else v0 * 256 in
      let dt := (if k_wide c then v1 else v1 * 256) - l1 in
      Some (l1 + Z.shiftr (Z.shiftr (s_frac s) 1 * dt) (C_SMIX_SHIFT - 1))
    | _, _ => None
    end
  | Spline =>
    let f := Z.shiftr (s_frac s) 6 in
    match rd m (p - chn), rd m p, rd m (p + 2 * chn), rd m (p + chn) with
    | Some vm, Some v0, Some v2, Some v1 =>
      match zget cubic_spline_lut0 f, zget cubic_spline_lut1 f, zget cubic_spline_lut3 f, zget cubic_spline_lut2 f with
      | Some c0, Some c1, Some c3, Some c2 =>
        Some (Z.shiftr (c0 * vm + c1 * v0 + c3 * v2 + c2 * v1) (if k_wide c then C_SPLINE_SHIFT else C_SPLINE_SHIFT - 8))
      | _, _, _, _ => None
      end
    | _, _, _, _ => None
    end
  end.

(* FILTER_LEFT / FILTER_RIGHT: returns (filtered sample, new f1, new f2) *)
Definition clampf (x : Z) : Z := if x <? C_FILTER_MIN then C_FILTER_MIN else if C_FILTER_MAX <? x then C_FILTER_MAX else x.
Definition filt (a : kargs) (smp f1 f2 : Z) : Z * Z * Z :=
  let s64 := Z.shiftr (a_a0 a * (smp * 2 ^ C_PREAMP_BITS) + a_b0 a * f1 + a_b1 a * f2) C_FILTER_SHIFT in
  let sl := clampf s64 in
  (Z.shiftr sl C_PREAMP_BITS, sl, f1).

(* one iteration of LOOP_AC (ac = true) or LOOP (ac = false): the values to add to the buffer and the next state *)
Definition kstep (c : kcfg) (m : smem) (a : kargs) (ac : bool) (s : kstate) : option (list Z * kstate) :=
  match fetch c m s 0 with None => None | Some l0 =>
  match (if k_sin c then fetch c m s 1 else Some l0) with None => None | Some r0 =>
    let '(l, l1', l2') := if k_filter c then filt a l0 (s_l1 s) (s_l2 s) else (l0, s_l1 s, s_l2 s) in
    let '(r, r1', r2') := if k_filter c && k_sin c then filt a r0 (s_r1 s) (s_r2 s) else (if k_sin c then r0 else l, s_r1 s, s_r2 s) in
    let gl := if ac then Z.shiftr (s_ovl s) 8 else a_vl a in
    let gr := if ac then Z.shiftr (s_ovr s) 8 else a_vr a in
    let outs :=
      if k_sout c then [l * gl; r * gr]
      else [(if k_sin c then Z.shiftr (l + r) 1 else l) * gl] in
    let s1 := {| s_pos := s_pos s; s_frac := s_frac s;
                 s_ovl := if ac then s_ovl s + a_dl a else s_ovl s;
                 s_ovr := if ac && k_sout c then s_ovr s + a_dr a else s_ovr s;
                 s_l1 := l1'; s_l2 := l2'; s_r1 := r1'; s_r2 := r2' |} in
    Some (outs, advance (chn_of c) (a_step a) s1)
  end end.

Fixpoint kloop (n : nat) (c : kcfg) (m : smem) (a : kargs) (ac : bool) (s : kstate) (acc : list Z) : option (list Z * kstate) :=
  match n with
  | O => Some (acc, s)
  | S k =>
    match kstep c m a ac s with
    | None => None
    | Some (outs, s') => kloop k c m a ac s' (rev_append outs acc)
    end
  end.

(* buffer[i] += contribution[i] over the contributions; None when the buffer is too short *)
Fixpoint add_into (buf contrib : list Z) : option (list Z) :=
  match contrib, buf with
  | [], _ => Some buf
  | x :: t, b :: bt => match add_into bt t with None => None | Some r => Some (b + x :: r) end
  | _ :: _, [] => None
  end.

(* the contributions of one kernel call and the state it leaves.  The nearest kernels round the position first and have no ramp
   loop and no filter (mixer.c lists the plain nearest kernels in the filter half of their table). *)
Definition contributions (c : kcfg) (m : smem) (a : kargs) (count ramp : Z) (s : kstate) : option (list Z * kstate) :=
  let count := Z.max 0 count in
  match k_interp c with
  | Nearest =>
    match kloop (Z.to_nat count) c m a false (advance (chn_of c) (2 ^ (C_SMIX_SHIFT - 1)) s) [] with
    | None => None | Some (acc, s') => Some (rev_append acc [], s') end
  | _ =>
    let nac := Z.max 0 (count - Z.max 0 ramp) in              (* LOOP_AC: for (; count > ramp; count--); the mixer passes 0 <= ramp *)
    match kloop (Z.to_nat nac) c m a true s [] with
    | None => None
    | Some (acc, s1) =>
      match kloop (Z.to_nat (count - nac)) c m a false s1 acc with
      | None => None | Some (acc2, s2) => Some (rev_append acc2 [], s2) end
    end
  end.

(* SAVE_FILTER_MONO / SAVE_FILTER_STEREO: what the voice's filter fields hold after the call *)
Definition saved_filter (c : kcfg) (s0 s : kstate) : Z * Z * Z * Z :=
  if k_filter c then
    if k_sin c then (s_l1 s, s_l2 s, s_r1 s, s_r2 s) else (s_l1 s, s_l2 s, s_l1 s, s_l2 s)
  else (s_l1 s0, s_l2 s0, s_r1 s0, s_r2 s0).

Definition kernel (c : kcfg) (m : smem) (a : kargs) (count ramp : Z) (s : kstate) (buf : list Z) : option (list Z * (Z * Z * Z * Z)) :=
  match contributions c m a count ramp s with
  | None => None
  | Some (contrib, s') =>
    match add_into buf contrib with
    | None => None
    | Some buf' => Some (buf', saved_filter c s s')
    end
  end.

(* the position of the k-th fetch in closed form *)
Definition start_state (c : kcfg) (s : kstate) : kstate :=
  match k_interp c with Nearest => advance (chn_of c) (2 ^ (C_SMIX_SHIFT - 1)) s | _ => s end.
Definition pos_at (c : kcfg) (a : kargs) (s : kstate) (k : Z) : Z :=
  let s0 := start_state c s in s_pos s0 + chn_of c * ((s_frac s0 + k * a_step a) / 2 ^ C_SMIX_SHIFT).
Definition frac_at (c : kcfg) (a : kargs) (s : kstate) (k : Z) : Z :=
  let s0 := start_state c s in (s_frac s0 + k * a_step a) mod 2 ^ C_SMIX_SHIFT.

(* the element indices a fetch at element position p touches *)
Definition reach_lo (c : kcfg) : Z := match k_interp c with Spline => - chn_of c | _ => 0 end.
Definition reach_hi (c : kcfg) : Z :=
  (chn_of c - 1) + match k_interp c with Nearest => 0 | Linear => chn_of c | Spline => 2 * chn_of c end.
