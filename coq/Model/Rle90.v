(* C08: the RLE90 run-length code of ARC / Spark / ArcFS method 3 ("packed"), as src/depackers/arc_unpack.c
   arc_unrle90_block decodes it: a byte other than 0x90 stands for itself; 0x90 followed by 0 is a literal 0x90;
   0x90 followed by n > 0 repeats the previous output byte n-1 more times.  `encode` is an independent writer. *)
From Coq Require Import ZArith List Lia Bool.
Import ListNotations.
Local Open Scope Z_scope.

Definition MARK := 144.   (* 0x90 *)

(* the decoder, with the two pieces of state the C keeps across bytes: last output byte, "inside a 0x90 code" *)
Fixpoint dec (l : list Z) (last : Z) (incode : bool) : list Z :=
  match l with
  | [] => []
  | b :: t =>
      if incode then
        (if b =? 0 then MARK :: dec t MARK false else repeat last (Z.to_nat (b - 1)) ++ dec t last false)
      else if b =? MARK then dec t last true
      else b :: dec t b false
  end.
Definition decode (l : list Z) : list Z := dec l 0 false.

(* ---- an independent writer ---- *)
(* group a byte string into runs *)
Fixpoint group (l : list Z) : list (Z * nat) :=
  match l with
  | [] => []
  | c :: t => match group t with
              | (c', n) :: r => if c =? c' then (c, S n) :: r else (c, 1%nat) :: (c', n) :: r
              | [] => [(c, 1%nat)]
              end
  end.
Definition expand (rs : list (Z * nat)) : list Z := concat (map (fun p => repeat (fst p) (snd p)) rs).

(* k further copies of the previous byte: codes of at most 254 copies each (count byte 2..255) *)
Fixpoint reps (fuel : nat) (k : nat) : list Z :=
  match fuel with
  | O => []
  | S f => match k with
           | O => []
           | _ => let m := Nat.min k 254 in MARK :: Z.of_nat (S m) :: reps f (k - m)
           end
  end.
Definition lit (c : Z) : list Z := if c =? MARK then [MARK; 0] else [c].
Definition enc_run (p : Z * nat) : list Z := lit (fst p) ++ reps (snd p) (snd p - 1).
Definition encode (l : list Z) : list Z := concat (map enc_run (group l)).
