(* C18: scan (src/scan.c scan_module, main sequence) and player (src/player.c xmp_play_frame / next_row /
   next_order / check_end_of_module) on the linear-flow vocabulary: per row at most one of set-speed,
   absolute set-tempo, pattern delay, position jump.  Times are exact rationals (Q); the C uses double and
   truncates to int milliseconds at the end.
   Orders are always entered at row 0 in this vocabulary (no pattern break / loop), so both interpreters are
   written order by order: the scan exactly as the C's outer/inner loop with its lazy bookkeeping
   (frame_count, row_count, time), the player with its eager per-row time. *)
From Coq Require Import ZArith QArith List Lia Bool.
Import ListNotations.
From LX Require Import Base.ListAux.
Local Open Scope Z_scope.

Inductive fx := FxNone | FxSpeed (s : Z) | FxTempo (t : Z) | FxDelay (d : Z) | FxJump (o : Z).

Record lmod := {
  lm_orders : list Z;          (* pattern of each order *)
  lm_pats : list (list fx);    (* rows of each pattern *)
  lm_spd : Z; lm_bpm : Z;      (* initial speed / tempo (after the epilogue's clamps) *)
  lm_rst : Z;                  (* restart order *)
  lm_tf : Q                    (* time_factor * rrate: a tick lasts lm_tf / bpm milliseconds *)
}.

Definition len (m : lmod) : Z := zlen (lm_orders m).
Definition pat_of (m : lmod) (o : Z) : list fx :=
  match zget (lm_orders m) o with Some p => match zget (lm_pats m) p with Some rows => rows | None => [] end | None => [] end.

(* accumulated times are kept in lowest terms (Qred) so that the extracted model stays fast on long modules;
   Qred q == q, and all theorems are stated up to == *)
Definition qadd (x y : Q) : Q := Qred (x + y).

Definition tick (m : lmod) (bpm : Z) : Q := lm_tf m / inject_Z bpm.
Definition ticks (m : lmod) (n bpm : Z) : Q := inject_Z n * tick m bpm.

(* where play continues after order o ends (o + 1, or the jump target): beyond the list -> restart logic.
   `in_seq` says whether the restart order belongs to the sequence being played/scanned. *)
Definition wrap (m : lmod) (in_seq : Z -> bool) (o : Z) : Z :=
  if (o <? 0) || (len m <=? o) then
    (if (len m <? lm_rst m) || negb (in_seq (lm_rst m)) then 0 else lm_rst m)
  else o.

(* ---------------- scan_module, chain 0, entry point 0 ---------------- *)
Record sstate := { s_speed : Z; s_bpm : Z; s_fc : Z (* frame_count *); s_rc : Z (* row_count *); s_time : Q }.

(* one row of the inner loop: the effect handlers, then the for-loop's row_count++ *)
Definition scan_row (m : lmod) (s : sstate) (e : fx) : sstate :=
  let s1 :=
    match e with
    | FxSpeed v => {| s_speed := v; s_bpm := s_bpm s; s_fc := s_fc s + s_rc s * s_speed s; s_rc := 0; s_time := s_time s |}
    | FxTempo v => let fc := s_fc s + s_rc s * s_speed s in
                   {| s_speed := s_speed s; s_bpm := v; s_fc := 0; s_rc := 0; s_time := qadd (s_time s) (ticks m fc (s_bpm s)) |}
    | FxDelay d => {| s_speed := s_speed s; s_bpm := s_bpm s; s_fc := s_fc s + d * s_speed s; s_rc := s_rc s; s_time := s_time s |}
    | _ => s
    end in
  {| s_speed := s_speed s1; s_bpm := s_bpm s1; s_fc := s_fc s1; s_rc := s_rc s1 + 1; s_time := s_time s1 |}.

(* the rows of one order: stops after a jump row (last_row = 0); returns the state and the jump target if any *)
Fixpoint scan_rows (m : lmod) (s : sstate) (rows : list fx) : sstate * option Z :=
  match rows with
  | [] => (s, None)
  | e :: t => let s' := scan_row m s e in
              match e with FxJump o => (s', Some o) | _ => scan_rows m s' t end
  end.

(* "frame_count += row_count * speed; row_count = 0" at the end of every order *)
Definition flush (s : sstate) : sstate :=
  {| s_speed := s_speed s; s_bpm := s_bpm s; s_fc := s_fc s + s_rc s * s_speed s; s_rc := 0; s_time := s_time s |}.

Definition potential (m : lmod) (s : sstate) : Q := (s_time s + ticks m (s_fc s + s_rc s * s_speed s) (s_bpm s))%Q.

Record sresult := { r_duration : Q; r_end_ord : Z; r_order_times : list (Z * Q) (* xxo_info[o].time at first entry *); r_visited : list Z }.

(* the outer loop: fuel = number of orders + 1 suffices (each iteration marks a new order or stops) *)
Fixpoint scan_orders (m : lmod) (fuel : nat) (s : sstate) (o : Z) (visited : list Z) (times : list (Z * Q)) : option sresult :=
  match fuel with
  | O => None
  | S f =>
      if existsb (Z.eqb o) visited
      then Some {| r_duration := potential m s; r_end_ord := o; r_order_times := rev times; r_visited := visited |}
      else
        let times' := (o, potential m s) :: times in
        let '(s1, j) := scan_rows m s (pat_of m o) in
        let s2 := flush s1 in
        let visited' := o :: visited in
        let nxt := wrap m (fun r => existsb (Z.eqb r) visited') (match j with Some t => t | None => o + 1 end) in
        scan_orders m f s2 nxt visited' times'
  end.

Definition scan (m : lmod) : option sresult :=
  scan_orders m (S (length (lm_orders m))) {| s_speed := lm_spd m; s_bpm := lm_bpm m; s_fc := 0; s_rc := 0; s_time := 0 |} 0 [] [].

(* ---------------- the player ---------------- *)
Record pstate := { p_speed : Z; p_bpm : Z; p_time : Q (* sum of frame_time over the frames rendered *) }.

(* one row: effects at tick 0, then speed * (1 + delay) ticks at the current tempo *)
Definition play_row (m : lmod) (p : pstate) (e : fx) : pstate :=
  let speed := match e with FxSpeed v => v | _ => p_speed p end in
  let bpm := match e with FxTempo v => v | _ => p_bpm p end in
  let delay := match e with FxDelay d => d | _ => 0 end in
  {| p_speed := speed; p_bpm := bpm; p_time := qadd (p_time p) (ticks m (speed * (1 + delay)) bpm) |}.

Fixpoint play_rows (m : lmod) (p : pstate) (rows : list fx) : pstate * option Z :=
  match rows with
  | [] => (p, None)
  | e :: t => let p' := play_row m p e in
              match e with FxJump o => (p', Some o) | _ => play_rows m p' t end
  end.

(* plays until the loop counter first increments: check_end_of_module fires when order `end_ord` (the scan's
   scan[seq].ord, row 0) is entered with end_point = 0, i.e. the second time; `seqctl` is the final sequence_control *)
Record presult := { q_time_to_loop : Q; q_order_times : list (Z * Q); q_entered : list Z (* orders entered before the loop counter incremented, latest first *) }.
Fixpoint play_orders (m : lmod) (fuel : nat) (p : pstate) (o : Z) (end_ord : Z) (seen_end : bool) (seqctl : Z -> bool)
                     (times : list (Z * Q)) (entered : list Z) : option presult :=
  match fuel with
  | O => None
  | S f =>
      if (o =? end_ord) && seen_end
      then Some {| q_time_to_loop := p_time p; q_order_times := rev times; q_entered := entered |}
      else
        let times' := if existsb (Z.eqb o) entered then times else (o, p_time p) :: times in
        let '(p1, j) := play_rows m p (pat_of m o) in
        let nxt := wrap m seqctl (match j with Some t => t | None => o + 1 end) in
        play_orders m f p1 nxt end_ord (seen_end || (o =? end_ord)) seqctl times' (o :: entered)
  end.

Definition play (m : lmod) (r : sresult) : option presult :=
  play_orders m (S (S (length (lm_orders m)))) {| p_speed := lm_spd m; p_bpm := lm_bpm m; p_time := 0 |} 0
              (r_end_ord r) false (fun x => existsb (Z.eqb x) (r_visited r)) [] [].

(* well-formedness of a module over the vocabulary *)
Definition fx_okb (e : fx) : bool :=
  match e with
  | FxNone => true | FxSpeed s => (1 <=? s) && (s <=? 31) | FxTempo t => (32 <=? t) && (t <=? 255)
  | FxDelay d => (0 <=? d) && (d <=? 15) | FxJump o => (0 <=? o) && (o <=? 255)
  end.
Definition lmod_okb (m : lmod) : bool :=
  (1 <=? len m) && (len m <=? 256) &&
  forallb (fun p => (0 <=? p) && (p <? zlen (lm_pats m))) (lm_orders m) &&
  forallb (fun rows => (1 <=? zlen rows) && forallb fx_okb rows) (lm_pats m) &&
  (1 <=? lm_spd m) && (lm_spd m <=? 255) && (20 <=? lm_bpm m) && (lm_bpm m <=? 1000) &&
  (0 <=? lm_rst m) && (lm_rst m <? len m).
