(* Model of xmp_play_buffer (src/player.c).  A frame is what xmp_play_frame +
   xmp_get_frame_info deliver: the PCM bytes and the loop counter.  The state is
   the unread rest of the current frame (in_buffer[consumed..in_size)) and the
   frames xmp_play_frame will still produce; [] means it returns < 0 from now on. *)
From Coq Require Import ZArith List Lia Bool Arith.
Import ListNotations.

Record frame := { fbytes : list Z; floop : nat }.
Record st := { rest : list Z; src : list frame; cur_loop : nat }.
Record res := { out : list Z; ret : Z; st' : st }.

Definition ended (loop : nat) (f : frame) : bool := (0 <? loop) && (loop <=? floop f).

(* one call xmp_play_buffer(ctx, buf, size, loop) with buf != NULL, in state PLAYING:
   the "while (filled < size)" loop by structural recursion on the frames still to come *)
Fixpoint fill (loop : nat) (s : list frame) (cl : nat) (need : nat) (rem : list Z) (filled : bool) : res :=
  let k := Nat.min need (length rem) in
  let o := firstn k rem in
  let rem1 := skipn k rem in
  let need1 := need - k in
  let filled1 := filled || (0 <? k) in
  if need1 =? 0 then {| out := o; ret := 0; st' := {| rest := rem1; src := s; cur_loop := cl |} |}
  else
    let stop (s' : list frame) (cl' : nat) :=
      if filled1 then {| out := o ++ repeat 0%Z need1; ret := 0; st' := {| rest := []; src := s'; cur_loop := cl' |} |}
      else {| out := []; ret := (-1)%Z; st' := {| rest := []; src := s'; cur_loop := cl' |} |} in
    match s with
    | [] => stop [] cl
    | f :: s' => if ended loop f then stop s' (floop f)
                 else let r := fill loop s' (floop f) need1 (fbytes f) filled1 in
                      {| out := o ++ out r; ret := ret r; st' := st' r |}
    end.

Definition play_buffer (loop : nat) (x : st) (size : nat) : res :=
  fill loop (src x) (cur_loop x) size (rest x) false.

(* xmp_play_buffer(ctx, NULL, ...): loop counter and carry-over reset *)
Definition rebase (base : nat) (f : frame) : frame := {| fbytes := fbytes f; floop := floop f - base |}.
Definition reset (x : st) : st := {| rest := []; src := map (rebase (cur_loop x)) (src x); cur_loop := 0 |}.
(* xmp_stop_module: every later xmp_play_frame returns -XMP_END *)
Definition stop_module (x : st) : st := {| rest := rest x; src := []; cur_loop := cur_loop x |}.

(* Restart = xmp_end_player; xmp_start_player: a fresh frame source; start_player makes the NULL-buffer call *)
Inductive op := Play (size loop : nat) | Reset | Stop | Restart (fs : list frame).

Definition step (x : st) (o : op) : res :=
  match o with
  | Play size loop => play_buffer loop x size
  | Reset => {| out := []; ret := 0%Z; st' := reset x |}
  | Stop => {| out := []; ret := 0%Z; st' := stop_module x |}
  | Restart fs => {| out := []; ret := 0%Z; st' := {| rest := []; src := fs; cur_loop := 0 |} |}
  end.

Fixpoint run_ops (x : st) (ops : list op) : list (Z * list Z * nat) :=
  match ops with
  | [] => []
  | o :: os => let r := step x o in (ret r, out r, length (rest (st' r))) :: run_ops (st' r) os
  end.

(* fixed loop argument: a list of sizes *)
Fixpoint run (loop : nat) (x : st) (sizes : list nat) : list Z * st :=
  match sizes with
  | [] => ([], x)
  | n :: ns => let r := play_buffer loop x n in
               let '(o, x') := run loop (st' r) ns in (out r ++ o, x')
  end.

(* the frames that are played before the end is reported *)
Fixpoint good (loop : nat) (s : list frame) : list frame :=
  match s with [] => [] | f :: s' => if ended loop f then [] else f :: good loop s' end.

(* the byte stream xmp_play_frame would deliver from this state *)
Definition stream (loop : nat) (x : st) : list Z := rest x ++ concat (map fbytes (good loop (src x))).

(* loop counter never decreases => once ended, always ended *)
Fixpoint mono (loop : nat) (s : list frame) : Prop :=
  match s with [] => True | f :: s' => (ended loop f = true -> Forall (fun g => ended loop g = true) s') /\ mono loop s' end.

Fixpoint loops_sorted (prev : nat) (s : list frame) : Prop :=
  match s with [] => True | f :: s' => prev <= floop f /\ loops_sorted (floop f) s' end.
