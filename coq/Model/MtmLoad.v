(* C03: what the MultiTracker loader (src/loaders/mtm_load.c) hands to load_module, as the raw module dump that the gate model
   takes - the third loader for which the loader post-condition is proved.  MTM stores tracks once and lets patterns refer to them
   by number, so this loader exercises the track-index clause: an index at or above the track count is replaced by track 0.
   Structure only (events are not modelled); memory stream semantics as in Model/C669Load.v.  None = mtm_load returns -1 (or
   the format test fails). *)
From Coq Require Import ZArith List Lia Bool.
Import ListNotations.
From LX Require Import Base.ListAux Generated.Consts Model.SampleLoad Model.ModuleWf Model.Gate Model.ModLoad Model.C669Load.
Local Open Scope Z_scope.

Definition rd16l (file : list Z) (pos : Z) : Z * Z :=                     (* hio_read16l *)
  if 2 <=? avail file pos then
    match zget file pos, zget file (pos + 1) with
    | Some a, Some b => (a + 256 * b, pos + 2)
    | _, _ => (65535, pos)
    end
  else (65535, pos + avail file pos).

(* x >> 1 on an int *)
Definition half (x : Z) : Z := Z.shiftr x 1.

(* mtm_load.c:139-185 *)
Record mtm_ins := { t_len : Z; t_lps : Z; t_lpe : Z; t_flg : Z }.
Fixpoint read_mtm_ins (n : nat) (file : list Z) (pos : Z) : option (list mtm_ins * Z) :=
  match n with
  | O => Some ([], pos)
  | S k =>
    let '(_, p1) := rdn file pos 22 in
    let '(len, p2) := rd32l file p1 in
    if C_MAX_SAMPLE_SIZE <? len then None else
    let '(lps, p3) := rd32l file p2 in
    let '(lpe, p4) := rd32l file p3 in
    let '(_, p5) := rd8 file p4 in
    let '(_, p6) := rd8 file p5 in
    let '(attr, p7) := rd8 file p6 in
    let lps := to_int32 lps in let lpe := to_int32 lpe in
    let flg := if 2 <? lpe then C_XMP_SAMPLE_LOOP else 0 in
    let i := if Z.odd attr then {| t_len := half len; t_lps := half lps; t_lpe := half lpe; t_flg := Z.lor flg C_XMP_SAMPLE_16BIT |}
             else {| t_len := len; t_lps := lps; t_lpe := lpe; t_flg := flg |} in
    match read_mtm_ins k file p7 with
    | None => None
    | Some (r, p) => Some (i :: r, p)
    end
  end.

Definition smp_of_mtm (i : mtm_ins) : smp := {| SampleLoad.s_len := t_len i; s_lps := t_lps i; s_lpe := t_lpe i; s_flg := t_flg i |}.

(* tracks 1 .. trk-1: 192 bytes each, all of them needed *)
Fixpoint read_tracks (n : nat) (file : list Z) (pos : Z) : option Z :=
  match n with
  | O => Some pos
  | S k => if avail file pos <? 192 then None else read_tracks k file (pos + 192)
  end.

(* one pattern: 32 track numbers, the first chn of them kept, numbers at or above trk replaced by 0 *)
Fixpoint read_index (n : nat) (trk : Z) (file : list Z) (pos : Z) : list Z * Z :=
  match n with
  | O => ([], pos)
  | S k =>
    let '(t, p1) := rd16l file pos in
    let '(r, p) := read_index k trk file p1 in
    ((if trk <=? t then 0 else t) :: r, p)
  end.
Fixpoint read_mtm_pats (n : nat) (chn trk : Z) (file : list Z) (pos : Z) : list pattern * Z :=
  match n with
  | O => ([], pos)
  | S k =>
    let '(idx, p1) := read_index 32 trk file pos in
    let '(r, p) := read_mtm_pats k chn trk file p1 in
    ({| p_rows := 64; p_index := firstn (Z.to_nat chn) idx |} :: r, p)
  end.

Fixpoint load_smps_mtm (ins : list mtm_ins) (file : list Z) (pos : Z) : option (list sample) :=
  match ins with
  | [] => Some []
  | i :: t =>
    match load_sample false C_SAMPLE_FLAG_UNS (smp_of_mtm i) file pos [] with
    | Failed => None
    | NoData s' pos' => match load_smps_mtm t file pos' with None => None | Some r => Some (as_sample s' false :: r) end
    | Loaded s' _ pos' => match load_smps_mtm t file pos' with None => None | Some r => Some (as_sample s' true :: r) end
    end
  end.

Definition mtm_test (file : list Z) : bool :=
  (4 <=? zlen file) && list_eqb (firstn 4 file) [77; 84; 77; 16].            (* "MTM" 0x10 *)

Definition mtm_raw (file : list Z) : option raw :=
  if negb (mtm_test file) then None else
  let '(tracks, p1) := rd16l file 24 in
  let '(patterns, p2) := rd8 file p1 in
  let '(modlen, p3) := rd8 file p2 in
  let '(extralen, p4) := rd16l file p3 in
  let '(samples, p5) := rd8 file p4 in
  if 63 <? samples then None else
  let '(_, p6) := rd8 file p5 in
  let '(rows, p7) := rd8 file p6 in
  if negb (rows =? 64) then None else
  let '(channels, p8) := rd8 file p7 in
  if 32 <? channels then None else
  let '(pan, p9) := rdn file p8 32 in
  if zlen file <? 66 then None else                               (* hio_error(f): some header read ran into the end *)
  let trk := tracks + 1 in let pat := patterns + 1 in let len := modlen + 1 in
  match read_mtm_ins (Z.to_nat samples) file p9 with
  | None => None
  | Some (ins, p10) =>
    let '(orders, p11) := rdn file p10 128 in
    match read_tracks (Z.to_nat tracks) file p11 with
    | None => None
    | Some p12 =>
      let '(pats, p13) := read_mtm_pats (Z.to_nat pat) channels trk file p12 in
      let p14 := p13 + Z.min extralen (avail file p13) in
      match load_smps_mtm ins file p14 with
      | None => None
      | Some smps =>
        Some {| r_m := {| d_chn := channels; d_len := len; d_pat := pat; d_trk := trk; d_ins := samples; d_smp := samples; d_spd := 6; d_bpm := 125; d_rst := 0;
                          d_name_ok := true; d_type_ok := true;
                          d_xxo := firstn (Z.to_nat len) (orders ++ repeat 0 256);
                          d_chans := map (fun i => (64, if (Z.of_nat i <? channels) then nth i pan 0 * 16 else ((Z.of_nat i + 1) / 2) mod 2 * 255)) (seq 0 64);
                          d_pats := map Some pats;
                          d_trks := repeat (Some 64) (Z.to_nat trk);
                          d_inss := map (fun i => {| i_nsm := if 0 <? t_len i then 1 else 0; i_sub := true; i_name_ok := true; i_aei := noenv; i_pei := noenv; i_fei := noenv |}) ins;
                          d_smps := smps;
                          d_seqs := [] |};
                r_has_xxp := true; r_has_xxt := true |}
      end
    end
  end.
