(* GENERATED from the objects compiled from /repo's working tree (objdump -t: objects in .data/.bss). Do not edit. *)
From Coq Require Import String List.
Import ListNotations.
Local Open Scope string_scope.

Definition writable_globals : list (string * string) :=
  [("control", "xmp_version");
   ("format", "_farray");
   ("load", "libxmp_verif_pregate");
   ("loaders_vorbis", "crc_table");
   ("mixer", "libxmp_verif_mixer_iters");
   ("mixer", "libxmp_verif_wraparound.ld");
   ("mixer", "libxmp_verif_wraplog");
   ("player", "libxmp_verif_seqstep");
   ("scan", "libxmp_verif_scanlog");
   ("scan", "libxmp_verif_seqlog")].
