(* GENERATED from /repo's working tree by lib/gentables.py on every run. Do not edit. *)
From Coq Require Import ZArith List.
Import ListNotations.
Local Open Scope Z_scope.

(* src/loaders/sample.c vdic_table *)
Definition vdic_table : list Z :=
  [0; 0; 0; 0; 0; 0; 0; 0; 0; 0; 0; 0; 0; 0; 0; 0;
  0; 0; 0; 0; 0; 0; 0; 0; 1; 1; 1; 1; 1; 1; 1; 1;
  1; 1; 1; 1; 2; 2; 2; 2; 2; 2; 2; 2; 3; 3; 3; 3;
  3; 3; 4; 4; 4; 4; 5; 5; 5; 5; 6; 6; 6; 6; 7; 7;
  7; 8; 8; 9; 9; 10; 10; 11; 11; 12; 12; 13; 13; 14; 14; 15;
  15; 16; 17; 18; 19; 20; 21; 22; 23; 24; 25; 26; 27; 28; 29; 30;
  31; 33; 34; 36; 38; 40; 42; 44; 46; 48; 50; 52; 54; 56; 58; 60;
  62; 65; 68; 72; 77; 80; 84; 91; 95; 98; 103; 109; 114; 120; 126; 127].
