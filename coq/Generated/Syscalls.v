(* GENERATED from the objects compiled from /repo's working tree (nm -u). Do not edit. *)
From Coq Require Import String List.
Import ListNotations.
Local Open Scope string_scope.

Definition syscall_inventory : list (string * string) :=
  [("depackers_depacker", "dup2");
   ("depackers_depacker", "execvp");
   ("depackers_depacker", "fdopen");
   ("depackers_depacker", "fork");
   ("depackers_depacker", "make_temp_file");
   ("depackers_depacker", "pipe");
   ("depackers_depacker", "wait");
   ("filetype", "stat");
   ("hio", "fopen");
   ("load", "hio_open");
   ("load", "hio_open_file");
   ("load", "libxmp_decrunch");
   ("load", "unlink_temp_file");
   ("loaders_common", "closedir");
   ("loaders_common", "getenv");
   ("loaders_common", "opendir");
   ("loaders_common", "readdir");
   ("loaders_flt_load", "hio_open");
   ("loaders_med4_load", "hio_open");
   ("loaders_med4_load", "libxmp_copy_name_for_fopen");
   ("loaders_med4_load", "libxmp_find_instrument_file");
   ("loaders_mfp_load", "hio_open");
   ("loaders_mmd_common", "hio_open");
   ("loaders_mmd_common", "libxmp_copy_name_for_fopen");
   ("loaders_mmd_common", "libxmp_find_instrument_file");
   ("loaders_mod_load", "hio_open");
   ("loaders_mod_load", "libxmp_copy_name_for_fopen");
   ("loaders_mod_load", "libxmp_find_instrument_file");
   ("loaders_pw_load", "hio_open_file2");
   ("loaders_pw_load", "make_temp_file");
   ("loaders_pw_load", "unlink_temp_file");
   ("loaders_stm_load", "hio_open");
   ("loaders_stm_load", "libxmp_copy_name_for_fopen");
   ("loaders_stm_load", "libxmp_find_instrument_file");
   ("smix", "hio_open");
   ("tempfile", "fdopen");
   ("tempfile", "getenv");
   ("tempfile", "mkstemp");
   ("tempfile", "unlink")].
