# Shared machinery for /verif checks: building libxmp from the working tree,
# building the Coq development and the extracted OCaml runners, evidence,
# replays, known findings.  Python 3 standard library only.
import os, sys, json, hashlib, subprocess, time, shutil, re, fcntl, random
from concurrent.futures import ThreadPoolExecutor

VERIF = os.path.dirname(os.path.dirname(os.path.abspath(__file__)))
REPO = os.environ.get("VERIF_REPO", "/repo")
CACHE = os.path.join(VERIF, ".cache")
COQ = os.path.join(VERIF, "coq")
GUARD = "LIBXMP_VERIF"
NCPU = os.cpu_count() or 4

DEFINES = ["-DHAVE_DIRENT=1", "-DHAVE_DUP2=1", "-DHAVE_EXECVP=1", "-DHAVE_FNMATCH=1",
           "-DHAVE_FORK=1", "-DHAVE_MKSTEMP=1", "-DHAVE_PIPE=1", "-DHAVE_POPEN=1",
           "-DHAVE_POWF=1", "-DHAVE_UMASK=1", "-DHAVE_WAIT=1", "-DLIBXMP_STATIC",
           "-D" + GUARD]
VARIANTS = {
    # the project's own sanitizer policy: address + undefined minus shift-base
    "asan": ["-O1", "-g", "-fsanitize=address,undefined", "-fno-sanitize=shift-base",
             "-fno-sanitize-recover=all", "-fno-omit-frame-pointer"],
    "plain": ["-O2", "-g"],
    # the "plus memory" part of the project's policy: uninitialised-value reads
    "msan": ["-O1", "-g", "-fsanitize=memory", "-fno-sanitize-recover=all", "-fno-omit-frame-pointer"],
}
CC = "clang"


def log(*a):
    print(*a, file=sys.stderr, flush=True)


def seed():
    try:
        return int(os.environ.get("VERIF_SEED", "1"))
    except ValueError:
        return 1


class Lock:
    def __init__(self, name):
        os.makedirs(CACHE, exist_ok=True)
        self.path = os.path.join(CACHE, name + ".lock")

    def __enter__(self):
        self.f = open(self.path, "w")
        fcntl.flock(self.f, fcntl.LOCK_EX)
        return self

    def __exit__(self, *a):
        fcntl.flock(self.f, fcntl.LOCK_UN)
        self.f.close()


# --------------------------------------------------------------------------
# libxmp build from the working tree

def source_list():
    txt = open(os.path.join(REPO, "cmake", "libxmp-sources.cmake")).read()
    cut = txt.find("set(LIBXMP_SRC_LIST_LITE")
    if cut < 0:
        cut = len(txt)
    return re.findall(r"src/[^ )\n]*\.c", txt[:cut])


def tree_hash(extra=""):
    h = hashlib.sha256()
    for top in ("src", "include"):
        for d, dirs, files in os.walk(os.path.join(REPO, top)):
            dirs.sort()
            if os.path.join("src", "lite") in d:
                continue
            for f in sorted(files):
                if f.endswith((".c", ".h")):
                    p = os.path.join(d, f)
                    h.update(p.encode())
                    h.update(open(p, "rb").read())
    h.update(open(os.path.join(REPO, "cmake", "libxmp-sources.cmake"), "rb").read())
    h.update(extra.encode())
    return h.hexdigest()[:20]


class BuildError(Exception):
    pass


def build_lib(variant="asan"):
    """Returns (dir, archive). Rebuilt whenever any source under /repo changes."""
    flags = VARIANTS[variant]
    key = tree_hash(variant + " ".join(flags) + " ".join(DEFINES))
    root = os.path.join(CACHE, "lib")
    d = os.path.join(root, variant + "-" + key)
    ar = os.path.join(d, "libxmp.a")
    with Lock("lib-" + variant):
        if os.path.exists(ar):
            os.utime(d, None)
            return d, ar
        # garbage-collect old builds of this variant (keep 6 most recent: concurrent runs on several trees must not evict each other)
        if os.path.isdir(root):
            old = sorted((x for x in os.listdir(root) if x.startswith(variant + "-")),
                         key=lambda x: os.path.getmtime(os.path.join(root, x)))
            for x in old[:-6]:
                shutil.rmtree(os.path.join(root, x), ignore_errors=True)
        tmp = d + ".tmp%d" % os.getpid()
        shutil.rmtree(tmp, ignore_errors=True)
        os.makedirs(tmp)
        srcs = source_list()
        t0 = time.time()

        def cc(s):
            o = os.path.join(tmp, s.replace("/", "_")[:-2] + ".o")
            cmd = [CC, "-std=gnu90", "-w", "-c"] + flags + DEFINES + \
                  ["-I" + os.path.join(REPO, "include"), "-I" + os.path.join(REPO, "src"),
                   os.path.join(REPO, s), "-o", o]
            r = subprocess.run(cmd, capture_output=True, text=True)
            return (s, r.returncode, r.stderr, o)
        with ThreadPoolExecutor(NCPU) as ex:
            res = list(ex.map(cc, srcs))
        bad = [x for x in res if x[1] != 0]
        if bad:
            shutil.rmtree(tmp, ignore_errors=True)
            raise BuildError("libxmp does not compile: %s\n%s" % (bad[0][0], bad[0][2][:2000]))
        subprocess.check_call(["ar", "rcs", os.path.join(tmp, "libxmp.a")] + [x[3] for x in res])
        os.rename(tmp, d)
        log("[build] libxmp %s built in %.1fs -> %s" % (variant, time.time() - t0, d))
        return d, ar


def build_driver(name, sources, variant="asan", extra=(), wraps=()):
    """Link a C driver (under harness/) against the freshly built static library."""
    d, ar = build_lib(variant)
    out = os.path.join(d, name)
    srcs = [os.path.join(VERIF, "harness", s) for s in sources]
    hdr = [os.path.join(VERIF, "harness", h) for h in os.listdir(os.path.join(VERIF, "harness")) if h.endswith(".h")]
    newest = max(os.path.getmtime(p) for p in srcs + [h for h in hdr if os.path.exists(h)])
    if os.path.exists(out) and os.path.getmtime(out) >= newest:
        return out
    with Lock("drv-" + name):
        cmd = [CC, "-std=gnu99", "-w"] + VARIANTS[variant] + DEFINES + \
              ["-I" + os.path.join(REPO, "include"), "-I" + os.path.join(REPO, "src"),
               "-I" + os.path.join(REPO, "src", "loaders"),
               "-I" + os.path.join(VERIF, "harness")] + srcs + [ar, "-lm", "-lpthread", "-o", out + ".tmp"] + list(extra)
        for w in wraps:
            cmd.append("-Wl,--wrap=" + w)
        r = subprocess.run(cmd, capture_output=True, text=True)
        if r.returncode != 0:
            raise BuildError("driver %s does not build:\n%s" % (name, r.stderr[:4000]))
        os.rename(out + ".tmp", out)
    return out


def san_env(extra=None):
    e = dict(os.environ)
    e["ASAN_OPTIONS"] = "detect_leaks=0:abort_on_error=0:exitcode=86:allocator_may_return_null=1"
    e["UBSAN_OPTIONS"] = "print_stacktrace=1:halt_on_error=1:exitcode=86"
    if extra:
        e.update(extra)
    return e


# --------------------------------------------------------------------------
# Coq development

def write_if_changed(path, content):
    try:
        if open(path).read() == content:
            return False
    except OSError:
        pass
    os.makedirs(os.path.dirname(path), exist_ok=True)
    with open(path, "w") as f:
        f.write(content)
    return True


FORBIDDEN = re.compile(r"\b(Admitted|admit|Axiom|Parameter|Conjecture|Admit Obligations)\b|Unset Guard|bypass_check|type-in-type|impredicative-set|Unset Positivity|Unset Universe")


def coq_scan_forbidden():
    bad = []
    for d, _, files in os.walk(COQ):
        for f in files:
            if f.endswith(".v"):
                p = os.path.join(d, f)
                txt = open(p).read()
                txt = re.sub(r"\(\*.*?\*\)", "", txt, flags=re.S)
                for m in FORBIDDEN.finditer(txt):
                    bad.append("%s: %s" % (os.path.relpath(p, COQ), m.group(0)))
    # Variable/Hypothesis outside sections are also axioms; checked via Print Assumptions output
    return bad


def coq_make(targets, timeout=1500):
    """Full .vo build of the given targets (relative to coq/). Returns (ok, log)."""
    with Lock("coq"):
        import gentables
        gentables.regenerate()
        mk = os.path.join(COQ, "Makefile")
        cp = os.path.join(COQ, "_CoqProject")
        os.makedirs(os.path.join(COQ, "extracted"), exist_ok=True)
        # _CoqProject lists every .v file currently present
        vs = []
        for sub in ("Base", "Generated", "Model", "Proofs", "Props", "Extract"):
            p = os.path.join(COQ, sub)
            if os.path.isdir(p):
                for f in sorted(os.listdir(p)):
                    if f.endswith(".v"):
                        vs.append(sub + "/" + f)
        content = "-Q . LX\n-arg -w -arg -all\n" + "\n".join(vs) + "\n"
        changed = write_if_changed(cp, content)
        if changed or not os.path.exists(mk):
            subprocess.check_call(["coq_makefile", "-f", "_CoqProject", "-o", "Makefile"], cwd=COQ,
                                  stdout=subprocess.DEVNULL, stderr=subprocess.DEVNULL)
        cmd = ["timeout", str(timeout), "make", "-k", "-j%d" % NCPU] + list(targets)
        r = subprocess.run(cmd, cwd=COQ, capture_output=True, text=True)
        return r.returncode == 0, r.stdout + r.stderr, " ".join(cmd)


def props_info(pid, makelog):
    """Theorems of Props/Properties_<pid>.v and their Print Assumptions results."""
    path = os.path.join(COQ, "Props", "Properties_%s.v" % pid)
    txt = open(path).read()
    txt_nc = re.sub(r"\(\*.*?\*\)", "", txt, flags=re.S)
    theorems = re.findall(r"^\s*Theorem\s+([A-Za-z0-9_']+)", txt_nc, flags=re.M)
    built = os.path.exists(path + "o") and os.path.getmtime(path + "o") >= os.path.getmtime(path)
    return theorems, built


def print_assumptions(pid):
    """Re-run coqc on the property file alone to capture Print Assumptions output."""
    path = os.path.join("Props", "Properties_%s.v" % pid)
    r = subprocess.run(["timeout", "600", "coqc", "-Q", ".", "LX", "-w", "-all", path], cwd=COQ,
                       capture_output=True, text=True)
    out = r.stdout
    res = []
    # each Print Assumptions prints either "Closed under the global context" or "Axioms:\n..."
    blocks = re.split(r"(?=Closed under the global context|Axioms:|Section Variables:)", out)
    for b in blocks:
        b = b.strip()
        if b.startswith("Closed under"):
            res.append("closed")
        elif b.startswith("Axioms:") or b.startswith("Section Variables:"):
            res.append(" ".join(b.split())[:400])
    return r.returncode == 0, res, out


def ocaml_build(engine):
    """Builds ocaml/<engine>_driver.ml against coq/extracted/<engine>_model.ml(i). Returns exe path."""
    ex = os.path.join(COQ, "extracted")
    ml = os.path.join(ex, engine + "_model.ml")
    mli = os.path.join(ex, engine + "_model.mli")
    drv = os.path.join(VERIF, "ocaml", engine + "_driver.ml")
    bd = os.path.join(CACHE, "ocaml", engine)
    exe = os.path.join(bd, engine + "_run")
    srcs = [mli, ml, drv]
    with Lock("ocaml-" + engine):
        if os.path.exists(exe) and all(os.path.getmtime(exe) >= os.path.getmtime(s) for s in srcs + [os.path.join(VERIF, "ocaml", "zio_body.ml")]):
            return exe
        shutil.rmtree(bd, ignore_errors=True)
        os.makedirs(bd)
        for s in srcs:
            shutil.copy(s, bd)
        with open(os.path.join(bd, "zio.ml"), "w") as f:
            f.write("open %s_model\n" % engine.capitalize())
            f.write(open(os.path.join(VERIF, "ocaml", "zio_body.ml")).read())
        r = subprocess.run(["ocamlfind", "ocamlopt", "-O2", "-w", "-a", "-unsafe", "-inline", "100",
                            engine + "_model.mli", engine + "_model.ml", "zio.ml", engine + "_driver.ml",
                            "-o", exe], cwd=bd, capture_output=True, text=True)
        if r.returncode != 0:
            r = subprocess.run(["ocamlfind", "ocamlopt", "-w", "-a",
                                engine + "_model.mli", engine + "_model.ml", "zio.ml", engine + "_driver.ml",
                                "-o", exe], cwd=bd, capture_output=True, text=True)
        if r.returncode != 0:
            raise BuildError("ocaml build of %s failed:\n%s" % (engine, r.stderr[:3000]))
    return exe


# --------------------------------------------------------------------------
# known findings

def load_known():
    p = os.path.join(VERIF, "known_findings.json")
    try:
        return json.load(open(p)).get("findings", [])
    except OSError:
        return []


def known_match(pid, key):
    """key: a string identifying the failing input / call site. Matching is exact on the 'match' field."""
    for f in load_known():
        if f.get("property") == pid and f.get("kind") == "known" and f.get("match") == key:
            return f
    return None


# --------------------------------------------------------------------------
# the check object: collects obligations, correspondence counts, violations

class Check:
    def __init__(self, pid, tier):
        self.pid = pid
        self.tier = tier if tier in ("quick", "thorough") else "quick"
        self.t0 = time.time()
        self.seed = seed()
        self.rng = random.Random(self.seed * 1000003 + int(pid[1:]))
        self.cov = {"obligations": 0, "discharged": 0, "checker_cmd": "", "trusted_base": [],
                    "evaluations": 0, "distinct_nontrivial": 0, "rule": "", "samples": [],
                    "theorems": [], "engines": {}}
        self.assumptions = []
        self.violations = []     # (replay_path, no_failing_input_found)
        self.known_hit = []
        self.broken = []         # names of theorems / correspondences that no longer check
        self._distinct = set()

    # ---- proof leg
    def proof_leg(self, extra_targets=()):
        pid = self.pid
        bad = coq_scan_forbidden()
        tgt = ["Props/Properties_%s.vo" % pid] + list(extra_targets)
        ok, mlog, cmd = coq_make(tgt)
        theorems, built = props_info(pid, mlog)
        self.cov["checker_cmd"] = "cd coq && " + cmd + "  (full .vo build, coq 8.16.1; then coqc on the property file for Print Assumptions)"
        self.cov["obligations"] = len(theorems)
        pa = []
        if built and ok:
            okpa, pa, raw = print_assumptions(pid)
            self.cov["discharged"] = len(theorems)
        else:
            self.cov["discharged"] = 0
        self.cov["theorems"] = [{"name": t, "assumptions": (pa[i] if i < len(pa) else "?")} for i, t in enumerate(theorems)]
        nonclosed = [x for x in pa if x != "closed"]
        self.cov["trusted_base"] = [
            "Coq 8.16.1 kernel (vm_compute used for finite table facts; native_compute not used)",
            "Print Assumptions: %d/%d theorems closed under the global context%s" % (
                len([x for x in pa if x == "closed"]), len(theorems),
                ("; others: " + "; ".join(sorted(set(nonclosed)))) if nonclosed else ""),
            "hand-written Gallina model tied to /repo by the correspondence run of this check (extraction: ExtrOcamlBasic directives only)",
        ]
        if bad:
            self.fail_no_input("forbidden construct in Coq development: " + "; ".join(bad[:5]))
        if not (ok and built):
            # find the failing file/lemma in the make log
            m = re.findall(r'File "\./([^"]+)", line (\d+)', mlog)
            where = ", ".join("%s:%s" % x for x in m[:3]) or "see log"
            errs = re.findall(r"Error:.*(?:\n.*){0,3}", mlog)
            self.broken.append("proof obligations of Properties_%s (%s)" % (pid, where))
            self.proof_log = mlog[-3000:]
            return False, mlog
        return True, mlog

    # ---- correspondence bookkeeping
    def count(self, n=1):
        self.cov["evaluations"] += n

    def nontrivial(self, key):
        if key not in self._distinct:
            self._distinct.add(key)
            self.cov["distinct_nontrivial"] = len(self._distinct)

    def sample(self, s, limit=6):
        if len(self.cov["samples"]) < limit:
            self.cov["samples"].append(s)

    def engine_stat(self, name, **kw):
        self.cov["engines"].setdefault(name, {}).update(kw)

    # ---- violations
    def violation(self, replay, key=None, found_input=True):
        """replay: dict describing the failing case. key: string used for known-finding matching."""
        kf = known_match(self.pid, key) if key else None
        if kf:
            if key not in self.known_hit:
                self.known_hit.append(key)
                print("KNOWN-FINDING: property=%s %s" % (self.pid, kf.get("text", key)), flush=True)
            return
        self.nviol = getattr(self, "nviol", 0) + 1
        if self.nviol > 12:
            return      # enough replays written; the count is still reported
        d = os.path.join(VERIF, "replays", self.pid) if os.path.realpath(REPO) == "/repo" else os.path.join("/var/tmp", "vp-replays-other-tree", self.pid)
        os.makedirs(d, exist_ok=True)
        replay = dict(replay)
        replay.setdefault("property", self.pid)
        replay.setdefault("seed", self.seed)
        replay["found_failing_input"] = bool(found_input)
        body = json.dumps(replay, sort_keys=True, default=str)
        h = hashlib.sha256(body.encode()).hexdigest()[:12]
        p = os.path.join(d, h + ".json")
        with open(p, "w") as f:
            json.dump(replay, f, indent=1, sort_keys=True, default=str)
        self.violations.append((os.path.relpath(p, VERIF), not found_input))

    def fail_no_input(self, what, extra=None):
        r = {"broken": what}
        if extra:
            r.update(extra)
        self.violation(r, found_input=False)

    # ---- finish
    def finish(self, level="proof"):
        if self.broken and not self.violations:
            # a proof or correspondence broke and the search found no failing input
            self.fail_no_input("; ".join(self.broken), {"log": getattr(self, "proof_log", "")})
        ev = {
            "property_id": self.pid, "tier": self.tier, "seed": self.seed, "level": level,
            "coverage": self.cov, "assumptions": self.assumptions,
            "wall_s": round(time.time() - self.t0, 2), "violations": getattr(self, "nviol", 0),
        }
        self.cov["known_findings_hit"] = self.known_hit
        # evidence describes runs against /repo itself; a run against another tree (VERIF_REPO, used to try seeded changes)
        # writes its evidence and replays elsewhere
        evdir = os.path.join(VERIF, "evidence") if os.path.realpath(REPO) == "/repo" else os.path.join("/var/tmp", "vp-evidence-other-tree")
        os.makedirs(evdir, exist_ok=True)
        with open(os.path.join(evdir, self.pid + ".json"), "w") as f:
            json.dump(ev, f, indent=1, default=str)
        seen = set()
        for p, nf in self.violations:
            if p in seen:
                continue
            seen.add(p)
            print("VIOLATION property=%s replay=%s%s" % (self.pid, p, " no-failing-input-found" if nf else ""), flush=True)
        if self.violations:
            sys.exit(1)
        if self.cov["evaluations"] == 0 and "--replay" not in sys.argv:
            # a correspondence leg that compared nothing is not a pass
            raise BuildError("no evaluation was made: the check compared nothing")
        print("OK property=%s tier=%s obligations=%d discharged=%d evaluations=%d distinct_nontrivial=%d wall=%.1fs" % (
            self.pid, self.tier, self.cov["obligations"], self.cov["discharged"], self.cov["evaluations"],
            self.cov["distinct_nontrivial"], time.time() - self.t0), flush=True)
        sys.exit(0)


def _big_stack():
    # extracted code recurses on unary numbers / long lists: give child processes a 1 GiB stack
    import resource
    try:
        soft, hard = resource.getrlimit(resource.RLIMIT_STACK)
        want = 1 << 30
        if hard != resource.RLIM_INFINITY and hard < want:
            want = hard
        resource.setrlimit(resource.RLIMIT_STACK, (want, hard))
    except Exception:
        pass


def run(cmd, inp=None, timeout=600, env=None, cwd=None, binary=False):
    r = subprocess.run(cmd, input=inp, capture_output=True, timeout=timeout, env=env, cwd=cwd,
                       text=not binary, preexec_fn=_big_stack)
    return r


def main_wrap(fn):
    """Run a check function; infrastructure failures exit 2 (never a VIOLATION)."""
    try:
        fn()
    except BuildError as e:
        print("BUILD-ERROR: %s" % e, flush=True)
        sys.exit(2)


def corpus_files(limit=None, rng=None):
    """module files shipped with the repository (test-dev data and the OpenMPT test cases)"""
    base = os.path.join(REPO, "test-dev")
    out = []
    for d in ("data", "data/m", "openmpt/it", "openmpt/xm", "openmpt/s3m", "openmpt/mod"):
        p = os.path.join(base, d)
        if not os.path.isdir(p):
            continue
        for f in sorted(os.listdir(p)):
            fp = os.path.join(p, f)
            if os.path.isfile(fp) and not f.endswith((".data", ".c", ".txt", ".h")) and "README" not in f and "TODO" not in f and "\n" not in f:
                out.append(fp)
    if limit is not None and len(out) > limit and rng is not None:
        out = sorted(rng.sample(out, limit))
    return out
