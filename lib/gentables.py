# Translator: constants, tables and inventories of /repo's working tree -> coq/Generated/*.v
# Constants are evaluated by the C compiler itself (a probe program including the real headers);
# static tables are parsed from their initialisers.
import os, re, subprocess, tempfile, hashlib
import vcommon as V

CONSTS = [
    # name, header group
    "XMP_MAX_FRAMESIZE", "XMP_MAX_SRATE", "XMP_MIN_SRATE", "XMP_MIN_BPM", "XMP_MAX_CHANNELS", "XMP_MAX_KEYS",
    "XMP_MAX_ENV_POINTS", "XMP_MAX_MOD_LENGTH", "XMP_NAME_SIZE",
    "XMP_ERROR_INTERNAL", "XMP_ERROR_FORMAT", "XMP_ERROR_LOAD", "XMP_ERROR_DEPACK", "XMP_ERROR_SYSTEM", "XMP_ERROR_INVALID", "XMP_ERROR_STATE", "XMP_END",
    "XMP_STATE_UNLOADED", "XMP_STATE_LOADED", "XMP_STATE_PLAYING",
    "XMP_SAMPLE_16BIT", "XMP_SAMPLE_LOOP", "XMP_SAMPLE_LOOP_BIDIR", "XMP_SAMPLE_LOOP_REVERSE", "XMP_SAMPLE_LOOP_FULL",
    "XMP_SAMPLE_SLOOP", "XMP_SAMPLE_SLOOP_BIDIR", "XMP_SAMPLE_STEREO", "XMP_SAMPLE_SYNTH",
    "XMP_ENVELOPE_ON", "XMP_ENVELOPE_SUS", "XMP_ENVELOPE_LOOP", "XMP_ENVELOPE_FLT", "XMP_ENVELOPE_SLOOP", "XMP_ENVELOPE_CARRY",
    "SAMPLE_FLAG_DIFF", "SAMPLE_FLAG_UNS", "SAMPLE_FLAG_8BDIFF", "SAMPLE_FLAG_7BIT", "SAMPLE_FLAG_NOLOAD", "SAMPLE_FLAG_BIGEND",
    "SAMPLE_FLAG_VIDC", "SAMPLE_FLAG_INTERLEAVED", "SAMPLE_FLAG_FULLREP", "SAMPLE_FLAG_ADLIB", "SAMPLE_FLAG_HSC", "SAMPLE_FLAG_ADPCM",
    "MAX_SAMPLE_SIZE", "XMP_MAX_PATTERNS_PROBE",
    "XMP_SMPCTL_SKIP", "LIBXMP_DEPACK_LIMIT_PROBE",
    # pattern decoding of the core loaders (Model/PatCodecs.v)
    "MAX_SEQUENCES",
    "XMP_KEY_OFF", "XMP_KEY_CUT", "XMP_KEY_FADE",
    "FX_XF_PORTA", "FX_SURROUND", "FX_REVERSE", "FX_VOLSLIDE_2", "FX_EXTENDED", "FX_VIBRATO", "FX_SETPAN", "FX_PANSL_NOMEM",
    "FX_TONEPORTA", "FX_TONE_VSLIDE", "FX_VOLSLIDE", "FX_OFFSET", "FX_S3M_BPM", "FX_TREMOR", "FX_GLOBALVOL",
    "FX_IT_INSTFUNC", "FX_PANBRELLO_WF", "FX_HIOFFSET", "FX_IT_ROWDELAY", "FX_MACRO_SET",
    "FX_F_VSLIDE_UP_2", "FX_F_VSLIDE_DN_2", "FX_VSLIDE_UP_2", "FX_VSLIDE_DN_2", "FX_PORTA_DN", "FX_PORTA_UP",
    "EX_F_VSLIDE_DN", "EX_F_VSLIDE_UP", "EX_FINETUNE", "EX_GLISS", "EX_VIBRATO_WF", "EX_TREMOLO_WF", "EX_PATTERN_LOOP",
]

PROBE = r'''
#include <stdio.h>
#include "xmp.h"
#include "common.h"
#include "loaders/loader.h"
#include "effects.h"
#define P(n) printf(#n " %%lld\n", (long long)(n))
int main(void) {
%s
#ifdef LIBXMP_DEPACK_LIMIT
 printf("LIBXMP_DEPACK_LIMIT %%lld\n", (long long)(LIBXMP_DEPACK_LIMIT));
#endif
 return 0; }
'''


def c_consts():
    names = [n for n in CONSTS if not n.endswith("_PROBE")]
    body = "\n".join(" P(%s);" % n for n in names)
    d = tempfile.mkdtemp(prefix="vp-consts-", dir="/var/tmp")
    try:
        src = os.path.join(d, "p.c")
        open(src, "w").write(PROBE % body)
        exe = os.path.join(d, "p")
        r = subprocess.run(["cc", "-w"] + V.DEFINES + ["-I" + os.path.join(V.REPO, "include"), "-I" + os.path.join(V.REPO, "src"), src, "-o", exe],
                           capture_output=True, text=True)
        if r.returncode != 0:
            raise V.BuildError("constant probe does not compile:\n" + r.stderr[:2000])
        out = subprocess.run([exe], capture_output=True, text=True).stdout
    finally:
        subprocess.run(["rm", "-rf", d])
    res = {}
    for l in out.split("\n"):
        w = l.split()
        if len(w) == 2:
            res[w[0]] = int(w[1])
    return res


def strip_comments(s):
    return re.sub(r"/\*.*?\*/", "", s, flags=re.S)


def int_table(path, name):
    s = strip_comments(open(os.path.join(V.REPO, path)).read())
    m = re.search(re.escape(name) + r"\s*\[[^\]]*\]\s*=\s*\{(.*?)\};", s, re.S)
    if not m:
        raise V.BuildError("table %s not found in %s" % (name, path))
    return [int(x, 0) for x in re.findall(r"-?(?:0[xX][0-9a-fA-F]+|\d+)(?=[uUlL]*\s*[,}\s]|[uUlL]*$)", m.group(1) + " ")]


def sym_table(path, name):
    """a static table whose initialiser is written with macro names (effect translation tables of the loaders): the table's own
    text and the object-like #defines of its file are compiled against the real headers and the values printed by the C compiler.
    Returns (values, {local define: value})."""
    s = strip_comments(open(os.path.join(V.REPO, path)).read())
    m = re.search(r"static\s+const\s+(\w+)\s+" + re.escape(name) + r"\s*\[([^\]]*)\]\s*=\s*\{(.*?)\};", s, re.S)
    if not m:
        raise V.BuildError("table %s not found in %s" % (name, path))
    defs = re.findall(r"^[ \t]*#[ \t]*define[ \t]+(\w+)[ \t]+([^\n\\]+)$", s[:m.start()], re.M)
    d = tempfile.mkdtemp(prefix="vp-symtab-", dir="/var/tmp")
    try:
        src = os.path.join(d, "p.c")
        body = "#include <stdio.h>\n#include \"xmp.h\"\n#include \"common.h\"\n#include \"effects.h\"\n"
        body += "".join("#ifndef %s\n#define %s %s\n#endif\n" % (n, n, v) for n, v in defs)
        body += "static const int T[%s] = {%s};\nint main(void) { unsigned i; for (i = 0; i < sizeof T / sizeof T[0]; i++) printf(\"E %%d\\n\", T[i]);\n" % (m.group(2), m.group(3))
        body += "".join(" printf(\"D %s %%lld\\n\", (long long)(%s));\n" % (n, n) for n, v in defs if re.fullmatch(r"\s*(0[xX][0-9a-fA-F]+|\d+)\s*", v))
        body += " return 0; }\n"
        open(src, "w").write(body)
        exe = os.path.join(d, "p")
        r = subprocess.run(["cc", "-w"] + V.DEFINES + ["-I" + os.path.join(V.REPO, "include"), "-I" + os.path.join(V.REPO, "src"), src, "-o", exe], capture_output=True, text=True)
        if r.returncode != 0:
            raise V.BuildError("table probe for %s/%s does not compile:\n%s" % (path, name, r.stderr[:2000]))
        out = subprocess.run([exe], capture_output=True, text=True).stdout
    finally:
        subprocess.run(["rm", "-rf", d])
    vals = [int(l.split()[1]) for l in out.split("\n") if l.startswith("E ")]
    loc = {l.split()[1]: int(l.split()[2]) for l in out.split("\n") if l.startswith("D ")}
    return vals, loc


def coq_list(vals, per=16):
    rows = ["; ".join(str(v) if v >= 0 else "(%d)" % v for v in vals[i:i + per]) for i in range(0, len(vals), per)]
    return "[" + ";\n  ".join(rows) + "]"


def mix_tables():
    """mix_all.c: its local macros' values and the spline tables as the C compiler sees them, and every MIXER(name) { body } as a
    list of canonical statements (whitespace removed).  lfo.c: the sine table."""
    d = tempfile.mkdtemp(prefix="vp-mixtab-", dir="/var/tmp")
    try:
        src = os.path.join(d, "p.c")
        names = ["SMIX_SHIFT", "SMIX_MASK", "SPLINE_SHIFT", "SPLINE_QUANTBITS", "FILTER_SHIFT", "PREAMP_BITS", "FILTER_MIN", "FILTER_MAX", "ANTICLICK_SHIFT"]
        body = "#include <stdio.h>\n#include \"%s\"\nint main(void) { int i;\n" % os.path.join(V.REPO, "src", "mix_all.c")
        body += "".join(" printf(\"D %s %%lld\\n\", (long long)(%s));\n" % (n, n) for n in names)
        for k in range(4):
            body += " for (i = 0; i < (int)(sizeof cubic_spline_lut%d / sizeof cubic_spline_lut%d[0]); i++) printf(\"L%d %%d\\n\", (int)cubic_spline_lut%d[i]);\n" % (k, k, k, k)
        body += " return 0; }\n"
        open(src, "w").write(body)
        exe = os.path.join(d, "p")
        r = subprocess.run(["cc", "-w"] + V.DEFINES + ["-I" + os.path.join(V.REPO, "include"), "-I" + os.path.join(V.REPO, "src"), src, "-o", exe], capture_output=True, text=True)
        if r.returncode != 0:
            raise V.BuildError("mix_all.c probe does not compile:\n" + r.stderr[:2000])
        out = subprocess.run([exe], capture_output=True, text=True).stdout
    finally:
        subprocess.run(["rm", "-rf", d])
    consts = {l.split()[1]: int(l.split()[2]) for l in out.split("\n") if l.startswith("D ")}
    luts = [[int(l.split()[1]) for l in out.split("\n") if l.startswith("L%d " % k)] for k in range(4)]
    s = strip_comments(open(os.path.join(V.REPO, "src", "mix_all.c")).read())
    kernels = []
    for m in re.finditer(r"^MIXER\((\w+)\)\s*\{(.*?)^\}", s, re.S | re.M):
        body = re.sub(r"\s+", "", m.group(2))
        stmts = [x for x in re.split(r"(?<=[;{}])", body) if x]
        stmts = [x[:-1] if x.endswith(";") else x for x in stmts]
        kernels.append((m.group(1), [x for x in stmts if x]))
    sine = int_table("src/lfo.c", "sine_wave")
    # who writes an LFO's phase: the arguments of every libxmp_lfo_set_phase call outside lfo.c, and direct writes of a `phase` member
    import glob
    args = []; direct = 0
    for f in sorted(glob.glob(os.path.join(V.REPO, "src", "*.c")) + glob.glob(os.path.join(V.REPO, "src", "loaders", "*.c"))):
        if os.path.basename(f) == "lfo.c": continue
        t = strip_comments(open(f, errors="replace").read())
        for m in re.finditer(r"libxmp_lfo_set_phase\s*\(([^;]*?),\s*([^,;]*?)\)\s*;", t):
            args.append(re.sub(r"\s+", "", m.group(2)))
        direct += len(re.findall(r"lfo\s*(?:\.|->)\s*phase\s*(?:[-+*/&|^]|<<|>>)?=(?!=)", t))
    return consts, luts, kernels, sine, args, direct


SENSITIVE = set("""fopen fopen64 open open64 openat opendir readdir readdir64 closedir execvp execv execve execlp execl fork vfork popen system
unlink remove rename mkstemp mkstemp64 mkdir tmpfile tmpfile64 fdopen freopen getenv stat stat64 lstat fstat fstat64 creat chdir socket connect dlopen
pipe dup2 wait waitpid kill tmpnam mktemp
hio_open hio_open_file hio_open_file2 make_temp_file unlink_temp_file libxmp_find_instrument_file libxmp_copy_name_for_fopen
libxmp_check_filename_case libxmp_decrunch""".split())


def syscall_inventory():
    """(object, symbol) pairs: which compiled objects reference which file/process-facing symbols."""
    d, ar = V.build_lib("asan")
    pairs = []
    for o in sorted(os.listdir(d)):
        if not o.endswith(".o"):
            continue
        r = subprocess.run(["nm", "-u", os.path.join(d, o)], capture_output=True, text=True)
        for l in r.stdout.split("\n"):
            w = l.split()
            if len(w) == 2 and w[1] in SENSITIVE:
                pairs.append((o[:-2].replace("src_", "", 1), w[1]))
    return sorted(set(pairs))


def writable_globals():
    """symbols in .data/.bss of the compiled objects (process-wide mutable state)"""
    d, ar = V.build_lib("plain")
    res = []
    for o in sorted(os.listdir(d)):
        if not o.endswith(".o"):
            continue
        r = subprocess.run(["objdump", "-t", os.path.join(d, o)], capture_output=True, text=True)
        for l in r.stdout.split("\n"):
            w = l.split()
            if len(w) >= 5 and w[-3] in (".data", ".bss") and " O " in l:
                res.append((o[:-2].replace("src_", "", 1), w[-1]))
    return sorted(set(res))


def regenerate(with_objects=True):
    c = c_consts()
    out = ["(* GENERATED from /repo's working tree by lib/gentables.py on every run. Do not edit. *)",
           "From Coq Require Import ZArith List.", "Import ListNotations.", "Local Open Scope Z_scope.", ""]
    for k in sorted(c):
        out.append("Definition C_%s : Z := %s." % (k, c[k] if c[k] >= 0 else "(%d)" % c[k]))
    V.write_if_changed(os.path.join(V.COQ, "Generated", "Consts.v"), "\n".join(out) + "\n")
    t = ["(* GENERATED from /repo's working tree by lib/gentables.py on every run. Do not edit. *)",
         "From Coq Require Import ZArith List.", "Import ListNotations.", "Local Open Scope Z_scope.", ""]
    t.append("(* src/loaders/sample.c vdic_table *)")
    t.append("Definition vdic_table : list Z :=\n  %s." % coq_list(int_table("src/loaders/sample.c", "vdic_table")))
    t.append("(* src/depackers/crc32.c *)")
    t.append("Definition crc32_A_table : list Z :=\n  %s." % coq_list(int_table("src/depackers/crc32.c", "crc32_A_table"), 8))
    t.append("Definition crc16_IBM_table : list Z :=\n  %s." % coq_list(int_table("src/depackers/crc32.c", "crc16_IBM_table"), 8))
    s3m_fx, s3m_loc = sym_table("src/loaders/s3m_load.c", "fx")
    it_fx, it_loc = sym_table("src/loaders/it_load.c", "fx")
    t.append("(* src/loaders/s3m_load.c fx[] and its local markers *)")
    t.append("Definition s3m_fx_table : list Z :=\n  %s." % coq_list(s3m_fx))
    t.append("Definition S3M_NONE : Z := %d.\nDefinition S3M_FX_EXTENDED : Z := %d." % (s3m_loc["NONE"], s3m_loc["FX_S3M_EXTENDED"]))
    t.append("(* src/loaders/it_load.c fx[] and its local markers *)")
    t.append("Definition it_fx_table : list Z :=\n  %s." % coq_list(it_fx))
    t.append("Definition IT_FX_NONE : Z := %d.\nDefinition IT_FX_XTND : Z := %d." % (it_loc["FX_NONE"], it_loc["FX_XTND"]))
    V.write_if_changed(os.path.join(V.COQ, "Generated", "Tables.v"), "\n".join(t) + "\n")
    mc, luts, kernels, sine, ph_args, ph_direct = mix_tables()
    mt = ["(* GENERATED from /repo's working tree (src/mix_all.c, src/precomp_lut.h, src/lfo.c) by lib/gentables.py on every run. Do not edit. *)",
          "From Coq Require Import ZArith List String.", "Import ListNotations.", "Local Open Scope Z_scope.", ""]
    for k in sorted(mc):
        mt.append("Definition C_%s : Z := %s." % (k, mc[k] if mc[k] >= 0 else "(%d)" % mc[k]))
    for k in range(4):
        mt.append("Definition cubic_spline_lut%d : list Z :=\n  %s." % (k, coq_list(luts[k])))
    mt.append("Definition lfo_sine_wave : list Z :=\n  %s." % coq_list(sine))
    mt.append("(* who sets an LFO's phase outside lfo.c: the argument text of every libxmp_lfo_set_phase call, and the number of direct writes of lfo.phase *)")
    mt.append("Definition lfo_set_phase_args : list string := [%s]." % "; ".join('"%s"%%string' % a for a in ph_args))
    mt.append("Definition lfo_phase_direct_writes : nat := %d." % ph_direct)
    mt.append("(* every MIXER(name) { ... } of mix_all.c: its statements with the whitespace removed *)")
    mt.append("Definition mix_kernels : list (string * list string) :=\n  [" + ";\n   ".join(
        '("%s"%%string, [%s])' % (n, "; ".join('"%s"%%string' % x for x in st)) for n, st in kernels) + "].")
    V.write_if_changed(os.path.join(V.COQ, "Generated", "MixTables.v"), "\n".join(mt) + "\n")
    if with_objects:
        inv = syscall_inventory()
        sy = ["(* GENERATED from the objects compiled from /repo's working tree (nm -u). Do not edit. *)",
              "From Coq Require Import String List.", "Import ListNotations.", "Local Open Scope string_scope.", "",
              "Definition syscall_inventory : list (string * string) :=\n  [" + ";\n   ".join('("%s", "%s")' % p for p in inv) + "]."]
        V.write_if_changed(os.path.join(V.COQ, "Generated", "Syscalls.v"), "\n".join(sy) + "\n")
        gl = writable_globals()
        g = ["(* GENERATED from the objects compiled from /repo's working tree (objdump -t: objects in .data/.bss). Do not edit. *)",
             "From Coq Require Import String List.", "Import ListNotations.", "Local Open Scope string_scope.", "",
             "Definition writable_globals : list (string * string) :=\n  [" + ";\n   ".join('("%s", "%s")' % p for p in gl) + "]."]
        V.write_if_changed(os.path.join(V.COQ, "Generated", "Globals.v"), "\n".join(g) + "\n")
    return c
