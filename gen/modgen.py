# Independent writers for the four core formats (Protracker MOD, Scream Tracker 3, FastTracker 2 XM,
# Impulse Tracker) from an abstract song.  Used to generate modules whose flow structure is known.
#
# song = dict(chn=int, orders=[pattern index...], patterns=[ [row][chn] cells ], speed=int, bpm=int, restart=int, name=str)
# cell = None | dict(note=0..  (1..96 semitone index, 0 none), ins=0.., vol=None|0..64, fx=None|(letter, param))
# effect letters are the abstract flow vocabulary: 'speed' 'tempo' 'jump' 'break' 'delay' (pattern delay) 'loop' (pattern loop) 'notedelay'
import struct

PERIODS = [1712, 1616, 1524, 1440, 1356, 1280, 1208, 1140, 1076, 1016, 960, 906,
           856, 808, 762, 720, 678, 640, 604, 570, 538, 508, 480, 453,
           428, 404, 381, 360, 339, 320, 302, 285, 269, 254, 240, 226,
           214, 202, 190, 180, 170, 160, 151, 143, 135, 127, 120, 113,
           107, 101, 95, 90, 85, 80, 75, 71, 67, 63, 60, 56]

SAMPLE = bytes([(0x40 if (i // 8) % 2 == 0 else 0xc0) for i in range(64)])   # short square wave, signed 8-bit


def _fx_mod(fx):
    """abstract effect -> (fxt, fxp) in MOD/XM numbering"""
    if fx is None:
        return (0, 0)
    k, p = fx
    if k == 'speed': return (0x0f, p & 0x1f)
    if k == 'tempo': return (0x0f, max(0x20, p) & 0xff)
    if k == 'jump': return (0x0b, p & 0xff)
    if k == 'break': return (0x0d, ((p // 10) << 4) | (p % 10))
    if k == 'delay': return (0x0e, 0xe0 | (p & 15))
    if k == 'loop': return (0x0e, 0x60 | (p & 15))
    if k == 'notedelay': return (0x0e, 0xd0 | (p & 15))
    if k == 'raw': return p
    return (0, 0)


def _fx_s3m(fx):
    """abstract effect -> (cmd, info) in S3M/IT numbering (A=1 ...)"""
    if fx is None:
        return (0, 0)
    k, p = fx
    if k == 'speed': return (1, p & 0xff)
    if k == 'tempo': return (20, max(0x20, p) & 0xff)
    if k == 'jump': return (2, p & 0xff)
    if k == 'break': return (3, ((p // 10) << 4) | (p % 10))
    if k == 'breakhex': return (3, p & 0xff)
    if k == 'delay': return (19, 0xe0 | (p & 15))
    if k == 'loop': return (19, 0xb0 | (p & 15))
    if k == 'notedelay': return (19, 0xd0 | (p & 15))
    if k == 'raw': return p
    return (0, 0)


def write_mod(song):
    chn = song['chn']
    tag = b"M.K." if chn == 4 else (b"%dCHN" % chn if chn < 10 else b"%dCH" % chn)
    b = bytearray(song.get('name', 'gen').encode()[:20].ljust(20, b"\0"))
    ls, ll = song.get('loop', (0, len(SAMPLE) // 2))       # loop start / length in words
    b += b"square".ljust(22, b"\0") + struct.pack(">HBBHH", len(SAMPLE) // 2, 0, 64, ls, ll)
    for i in range(30):
        b += bytes(22) + struct.pack(">HBBHH", 0, 0, 0, 0, 1)
    orders = song['orders']
    b += bytes([len(orders), song.get('restart', 0x7f) & 0xff]) + bytes(orders) + bytes(128 - len(orders)) + tag
    npat = max(orders) + 1
    for pi in range(npat):
        pat = song['patterns'][pi] if pi < len(song['patterns']) else []
        for r in range(64):
            for c in range(chn):
                cell = pat[r][c] if r < len(pat) and pat[r][c] else None
                note = cell.get('note', 0) if cell else 0
                ins = cell.get('ins', 0) if cell else 0
                fxt, fxp = _fx_mod(cell.get('fx') if cell else None)
                per = PERIODS[note - 1 + 12] if 1 <= note <= 36 else 0     # note 1..36 -> C-1..B-3
                b += bytes([(ins & 0xf0) | (per >> 8), per & 0xff, ((ins & 0x0f) << 4) | fxt, fxp])
    b += SAMPLE
    return bytes(b)


def write_xm(song):
    chn = song['chn']
    orders = song['orders']
    npat = len(song['raw_patterns']) if 'raw_patterns' in song else len(song['patterns'])
    b = bytearray(b"Extended Module: " + song.get('name', 'gen').encode()[:20].ljust(20, b" ") + b"\x1a" + b"FastTracker v2.00   " + struct.pack("<H", 0x0104))
    b += struct.pack("<IHHHHHHHH", 276, len(orders), song.get('restart', 0), chn, npat, 1, 1, song.get('speed', 6), song.get('bpm', 125))
    b += bytes(orders) + bytes(256 - len(orders))
    for (rows, declared, blob) in song.get('raw_patterns', ()):        # packed pattern data given as bytes (C19 pattern-codec leg)
        b += struct.pack("<IBHH", 9, 0, rows, declared) + blob
    for pat in ([] if 'raw_patterns' in song else song['patterns']):
        data = bytearray()
        for row in pat:
            for c in range(chn):
                cell = row[c] if row[c] else None
                if not cell:
                    data.append(0x80); continue
                fxt, fxp = _fx_mod(cell.get('fx'))
                note, ins, vol = cell.get('note', 0), cell.get('ins', 0), cell.get('vol')
                m = 0x80; body = bytearray()
                if note: m |= 1; body.append(note)
                if ins: m |= 2; body.append(ins)
                if vol is not None: m |= 4; body.append(0x10 + vol)
                if fxt: m |= 8; body.append(fxt)
                if fxp or fxt: m |= 16; body.append(fxp)
                data.append(m); data += body
        b += struct.pack("<IBHH", 9, 0, len(pat), len(data)) + data
    # one instrument, one looped 8-bit sample
    ih = bytearray(struct.pack("<I", 263) + b"square".ljust(22, b"\0") + bytes([0]) + struct.pack("<H", 1))
    venv = song.get('venv') or []          # volume envelope points (x, y), possibly out of order (hostile); type = on [+ sustain/loop flags]
    vpts = b"".join(struct.pack("<HH", x & 0xffff, y & 0xffff) for x, y in venv[:12]).ljust(48, b"\0")
    ih += struct.pack("<I", 40) + bytes(96) + vpts + bytes(48) + bytes([len(venv[:12]), 0, song.get('venv_sus', 0), song.get('venv_lps', 0), song.get('venv_lpe', 0), 0, 0, 0, song.get('venv_type', 1 if venv else 0), 0]) + bytes(4) + struct.pack("<HH", 0, 0)
    ih += bytes(263 - len(ih))
    b += ih
    b += struct.pack("<IIIBbBBbB", len(SAMPLE), 0, len(SAMPLE), 64, 0, 1, 128, 0, 0) + b"square".ljust(22, b"\0")
    prev = 0; delta = bytearray()
    for x in SAMPLE:
        v = x if x < 128 else x - 256
        delta.append((v - prev) & 0xff); prev = v
    b += delta
    return bytes(b)


def write_s3m(song):
    """song['s3m_samples'] (optional): list of dict(frames=int, bits=8|16, stereo=bool, left=[ints], right=[ints], loop=(start,end)|None,
    vol=int, c2spd=int, name=str, far=bool) with signed sample values; stored unsigned (ffi = 2), stereo as a left block followed by a
    right block; far=True places the data beyond the first MiB of the file (parapointer high byte in use)."""
    chn = song['chn']
    orders = list(song['orders'])
    if len(orders) % 2:
        orders.append(0xff)
    npat = 1 if 'raw_pattern' in song else len(song['patterns'])
    smps = song.get('s3m_samples')
    if smps is None:
        smps = [dict(frames=len(SAMPLE), bits=8, stereo=False, left=[x if x < 128 else x - 256 for x in SAMPLE], right=None, loop=(0, len(SAMPLE)), vol=64, c2spd=8363, name="square")]
    nins = len(smps)
    b = bytearray(song.get('name', 'gen').encode()[:28].ljust(28, b"\0") + b"\x1a\x10\0\0")
    b += struct.pack("<HHHHHH", len(orders), nins, npat, 0, 0x1320, 2) + b"SCRM"
    b += bytes([64, song.get('speed', 6), song.get('bpm', 125), 0x30, 0, 0]) + bytes(8) + struct.pack("<H", 0)
    b += bytes([(i if i < 8 else 0xff) if i < chn else 0xff for i in range(32)])
    b += bytes(orders)
    hdr_end = len(b) + 2 * nins + 2 * npat
    ins_para = (hdr_end + 15) // 16
    pos = (ins_para + 5 * nins) * 16
    # sample data blobs
    sblobs = []
    for sm in smps:
        def enc(vals):
            if sm['bits'] == 8: return bytes((v + 128) & 0xff for v in vals)
            return b"".join(struct.pack("<H", (v + 32768) & 0xffff) for v in vals)
        blob = enc(sm['left']) + (enc(sm['right']) if sm.get('stereo') else b"")
        sblobs.append(blob)
    near = [k for k, sm in enumerate(smps) if not sm.get('far')]
    far = [k for k, sm in enumerate(smps) if sm.get('far')]
    spos = {}
    for k in near:
        spos[k] = pos; pos += len(sblobs[k]) + ((-len(sblobs[k])) % 16)
    pat_paras = []
    patdata = []
    if 'raw_pattern' in song:
        pat_paras.append(pos // 16)
    for pat in ([] if 'raw_pattern' in song else song['patterns']):
        d = bytearray()
        for r in range(64):
            row = pat[r] if r < len(pat) else [None] * chn
            for c in range(chn):
                cell = row[c]
                if not cell:
                    continue
                what = c & 31; body = bytearray()
                note, ins, vol = cell.get('note', 0), cell.get('ins', 0), cell.get('vol')
                cmd, info = _fx_s3m(cell.get('fx'))
                if note or ins:
                    what |= 0x20; body += bytes([(((note - 1) // 12) << 4 | ((note - 1) % 12)) if note else 0xff, ins])
                if vol is not None:
                    what |= 0x40; body.append(vol)
                if cmd:
                    what |= 0x80; body += bytes([cmd, info])
                d.append(what); d += body
            d.append(0)
        blob = struct.pack("<H", len(d) + 2) + d
        pat_paras.append(pos // 16)
        patdata.append(blob + bytes((-len(blob)) % 16))
        pos += len(patdata[-1])
    if far:
        pos = max(pos, 0x100000 + 0x40)
        pos += (-pos) % 16
        for k in far:
            spos[k] = pos; pos += len(sblobs[k]) + ((-len(sblobs[k])) % 16)
    b += b"".join(struct.pack("<H", ins_para + 5 * k) for k in range(nins)) + b"".join(struct.pack("<H", p) for p in pat_paras)
    b += bytes(ins_para * 16 - len(b))
    for k, sm in enumerate(smps):
        para = spos[k] // 16
        flags = (1 if sm.get('loop') else 0) | (2 if sm.get('stereo') else 0) | (4 if sm['bits'] == 16 else 0)
        lp = sm.get('loop') or (0, 0)
        ih = bytearray([1]) + ("s%02d.smp" % k).encode().ljust(12, b"\0") + bytes([(para >> 16) & 0xff]) + struct.pack("<H", para & 0xffff) + struct.pack("<III", sm['frames'], lp[0], lp[1])
        ih += bytes([sm.get('vol', 64), 0, 0, flags]) + struct.pack("<I", sm.get('c2spd', 8363)) + bytes(12) + sm.get('name', 'smp').encode()[:27].ljust(28, b"\0") + b"SCRS"
        b += ih + bytes(80 - len(ih))
    for k in near:
        b += bytes(spos[k] - len(b)) + sblobs[k]
    b += bytes((-len(b)) % 16)
    for blob in patdata:
        b += blob
    if 'raw_pattern' in song:          # (declared length field, bytes): the file ends with this pattern's data (C19 pattern-codec leg)
        declared, blob = song['raw_pattern']
        assert len(b) == pat_paras[0] * 16
        b = b[:pat_paras[0] * 16] + struct.pack("<H", declared) + blob
        return bytes(b)
    for k in far:
        b += bytes(spos[k] - len(b)) + sblobs[k]
    return bytes(b)


def write_it(song):
    chn = song['chn']
    orders = list(song['orders']) + [0xff]
    pats = song['raw_patterns'] if 'raw_patterns' in song else song['patterns']
    b = bytearray(b"IMPM" + song.get('name', 'gen').encode()[:26].ljust(26, b"\0") + bytes([4, 16]))
    b += struct.pack("<HHHHHHHH", len(orders), 0, 1, len(pats), 0x0214, 0x0200, 0x0009 | (0x10 if song.get('it_old_fx') else 0), 0)
    b += bytes([128, 48, song.get('speed', 6), song.get('bpm', 125), 128, 0]) + struct.pack("<HI", 0, 0) + bytes(4)
    b += bytes([32 if i < chn else 0xa0 for i in range(64)]) + bytes([64] * 64)
    b += bytes(orders)
    off_tbl = len(b)
    b += bytes(4 * (1 + len(pats)))
    smp_off = len(b)
    cs = song.get('it_comp_sample')     # dict(frames, wide, it215, stream): a compressed sample whose block stream is given (C19 itsex leg)
    if cs:
        flg = 0x01 | 0x08 | (0x02 if cs['wide'] else 0)
        sh = bytearray(b"IMPS" + b"packed.smp\0\0" + bytes([0, 64, flg, 64]) + b"packed".ljust(26, b"\0") + bytes([0x01 | (0x04 if cs['it215'] else 0), 32]))
        sh += struct.pack("<IIIIIII", cs['frames'], 0, 0, 8363, 0, 0, 0) + bytes(4)
        b += sh
        data_off = len(b)
        b += cs['stream']
    else:
        sh = bytearray(b"IMPS" + b"square.smp\0\0" + bytes([0, 64, 0x11, 64]) + b"square".ljust(26, b"\0") + bytes([1, 32]))
        lb, le = song.get('it_loop', (0, len(SAMPLE)))
        sh += struct.pack("<IIIIIII", len(SAMPLE), lb, le, song.get('it_c5', 8363), 0, 0, 0)     # length loopbeg loopend c5 susbeg susend samplepointer(patched)
        sh += bytes([0, 0, 0, 0])
        b += sh
        data_off = len(b)
        b += SAMPLE
    struct.pack_into("<I", b, smp_off + 72, data_off)
    pat_offs = []
    for (rows, blob) in song.get('raw_patterns', ()):      # packed pattern data given as bytes (C19 pattern-codec leg)
        pat_offs.append(len(b))
        b += struct.pack("<HH", len(blob), rows) + bytes(4) + blob
    for pat in ([] if 'raw_patterns' in song else pats):
        d = bytearray()
        for row in pat:
            for c in range(chn):
                cell = row[c]
                if not cell:
                    continue
                note, ins, vol = cell.get('note', 0), cell.get('ins', 0), cell.get('vol')
                cmd, info = _fx_s3m(cell.get('fx'))
                mask = 0; body = bytearray()
                if note: mask |= 1; body.append(note - 1 + 12 if note < 120 else note)
                if ins: mask |= 2; body.append(ins)
                if vol is not None: mask |= 4; body.append(vol)
                if cmd: mask |= 8; body += bytes([cmd, info])
                d += bytes([(c + 1) | 0x80, mask]) + body
            d.append(0)
        pat_offs.append(len(b))
        b += struct.pack("<HH", len(d), len(pat)) + bytes(4) + d
    struct.pack_into("<I", b, off_tbl, smp_off)
    for i, o in enumerate(pat_offs):
        struct.pack_into("<I", b, off_tbl + 4 + 4 * i, o)
    return bytes(b)


WRITERS = {"mod": write_mod, "xm": write_xm, "s3m": write_s3m, "it": write_it}


def empty_pattern(rows, chn):
    return [[None] * chn for _ in range(rows)]


def random_flow_song(rng, fmt, vocab=('speed', 'tempo', 'delay', 'jump'), max_orders=8, max_pats=5, density=0.15, hostile=False):
    """a song whose patterns contain notes plus flow effects from `vocab`, at most one flow effect per row"""
    chn = 4 if fmt == "mod" else rng.choice((2, 4, 6))
    npat = rng.randrange(1, max_pats + 1)
    pats = []
    for _ in range(npat):
        rows = 64 if fmt in ("mod", "s3m") else rng.choice((1, 2, 3, 8, 16, 32, 64, 7, 100))
        p = empty_pattern(rows, chn)
        for r in range(rows):
            if rng.random() < 0.3:
                p[r][rng.randrange(chn)] = dict(note=rng.randrange(13, 37), ins=1)
            if rng.random() < density:
                k = rng.choice(vocab)
                if k == 'speed': v = rng.randrange(1, 32) if not hostile else rng.choice((0, 1, 2, 31))
                elif k == 'tempo': v = rng.randrange(32, 256)
                elif k == 'delay': v = rng.randrange(0, 16)
                elif k == 'jump': v = rng.randrange(0, 10 if not hostile else 300) & 0xff
                elif k == 'break': v = rng.randrange(0, 64 if not hostile else 100)
                elif k == 'loop': v = rng.randrange(0, 4)
                else: v = rng.randrange(0, 8)
                c = rng.randrange(chn)
                cell = p[r][c] or {}
                cell['fx'] = (k, v)
                p[r][c] = cell
        pats.append(p)
    norders = rng.randrange(1, max_orders + 1)
    orders = [rng.randrange(npat) for _ in range(norders)]
    return dict(chn=chn, orders=orders, patterns=pats, speed=rng.randrange(1, 10), bpm=rng.choice((125, 125, 80, 200, 32, 255)), restart=rng.randrange(0, norders) if fmt in ("xm", "mod") else 0, name="gen")
