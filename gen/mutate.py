# structured corruption of module files (used by several checks): header-field fuzz, truncation, bit flips
import random

BOUND = [0x00, 0x01, 0x7f, 0x80, 0xff, 0xfe, 0x40, 0x20]

def mutants(data, rng, n_field=6, n_trunc=6, n_flip=6, head=2048):
    out = []
    L = len(data)
    if L < 8:
        return out
    for _ in range(n_field):
        b = bytearray(data)
        for _k in range(rng.choice((1, 1, 2, 4))):
            off = rng.randrange(0, min(L, head))
            w = rng.choice((1, 1, 2, 4))
            val = bytes(rng.choice(BOUND) for _ in range(w))
            b[off:off + w] = val[:max(0, min(w, L - off))]
        out.append(("field", bytes(b)))
    for _ in range(n_trunc):
        cut = rng.choice((L * rng.randrange(1, 64) // 64, rng.randrange(1, min(L, head) + 1), L - rng.randrange(1, min(L, 64))))
        out.append(("trunc", data[:max(1, cut)]))
    for _ in range(n_flip):
        b = bytearray(data)
        off = rng.randrange(0, min(L, head))
        b[off] ^= 1 << rng.randrange(8)
        out.append(("flip", bytes(b)))
    return out
