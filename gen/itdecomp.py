# An independent reader for Impulse Tracker sample data (IT 2.14 / 2.15 compression), written from the format
# description, used by checks/C19.py to predict the PCM libxmp must load from the corpus's IT files.
import struct

class _Bits:
    def __init__(self, data): self.d = data; self.pos = 0; self.bit = 0
    def read(self, n):
        v = 0
        for i in range(n):
            if self.pos >= len(self.d): raise EOFError
            v |= ((self.d[self.pos] >> self.bit) & 1) << i
            self.bit += 1
            if self.bit == 8: self.bit = 0; self.pos += 1
        return v

def _decompress(data, off, length, it215, bits16):
    """returns (list of signed samples, new offset)"""
    out = []
    blk_max = 0x4000 if bits16 else 0x8000
    top = 17 if bits16 else 9
    mask = 0xffff if bits16 else 0xff
    half = 0x8000 if bits16 else 0x80
    while len(out) < length:
        if off + 2 > len(data): raise EOFError
        clen = struct.unpack_from("<H", data, off)[0]; off += 2
        br = _Bits(data[off:off + clen]); off += clen
        blklen = min(blk_max, length - len(out)); pos = 0; width = top; d1 = d2 = 0
        while pos < blklen:
            if width > top: raise ValueError("illegal width")
            value = br.read(width)
            if width < 7:
                if value == 1 << (width - 1):
                    nw = br.read(4 if bits16 else 3) + 1
                    width = nw if nw < width else nw + 1
                    continue
            elif width < top:
                border = (mask >> (top - width)) - (8 if bits16 else 4)
                if border < value <= border + (16 if bits16 else 8):
                    nw = value - border
                    width = nw if nw < width else nw + 1
                    continue
            else:
                if value & (mask + 1):
                    width = (value + 1) & 0xff
                    continue
            if width < (16 if bits16 else 8):
                shift = (16 if bits16 else 8) - width
                v = (value << shift) & mask
                v = v - (mask + 1) if v & half else v
                v >>= shift
            else:
                v = value & mask
                v = v - (mask + 1) if v & half else v
            d1 = (d1 + v) & mask
            d2 = (d2 + d1) & mask
            o = d2 if it215 else d1
            out.append(o - (mask + 1) if o & half else o)
            pos += 1
    return out, off

def it_samples(data):
    """[(index, length, flags, bits16, stereo, pcm bytes as libxmp keeps them (little endian, interleaved stereo)) ...] for every
    sample of an IT file whose data we can predict (PCM, 8/16 bit, mono/stereo, plain or compressed); None entries are skipped kinds"""
    if data[:4] != b"IMPM": return []
    ordnum, insnum, smpnum, patnum = struct.unpack_from("<HHHH", data, 0x20)
    base = 0xc0 + ordnum + 4 * insnum
    res = []
    for i in range(smpnum):
        so = struct.unpack_from("<I", data, base + 4 * i)[0]
        if so + 0x50 > len(data) or data[so:so + 4] != b"IMPS": continue
        flags = data[so + 0x12]; cvt = data[so + 0x2e]
        length = struct.unpack_from("<I", data, so + 0x30)[0]
        ptr = struct.unpack_from("<I", data, so + 0x48)[0]
        if not flags & 1 or length == 0 or length > 4000000: continue
        bits16 = bool(flags & 2); stereo = bool(flags & 4); comp = bool(flags & 8)
        if cvt & 0xfa: continue               # big endian / byte delta / TX-Wave / ADPCM variants: not predicted here
        try:
            chans = []
            off = ptr
            for c in range(2 if stereo else 1):
                if comp:
                    vals, off = _decompress(data, off, length, bool(cvt & 4), bits16)
                else:
                    n = length * (2 if bits16 else 1)
                    if off + n > len(data): raise EOFError
                    raw = data[off:off + n]; off += n
                    if bits16: vals = list(struct.unpack("<%dh" % length, raw)) if cvt & 1 else [v - 32768 for v in struct.unpack("<%dH" % length, raw)]
                    else: vals = [v - 256 if v > 127 else v for v in raw] if cvt & 1 else [v - 128 for v in raw]
                    if cvt & 4:              # delta values (uncompressed)
                        acc = 0; dv = []
                        for v in vals:
                            acc = (acc + v) & (0xffff if bits16 else 0xff); dv.append(acc - (0x10000 if bits16 else 0x100) if acc & (0x8000 if bits16 else 0x80) else acc)
                        vals = dv
                chans.append(vals)
        except (EOFError, ValueError, struct.error):
            continue
        if stereo:
            inter = [v for pair in zip(chans[0], chans[1]) for v in pair]
        else:
            inter = chans[0]
        pcm = struct.pack("<%dh" % len(inter), *inter) if bits16 else bytes(v & 0xff for v in inter)
        res.append((i, length, flags, bits16, stereo, comp, pcm))
    return res
