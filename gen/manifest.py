import os
#!/usr/bin/env python3
# Regenerates /verif/MANIFEST.json from the table below (kept in one place so it stays valid).
import json, os, subprocess
root = os.path.dirname(os.path.dirname(os.path.abspath(__file__)))

HOOK_COMMITS = subprocess.run(["git", "-C", "/repo", "log", "--format=%H %s", "--grep=verif hook"], capture_output=True, text=True).stdout.strip().split("\n")
HOOK_COMMITS = [l.split()[0] for l in HOOK_COMMITS if l]

# pid -> (technique, level text, level note, design ref)
CHECKS = {}
NA = {}

def add(pid, technique, text, note, ref):
    CHECKS[pid] = (technique, text, note, ref)

exec(open(os.path.join(root, "gen", "manifest_table.py")).read())

props = [json.loads(l)["id"] for l in open(os.path.join(root, "properties.jsonl"))]

def _engines():
    """every extracted model that a check runs: coq/Extract/Extract_<name>.v -> coq/extracted/<name>_model.ml + ocaml/<name>_driver.ml"""
    import re, glob
    use = {}
    for f in sorted(glob.glob(os.path.join(os.path.dirname(os.path.dirname(os.path.abspath(__file__))), "checks", "C*.py"))):
        pid = os.path.basename(f)[:3]
        for e in re.findall(r'ocaml_build\("(\w+)"\)', open(f).read()): use.setdefault(e, set()).add(pid)
    out = []
    for e in sorted(use):
        out.append({"name": e, "path": "coq/Extract/Extract_%s.v + ocaml/%s_driver.ml" % (e, e), "serves_properties": sorted(use[e]),
                    "kind_free_text": "Gallina model extracted to OCaml (ExtrOcamlBasic only) and run on the same inputs as the implementation by the check's correspondence leg"})
    return out
ENGINES = _engines()

m = {
    "version": 1,
    "setup_cmd": "bin/setup",
    "hooks": {
        "guard": "LIBXMP_VERIF",
        "enable": "lib/vcommon.py build_lib compiles every source of cmake/libxmp-sources.cmake from /repo's working tree with -DLIBXMP_VERIF (clang, ASan+UBSan minus shift-base)",
        "baseline_off_cmd": "cmake --build /repo/_build && ctest --test-dir /repo/_build -j8 --timeout 900",
        "source_commits": HOOK_COMMITS,
        "add_only": True,
    },
    "engines": ENGINES,
    "checks": [],
    "not_applicable": [],
    "notes": "Technique: machine-checked proof in Coq 8.16.1 about hand-written Gallina models, tied to /repo on every run by a correspondence check (extracted model vs the library built from the working tree) and by translators for tables/constants. See DESIGN.md.",
}
for pid in props:
    if pid in CHECKS:
        tech, text, note, ref = CHECKS[pid]
        m["checks"].append({
            "property_id": pid,
            "quick_cmd": "bin/check %s quick" % pid,
            "thorough_cmd": "bin/check %s thorough" % pid,
            "evidence_file": "evidence/%s.json" % pid,
            "replay_cmd_template": "bin/check %s quick --replay {path}" % pid,
            "engine": "checks/%s.py" % pid,
            "level_claimed": {"category": "proof", "text": text, "design_ref": ref},
            "level_note": note,
            "technique": tech,
        })
    else:
        m["not_applicable"].append({"property_id": pid, "reason": NA.get(pid, "no check built yet in this round; not claimed (the Coq technique applies, see DESIGN.md section 5; the check is still to be constructed)")})
json.dump(m, open(os.path.join(root, "MANIFEST.json"), "w"), indent=1)
print("checks:", len(m["checks"]), "not_applicable:", len(m["not_applicable"]))
