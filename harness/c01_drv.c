/* C01 driver: stdin lines "<seed> <entry LP|LM|LF|LC> <path>", or "<seed> TY <path>" (prints the detected format only), or
 * "<seed> SW:<off>=<val>,<off>+<delta>... <path>" (boundary sweep: the file is read into memory, the listed bytes are replaced, then
 * test + load from memory and a short fixed history that visits every order with set_position / next / prev; no dump).  For each: the matching test entry point, then the load; on
 * success the module dump (harness/vdump.h) and a seeded history of playback and position-control calls under a seeded
 * output configuration, then release.  Built once with ASan+UBSan and once with MSan: any report aborts the process
 * (exit code 86 / MSan's), the harness then knows the offending line from the number of "DONE" lines printed.
 */
#include "vdump.h"
#include "rng.h"
#include "hio.h"
#include "tempfile.h"
#include "depackers/depacker.h"

/* the bytes the loaders see when the path is loaded: the file itself, or what the built-in depackers make of it */
static unsigned char *read_unpacked(const char *path, long *sz)
{
	HIO_HANDLE *h = hio_open(path, "rb"); char *temp = NULL; unsigned char *b = NULL; long n;
	if (!h) return NULL;
	if (libxmp_decrunch(h, path, &temp) >= 0 && (n = hio_size(h)) > 0 && n < (64 << 20)) {
		hio_seek(h, 0, SEEK_SET); b = malloc(n); *sz = (long)hio_read(b, 1, n, h);
	}
	hio_close(h); unlink_temp_file(temp);
	return b;
}

static unsigned long cb_read(void *d, unsigned long s, unsigned long n, void *p) { return fread(d, s, n, (FILE *)p); }
static int cb_seek(void *p, long o, int w) { return fseek((FILE *)p, o, w); }
static long cb_tell(void *p) { return ftell((FILE *)p); }

static unsigned int rs;
static unsigned int rnd(void) { rs = rs * 1103515245u + 12345u; return (rs >> 16) & 0x7fff; }

int main(void)
{
	static char line[8192];
	while (fgets(line, sizeof line, stdin)) {
		char e[256], path[4096]; unsigned int seed; int ret = -99, tret; long sz = 0; unsigned char *buf = NULL; FILE *f = NULL;
		struct xmp_callbacks cb = { cb_read, cb_seek, cb_tell, NULL }; struct xmp_test_info ti; xmp_context c;
		line[strcspn(line, "\n")] = 0;
		if (sscanf(line, "%u %255s %4095[^\n]", &seed, e, path) != 3) continue;
		rs = seed;
		memset(&ti, 0, sizeof ti);
		if (!strcmp(e, "TY")) { int r = -1; buf = read_unpacked(path, &sz); if (buf) r = xmp_test_module_from_memory(buf, sz, &ti); printf("TYPE %d %ld %s\n", r, buf ? sz : -1L, r == 0 ? ti.type : "-"); free(buf); puts("DONE"); fflush(stdout); continue; }
		c = xmp_create_context();
		if (!strncmp(e, "SW:", 3) || !strncmp(e, "FX:", 3)) {
			/* FX: the same byte edits, followed by a longer stretch of linear playback (effects act rows after they were read) */
			char *q = e + 3; int loaded = 0; int linear = e[0] == 'F' ? 56 : 12;
			buf = read_unpacked(path, &sz);
			while (buf && *q) { long off = strtol(q, &q, 10); int val = 0, rel = 0; if (*q == '=') val = (int)strtol(q + 1, &q, 10); else if (*q == '+' || *q == '-') { rel = 1; val = (int)strtol(q, &q, 10); }
				if (off >= 0 && off < sz) buf[off] = (unsigned char)(rel ? buf[off] + val : val); if (*q == ',') q++; else break; }
			tret = buf ? xmp_test_module_from_memory(buf, sz, &ti) : -1;
			ret = buf ? xmp_load_module_from_memory(c, buf, sz) : -1;
			printf("RET %d %d %d\n", tret, ret, (int)strlen(ti.name) + (int)strlen(ti.type));
			if (ret == 0) {
				struct xmp_module_info mi; struct xmp_frame_info fi; int i, j;
				xmp_get_module_info(c, &mi);
				libxmp_set_random(&((struct context_data *)c)->rng, seed);
				if (xmp_start_player(c, 8000 + 4000 * (int)(seed % 3), (seed & 8) ? XMP_FORMAT_MONO : 0) == 0) {
					loaded = 1;
					for (i = 0; i < mi.mod->len && i < 24; i++) {
						xmp_set_position(c, i);
						for (j = 0; j < 2; j++) { if (xmp_play_frame(c) != 0) break; xmp_get_frame_info(c, &fi); }
					}
					for (i = 0; i < 6; i++) { if (i & 1) xmp_next_position(c); else xmp_prev_position(c); if (i == 3) xmp_prev_position(c); xmp_play_frame(c); xmp_get_frame_info(c, &fi); }
					xmp_seek_time(c, (int)(seed % 50000)); xmp_play_frame(c);
					xmp_set_row(c, (int)(seed % 64)); xmp_play_frame(c);
					xmp_restart_module(c);
					for (i = 0; i < linear; i++) { if (xmp_play_frame(c) != 0) break; xmp_get_frame_info(c, &fi); }
					xmp_end_player(c);
				}
				xmp_release_module(c);
			}
			(void)loaded;
			xmp_free_context(c); free(buf);
			puts("DONE"); fflush(stdout);
			continue;
		}
		if (e[1] == 'M') buf = vf_read_file(path, &sz);
		if (e[1] == 'F' || e[1] == 'C') f = fopen(path, "rb");
		if (e[1] == 'P') tret = xmp_test_module(path, &ti);
		else if (e[1] == 'M') tret = buf ? xmp_test_module_from_memory(buf, sz, &ti) : -1;
		else if (e[1] == 'F') tret = f ? xmp_test_module_from_file(f, &ti) : -1;
		else tret = f ? xmp_test_module_from_callbacks(f, cb, &ti) : -1;
		if (f) rewind(f);
		if (e[1] == 'P') ret = xmp_load_module(c, path);
		else if (e[1] == 'M') ret = buf ? xmp_load_module_from_memory(c, buf, sz) : -1;
		else if (e[1] == 'F') ret = f ? xmp_load_module_from_file(c, f, 0) : -1;
		else ret = f ? xmp_load_module_from_callbacks(c, f, cb) : -1;
		printf("RET %d %d %d\n", tret, ret, (int)strlen(ti.name) + (int)strlen(ti.type));
		if (ret == 0) {
			static const int rates[] = { 4000, 8000, 11025, 22050, 44100, 49170 };
			static const int fmts[] = { 0, XMP_FORMAT_8BIT, XMP_FORMAT_MONO, XMP_FORMAT_8BIT | XMP_FORMAT_MONO | XMP_FORMAT_UNSIGNED, XMP_FORMAT_UNSIGNED };
			struct xmp_module_info mi; struct xmp_frame_info fi; int i, n, cycles;
			vd_dump_module(stdout, c, 1);
			xmp_get_module_info(c, &mi);
			libxmp_set_random(&((struct context_data *)c)->rng, seed);
			for (cycles = 0; cycles < 2; cycles++) {
				if (xmp_start_player(c, rates[rnd() % 6], fmts[rnd() % 5]) != 0) break;
				xmp_set_player(c, XMP_PLAYER_INTERP, rnd() % 3);
				if (rnd() % 4 == 0) xmp_set_player(c, XMP_PLAYER_VOICES, 1 + rnd() % 64);
				n = 25 + rnd() % 60;
				for (i = 0; i < n; i++) {
					unsigned int k = rnd() % 20;
					if (k == 0) xmp_set_position(c, (int)(rnd() % (mi.mod->len + 2)) - 1);
					else if (k == 1) xmp_next_position(c);
					else if (k == 2) xmp_prev_position(c);
					else if (k == 3) xmp_set_row(c, (int)(rnd() % 70) - 2);
					else if (k == 4) xmp_seek_time(c, (int)(rnd() % 200000) - 10);
					else if (k == 5) xmp_restart_module(c);
					else if (k == 6) xmp_channel_mute(c, rnd() % 66, rnd() % 3);
					else if (k == 7 && rnd() % 8 == 0) xmp_stop_module(c);
					else if (k == 8) { static char pb[6000]; xmp_play_buffer(c, pb, 1 + rnd() % sizeof pb, rnd() % 3); continue; }
					if (xmp_play_frame(c) != 0) { if (rnd() % 2) xmp_restart_module(c); else break; }
					xmp_get_frame_info(c, &fi);
					{ volatile unsigned char sink = 0; int j; for (j = 0; j < fi.buffer_size; j += 97) sink ^= ((unsigned char *)fi.buffer)[j]; for (j = 0; j < mi.mod->chn && j < 64; j++) sink ^= fi.channel_info[j].volume; (void)sink; }
				}
				xmp_end_player(c);
			}
			xmp_release_module(c);
		}
		xmp_free_context(c);
		if (f) fclose(f);
		free(buf);
		puts("DONE"); fflush(stdout);
	}
	return 0;
}
