/* C06 driver.  stdin: a program, one statement per line
 *   CTX <i> <module path> <rate> <format> <interp>      declare context i (created lazily by its first op)
 *   OP <i> <op>        one call on context i, executed in program order (single-threaded interleaving)
 *   THREADS            run: every context's OPs in its own thread, all threads concurrently (program order per context)
 *   RUN                run: all OPs in program order on one thread
 *   RESET              forget everything
 * ops: L load | S start_player | SA start_player with another rate / channel count / interpolation | P play one frame | SPn set_position | NX | PV | RS restart | ST stop | E end_player | R release |
 *      Mn channel mute toggle n | Vn XMP_PLAYER_VOLUME | In XMP_PLAYER_INTERP | L2 <path> (load another module: "L2:/path")
 * output after a run: per context "O <i> <k> <op> <ret> <digest>" for its k-th op (digest: FNV over return code, the frame's PCM and
 * xmp_frame_info position/time fields for P; module name/len for L; 0 otherwise), then "DONE"
 */
#include "vcommon.h"
#include "rng.h"
#include <pthread.h>

#define MAXC 8
#define MAXOP 4096
struct cdecl { char path[1024]; int rate, format, interp; xmp_context c; int nops; char *ops[MAXOP]; char *out; size_t outlen; FILE *of; };
static struct cdecl cx[MAXC];
static struct { int ctx; int k; } prog[MAXC * MAXOP];
static int nprog;

static void do_op(struct cdecl *d, int idx, int k)
{
	const char *op = d->ops[k];
	int ret = 0; uint64_t h = VF_FNV0; struct xmp_frame_info fi;
	if (!d->c) { d->c = xmp_create_context(); }
	if (!strcmp(op, "L") || !strncmp(op, "L2:", 3)) {
		ret = xmp_load_module(d->c, (char *)(op[1] == '2' ? op + 3 : d->path));
		if (ret == 0) { struct xmp_module_info mi; xmp_get_module_info(d->c, &mi); h = vf_fnv(h, mi.mod->name, strlen(mi.mod->name)); h = vf_fnv(h, &mi.mod->len, sizeof(int)); h = vf_fnv(h, mi.md5, 16);
			libxmp_set_random(&((struct context_data *)d->c)->rng, 1234); }
	} else if (!strcmp(op, "S")) { ret = xmp_start_player(d->c, d->rate, d->format); if (ret == 0) xmp_set_player(d->c, XMP_PLAYER_INTERP, d->interp); }
	else if (!strcmp(op, "SA")) {
		/* start with ANOTHER output configuration than the context's own (used by the prior-history cycles) */
		ret = xmp_start_player(d->c, d->rate == 44100 ? 48000 : 44100, d->format ^ XMP_FORMAT_MONO); if (ret == 0) xmp_set_player(d->c, XMP_PLAYER_INTERP, (d->interp + 1) % 3);
	}
	else if (!strcmp(op, "P")) {
		ret = xmp_play_frame(d->c);
		if (ret == 0) {
			xmp_get_frame_info(d->c, &fi);
			h = vf_fnv(h, fi.buffer, fi.buffer_size);
			h = vf_fnv(h, &fi.pos, sizeof(int)); h = vf_fnv(h, &fi.row, sizeof(int)); h = vf_fnv(h, &fi.frame, sizeof(int)); h = vf_fnv(h, &fi.time, sizeof(int));
			h = vf_fnv(h, &fi.loop_count, sizeof(int)); h = vf_fnv(h, &fi.virt_used, sizeof(int)); h = vf_fnv(h, &fi.speed, sizeof(int)); h = vf_fnv(h, &fi.bpm, sizeof(int));
		}
	}
	else if (!strncmp(op, "SP", 2)) ret = xmp_set_position(d->c, atoi(op + 2));
	else if (!strcmp(op, "NX")) ret = xmp_next_position(d->c);
	else if (!strcmp(op, "PV")) ret = xmp_prev_position(d->c);
	else if (!strcmp(op, "RS")) xmp_restart_module(d->c);
	else if (!strcmp(op, "ST")) xmp_stop_module(d->c);
	else if (!strcmp(op, "E")) xmp_end_player(d->c);
	else if (!strcmp(op, "R")) xmp_release_module(d->c);
	else if (op[0] == 'M') ret = xmp_channel_mute(d->c, atoi(op + 1), 2);
	else if (op[0] == 'V') ret = xmp_set_player(d->c, XMP_PLAYER_VOLUME, atoi(op + 1));
	else if (op[0] == 'I') ret = xmp_set_player(d->c, XMP_PLAYER_INTERP, atoi(op + 1));
	fprintf(d->of, "O %d %d %s %d %llx\n", idx, k, op[1] == '2' ? "L2" : op, ret, (unsigned long long)h);
}

static void *thread_main(void *arg)
{
	struct cdecl *d = arg; int k;
	for (k = 0; k < d->nops; k++) do_op(d, (int)(d - cx), k);
	return NULL;
}

static void finish(void)
{
	int i;
	for (i = 0; i < MAXC; i++) {
		if (cx[i].of) { fclose(cx[i].of); fputs(cx[i].out ? cx[i].out : "", stdout); free(cx[i].out); cx[i].of = NULL; cx[i].out = NULL; }
		if (cx[i].c) { xmp_end_player(cx[i].c); xmp_release_module(cx[i].c); xmp_free_context(cx[i].c); cx[i].c = NULL; }
	}
	puts("DONE"); fflush(stdout);
}

int main(void)
{
	static char line[4096];
	int i;
	while (fgets(line, sizeof line, stdin)) {
		line[strcspn(line, "\n")] = 0;
		if (!strncmp(line, "CTX ", 4)) {
			int idx; char path[1024]; int r, f, ip;
			if (sscanf(line, "CTX %d %1023s %d %d %d", &idx, path, &r, &f, &ip) == 5 && idx >= 0 && idx < MAXC) { strcpy(cx[idx].path, path); cx[idx].rate = r; cx[idx].format = f; cx[idx].interp = ip; }
		} else if (!strncmp(line, "OP ", 3)) {
			int idx; char op[1100];
			if (sscanf(line, "OP %d %1099s", &idx, op) == 2 && idx >= 0 && idx < MAXC && cx[idx].nops < MAXOP) { prog[nprog].ctx = idx; prog[nprog].k = cx[idx].nops; nprog++; cx[idx].ops[cx[idx].nops++] = strdup(op); }
		} else if (!strcmp(line, "RUN") || !strcmp(line, "THREADS")) {
			for (i = 0; i < MAXC; i++) if (cx[i].nops) cx[i].of = open_memstream(&cx[i].out, &cx[i].outlen);
			if (!strcmp(line, "RUN")) { for (i = 0; i < nprog; i++) do_op(&cx[prog[i].ctx], prog[i].ctx, prog[i].k); }
			else { pthread_t th[MAXC]; for (i = 0; i < MAXC; i++) if (cx[i].nops) pthread_create(&th[i], NULL, thread_main, &cx[i]); for (i = 0; i < MAXC; i++) if (cx[i].nops) pthread_join(th[i], NULL); }
			finish();
		} else if (!strcmp(line, "RESET")) {
			int k; for (i = 0; i < MAXC; i++) { for (k = 0; k < cx[i].nops; k++) free(cx[i].ops[k]); cx[i].nops = 0; } nprog = 0;
		}
	}
	return 0;
}
