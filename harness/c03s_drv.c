/* C03 sequence driver: for each path on stdin, loads the module with hook H6 installed and prints
 *   CALL <ep> <seq> <time> <hex of sequence_control[0..len)>     one per scan_module call of libxmp_scan_sequences
 *   RET <ret> LEN <len> NSEQ <n> [<entry point>:<duration> ...]
 * and checks the hypothesis the theorem makes about scan_module on each report (HYP 0 = violated):
 * the call's own entry point is marked, nothing marked before is unmarked afterwards. */
#include "vcommon.h"

extern void (*libxmp_verif_seqlog)(int ep, int seq, int time, const unsigned char *control, int len);
static unsigned char prev[256]; static int hyp_ok;

static void seqlog(int ep, int seq, int time, const unsigned char *control, int len)
{
	int i;
	printf("CALL %d %d %d ", ep, seq, time); vf_puthex(control, len); putchar('\n');
	if (len > 0 && ep < len && control[ep] == 0xff) hyp_ok = 0;
	for (i = 0; i < len && i < 256; i++) { if (prev[i] != 0xff && control[i] == 0xff) hyp_ok = 0; prev[i] = control[i]; }
}

int main(void)
{
	static char path[4096];
	libxmp_verif_seqlog = seqlog;
	while (fgets(path, sizeof path, stdin)) {
		xmp_context c = xmp_create_context(); struct xmp_module_info mi; int ret, i;
		path[strcspn(path, "\n")] = 0;
		memset(prev, 0xff, sizeof prev); hyp_ok = 1;
		ret = xmp_load_module(c, path);
		if (ret == 0) {
			xmp_get_module_info(c, &mi);
			printf("RET 0 HYP %d LEN %d NSEQ %d", hyp_ok, mi.mod->len, mi.num_sequences);
			for (i = 0; i < mi.num_sequences; i++) printf(" %d:%d", mi.seq_data[i].entry_point, mi.seq_data[i].duration);
			putchar('\n');
			xmp_release_module(c);
		} else printf("RET %d HYP %d\n", ret, hyp_ok);
		fflush(stdout);
		xmp_free_context(c);
	}
	return 0;
}
