/* C04 driver (linked with -Wl,--wrap=malloc,calloc,realloc,free,mkstemp,unlink).
 * stdin, one experiment per line:   <entry> <k> <cut> <prior 0/1> <path>
 *   entry: LP LM LF LC (load by path / memory / FILE / callbacks), TP TM TF TC (test ...), SP (load by path, then the fault is in xmp_start_player)
 *   k    : the k-th allocator call made during the faulted call fails (0: none fails, calls are only counted)
 *   cut  : for LM/LF/LC/TM/TF/TC: the stream is cut to this many bytes (-1: whole file); callbacks additionally fail reads after the cut
 *   prior: 1 = another module (argv[1]) is loaded in the context before the experiment ("valid earlier state")
 * output: R ret allocs failed | live0 live1 | fd0 fd1 | temps_left | state | file_open close_calls | ret2 digest2 frames_ok | final_live
 *   live*: outstanding allocations before / after the faulted call; ret2/digest2: a normal load of the same file on the same context
 *   afterwards (name, length, md5) and whether 3 frames render; final_live: outstanding allocations after xmp_free_context.
 */
#define _GNU_SOURCE
#include "vcommon.h"
#include <dirent.h>
#include <unistd.h>
#include <sys/stat.h>

void *__real_malloc(size_t); void *__real_calloc(size_t, size_t); void *__real_realloc(void *, size_t); void __real_free(void *);
int __real_mkstemp(char *); int __real_unlink(const char *);

static long live, ncalls, failat; static int armed, failed, counting;
static char temps[16][256]; static int ntemps;

static int should_fail(void) { if (!armed) return 0; ncalls++; if (failat && ncalls == failat) { failed = 1; return 1; } return 0; }
void *__wrap_malloc(size_t n) { void *p; if (should_fail()) return NULL; p = __real_malloc(n); if (p && counting) live++; return p; }
void *__wrap_calloc(size_t a, size_t b) { void *p; if (should_fail()) return NULL; p = __real_calloc(a, b); if (p && counting) live++; return p; }
void *__wrap_realloc(void *q, size_t n) { void *p; if (should_fail()) return NULL; p = __real_realloc(q, n); if (counting) { if (!q && p) live++; else if (q && !p && n == 0) live--; } return p; }
void __wrap_free(void *p) { if (p && counting) live--; __real_free(p); }
int __wrap_mkstemp(char *t) { int r = __real_mkstemp(t); if (r >= 0 && ntemps < 16) { strncpy(temps[ntemps], t, 255); ntemps++; } return r; }
int __wrap_unlink(const char *p) { return __real_unlink(p); }

static int fdcount(void) { DIR *d = opendir("/proc/self/fd"); int n = 0; struct dirent *e; if (!d) return -1; while ((e = readdir(d))) if (e->d_name[0] != '.') n++; closedir(d); return n - 1; }

struct cbs { FILE *f; long cut; int closes; };
static unsigned long cb_read(void *d, unsigned long s, unsigned long n, void *p) { struct cbs *c = p; long pos = ftell(c->f); unsigned long want = s * n;
	if (c->cut >= 0 && pos + (long)want > c->cut) { want = pos >= c->cut ? 0 : (unsigned long)(c->cut - pos); } return s ? fread(d, 1, want, c->f) / s : 0; }
static int cb_seek(void *p, long o, int w) { struct cbs *c = p; return fseek(c->f, o, w); }
static long cb_tell(void *p) { struct cbs *c = p; return ftell(c->f); }
static int cb_close(void *p) { struct cbs *c = p; c->closes++; return 0; }

static void digest(xmp_context c, char *out)
{
	struct xmp_module_info mi; int i; uint64_t h = VF_FNV0;
	xmp_get_module_info(c, &mi);
	h = vf_fnv(h, mi.mod->name, strlen(mi.mod->name)); h = vf_fnv(h, &mi.mod->len, sizeof(int)); h = vf_fnv(h, mi.md5, 16); h = vf_fnv(h, &mi.mod->pat, sizeof(int)); h = vf_fnv(h, &mi.mod->smp, sizeof(int));
	for (i = 0; i < mi.mod->len; i++) h = vf_fnv(h, &mi.mod->xxo[i], 1);
	sprintf(out, "%llx", (unsigned long long)h);
}

int main(int argc, char **argv)
{
	static char line[8192];
	const char *priorpath = argc > 1 ? argv[1] : NULL;
	while (fgets(line, sizeof line, stdin)) {
		char e[8], path[4096]; long k, cut; int prior, ret = -99, ret2 = -99, fd0, fd1, i, temps_left = 0, file_open = 1, frames_ok = 0; long live0, live1, final_live;
		unsigned char *buf = NULL; long sz = 0; FILE *f = NULL; struct cbs cb = { NULL, -1, 0 }; struct xmp_callbacks cbt = { cb_read, cb_seek, cb_tell, cb_close };
		struct xmp_test_info ti; xmp_context c; char dg[32] = "-"; char tmpcut[64] = "";
		if (sscanf(line, "%7s %ld %ld %d %4095[^\n]", e, &k, &cut, &prior, path) != 5) continue;
		counting = 1; live = 0; ntemps = 0;
		c = xmp_create_context();
		if (prior && priorpath) xmp_load_module(c, (char *)priorpath);
		if (!strcmp(e, "SP")) xmp_load_module(c, path);
		if (e[1] == 'M') { buf = vf_read_file(path, &sz); if (cut >= 0 && cut < sz) sz = cut; }
		if (e[1] == 'F' && e[0] != 'S') {
			if (cut >= 0) { FILE *src = fopen(path, "rb"); int fdx; unsigned char *tb; long n;
				strcpy(tmpcut, "/var/tmp/vp-c04-cutXXXXXX"); fdx = __real_mkstemp(tmpcut); f = fdopen(fdx, "w+b");
				tb = __real_malloc(cut > 0 ? cut : 1); n = src ? (long)fread(tb, 1, cut, src) : 0; fwrite(tb, 1, n, f); fflush(f); rewind(f); __real_free(tb); if (src) fclose(src); }
			else f = fopen(path, "rb");
		}
		if (e[1] == 'C') { cb.f = fopen(path, "rb"); cb.cut = cut; }
		live0 = live; fd0 = fdcount();
		ncalls = 0; failat = k; failed = 0; armed = 1;
		if (!strcmp(e, "LP")) ret = xmp_load_module(c, path);
		else if (!strcmp(e, "LM")) ret = xmp_load_module_from_memory(c, buf, sz);
		else if (!strcmp(e, "LF")) ret = xmp_load_module_from_file(c, f, 0);
		else if (!strcmp(e, "LC")) ret = xmp_load_module_from_callbacks(c, &cb, cbt);
		else if (!strcmp(e, "TP")) ret = xmp_test_module(path, &ti);
		else if (!strcmp(e, "TM")) ret = xmp_test_module_from_memory(buf, sz, &ti);
		else if (!strcmp(e, "TF")) ret = xmp_test_module_from_file(f, &ti);
		else if (!strcmp(e, "TC")) ret = xmp_test_module_from_callbacks(&cb, cbt, &ti);
		else if (!strcmp(e, "SP")) ret = xmp_start_player(c, 22050, 0);
		armed = 0;
		live1 = live; fd1 = fdcount();
		for (i = 0; i < ntemps; i++) { struct stat st; if (stat(temps[i], &st) == 0) temps_left++; }
		if (f) file_open = (ftell(f) >= 0 && !ferror(f) && fseek(f, 0, SEEK_SET) == 0);
		printf("R %d %ld %d | %ld %ld | %d %d | %d | %d | %d %d | ", ret, ncalls, failed, live0, live1, fd0, fd1, temps_left, xmp_get_player(c, XMP_PLAYER_STATE), file_open, cb.closes);
		/* the context must be reusable: a normal load and a few frames */
		if (e[0] == 'S') {
			ret2 = xmp_start_player(c, 22050, 0);
		} else {
			ret2 = xmp_load_module(c, path);
			if (ret2 == 0) { digest(c, dg); ret2 = xmp_start_player(c, 22050, 0); }
		}
		if (ret2 == 0) { frames_ok = 1; for (i = 0; i < 3; i++) if (xmp_play_frame(c) != 0) frames_ok = 0; if (e[0] == 'S') digest(c, dg); }
		xmp_end_player(c); xmp_release_module(c); xmp_free_context(c);
		if (f) fclose(f);
		if (cb.f) fclose(cb.f);
		if (tmpcut[0]) __real_unlink(tmpcut);
		if (buf) { counting = 0; free(buf); counting = 1; live--; }
		final_live = live;
		printf("%d %s %d | %ld\n", ret2, dg, frames_ok, final_live);
		fflush(stdout);
	}
	return 0;
}
