/* C14 driver.  stdin: one run per line
 *   <module path>\t<rate>\t<format flags>\t<frames>\t<interp>\t<cfg tokens separated by spaces>
 * cfg token zonly: no per-frame output, one line "Z frames nonzero_samples first_nonsilent_frame" at the end
 * cfg token repos=<n>: every n frames a position-control call (set_position / seek_time / restart / next / prev in turn)
 * cfg tokens: mute=<hex mask of channels to mute> | mvol=<0..200 via XMP_PLAYER_VOLUME> | sep=<-100..100 via XMP_PLAYER_MIX> | voices=<n>
 * stdout per run:
 *   R chn amplify ticksize_first stereo_samples mvol mvolbase maxvoc
 *   per frame:  A <ticksize*channels accumulator values (s->buf32)>
 *               P <hex of the PCM bytes>
 *               V voc chn root vol pan old_vl old_vr    (every voice with chn >= 0, after the frame; pan 0x7fffffff = surround)
 *               C <xmp_channel_info.pan of every channel>
 *               U virt_used maxvoc
 *   ENDRUN
 */
#include "vcommon.h"
#include "rng.h"
#include "mixer.h"

int main(void)
{
	static char line[8192];
	while (fgets(line, sizeof line, stdin)) {
		char *f[6], *tok;
		int nf = 0, i, k, rate, format, frames, interp;
		xmp_context c;
		struct context_data *ctx;
		struct xmp_module *mod;
		struct xmp_frame_info fi;
		unsigned long long mute = 0;
		int mvol = -1, sep = -1000, voices = -1, stereo_samples = 0, zonly = 0, repos = 0, nrep = 0; long nonzero = 0; int firstnz = -1;
		line[strcspn(line, "\n")] = 0;
		for (tok = line; nf < 6; nf++) { f[nf] = tok; tok = strchr(tok, '\t'); if (!tok) { nf++; break; } *tok++ = 0; }
		if (nf < 5) continue;
		rate = atoi(f[1]); format = atoi(f[2]); frames = atoi(f[3]); interp = atoi(f[4]);
		if (nf == 6) for (tok = strtok(f[5], " "); tok; tok = strtok(NULL, " ")) {
			if (!strncmp(tok, "mute=", 5)) mute = strtoull(tok + 5, NULL, 16);
			else if (!strncmp(tok, "mvol=", 5)) mvol = atoi(tok + 5);
			else if (!strncmp(tok, "sep=", 4)) sep = atoi(tok + 4);
			else if (!strncmp(tok, "voices=", 7)) voices = atoi(tok + 7);
			else if (!strcmp(tok, "zonly")) zonly = 1;
			else if (!strncmp(tok, "repos=", 6)) repos = atoi(tok + 6);
		}
		c = xmp_create_context();
		ctx = (struct context_data *)c;
		if (xmp_load_module(c, f[0]) < 0) { puts("LOADFAIL"); puts("ENDRUN"); xmp_free_context(c); continue; }
		if (voices > 0) xmp_set_player(c, XMP_PLAYER_VOICES, voices);
		libxmp_set_random(&ctx->rng, 99);
		if (xmp_start_player(c, rate, format) < 0) { puts("STARTFAIL"); puts("ENDRUN"); xmp_release_module(c); xmp_free_context(c); continue; }
		mod = &ctx->m.mod;
		xmp_set_player(c, XMP_PLAYER_INTERP, interp);
		if (mvol >= 0) xmp_set_player(c, XMP_PLAYER_VOLUME, mvol);
		if (sep > -1000) xmp_set_player(c, XMP_PLAYER_MIX, sep);
		for (i = 0; i < mod->chn && i < 64; i++) if (mute >> i & 1) xmp_channel_mute(c, i, 1);
		for (i = 0; i < mod->smp; i++) if (mod->xxs[i].flg & XMP_SAMPLE_STEREO) stereo_samples = 1;
		printf("R %d %d %d %d %d %d %d\n", mod->chn, ctx->s.amplify, ctx->s.ticksize, stereo_samples, ctx->m.mvol, ctx->m.mvolbase, ctx->p.virt.maxvoc);
		for (k = 0; k < frames; k++) {
			int n;
			if (repos > 0 && k > 0 && k % repos == 0) {
				/* a position-control call every `repos` frames, the same ones in every run of a module: mutes, volumes and
				 * separation are the application's settings and must survive them */
				switch (nrep++ % 5) {
				case 0: xmp_set_position(c, mod->len > 1 ? 1 : 0); break;
				case 1: xmp_seek_time(c, 1500); break;
				case 2: xmp_restart_module(c); break;
				case 3: xmp_next_position(c); break;
				default: xmp_prev_position(c); break;
				}
			}
			if (xmp_play_frame(c) < 0) break;
			xmp_get_frame_info(c, &fi);
			n = ctx->s.ticksize * ((format & XMP_FORMAT_MONO) ? 1 : 2);
			if (zonly) {
				/* silence survey: only count what is not silent (accumulators and 16-bit PCM) */
				for (i = 0; i < n; i++) if (ctx->s.buf32[i] || ((short *)fi.buffer)[i]) { nonzero++; if (firstnz < 0) firstnz = k; }
				continue;
			}
			printf("A");
			for (i = 0; i < n; i++) printf(" %d", ctx->s.buf32[i]);
			printf("\nP ");
			vf_puthex((const unsigned char *)fi.buffer, fi.buffer_size);
			printf("\n");
			for (i = 0; i < ctx->p.virt.maxvoc; i++) {
				struct mixer_voice *vi = &ctx->p.virt.voice_array[i];
				if (vi->chn < 0) continue;
				printf("V %d %d %d %d %d %d %d\n", i, vi->chn, vi->root, vi->vol, vi->pan, vi->old_vl, vi->old_vr);
			}
			printf("C");
			for (i = 0; i < mod->chn; i++) printf(" %d", fi.channel_info[i].pan);
			printf("\n");
			printf("U %d %d\n", ctx->p.virt.virt_used, ctx->p.virt.maxvoc);
		}
		if (zonly) printf("Z %d %ld %d\n", k, nonzero, firstnz);
		puts("ENDRUN");
		fflush(stdout);
		xmp_end_player(c);
		xmp_release_module(c);
		xmp_free_context(c);
	}
	return 0;
}
