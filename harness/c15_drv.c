/* C15 driver.
 * Mode "wrap" (argv[1] == "wrap"): stdin lines
 *     bits stereo bidir first interp loopflag start end <hex of the whole block: 4 guard bytes, data, guard>
 *   calls the static patch / restore pair of mixer.c through hook H2 on a scratch copy and prints
 *     "<hex after patch> <hex after restore>"
 * Mode "play": stdin lines "<module path>\t<interp>\t<script>", script tokens as in c17_drv.c (P<n> SP<p> NX PV SR<r> SK<t> ST RS)
 *   plus IN<i> (xmp_set_player XMP_PLAYER_INTERP).  Every region of the loaded module reachable from xmp_get_module_info
 *   (pattern index arrays, track events, instruments with sub-instruments / envelopes / maps, sample headers and the
 *   whole sample blocks from data-4 to the end of the guard) is snapshotted after loading and compared after EVERY API call:
 *     SMP i len lps lpe flg                        sample table
 *     FX invloop <0/1>                             whether any event carries the invert-loop effect
 *     E what smp start end bidir first bits stereo the mixer's patch (1) / skipped patch (2) / restore (0) events of the call, in order
 *     D call kind index offset old new             a byte that differs from the snapshot after call number `call`
 *     K <number of API calls made>
 *     ENDRUN
 */
#include "vcommon.h"
#include "rng.h"
#include "mixer.h"
#include "effects.h"

extern void (*libxmp_verif_wraplog)(int what, void *sptr, int start, int end);
extern void libxmp_verif_wraparound(struct mixer_data *s, struct mixer_voice *vi, struct xmp_sample *xxs, int restore);

struct region { const unsigned char *ptr; long size; char kind; int idx; long off; };
static struct region *regs; static int nregs, capregs;
static unsigned char *snap; static long snaplen, snapcap;
static struct context_data *gctx;

static void add_region(const void *p, long size, char kind, int idx)
{
	if (!p || size <= 0) return;
	if (nregs == capregs) { capregs = capregs ? capregs * 2 : 256; regs = realloc(regs, capregs * sizeof *regs); }
	if (snaplen + size > snapcap) { snapcap = (snaplen + size) * 2; snap = realloc(snap, snapcap); }
	regs[nregs].ptr = p; regs[nregs].size = size; regs[nregs].kind = kind; regs[nregs].idx = idx; regs[nregs].off = snaplen;
	memcpy(snap + snaplen, p, size); snaplen += size; nregs++;
}

static long sample_block(struct xmp_sample *x)
{
	int fl = ((x->flg & XMP_SAMPLE_16BIT) ? 2 : 1) * ((x->flg & XMP_SAMPLE_STEREO) ? 2 : 1);
	return 4 + ((long)x->len + 4) * fl;
}

static void snapshot(struct xmp_module *mod)
{
	int i, j;
	nregs = 0; snaplen = 0;
	add_region(mod, sizeof *mod, 'H', 0);
	for (i = 0; i < mod->pat; i++) add_region(mod->xxp[i], sizeof(struct xmp_pattern) + sizeof(int) * (mod->chn - 1), 'P', i);
	for (i = 0; i < mod->trk; i++) if (mod->xxt[i]) add_region(mod->xxt[i], sizeof(struct xmp_track) + sizeof(struct xmp_event) * (mod->xxt[i]->rows - 1), 'T', i);
	for (i = 0; i < mod->ins; i++) {
		add_region(&mod->xxi[i], sizeof(struct xmp_instrument), 'I', i);
		for (j = 0; j < mod->xxi[i].nsm; j++) add_region(&mod->xxi[i].sub[j], sizeof(struct xmp_subinstrument), 'U', i);
	}
	for (i = 0; i < mod->smp; i++) {
		add_region(&mod->xxs[i], sizeof(struct xmp_sample), 'S', i);
		if (mod->xxs[i].data && mod->xxs[i].len > 0) add_region(mod->xxs[i].data - 4, sample_block(&mod->xxs[i]), 'D', i);
	}
}

static int compare(int call)
{
	int r, n = 0;
	for (r = 0; r < nregs; r++) {
		if (memcmp(regs[r].ptr, snap + regs[r].off, regs[r].size)) {
			long k;
			for (k = 0; k < regs[r].size && n < 40; k++)
				if (regs[r].ptr[k] != snap[regs[r].off + k]) {
					printf("D %d %c %d %ld %d %d\n", call, regs[r].kind, regs[r].idx, regs[r].kind == 'D' ? k - 4 : k, snap[regs[r].off + k], regs[r].ptr[k]);
					n++;
				}
		}
	}
	return n;
}

static void wraplog(int what, void *sptr, int start, int end)
{
	struct xmp_module *mod = &gctx->m.mod;
	int i, smp = -1, bidir = 0, first = 0, bits = 8, stereo = 0;
	for (i = 0; i < mod->smp && sptr; i++) if ((void *)mod->xxs[i].data == sptr) { smp = i; break; }
	if (sptr && smp < 0) {
		/* extra samples (smix) or 16-bit pointers: search all, including beyond mod->smp */
		for (i = 0; i < mod->smp + gctx->smix.smp; i++) { struct xmp_sample *x = i < mod->smp ? &mod->xxs[i] : &gctx->smix.xxs[i - mod->smp]; if ((void *)x->data == sptr) { smp = i; break; } }
	}
	if (what == 1) {
		for (i = 0; i < gctx->p.virt.maxvoc; i++) {
			struct mixer_voice *vi = &gctx->p.virt.voice_array[i];
			if (vi->sptr == sptr && vi->start == start && vi->end == end && vi->chn >= 0) { bidir = !!(vi->flags & VOICE_BIDIR); first = !(vi->flags & SAMPLE_LOOP); break; }
		}
		if (smp >= 0 && smp < mod->smp) { bits = (mod->xxs[smp].flg & XMP_SAMPLE_16BIT) ? 16 : 8; stereo = !!(mod->xxs[smp].flg & XMP_SAMPLE_STEREO); }
	}
	printf("E %d %d %d %d %d %d %d %d\n", what, smp, start, end, bidir, first, bits, stereo);
}

static int wrap_mode(void)
{
	static char line[1 << 20];
	while (fgets(line, sizeof line, stdin)) {
		int bits, stereo, bidir, first, interp, loopflag, start, end, n = 0;
		long len;
		unsigned char *blk;
		struct mixer_data s; struct mixer_voice vi; struct xmp_sample xxs;
		if (sscanf(line, "%d %d %d %d %d %d %d %d %n", &bits, &stereo, &bidir, &first, &interp, &loopflag, &start, &end, &n) < 8) continue;
		line[strcspn(line, "\n")] = 0;
		blk = vf_unhex(line + n, &len);
		memset(&s, 0, sizeof s); memset(&vi, 0, sizeof vi); memset(&xxs, 0, sizeof xxs);
		s.interp = interp;
		vi.sptr = blk + 4; vi.start = start; vi.end = end;
		vi.flags = (bidir ? VOICE_BIDIR : 0) | (first ? 0 : SAMPLE_LOOP);
		xxs.flg = (bits == 16 ? XMP_SAMPLE_16BIT : 0) | (stereo ? XMP_SAMPLE_STEREO : 0) | (loopflag ? XMP_SAMPLE_LOOP : 0);
		libxmp_verif_wraparound(&s, &vi, &xxs, 0);
		vf_puthex(blk, len); putchar(' ');
		libxmp_verif_wraparound(&s, &vi, &xxs, 1);
		vf_puthex(blk, len); putchar('\n');
		free(blk);
	}
	return 0;
}

int main(int argc, char **argv)
{
	static char line[1 << 16];
	if (argc > 1 && !strcmp(argv[1], "wrap")) return wrap_mode();
	while (fgets(line, sizeof line, stdin)) {
		xmp_context c;
		struct xmp_module *mod;
		char *f1, *script, *tok;
		int i, j, call = 0, invloop = 0;
		line[strcspn(line, "\n")] = 0;
		f1 = strchr(line, '\t'); if (!f1) continue; *f1++ = 0;
		script = strchr(f1, '\t'); if (!script) continue; *script++ = 0;
		c = xmp_create_context();
		gctx = (struct context_data *)c;
		if (xmp_load_module(c, line) < 0) { puts("LOADFAIL"); puts("ENDRUN"); xmp_free_context(c); continue; }
		mod = &gctx->m.mod;
		libxmp_set_random(&gctx->rng, 5);
		snapshot(mod);
		for (i = 0; i < mod->smp; i++) printf("SMP %d %d %d %d %d\n", i, mod->xxs[i].len, mod->xxs[i].lps, mod->xxs[i].lpe, mod->xxs[i].flg);
		for (i = 0; i < mod->trk; i++) for (j = 0; mod->xxt[i] && j < mod->xxt[i]->rows; j++) {
			struct xmp_event *e = &mod->xxt[i]->event[j];
			if ((e->fxt == FX_EXTENDED && (e->fxp >> 4) == EX_INVLOOP) || (e->f2t == FX_EXTENDED && (e->f2p >> 4) == EX_INVLOOP)) invloop = 1;
		}
		printf("FX invloop %d\n", invloop);
		libxmp_verif_wraplog = wraplog;
		if (xmp_start_player(c, 16000, 0) < 0) { puts("STARTFAIL"); puts("ENDRUN"); libxmp_verif_wraplog = NULL; xmp_release_module(c); xmp_free_context(c); continue; }
		xmp_set_player(c, XMP_PLAYER_INTERP, atoi(f1));
		compare(call++);
		for (tok = strtok(script, " "); tok; tok = strtok(NULL, " ")) {
			if (tok[0] == 'P' && tok[1] != 'V') {
				int n = atoi(tok + 1);
				for (i = 0; i < n; i++) { int r = xmp_play_frame(c); compare(call++); if (r < 0) break; }
				continue;
			}
			if (!strncmp(tok, "SP", 2)) xmp_set_position(c, atoi(tok + 2));
			else if (!strcmp(tok, "NX")) xmp_next_position(c);
			else if (!strcmp(tok, "PV")) xmp_prev_position(c);
			else if (!strncmp(tok, "SR", 2)) xmp_set_row(c, atoi(tok + 2));
			else if (!strncmp(tok, "SK", 2)) xmp_seek_time(c, atoi(tok + 2));
			else if (!strcmp(tok, "ST")) xmp_stop_module(c);
			else if (!strcmp(tok, "RS")) xmp_restart_module(c);
			else if (!strncmp(tok, "IN", 2)) xmp_set_player(c, XMP_PLAYER_INTERP, atoi(tok + 2));
			else continue;
			compare(call++);
		}
		xmp_end_player(c);
		compare(call++);
		libxmp_verif_wraplog = NULL;
		printf("K %d\n", call);
		puts("ENDRUN");
		fflush(stdout);
		xmp_release_module(c);
		xmp_free_context(c);
	}
	return 0;
}
