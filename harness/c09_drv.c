/* C09 driver.
 *   c09_drv crc                : lines "A|N|I hex init" -> value
 *   c09_drv load <tmpfile>     : lines "B path" (set base archive), "O" (load base as is),
 *                                "F off mask" (xor byte), "S off val" (substitute), "T len" (truncate)
 *                                -> "ret md5hex|-"  (xmp_load_module by path of the variant written to <tmpfile>)
 */
#include "vcommon.h"
static unsigned char *base; static long bsize;
static void load_variant(const char *tmp, const unsigned char *b, long n);
#include "depackers/crc32.h"
#include "depackers/lzx_unpack.h"
#include "md5.h"

/* LZX archives that begin with a merge record of two entries (one compressed stream shared by both files, as test-dev/data/lzxmerge):
 * "LI" prints the MD5 of both packed files; "L pos mask which" flips stream byte `pos`, unpacks the damaged stream with the raw
 * stream unpacker and, when that still works and the file changed, writes the CRC-32 of the damaged file `which` (1 or 2) into
 * that entry's data-CRC field WITHOUT re-sealing the entry's header CRC, then loads the result: the header no longer passes its
 * own check, so the entry must not be used. */
static unsigned long rd32le(const unsigned char *p) { return p[0] | (p[1] << 8) | (p[2] << 16) | ((unsigned long)p[3] << 24); }
static int lzx_layout(long *e1, long *e2, long *data, long *size1, long *size2, long *csize)
{
	if (bsize < 128 || memcmp(base, "LZX", 3)) return -1;
	*e1 = 10; *e2 = *e1 + 31 + base[*e1 + 30] + base[*e1 + 14];
	if (*e2 + 31 > bsize) return -1;
	*data = *e2 + 31 + base[*e2 + 30] + base[*e2 + 14];
	*size1 = rd32le(base + *e1 + 2); *size2 = rd32le(base + *e2 + 2); *csize = rd32le(base + *e2 + 6);
	if (!(base[*e1 + 12] & 1) || !(base[*e2 + 12] & 1) || rd32le(base + *e1 + 6) != 0 || *csize == 0 || *data + *csize > bsize || base[*e2 + 11] != LZX_M_PACKED) return -1;
	if (*size1 + *size2 > (64 << 20)) return -1;
	return 0;
}
static void put_md5(const unsigned char *p, long n)
{
	MD5_CTX m; unsigned char d[16]; int i;
	MD5Init(&m); MD5Update(&m, p, n); MD5Final(d, &m);
	for (i = 0; i < 16; i++) printf("%02x", d[i]);
}
static void lzx_op(const char *tmp, const char *args, int info)
{
	long e1, e2, data, size1, size2, csize, pos = 0; unsigned mask = 0; int which = 1;
	unsigned char *out0, *out, *bad;
	if (lzx_layout(&e1, &e2, &data, &size1, &size2, &csize) < 0) { puts("?lzx"); return; }
	out0 = malloc(size1 + size2 + 1); out = malloc(size1 + size2 + 1); bad = malloc(bsize);
	if (lzx_unpack(out0, size1 + size2, base + data, csize, LZX_M_PACKED) != 0) { puts("?unpack"); goto done; }
	if (info) { put_md5(out0, size1); putchar(' '); put_md5(out0 + size1, size2); printf(" %ld\n", csize); goto done; }
	if (sscanf(args, "%ld %u %d", &pos, &mask, &which) < 2 || pos < 0 || pos >= csize) { puts("?"); goto done; }
	memcpy(bad, base, bsize); bad[data + pos] ^= (unsigned char)mask;
	if (lzx_unpack(out, size1 + size2, bad + data, csize, LZX_M_PACKED) != 0) { puts("SKIP undecodable"); goto done; }
	{
		const unsigned char *fp = which == 2 ? out + size1 : out; long fl = which == 2 ? size2 : size1, eo = which == 2 ? e2 : e1;
		unsigned long c;
		if (!memcmp(fp, which == 2 ? out0 + size1 : out0, fl)) { puts("SKIP unchanged"); goto done; }
		c = libxmp_crc32_A(fp, fl, 0UL);
		bad[eo + 22] = c & 0xff; bad[eo + 23] = (c >> 8) & 0xff; bad[eo + 24] = (c >> 16) & 0xff; bad[eo + 25] = (c >> 24) & 0xff;
	}
	load_variant(tmp, bad, bsize);
done:
	free(out0); free(out); free(bad);
}

static void load_variant(const char *tmp, const unsigned char *b, long n)
{
	FILE *f = fopen(tmp, "wb");
	xmp_context c;
	int ret, i;
	if (!f) { puts("?tmp"); return; }
	if (n > 0) fwrite(b, 1, n, f);
	fclose(f);
	c = xmp_create_context();
	ret = xmp_load_module(c, tmp);
	printf("%d ", ret);
	if (ret == 0) {
		struct xmp_module_info mi;
		xmp_get_module_info(c, &mi);
		for (i = 0; i < 16; i++) printf("%02x", mi.md5[i]);
		xmp_release_module(c);
	} else putchar('-');
	putchar('\n');
	xmp_free_context(c);
}

int main(int argc, char **argv)
{
	static char line[1 << 20];
	if (argc >= 2 && !strcmp(argv[1], "crc")) {
		while (fgets(line, sizeof line, stdin)) {
			char k; static char hx[1 << 19]; unsigned long init; long n; unsigned char *b;
			if (sscanf(line, "%c %s %lu", &k, hx, &init) != 3) { puts("?"); continue; }
			b = vf_unhex(hx, &n);
			if (k == 'A') printf("%u\n", libxmp_crc32_A(b, n, (uint32)init));
			else if (k == 'N') printf("%u\n", libxmp_crc32_A_no_inv(b, n, (uint32)init));
			else printf("%u\n", (unsigned)libxmp_crc16_IBM(b, n, (uint16)init));
			free(b);
		}
		return 0;
	}
	if (argc >= 3 && !strcmp(argv[1], "load")) {
		const char *tmp = argv[2];
		while (fgets(line, sizeof line, stdin)) {
			long off; unsigned v;
			line[strcspn(line, "\n")] = 0;
			if (line[0] == 'B') { free(base); base = vf_read_file(line + 2, &bsize); if (!base) { puts("?base"); } continue; }
			if (!base) { puts("?nobase"); continue; }
			if (line[0] == 'O') { load_variant(tmp, base, bsize); continue; }
			if (line[0] == 'L') { lzx_op(tmp, line + (line[1] == 'I' ? 2 : 1), line[1] == 'I'); continue; }
			if (line[0] == 'M') {
				/* "M off val off val ...": several bytes substituted at once (stored data damaged AND a check field rewritten) */
				unsigned char *copy = malloc(bsize ? bsize : 1); char *q = line + 1; long o; unsigned vv; int n;
				memcpy(copy, base, bsize);
				while (sscanf(q, "%ld %u%n", &o, &vv, &n) == 2) { if (o >= 0 && o < bsize) copy[o] = (unsigned char)vv; q += n; }
				load_variant(tmp, copy, bsize); free(copy); continue;
			}
			if (sscanf(line + 1, "%ld %u", &off, &v) < 1) { puts("?"); continue; }
			if (line[0] == 'T') { load_variant(tmp, base, off < bsize ? off : bsize); continue; }
			if (off < 0 || off >= bsize) { puts("?off"); continue; }
			{
				unsigned char old = base[off];
				base[off] = (line[0] == 'F') ? (old ^ (unsigned char)v) : (unsigned char)v;
				load_variant(tmp, base, bsize);
				base[off] = old;
			}
		}
		unlink(tmp);
		return 0;
	}
	return 2;
}
