/* C09 driver.
 *   c09_drv crc                : lines "A|N|I hex init" -> value
 *   c09_drv load <tmpfile>     : lines "B path" (set base archive), "O" (load base as is),
 *                                "F off mask" (xor byte), "S off val" (substitute), "T len" (truncate)
 *                                -> "ret md5hex|-"  (xmp_load_module by path of the variant written to <tmpfile>)
 */
#include "vcommon.h"
#include "depackers/crc32.h"

static unsigned char *base; static long bsize;

static void load_variant(const char *tmp, const unsigned char *b, long n)
{
	FILE *f = fopen(tmp, "wb");
	xmp_context c;
	int ret, i;
	if (!f) { puts("?tmp"); return; }
	if (n > 0) fwrite(b, 1, n, f);
	fclose(f);
	c = xmp_create_context();
	ret = xmp_load_module(c, tmp);
	printf("%d ", ret);
	if (ret == 0) {
		struct xmp_module_info mi;
		xmp_get_module_info(c, &mi);
		for (i = 0; i < 16; i++) printf("%02x", mi.md5[i]);
		xmp_release_module(c);
	} else putchar('-');
	putchar('\n');
	xmp_free_context(c);
}

int main(int argc, char **argv)
{
	static char line[1 << 20];
	if (argc >= 2 && !strcmp(argv[1], "crc")) {
		while (fgets(line, sizeof line, stdin)) {
			char k; static char hx[1 << 19]; unsigned long init; long n; unsigned char *b;
			if (sscanf(line, "%c %s %lu", &k, hx, &init) != 3) { puts("?"); continue; }
			b = vf_unhex(hx, &n);
			if (k == 'A') printf("%u\n", libxmp_crc32_A(b, n, (uint32)init));
			else if (k == 'N') printf("%u\n", libxmp_crc32_A_no_inv(b, n, (uint32)init));
			else printf("%u\n", (unsigned)libxmp_crc16_IBM(b, n, (uint16)init));
			free(b);
		}
		return 0;
	}
	if (argc >= 3 && !strcmp(argv[1], "load")) {
		const char *tmp = argv[2];
		while (fgets(line, sizeof line, stdin)) {
			long off; unsigned v;
			line[strcspn(line, "\n")] = 0;
			if (line[0] == 'B') { free(base); base = vf_read_file(line + 2, &bsize); if (!base) { puts("?base"); } continue; }
			if (!base) { puts("?nobase"); continue; }
			if (line[0] == 'O') { load_variant(tmp, base, bsize); continue; }
			if (line[0] == 'M') {
				/* "M off val off val ...": several bytes substituted at once (stored data damaged AND a check field rewritten) */
				unsigned char *copy = malloc(bsize ? bsize : 1); char *q = line + 1; long o; unsigned vv; int n;
				memcpy(copy, base, bsize);
				while (sscanf(q, "%ld %u%n", &o, &vv, &n) == 2) { if (o >= 0 && o < bsize) copy[o] = (unsigned char)vv; q += n; }
				load_variant(tmp, copy, bsize); free(copy); continue;
			}
			if (sscanf(line + 1, "%ld %u", &off, &v) < 1) { puts("?"); continue; }
			if (line[0] == 'T') { load_variant(tmp, base, off < bsize ? off : bsize); continue; }
			if (off < 0 || off >= bsize) { puts("?off"); continue; }
			{
				unsigned char old = base[off];
				base[off] = (line[0] == 'F') ? (old ^ (unsigned char)v) : (unsigned char)v;
				load_variant(tmp, base, bsize);
				base[off] = old;
			}
		}
		unlink(tmp);
		return 0;
	}
	return 2;
}
