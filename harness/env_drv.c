/* C01 / C16 envelope driver: the static envelope functions of src/player.c are reached by compiling player.c into this driver
 * (the archive's player.o is then not pulled in).  stdin lines:
 *   flg npt sus sue lps lpe | d0 ... d63 | x release key_off
 * stdout: "G <get_envelope(x, 64)> U <update generic> <update xm> <update it>"  (update_envelope in the three player flavours) */
#include "player.c"
#include <stdio.h>

int main(void)
{
	static char line[4096];
	xmp_context c = xmp_create_context();
	struct context_data *ctx = (struct context_data *)c;
	while (fgets(line, sizeof line, stdin)) {
		struct xmp_envelope e; int x, rel, ko, i, n = 0, k; char *p = line;
		memset(&e, 0, sizeof e);
		if (sscanf(p, "%d %d %d %d %d %d |%n", &e.flg, &e.npt, &e.sus, &e.sue, &e.lps, &e.lpe, &n) < 6) { puts("?"); continue; }
		p += n;
		for (i = 0; i < 64; i++) { int v; if (sscanf(p, "%d%n", &v, &k) < 1) break; e.data[i] = (short)v; p += k; }
		if (sscanf(p, " | %d %d %d", &x, &rel, &ko) < 3) { puts("?"); continue; }
		printf("G %d U", get_envelope(&e, x, 64));
		ctx->m.read_event_type = READ_EVENT_MOD; ctx->m.quirk &= ~QUIRK_FT2ENV;
		printf(" %d", update_envelope(ctx, &e, x, rel, ko));
		ctx->m.quirk |= QUIRK_FT2ENV;
		printf(" %d", update_envelope(ctx, &e, x, rel, ko));
		ctx->m.read_event_type = READ_EVENT_IT;
		printf(" %d\n", update_envelope(ctx, &e, x, rel, ko));
		fflush(stdout);
	}
	return 0;
}
