/* C03 driver: loads files through a chosen entry point / settings and dumps every successfully loaded module.
 *   c03_drv load   : stdin lines "<entry LP|LM|LF|LC> <skip 0/1> <mode -1..10> <dumpflags> <path>"
 *                    -> "RET <ret>" then (if 0) the dump of harness/vdump.h
 */
#include "vdump.h"

static unsigned long cb_read(void *d, unsigned long s, unsigned long n, void *p) { return fread(d, s, n, (FILE *)p); }
static int cb_seek(void *p, long o, int w) { return fseek((FILE *)p, o, w); }
static long cb_tell(void *p) { return ftell((FILE *)p); }

/* ---- gate mode: hook H1 lets the harness edit what the loader produced, then dumps it (PREGATE ...) */
extern void (*libxmp_verif_pregate)(struct context_data *, int, int *);
static char edits[8192];

static struct xmp_envelope *pick_env(struct xmp_instrument *xi, int w) { return w == 0 ? &xi->aei : w == 1 ? &xi->pei : &xi->fei; }

static void pregate(struct context_data *ctx, int test_result, int *load_result)
{
	struct xmp_module *mod = &ctx->m.mod;
	char buf[8192], *tok;
	if (*load_result < 0) return;
	vd_alloc_chn = mod->chn;
	strcpy(buf, edits);
	for (tok = strtok(buf, ","); tok; tok = strtok(NULL, ",")) {
		char f[32]; int a = 0, b = 0, v = 0;
		if (sscanf(tok, "%31[a-z]=%d", f, &v) == 2) {
			if (!strcmp(f, "chn")) mod->chn = v; else if (!strcmp(f, "len")) mod->len = v; else if (!strcmp(f, "pat")) mod->pat = v;
			else if (!strcmp(f, "trk")) mod->trk = v; else if (!strcmp(f, "ins")) mod->ins = v; else if (!strcmp(f, "smp")) mod->smp = v;
			else if (!strcmp(f, "spd")) mod->spd = v; else if (!strcmp(f, "bpm")) mod->bpm = v; else if (!strcmp(f, "rst")) mod->rst = v;
			else if (!strcmp(f, "noxxp")) { mod->xxp = NULL; } else if (!strcmp(f, "noxxt")) { mod->xxt = NULL; }
		} else if (sscanf(tok, "%31[a-z].%d=%d", f, &a, &v) == 3) {
			if (!strcmp(f, "vol") && a >= 0 && a < 64) mod->xxc[a].vol = v;
			else if (!strcmp(f, "pan") && a >= 0 && a < 64) mod->xxc[a].pan = v;
			else if (!strcmp(f, "xxo") && a >= 0 && a < 256) mod->xxo[a] = (unsigned char)v;
			else if (!strcmp(f, "nopat") && a >= 0 && a < mod->pat && mod->xxp) mod->xxp[a] = NULL;
			else if (!strcmp(f, "notrk") && a >= 0 && a < mod->trk && mod->xxt) mod->xxt[a] = NULL;
			else if (!strcmp(f, "sus") && a >= 0 && a < mod->smp && ctx->m.xtra) ctx->m.xtra[a].sus = v;
			else if (!strcmp(f, "sue") && a >= 0 && a < mod->smp && ctx->m.xtra) ctx->m.xtra[a].sue = v;
			else if (!strcmp(f, "sflg") && a >= 0 && a < mod->smp) mod->xxs[a].flg |= v;
		} else if (sscanf(tok, "%31[a-z].%d.%d=%d", f, &a, &b, &v) == 4) {
			if (!strcmp(f, "idx") && a >= 0 && a < mod->pat && mod->xxp && mod->xxp[a] && b >= 0 && b < mod->chn) mod->xxp[a]->index[b] = v;
			else if (a >= 0 && a < mod->ins && b >= 0 && b < 3) {
				struct xmp_envelope *e = pick_env(&mod->xxi[a], b);
				if (!strcmp(f, "eflg")) e->flg = v; else if (!strcmp(f, "enpt")) e->npt = v; else if (!strcmp(f, "elps")) e->lps = v;
				else if (!strcmp(f, "elpe")) e->lpe = v; else if (!strcmp(f, "esus")) e->sus = v; else if (!strcmp(f, "esue")) e->sue = v;
			}
		}
	}
	vd_dump_ctx(stdout, ctx, 1, 1);
	fflush(stdout);
}

static int gate_mode(void)
{
	static char line[16384];
	libxmp_verif_pregate = pregate;
	while (fgets(line, sizeof line, stdin)) {
		char path[4096]; int ret;
		xmp_context c;
		line[strcspn(line, "\n")] = 0;
		if (sscanf(line, "%8191s %4095[^\n]", edits, path) != 2) { puts("RET ?"); continue; }
		if (!strcmp(edits, "-")) edits[0] = 0;
		c = xmp_create_context();
		ret = xmp_load_module(c, path);
		printf("RET %d\n", ret);
		if (ret == 0) { vd_dump_module(stdout, c, 1); xmp_release_module(c); }
		xmp_free_context(c);
		fflush(stdout);
	}
	return 0;
}

int main(int argc, char **argv)
{
	if (argc >= 2 && !strcmp(argv[1], "gate")) return gate_mode();
	{
	static char line[8192];
	while (fgets(line, sizeof line, stdin)) {
		char e[8], path[4096]; int skip, mode, what, ret = -99;
		xmp_context c;
		line[strcspn(line, "\n")] = 0;
		if (sscanf(line, "%7s %d %d %d %4095[^\n]", e, &skip, &mode, &what, path) != 5) { puts("RET ?"); continue; }
		c = xmp_create_context();
		if (skip) xmp_set_player(c, XMP_PLAYER_SMPCTL, XMP_SMPCTL_SKIP);
		if (!strcmp(e, "LP")) ret = xmp_load_module(c, path);
		else if (!strcmp(e, "LM")) { long sz; unsigned char *b = vf_read_file(path, &sz); ret = b ? xmp_load_module_from_memory(c, b, sz) : -99; free(b); }
		else if (!strcmp(e, "LF")) { FILE *f = fopen(path, "rb"); ret = f ? xmp_load_module_from_file(c, f, 0) : -99; if (f) fclose(f); }
		else { FILE *f = fopen(path, "rb"); struct xmp_callbacks cb = { cb_read, cb_seek, cb_tell, NULL }; ret = f ? xmp_load_module_from_callbacks(c, f, cb) : -99; if (f) fclose(f); }
		if (ret == 0 && mode >= 0) {
			/* the player mode can only be chosen while playing; it re-runs the sequence scan */
			if (xmp_start_player(c, 8000, 0) == 0) { xmp_set_player(c, XMP_PLAYER_MODE, mode); xmp_end_player(c); }
		}
		printf("RET %d\n", ret);
		if (ret == 0) { vd_dump_module(stdout, c, what); xmp_release_module(c); }
		xmp_free_context(c);
		fflush(stdout);
	}
	return 0;
	}
}
