/* C17 driver.  stdin: one line per run "<module path>\t<script>"; script tokens separated by spaces:
 *   P<n> play n frames | SP<p> xmp_set_position | NX | PV | SR<r> xmp_set_row | SK<t> xmp_seek_time | ST stop | RS restart
 * stdout per run: the tables the control functions read (full C arrays), then one line per call / frame with the
 * return value and the player's private position state:
 *   MOD len npat marker rst nseq / XXO .. / ROWS .. / ENTRY .. / SEQCTL .. / SCANORD .. / SCANROW .. / SCANNUM .. / TIME ..
 *   S <state>                        initial state after xmp_start_player
 *   C <op> <arg> <ret> | <state>     a control call
 *   F <ret> | <state> | <pos row frame sequence loop_count frame_time(us) from xmp_get_frame_info>
 *   ENDRUN
 * <state> = pos ord row frame repos sequence loop_count speed num_rows end_point jumpline jump pbreak delay clean
 */
#include "vcommon.h"
#include "rng.h"

static void pstate(struct context_data *ctx)
{
	struct player_data *p = &ctx->p;
	struct flow_control *f = &p->flow;
	int clean = f->loop_dest == -1 && f->loop_param == -1 && f->loop_start == -1 && f->loop_count == 0 && f->loop_active_num == 0 &&
		    f->rowdelay == 0 && f->rowdelay_set == 0
#ifndef LIBXMP_CORE_PLAYER
		    && f->jump_in_pat == -1
#endif
		;
	printf("%d %d %d %d %d %d %d %d %d %d %d %d %d %d %d", p->pos, p->ord, p->row, p->frame, p->reposition, p->sequence, p->loop_count, p->speed,
	       f->num_rows, f->end_point, f->jumpline, f->jump, f->pbreak, f->delay, clean);
}

int main(void)
{
	static char line[1 << 16];
	while (fgets(line, sizeof line, stdin)) {
		xmp_context c;
		struct context_data *ctx;
		struct xmp_module *mod;
		struct xmp_frame_info fi;
		char *script, *tok;
		int i, ended = 0;
		line[strcspn(line, "\n")] = 0;
		script = strchr(line, '\t');
		if (!script) continue;
		*script++ = 0;
		c = xmp_create_context();
		ctx = (struct context_data *)c;
		if (xmp_load_module(c, line) < 0) { puts("LOADFAIL"); puts("ENDRUN"); xmp_free_context(c); continue; }
		libxmp_set_random(&ctx->rng, 7);
		if (xmp_start_player(c, 8000, XMP_FORMAT_MONO | XMP_FORMAT_8BIT) < 0) { puts("STARTFAIL"); puts("ENDRUN"); xmp_release_module(c); xmp_free_context(c); continue; }
		mod = &ctx->m.mod;
		printf("MOD %d %d %d %d %d\n", mod->len, mod->pat, (ctx->m.quirk & QUIRK_MARKER) ? 1 : 0, mod->rst, ctx->m.num_sequences);
		printf("XXO"); for (i = 0; i < XMP_MAX_MOD_LENGTH; i++) printf(" %d", mod->xxo[i]); printf("\n");
		printf("ROWS"); for (i = 0; i < mod->pat; i++) printf(" %d", mod->xxp[i]->rows); printf("\n");
		printf("ENTRY"); for (i = 0; i < ctx->m.num_sequences; i++) printf(" %d", ctx->m.seq_data[i].entry_point); printf("\n");
		printf("SEQCTL"); for (i = 0; i < XMP_MAX_MOD_LENGTH; i++) printf(" %d", ctx->p.sequence_control[i]); printf("\n");
		printf("SCANORD"); for (i = 0; i < ctx->m.num_sequences; i++) printf(" %d", ctx->p.scan[i].ord); printf("\n");
		printf("SCANROW"); for (i = 0; i < ctx->m.num_sequences; i++) printf(" %d", ctx->p.scan[i].row); printf("\n");
		printf("SCANNUM"); for (i = 0; i < ctx->m.num_sequences; i++) printf(" %d", ctx->p.scan[i].num); printf("\n");
		printf("TIME"); for (i = 0; i < XMP_MAX_MOD_LENGTH; i++) printf(" %d", ctx->m.xxo_info[i].time); printf("\n");
		printf("S "); pstate(ctx); printf("\n");
		for (tok = strtok(script, " "); tok; tok = strtok(NULL, " ")) {
			int a = 0, r = 0;
			if (tok[0] == 'P' && tok[1] != 'V') {
				int n = atoi(tok + 1);
				for (i = 0; i < n; i++) {
					r = xmp_play_frame(c);
					xmp_get_frame_info(c, &fi);
					printf("F %d | ", r); pstate(ctx); printf(" | %d %d %d %d %d %d\n", fi.pos, fi.row, fi.frame, fi.sequence, fi.loop_count, fi.frame_time);
					if (r < 0) { ended = 1; break; }
				}
				continue;
			}
			if (!strncmp(tok, "SP", 2)) { a = atoi(tok + 2); r = xmp_set_position(c, a); printf("C SP %d %d | ", a, r); }
			else if (!strcmp(tok, "NX")) { r = xmp_next_position(c); printf("C NX 0 %d | ", r); }
			else if (!strcmp(tok, "PV")) { r = xmp_prev_position(c); printf("C PV 0 %d | ", r); }
			else if (!strncmp(tok, "SR", 2)) { a = atoi(tok + 2); r = xmp_set_row(c, a); printf("C SR %d %d | ", a, r); }
			else if (!strncmp(tok, "SK", 2)) { a = atoi(tok + 2); r = xmp_seek_time(c, a); printf("C SK %d %d | ", a, r); }
			else if (!strcmp(tok, "ST")) { xmp_stop_module(c); printf("C ST 0 0 | "); }
			else if (!strcmp(tok, "RS")) { xmp_restart_module(c); printf("C RS 0 0 | "); }
			else continue;
			pstate(ctx); printf("\n");
		}
		(void)ended;
		puts("ENDRUN");
		fflush(stdout);
		xmp_end_player(c);
		xmp_release_module(c);
		xmp_free_context(c);
	}
	return 0;
}
