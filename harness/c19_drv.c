/* C19 driver: for each path on stdin loads the module and prints everything a writer's abstract song specifies:
 *   M chn len pat ins smp spd bpm rst | NAME hex | TYPE hex | XXO ...
 *   PATR p rows
 *   EV p row chn note ins vol fxt fxp f2t f2p      (non-empty events only)
 *   INS i nsm vol namehex | SUB i j vol pan xpo fin sid
 *   SMP i len lps lpe flg namehex datahex (up to 4096 frames; "md5:<hex>" of the data beyond that; "-" if none)
 *   ENDLOAD   (or LOADFAIL ret)
 */
#include "vcommon.h"
#include "md5.h"

static void hexs(const char *s, int max) { int n = 0; while (n < max && s[n]) n++; if (!n) { putchar('-'); return; } vf_puthex((const unsigned char *)s, n); }

int main(void)
{
	static char path[4096];
	while (fgets(path, sizeof path, stdin)) {
		xmp_context c = xmp_create_context(); struct xmp_module_info mi; struct xmp_module *mod; int i, j, r, ret;
		path[strcspn(path, "\n")] = 0;
		ret = xmp_load_module(c, path);
		if (ret < 0) { printf("LOADFAIL %d\n", ret); xmp_free_context(c); fflush(stdout); continue; }
		xmp_get_module_info(c, &mi); mod = mi.mod;
		printf("M %d %d %d %d %d %d %d %d\nNAME ", mod->chn, mod->len, mod->pat, mod->ins, mod->smp, mod->spd, mod->bpm, mod->rst); hexs(mod->name, XMP_NAME_SIZE);
		printf("\nTYPE "); hexs(mod->type, XMP_NAME_SIZE); printf("\nXXO"); for (i = 0; i < mod->len; i++) printf(" %d", mod->xxo[i]); printf("\n");
		for (i = 0; i < mod->pat; i++) {
			printf("PATR %d %d\n", i, mod->xxp[i]->rows);
			for (r = 0; r < mod->xxp[i]->rows; r++) for (j = 0; j < mod->chn; j++) {
				struct xmp_event *e = &mod->xxt[mod->xxp[i]->index[j]]->event[r];
				if (e->note || e->ins || e->vol || e->fxt || e->fxp || e->f2t || e->f2p)
					printf("EV %d %d %d %d %d %d %d %d %d %d\n", i, r, j, e->note, e->ins, e->vol, e->fxt, e->fxp, e->f2t, e->f2p);
			}
		}
		for (i = 0; i < mod->ins; i++) {
			printf("INS %d %d %d ", i, mod->xxi[i].nsm, mod->xxi[i].vol); hexs(mod->xxi[i].name, 32); printf("\n");
			for (j = 0; j < mod->xxi[i].nsm; j++) { struct xmp_subinstrument *s = &mod->xxi[i].sub[j]; printf("SUB %d %d %d %d %d %d %d\n", i, j, s->vol, s->pan, s->xpo, s->fin, s->sid); }
		}
		for (i = 0; i < mod->smp; i++) {
			struct xmp_sample *s = &mod->xxs[i]; int fl = ((s->flg & XMP_SAMPLE_16BIT) ? 2 : 1) * ((s->flg & XMP_SAMPLE_STEREO) ? 2 : 1);
			printf("SMP %d %d %d %d %d ", i, s->len, s->lps, s->lpe, s->flg); hexs(s->name, 32); putchar(' ');
			if (s->data && s->len > 0 && s->len <= 4096) vf_puthex(s->data, (long)s->len * fl);
			else if (s->data && s->len > 0) { MD5_CTX mc; unsigned char dg[16]; MD5Init(&mc); MD5Update(&mc, s->data, (unsigned long)s->len * fl); MD5Final(dg, &mc); printf("md5:"); vf_puthex(dg, 16); }
			else putchar('-');
			printf("\n");
		}
		puts("ENDLOAD"); fflush(stdout);
		xmp_release_module(c); xmp_free_context(c);
	}
	return 0;
}
