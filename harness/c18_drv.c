/* C18 driver: for each module path on stdin prints
 *   "HDR len pat spd bpm rst tf_hex rr_hex nseq | xxo... | rows per pattern..."
 *   "PR p: <row kinds>" per pattern (the loaded events mapped to the vocabulary of Model/Linear.v),
 *   "SEQ i entry duration" per sequence, "ORD i time" per order (private xxo_info),
 *   then plays sequence 0 until the loop counter increments (or maxframes): "FR pos row frame speed bpm loop rowdelay" per frame (rowdelay: passes of an IT row delay still to come, -1 if none), "ENDPLAY"
 */
#include "vcommon.h"
#include "rng.h"
#include "effects.h"

/* the flow-relevant content of one row in the linear vocabulary of Model/Linear.v:
 * N nothing, S<v> set speed, T<v> absolute set tempo, D<v> pattern delay, J<v> position jump,
 * X anything else that scan.c or the player treat as changing time or flow (the module is then outside the vocabulary) */
static int flow_kind(struct context_data *ctx, int t, int v, char *k, int *val)
{
	struct module_data *m = &ctx->m;
	switch (t) {
	case FX_SPEED:
		if (v == 0) { *k = 'X'; return 1; }
		if (HAS_QUIRK(QUIRK_NOBPM) || (ctx->p.flags & XMP_FLAGS_VBLANK)) { *k = 'X'; return 1; }
		*k = v < 0x20 ? 'S' : 'T'; *val = v; return 1;
	case FX_S3M_SPEED:
		if (v == 0) { *k = 'X'; return 1; }
		*k = 'S'; *val = v; return 1;
	case FX_S3M_BPM:
		if (v < 0x20) { *k = 'X'; return 1; }
		*k = 'T'; *val = v; return 1;
	case FX_IT_BPM:
		if (v < 0x20) { *k = 'X'; return 1; }
		*k = 'T'; *val = v; return 1;
	case FX_JUMP: *k = 'J'; *val = v; return 1;
	case FX_EXTENDED:
		if ((v >> 4) == EX_PATT_DELAY) { *k = 'D'; *val = v & 15; return 1; }
		if ((v >> 4) == EX_PATTERN_LOOP) { *k = 'X'; return 1; }
		return 0;
	case FX_IT_ROWDELAY: *k = 'D'; *val = v & 15; return 1;
	case FX_BREAK: case FX_IT_BREAK: case FX_SPEED_CP: case FX_ICE_SPEED: case FX_FAR_TEMPO:
	case FX_FAR_F_TEMPO: case FX_ULT_TEMPO: case FX_LINE_JUMP: case FX_PATT_DELAY:
		*k = 'X'; return 1;
	}
	return 0;
}

static int dump_rows(struct context_data *ctx)
{
	int anyx = 0;
	struct xmp_module *mod = &ctx->m.mod;
	int p, r, c;
	for (p = 0; p < mod->pat; p++) {
		printf("PR %d:", p);
		for (r = 0; r < mod->xxp[p]->rows; r++) {
			char kind = 'N'; int val = 0, n = 0;
			for (c = 0; c < mod->chn; c++) {
				int ti = mod->xxp[p]->index[c];
				struct xmp_event *e;
				char k; int v;
				if (ti < 0 || ti >= mod->trk || r >= mod->xxt[ti]->rows) continue;
				e = &mod->xxt[ti]->event[r];
				if (flow_kind(ctx, e->fxt, e->fxp, &k, &v)) { n++; kind = k; val = v; }
				if (flow_kind(ctx, e->f2t, e->f2p, &k, &v)) { n++; kind = k; val = v; }
			}
			if (n > 1) kind = 'X';
			if (kind == 'X') anyx = 1;
			if (kind == 'N' || kind == 'X') printf(" %c", kind); else printf(" %c%d", kind, val);
		}
		printf("\n");
	}
	return anyx;
}

int main(int argc, char **argv)
{
	static char path[4096];
	int maxframes = argc > 1 ? atoi(argv[1]) : 200000;
	while (fgets(path, sizeof path, stdin)) {
		xmp_context c = xmp_create_context();
		struct context_data *ctx = (struct context_data *)c;
		struct xmp_module_info mi; struct xmp_frame_info fi;
		int i, n, outside, force = 0;
		char *path_ = path;
		path[strcspn(path, "\n")] = 0;
		if (path[0] == '+') { force = 1; path_ = path + 1; }	/* play even if the loaded events leave the vocabulary */
		if (xmp_load_module(c, path_) < 0) { puts("LOADFAIL"); puts("ENDPLAY"); xmp_free_context(c); continue; }
		xmp_get_module_info(c, &mi);
		printf("HDR %d %d %d %d %d %a %a %d |", mi.mod->len, mi.mod->pat, mi.mod->spd, mi.mod->bpm, mi.mod->rst, ctx->m.time_factor, ctx->m.rrate, mi.num_sequences);
		for (i = 0; i < mi.mod->len; i++) printf(" %d", mi.mod->xxo[i]);
		printf(" |");
		for (i = 0; i < mi.mod->pat; i++) printf(" %d", mi.mod->xxp[i]->rows);
		printf("\n");
		outside = dump_rows(ctx);
		for (i = 0; i < mi.num_sequences; i++) printf("SEQ %d %d %d\n", i, mi.seq_data[i].entry_point, mi.seq_data[i].duration);
		for (i = 0; i < mi.mod->len; i++) printf("ORD %d %d\n", i, ctx->m.xxo_info[i].time);
		libxmp_set_random(&ctx->rng, 1);
		if ((force || !outside) && xmp_start_player(c, 8000, XMP_FORMAT_MONO | XMP_FORMAT_8BIT) == 0) {
			for (n = 0; n < maxframes; n++) {
				if (xmp_play_frame(c) < 0) break;
				xmp_get_frame_info(c, &fi);
				printf("FR %d %d %d %d %d %d %d\n", fi.pos, fi.row, fi.frame, fi.speed, fi.bpm, fi.loop_count, ctx->p.flow.rowdelay_set ? ctx->p.flow.rowdelay : -1);
				if (fi.loop_count > 0) break;
			}
			xmp_end_player(c);
		}
		/* every further sequence (up to 8): from its entry point until the loop counter increments; per sequence the number of
		 * frames rendered at each tempo ("SQ i entry looped reported-pos-of-first-frame rate delivered-sample-frames | bpm:frames ...") */
		for (i = 1; (force || !outside) && i < mi.num_sequences && i <= 8; i++) {
			static int hist[256]; int looped = 0, firstpos = -1, b;
			/* the player is started again on the same context, at another sampling rate each time; the audio delivered (sample frames
			 * of the 8-bit mono buffers) is counted next to the tempo of every frame */
			int srate = (i & 1) ? 11025 : 22050; long delivered = 0;
			memset(hist, 0, sizeof hist);
			if (xmp_start_player(c, srate, XMP_FORMAT_MONO | XMP_FORMAT_8BIT) != 0) break;
			xmp_set_position(c, mi.seq_data[i].entry_point);
			for (n = 0; n < maxframes; n++) {
				if (xmp_play_frame(c) < 0) break;
				xmp_get_frame_info(c, &fi);
				if (firstpos < 0) firstpos = fi.pos;
				if (fi.loop_count > 0) { looped = 1; break; }
				if (fi.bpm > 0 && fi.bpm < 256) { hist[fi.bpm]++; delivered += fi.buffer_size; }
			}
			printf("SQ %d %d %d %d %d %ld |", i, mi.seq_data[i].entry_point, looped, firstpos, srate, delivered);
			for (b = 0; b < 256; b++) if (hist[b]) printf(" %d:%d", b, hist[b]);
			printf("\n");
			xmp_end_player(c);
		}
		puts("ENDPLAY");
		xmp_release_module(c);
		xmp_free_context(c);
		fflush(stdout);
	}
	return 0;
}
