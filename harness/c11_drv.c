/* C11 driver.
 *   c11_drv adj  : stdin "CA n hex" / "AS hex"  -> hex of what libxmp_copy_adjust / libxmp_adjust_string leave in the buffer ("-" empty)
 *   c11_drv side : stdin "<loaded module path>\t<tested path>": loads and starts playing the first, dumps the whole context
 *                  (module, player position, voices' state digest), runs the four test entry points on the second, dumps again;
 *                  prints "SIDE same|changed" and "FILE pos_before pos_after open" for the FILE entry point
 */
#include "vdump.h"
#include "player.h"
#include "mixer.h"
#include <unistd.h>

char *libxmp_copy_adjust(char *s, uint8 *r, int n);
char *libxmp_adjust_string(char *s);

static unsigned long cb_read(void *d, unsigned long s, unsigned long n, void *p) { return fread(d, s, n, (FILE *)p); }
static int cb_seek(void *p, long o, int w) { return fseek((FILE *)p, o, w); }
static long cb_tell(void *p) { return ftell((FILE *)p); }

static uint64_t ctx_digest(struct context_data *ctx)
{
	uint64_t h = VF_FNV0;
	char *buf = NULL; size_t len = 0;
	FILE *o = open_memstream(&buf, &len);
	vd_dump_ctx(o, ctx, 7, 0);
	fclose(o);
	h = vf_fnv(h, buf, len);
	free(buf);
	h = vf_fnv(h, &ctx->p.ord, 10 * sizeof(int));
	h = vf_fnv(h, &ctx->p.flow, sizeof(int) * 9);
	h = vf_fnv(h, ctx->p.xc_data, sizeof(struct channel_data) * ctx->p.virt.virt_channels);
	h = vf_fnv(h, ctx->p.virt.voice_array, sizeof(struct mixer_voice) * ctx->p.virt.maxvoc);
	h = vf_fnv(h, &ctx->state, sizeof ctx->state);
	return h;
}

int main(int argc, char **argv)
{
	static char line[1 << 16];
	if (argc > 1 && !strcmp(argv[1], "adj")) {
		while (fgets(line, sizeof line, stdin)) {
			char op[8], hx[1 << 15]; int n = 0; long len = 0; unsigned char *raw; char *out;
			if (sscanf(line, "%7s", op) != 1) continue;
			if (!strcmp(op, "CA")) {
				sscanf(line, "%*s %d %s", &n, hx);
				raw = vf_unhex(hx, &len);
				raw = realloc(raw, len + n + 2); memset(raw + len, 0, n + 2);	/* the C reads up to n bytes or a NUL */
				out = calloc(n + 2, 1);
				libxmp_copy_adjust(out, raw, n);
			} else {
				sscanf(line, "%*s %s", hx);
				raw = vf_unhex(hx, &len);
				out = calloc(len + 2, 1); memcpy(out, raw, len);
				libxmp_adjust_string(out);
			}
			vf_puthex((unsigned char *)out, strlen(out)); putchar('\n');
			free(raw); free(out);
		}
		return 0;
	}
	while (fgets(line, sizeof line, stdin)) {
		char *p2; xmp_context c; struct context_data *ctx; uint64_t d0, d1; struct xmp_test_info ti; long sz = 0; unsigned char *buf; FILE *f; long p0, p1; int i, open_ok;
		struct xmp_callbacks cb = { cb_read, cb_seek, cb_tell, NULL };
		line[strcspn(line, "\n")] = 0;
		p2 = strchr(line, '\t'); if (!p2) continue; *p2++ = 0;
		c = xmp_create_context(); ctx = (struct context_data *)c;
		if (xmp_load_module(c, line) < 0 || xmp_start_player(c, 8000, 0) < 0) { puts("SKIP"); xmp_free_context(c); continue; }
		for (i = 0; i < 7; i++) xmp_play_frame(c);
		d0 = ctx_digest(ctx);
		xmp_test_module(p2, &ti);
		buf = vf_read_file(p2, &sz);
		if (buf) xmp_test_module_from_memory(buf, sz, &ti);
		f = fopen(p2, "rb");
		p0 = p1 = -1; open_ok = 1;
		if (f) {
			fseek(f, 3, SEEK_SET); p0 = ftell(f);
			xmp_test_module_from_file(f, &ti);
			p1 = ftell(f); open_ok = (p1 >= 0 && !ferror(f) && fseek(f, 0, SEEK_SET) == 0 && fgetc(f) != EOF);
			xmp_test_module_from_callbacks(f, cb, &ti);
			open_ok = open_ok && ftell(f) >= 0;
			fclose(f);
		}
		free(buf);
		d1 = ctx_digest(ctx);
		printf("SIDE %s\nFILE %ld %ld %d\n", d0 == d1 ? "same" : "changed", p0, p1, open_ok);
		fflush(stdout);
		xmp_end_player(c); xmp_release_module(c); xmp_free_context(c);
	}
	return 0;
}
