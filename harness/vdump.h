/* Canonical text dump of a loaded module (public tables via xmp_get_module_info, plus the few private
 * fields the checks need).  Every pointer is followed, so under ASan the dump itself validates that the
 * tables are allocated to their declared sizes and that sample guard frames are readable. */
#ifndef VERIF_VDUMP_H
#define VERIF_VDUMP_H
#include "vcommon.h"

static void vd_hexname(FILE *o, const char *s, int max)
{
	int i, n = 0;
	while (n < max && s[n]) n++;
	fprintf(o, "%d ", n < max ? 1 : 0);       /* NUL-terminated within the array? */
	if (n == 0) { fputc('-', o); return; }
	for (i = 0; i < n; i++) fprintf(o, "%02x", (unsigned char)s[i]);
}

static void vd_env(FILE *o, int i, int which, const struct xmp_envelope *e)
{
	int k, npt = e->npt;
	fprintf(o, "ENV %d %d %d %d %d %d %d %d %d |", i, which, e->flg, e->npt, e->scl, e->sus, e->sue, e->lps, e->lpe);
	if (npt < 0) npt = 0;
	if (npt > XMP_MAX_ENV_POINTS) npt = XMP_MAX_ENV_POINTS;
	for (k = 0; k < npt * 2; k++) fprintf(o, " %d", e->data[k]);
	fputc('\n', o);
}

/* what = bit 0: structure, bit 1: events digest, bit 2: sample data digest (incl. guard frames) */
static int vd_alloc_chn = -1;   /* raw dumps: channels the pattern index arrays were allocated for */
static void vd_dump_ctx(FILE *o, struct context_data *ctx, int what, int raw)
{
	struct xmp_module_info mi;
	struct xmp_module *mod;
	int i, j;
	memset(&mi, 0, sizeof mi);
	if (!raw) xmp_get_module_info((xmp_context)ctx, &mi);
	mod = &ctx->m.mod;
	/* raw = what a loader left behind, before the sanity gate: tables may be missing */
	if (raw) fprintf(o, "PREGATE %d %d %d\n", mod->xxp ? 1 : 0, mod->xxt ? 1 : 0, (ctx->m.quirk & QUIRK_MARKER) ? 1 : 0);
	fprintf(o, "MOD %d %d %d %d %d %d %d %d %d %d %d\n", mod->chn, mod->len, mod->pat, mod->trk, mod->ins, mod->smp, mod->spd, mod->bpm, mod->rst, mod->gvl, ctx->m.volbase);
	fprintf(o, "NAME "); vd_hexname(o, mod->name, XMP_NAME_SIZE); fprintf(o, "\nTYPE "); vd_hexname(o, mod->type, XMP_NAME_SIZE); fputc('\n', o);
	fprintf(o, "XXO"); for (i = 0; i < mod->len && i < XMP_MAX_MOD_LENGTH; i++) fprintf(o, " %d", mod->xxo[i]); fputc('\n', o);
	for (i = 0; i < (raw ? XMP_MAX_CHANNELS : mod->chn) && i < XMP_MAX_CHANNELS; i++) fprintf(o, "CHN %d %d %d %d\n", i, mod->xxc[i].vol, mod->xxc[i].pan, mod->xxc[i].flg);
	for (i = 0; i < mod->pat && mod->xxp; i++) {
		if (!mod->xxp[i]) { fprintf(o, "PAT %d NULL\n", i); continue; }
		fprintf(o, "PAT %d %d", i, mod->xxp[i]->rows);
		for (j = 0; j < mod->chn && j < XMP_MAX_CHANNELS && (!raw || vd_alloc_chn < 0 || j < vd_alloc_chn); j++) fprintf(o, " %d", mod->xxp[i]->index[j]);
		fputc('\n', o);
	}
	for (i = 0; i < mod->trk && mod->xxt; i++) {
		if (!mod->xxt[i]) { fprintf(o, "TRK %d NULL\n", i); continue; }
		if (what & 2) fprintf(o, "TRK %d %d %llx\n", i, mod->xxt[i]->rows, (unsigned long long)vf_fnv(VF_FNV0, mod->xxt[i]->event, (long)mod->xxt[i]->rows * sizeof(struct xmp_event)));
		else fprintf(o, "TRK %d %d\n", i, mod->xxt[i]->rows);
	}
	for (i = 0; i < mod->ins; i++) {
		struct xmp_instrument *xi = &mod->xxi[i];
		fprintf(o, "INS %d %d %d %d %d ", i, xi->nsm, xi->sub ? 1 : 0, xi->vol, xi->rls); vd_hexname(o, xi->name, 32); fputc('\n', o);
		vd_env(o, i, 0, &xi->aei); vd_env(o, i, 1, &xi->pei); vd_env(o, i, 2, &xi->fei);
		for (j = 0; j < xi->nsm && xi->sub; j++) {
			struct xmp_subinstrument *s = &xi->sub[j];
			fprintf(o, "SUB %d %d %d %d %d %d %d %d %d %d %d\n", i, j, s->vol, s->gvl, s->pan, s->xpo, s->fin, s->sid, s->nna, s->dct, s->dca);
		}
		if (what & 2) fprintf(o, "MAP %d %llx\n", i, (unsigned long long)vf_fnv(VF_FNV0, xi->map, sizeof xi->map));
	}
	for (i = 0; i < mod->smp; i++) {
		struct xmp_sample *s = &mod->xxs[i];
		int fl = ((s->flg & XMP_SAMPLE_16BIT) ? 2 : 1) * ((s->flg & XMP_SAMPLE_STEREO) ? 2 : 1);
		fprintf(o, "SMP %d %d %d %d %d %d ", i, s->len, s->lps, s->lpe, s->flg, s->data ? 1 : 0); vd_hexname(o, s->name, 32);
		if ((what & 4) && s->data && s->len >= 0 && !(s->flg & XMP_SAMPLE_SYNTH))
			fprintf(o, " %llx", (unsigned long long)vf_fnv(VF_FNV0, s->data - 4, 4 + (long)s->len * fl + 4 * fl));
		fputc('\n', o);
		if (ctx->m.xtra) fprintf(o, "XTR %d %d %d %d\n", i, ctx->m.xtra[i].sus, ctx->m.xtra[i].sue, (int)ctx->m.xtra[i].c5spd);
	}
	if (!raw) {
		fprintf(o, "SEQ %d", mi.num_sequences);
		for (i = 0; i < mi.num_sequences; i++) fprintf(o, " %d %d", mi.seq_data[i].entry_point, mi.seq_data[i].duration);
		fputc('\n', o);
		fprintf(o, "MD5 "); for (i = 0; i < 16; i++) fprintf(o, "%02x", mi.md5[i]); fputc('\n', o);
	}
	fprintf(o, "ENDMOD\n");
}
static void vd_dump_module(FILE *o, xmp_context c, int what) { vd_dump_ctx(o, (struct context_data *)c, what, 0); }
#endif
