/* C19 IT sample decompression driver: each stdin line is "wide it215 len hex"; itsex_decompress8 / 16 (src/loaders/itsex.c) is
 * called directly on a memory stream holding the bytes, into a zeroed buffer as the loader does, and the driver prints
 *   R <1 if it returned 0> <stream position afterwards> s0,s1,...   (samples as unsigned bit patterns) */
#include "vcommon.h"
#include "hio.h"
#include "loaders/loader.h"

int main(void)
{
	static char line[8 << 20];
	static uint8 tmp[65536];
	while (fgets(line, sizeof line, stdin)) {
		int wide, it215, len, i, r; char *hex; long n; unsigned char *b; HIO_HANDLE *h; void *dst;
		line[strcspn(line, "\n")] = 0;
		if (sscanf(line, "%d %d %d", &wide, &it215, &len) != 3) { puts("?"); continue; }
		hex = strrchr(line, ' ') + 1;
		b = vf_unhex(hex, &n);
		h = hio_open_const_mem(b, n);
		if (!h) { printf("R 0 0 "); for (i = 0; i < len; i++) printf("%s0", i ? "," : ""); if (len == 0) putchar('-'); putchar('\n'); free(b); continue; }   /* an empty stream cannot be opened: nothing is unpacked */
		dst = calloc(len > 0 ? len : 1, wide ? 2 : 1);
		if (wide) r = itsex_decompress16(h, (int16 *)dst, len, tmp, sizeof tmp, it215);
		else r = itsex_decompress8(h, (uint8 *)dst, len, tmp, sizeof tmp, it215);
		printf("R %d %ld ", r == 0, hio_tell(h) < 0 ? n : hio_tell(h));
		if (len == 0) putchar('-');
		for (i = 0; i < len; i++) printf("%s%u", i ? "," : "", wide ? (unsigned)((uint16 *)dst)[i] : (unsigned)((uint8 *)dst)[i]);
		putchar('\n'); fflush(stdout);
		free(dst); hio_close(h); free(b);
	}
	return 0;
}
