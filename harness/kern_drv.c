/* C14 / C01 kernel driver: calls one of the 40 sample-mixing kernels of src/mix_all.c directly.  stdin lines:
 *   name wide sin count ramp vl vr step dl dr a0 b0 b1 l1 l2 r1 r2 ovl ovr pos frac base | d0 d1 ... | b0 b1 ...
 * (d = sample memory as element values, `base` elements of it lie before sample position 0; b = the accumulation buffer before
 * the call).  stdout: "R b0' b1' ... | l1 l2 r1 r2"  (buffer after the call, the voice's filter history after the call). */
#include <stdio.h>
#include <stdlib.h>
#include <string.h>
#include "common.h"
#include "virtual.h"
#include "mixer.h"

#define FN(x) void libxmp_mix_##x(struct mixer_voice *, int32 *, int, int, int, int, int, int, int)
#define DECL(t) FN(monoout_mono_8bit_##t); FN(monoout_mono_16bit_##t); FN(monoout_stereo_8bit_##t); FN(monoout_stereo_16bit_##t); \
	FN(stereoout_mono_8bit_##t); FN(stereoout_mono_16bit_##t); FN(stereoout_stereo_8bit_##t); FN(stereoout_stereo_16bit_##t)
DECL(nearest); DECL(linear); DECL(spline); DECL(linear_filter); DECL(spline_filter);
typedef void (*kfn)(struct mixer_voice *, int32 *, int, int, int, int, int, int, int);
#define E(x) { #x, libxmp_mix_##x }
#define LIST(t) E(monoout_mono_8bit_##t), E(monoout_mono_16bit_##t), E(monoout_stereo_8bit_##t), E(monoout_stereo_16bit_##t), \
	E(stereoout_mono_8bit_##t), E(stereoout_mono_16bit_##t), E(stereoout_stereo_8bit_##t), E(stereoout_stereo_16bit_##t)
static const struct { const char *name; kfn f; } tab[] = { LIST(nearest), LIST(linear), LIST(spline), LIST(linear_filter), LIST(spline_filter) };

static char line[1 << 20];

int main(void)
{
	while (fgets(line, sizeof line, stdin)) {
		char name[96]; int wide, sin_, count, ramp, vl, vr, step, dl, dr, a0, b0, b1, l1, l2, r1, r2, ovl, ovr, pos, frac, base, n = 0, k;
		char *p = line; unsigned i; kfn f = NULL;
		int nd = 0, nb = 0; int *dv, *bv;
		if (sscanf(p, "%95s %d %d %d %d %d %d %d %d %d %d %d %d %d %d %d %d %d %d %d %d %d |%n", name, &wide, &sin_, &count, &ramp, &vl, &vr, &step, &dl, &dr,
			   &a0, &b0, &b1, &l1, &l2, &r1, &r2, &ovl, &ovr, &pos, &frac, &base, &n) < 22) { puts("?"); fflush(stdout); continue; }
		p += n;
		for (i = 0; i < sizeof tab / sizeof tab[0]; i++) if (!strcmp(tab[i].name, name)) f = tab[i].f;
		if (f == NULL) { puts("?name"); fflush(stdout); continue; }
		dv = malloc(sizeof(int) * (strlen(p) / 2 + 2)); bv = malloc(sizeof(int) * (strlen(p) / 2 + 2));
		while (sscanf(p, "%d%n", &dv[nd], &k) == 1) { nd++; p += k; }
		while (*p == ' ') p++;
		if (*p == '|') p++;
		while (sscanf(p, "%d%n", &bv[nb], &k) == 1) { nb++; p += k; }
		{
			/* exact-size heap blocks so that ASan sees every read outside the sample memory and every write past the buffer */
			struct mixer_voice vi; int32 *buf = malloc(sizeof(int32) * (nb ? nb : 1)); void *mem; int j;
			memset(&vi, 0, sizeof vi);
			if (wide) { int16 *m = malloc(2 * (nd ? nd : 1)); for (j = 0; j < nd; j++) m[j] = (int16)dv[j]; mem = m; vi.sptr = m + base; }
			else { int8 *m = malloc(nd ? nd : 1); for (j = 0; j < nd; j++) m[j] = (int8)dv[j]; mem = m; vi.sptr = m + base; }
			for (j = 0; j < nb; j++) buf[j] = bv[j];
			vi.pos = (double)pos + (double)frac / 65536.0;
			vi.old_vl = ovl; vi.old_vr = ovr;
			vi.filter.l1 = l1; vi.filter.l2 = l2; vi.filter.r1 = r1; vi.filter.r2 = r2; vi.filter.a0 = a0; vi.filter.b0 = b0; vi.filter.b1 = b1;
			f(&vi, buf, count, vl, vr, step, ramp, dl, dr);
			printf("R");
			for (j = 0; j < nb; j++) printf(" %d", buf[j]);
			printf(" | %d %d %d %d\n", vi.filter.l1, vi.filter.l2, vi.filter.r1, vi.filter.r2);
			free(buf); free(mem);
		}
		free(dv); free(bv);
		fflush(stdout);
	}
	return 0;
}
