/* Shared helpers for the /verif correspondence drivers.  Drivers link the static
 * libxmp built from /repo's working tree and include its private headers the way
 * test-dev does. */
#ifndef VERIF_COMMON_H
#define VERIF_COMMON_H
#include <stdio.h>
#include <stdlib.h>
#include <string.h>
#include <stdint.h>
#include <errno.h>
#include "xmp.h"
#include "common.h"

static unsigned char *vf_read_file(const char *path, long *size)
{
	FILE *f = fopen(path, "rb");
	unsigned char *b;
	long n;
	if (!f) return NULL;
	fseek(f, 0, SEEK_END); n = ftell(f); fseek(f, 0, SEEK_SET);
	b = (unsigned char *)malloc(n > 0 ? n : 1);
	if (n > 0 && fread(b, 1, n, f) != (size_t)n) { fclose(f); free(b); return NULL; }
	fclose(f);
	*size = n;
	return b;
}

static int vf_hexval(int c)
{
	if (c >= '0' && c <= '9') return c - '0';
	if (c >= 'a' && c <= 'f') return c - 'a' + 10;
	if (c >= 'A' && c <= 'F') return c - 'A' + 10;
	return -1;
}

/* decodes hex string into a new buffer; "-" is the empty string */
static unsigned char *vf_unhex(const char *h, long *n)
{
	long len = strlen(h), i;
	unsigned char *b;
	if (len == 1 && h[0] == '-') len = 0;
	b = (unsigned char *)malloc(len / 2 + 1);
	for (i = 0; i + 1 < len; i += 2)
		b[i / 2] = (unsigned char)(vf_hexval(h[i]) * 16 + vf_hexval(h[i + 1]));
	*n = len / 2;
	return b;
}

static void vf_puthex(const unsigned char *b, long n)
{
	static const char d[] = "0123456789abcdef";
	long i;
	if (n <= 0) { putchar('-'); return; }
	for (i = 0; i < n; i++) { putchar(d[b[i] >> 4]); putchar(d[b[i] & 15]); }
}

/* FNV-1a 64 */
static uint64_t vf_fnv(uint64_t h, const void *p, long n)
{
	const unsigned char *b = (const unsigned char *)p;
	long i;
	for (i = 0; i < n; i++) { h ^= b[i]; h *= 1099511628211ULL; }
	return h;
}
#define VF_FNV0 1469598103934665603ULL

#endif
