/* C12 driver.
 *   c12_drv frames <module> <rate> <format> <n> [<k> <factor>]  : per frame "loop_count hex"; "END" when xmp_play_frame < 0;
 *                                                    with k and factor: xmp_set_tempo_factor(factor) after k frames
 *   c12_drv buffer <module> <rate> <format>       : stdin ops "P size loop" | "R" | "S" | "E" | "T factor" -> "ret hex restlen"
 */
#include "vcommon.h"
#include "rng.h"

static xmp_context start(const char *path, int rate, int format)
{
	xmp_context c = xmp_create_context();
	struct context_data *ctx = (struct context_data *)c;
	if (xmp_load_module(c, path) < 0) { fprintf(stderr, "cannot load %s\n", path); exit(3); }
	libxmp_set_random(&ctx->rng, 777);
	if (xmp_start_player(c, rate, format) < 0) { fprintf(stderr, "cannot start\n"); exit(3); }
	return c;
}

int main(int argc, char **argv)
{
	if (argc >= 6 && !strcmp(argv[1], "frames")) {
		xmp_context c = start(argv[2], atoi(argv[3]), atoi(argv[4]));
		int n = atoi(argv[5]), i, tfk = argc >= 8 ? atoi(argv[6]) : -1;
		struct xmp_frame_info fi;
		for (i = 0; i < n; i++) {
			if (i == tfk) xmp_set_tempo_factor(c, atof(argv[7]));
			if (xmp_play_frame(c) < 0) { puts("END"); break; }
			xmp_get_frame_info(c, &fi);
			printf("%d ", fi.loop_count);
			vf_puthex((unsigned char *)fi.buffer, fi.buffer_size);
			putchar('\n');
		}
		return 0;
	}
	if (argc >= 5 && !strcmp(argv[1], "buffer")) {
		xmp_context c = start(argv[2], atoi(argv[3]), atoi(argv[4]));
		struct context_data *ctx = (struct context_data *)c;
		char line[128];
		while (fgets(line, sizeof line, stdin)) {
			int size, loop;
			if (line[0] == 'R') {
				int r = xmp_play_buffer(c, NULL, 0, 0);
				printf("%d - %d\n", r, ctx->p.buffer_data.in_size - ctx->p.buffer_data.consumed);
			} else if (line[0] == 'E') {
				xmp_end_player(c);
				libxmp_set_random(&ctx->rng, 777);
				if (xmp_start_player(c, atoi(argv[3]), atoi(argv[4])) < 0) { puts("RESTART-FAILED"); return 0; }
				printf("0 - %d\n", ctx->p.buffer_data.in_size - ctx->p.buffer_data.consumed);
			} else if (line[0] == 'T') {
				/* a control call between two xmp_play_buffer calls that changes the length of the frames to come */
				int r = xmp_set_tempo_factor(c, atof(line + 1));
				printf("%d - %d\n", r, ctx->p.buffer_data.in_size - ctx->p.buffer_data.consumed);
			} else if (line[0] == 'S') {
				xmp_stop_module(c);
				printf("0 - %d\n", ctx->p.buffer_data.in_size - ctx->p.buffer_data.consumed);
			} else if (sscanf(line, "P %d %d", &size, &loop) == 2) {
				unsigned char *b = (unsigned char *)malloc(size > 0 ? size : 1);
				int r, i, touched = 0;
				memset(b, 0xAA, size > 0 ? size : 1);
				r = xmp_play_buffer(c, b, size, loop);
				printf("%d ", r);
				if (r == 0) vf_puthex(b, size);
				else {
					for (i = 0; i < size; i++) if (b[i] != 0xAA) touched = 1;
					if (touched) vf_puthex(b, size); else putchar('-');
				}
				printf(" %d\n", ctx->p.buffer_data.in_size - ctx->p.buffer_data.consumed);
				if (ctx->p.buffer_data.consumed < 0 || ctx->p.buffer_data.consumed > ctx->p.buffer_data.in_size)
					printf("STATE-INVARIANT-BROKEN consumed=%d in_size=%d\n", ctx->p.buffer_data.consumed, ctx->p.buffer_data.in_size);
				free(b);
			}
		}
		return 0;
	}
	fprintf(stderr, "usage\n");
	return 2;
}
