/* C16 voices driver: drives libxmp_virt_* directly on a started context and dumps the voice table after each op.
 *   c16v_drv <module> <numvoc> <muted channels comma list or -> ; stdin ops as in ocaml/voices_driver.ml
 * First output line: "I maxvoc virt_channels num_tracks smp_count virtual(0/1)" then the initial dump. */
#include "vcommon.h"
#include "virtual.h"
#include "mixer.h"

static void dump(struct context_data *ctx, int ret)
{
	struct player_data *p = &ctx->p;
	int i;
	printf("%d %d |", ret, p->virt.virt_used);
	for (i = 0; i < p->virt.maxvoc; i++) {
		struct mixer_voice *v = &p->virt.voice_array[i];
		printf("%s %d %d %d %d %d %d %d", i ? " ;" : "", v->chn, v->root, v->act, v->vol, v->ins, v->smp, v->key);
	}
	printf(" |");
	for (i = 0; i < p->virt.virt_channels; i++) printf(" %d", p->virt.virt_channel[i].map);
	printf(" |");
	for (i = 0; i < p->virt.virt_channels; i++) printf(" %d", p->virt.virt_channel[i].count);
	printf("\n");
}

int main(int argc, char **argv)
{
	xmp_context c = xmp_create_context();
	struct context_data *ctx = (struct context_data *)c;
	char line[256];
	char *tok;
	if (argc < 4) return 2;
	if (xmp_load_module(c, argv[1]) < 0) return 3;
	xmp_set_player(c, XMP_PLAYER_VOICES, atoi(argv[2]));
	if (xmp_start_player(c, 8000, 0) < 0) return 3;
	if (strcmp(argv[3], "-")) for (tok = strtok(argv[3], ","); tok; tok = strtok(NULL, ",")) xmp_channel_mute(c, atoi(tok), 1);
	libxmp_virt_reset(ctx);
	printf("I %d %d %d %d %d\n", ctx->p.virt.maxvoc, ctx->p.virt.virt_channels, ctx->p.virt.num_tracks, ctx->m.mod.smp,
		(ctx->m.quirk & QUIRK_VIRTUAL) ? 1 : 0);
	dump(ctx, 0);
	while (fgets(line, sizeof line, stdin)) {
		int a[8] = {0}, n, ret = 0;
		char op;
		n = sscanf(line, "%c %d %d %d %d %d %d %d", &op, &a[0], &a[1], &a[2], &a[3], &a[4], &a[5], &a[6]);
		if (n < 1) continue;
		switch (op) {
		case 'R': libxmp_virt_reset(ctx); break;
		case 'V': libxmp_virt_resetvoice(ctx, a[0], 1); break;
		case 'C': libxmp_virt_resetchannel(ctx, a[0]); break;
		case 'L': libxmp_virt_setvol(ctx, a[0], a[1]); break;
		case 'N': if (ctx->m.quirk & QUIRK_VIRTUAL) libxmp_virt_setnna(ctx, a[0], a[1]); break;
		case 'P': ret = libxmp_virt_setpatch(ctx, a[0], a[1], a[2], 60, a[3], a[4], a[5], a[6]); break;
		case 'Q': ret = libxmp_virt_queuepatch(ctx, a[0], a[1], a[2], 60); break;
		case 'T': libxmp_virt_pastnote(ctx, a[0], a[1]); break;
		default: continue;
		}
		dump(ctx, ret);
	}
	return 0;
}
