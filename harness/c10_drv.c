/* C10 driver.
 *   c10_drv san                      : lines "n hexname" -> "0 hexout" | "-1"
 *   c10_drv find <ipath|~> <dirname|~> : lines "hexname" -> "1 hexpath" | "0"
 *   c10_drv trace <entry> <path> [ipath] : loads/tests <path> through entry LP LM LF LC TP TM TF TC with
 *        fopen/open/opendir/mkstemp/unlink/fork/execvp/popen/system wrapped; prints one line per call, then "RET n".
 *        fork really forks; the child's execvp is logged (through a pipe-free append to $VERIF_EXECLOG) and not executed.
 */
#define _GNU_SOURCE
#include "vcommon.h"
#include "loaders/loader.h"
#include <dirent.h>
#include <fcntl.h>
#include <unistd.h>
#include <stdarg.h>
#include <sys/types.h>

static int tracing;
FILE *__real_fopen(const char *, const char *);
FILE *__real_fopen64(const char *, const char *);
DIR *__real_opendir(const char *);
int __real_mkstemp(char *);
int __real_unlink(const char *);
pid_t __real_fork(void);

static void logcall(const char *what, const char *arg)
{
	if (!tracing) return;
	printf("%s ", what); vf_puthex((const unsigned char *)(arg ? arg : "(NULL)"), strlen(arg ? arg : "(NULL)")); putchar('\n'); fflush(stdout);
}
FILE *__wrap_fopen(const char *p, const char *m) { logcall("OPEN", p); return __real_fopen(p, m); }
FILE *__wrap_fopen64(const char *p, const char *m) { logcall("OPEN", p); return __real_fopen64(p, m); }
DIR *__wrap_opendir(const char *p) { logcall("OPENDIR", p); return __real_opendir(p); }
int __wrap_mkstemp(char *t) { int r = __real_mkstemp(t); logcall("MKSTEMP", t); return r; }
int __wrap_unlink(const char *p) { logcall("UNLINK", p); return __real_unlink(p); }
pid_t __wrap_fork(void) { if (tracing) { puts("FORK"); fflush(stdout); } return __real_fork(); }
int __wrap_execvp(const char *file, char *const argv[])
{
	const char *lg = getenv("VERIF_EXECLOG");
	FILE *f = lg ? __real_fopen(lg, "a") : NULL;
	int i;
	if (f) { fprintf(f, "EXEC"); for (i = 0; argv[i]; i++) { int k; fprintf(f, " "); for (k = 0; argv[i][k]; k++) fprintf(f, "%02x", (unsigned char)argv[i][k]); } fprintf(f, "\n"); fclose(f); }
	_exit(1);
}
FILE *__wrap_popen(const char *c, const char *m) { logcall("POPEN", c); return NULL; }
int __wrap_system(const char *c) { logcall("SYSTEM", c); return -1; }

static unsigned long cb_read(void *d, unsigned long s, unsigned long n, void *p) { return fread(d, s, n, (FILE *)p); }
static int cb_seek(void *p, long o, int w) { return fseek((FILE *)p, o, w); }
static long cb_tell(void *p) { return ftell((FILE *)p); }

int main(int argc, char **argv)
{
	static char line[1 << 16];
	if (argc >= 2 && !strcmp(argv[1], "san")) {
		while (fgets(line, sizeof line, stdin)) {
			int n; static char hx[1 << 15]; long len; unsigned char *name; char *dest;
			if (sscanf(line, "%d %s", &n, hx) != 2) { puts("?"); continue; }
			name = vf_unhex(hx, &len); name[len] = 0;
			dest = (char *)malloc(n > 0 ? n : 1);
			memset(dest, 0x55, n > 0 ? n : 1);
			if (libxmp_copy_name_for_fopen(dest, (char *)name, n) != 0) puts("-1");
			else { printf("0 "); vf_puthex((unsigned char *)dest, strlen(dest)); putchar('\n'); }
			free(dest); free(name);
		}
		return 0;
	}
	if (argc >= 4 && !strcmp(argv[1], "find")) {
		struct module_data m;
		memset(&m, 0, sizeof m);
		unsetenv("XMP_INSTRUMENT_PATH");
		m.instrument_path = strcmp(argv[2], "~") ? argv[2] : NULL;
		m.dirname = strcmp(argv[3], "~") ? argv[3] : NULL;
		while (fgets(line, sizeof line, stdin)) {
			long len; unsigned char *name; char path[4096];
			line[strcspn(line, "\n")] = 0;
			name = vf_unhex(line, &len); name[len] = 0;
			if (libxmp_find_instrument_file(&m, path, sizeof path, (char *)name)) { printf("1 "); vf_puthex((unsigned char *)path, strlen(path)); putchar('\n'); }
			else puts("0");
			free(name);
		}
		return 0;
	}
	if (argc >= 4 && !strcmp(argv[1], "trace")) {
		const char *e = argv[2], *path = argv[3];
		xmp_context c = xmp_create_context();
		struct xmp_test_info ti;
		int ret = -99;
		long size = 0;
		unsigned char *buf = NULL;
		FILE *f = NULL;
		struct xmp_callbacks cb = { cb_read, cb_seek, cb_tell, NULL };
		unsetenv("XMP_INSTRUMENT_PATH");
		if (argc >= 5) xmp_set_instrument_path(c, argv[4]);
		if (e[1] == 'M') buf = vf_read_file(path, &size);
		if (e[1] == 'F' || e[1] == 'C') f = __real_fopen(path, "rb");
		tracing = 1;
		if (!strcmp(e, "LP")) ret = xmp_load_module(c, path);
		else if (!strcmp(e, "LM")) ret = xmp_load_module_from_memory(c, buf, size);
		else if (!strcmp(e, "LF")) ret = xmp_load_module_from_file(c, f, 0);
		else if (!strcmp(e, "LC")) ret = xmp_load_module_from_callbacks(c, f, cb);
		else if (!strcmp(e, "TP")) ret = xmp_test_module(path, &ti);
		else if (!strcmp(e, "TM")) ret = xmp_test_module_from_memory(buf, size, &ti);
		else if (!strcmp(e, "TF")) ret = xmp_test_module_from_file(f, &ti);
		else if (!strcmp(e, "TC")) ret = xmp_test_module_from_callbacks(f, cb, &ti);
		tracing = 0;
		printf("RET %d\n", ret);
		if (ret == 0 && e[0] == 'L') xmp_release_module(c);
		xmp_free_context(c);
		return 0;
	}
	return 2;
}
