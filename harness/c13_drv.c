/* C13 driver.
 *   c13_drv downmix          : stdin lines "bits amp offs x" -> encoded output unit per line
 *   c13_drv ticksize <module>: stdin lines "freq tf_hex rrate_hex bpm" -> ticksize after libxmp_mixer_prepare
 *   c13_drv timeline <module> <nframes> <rate> <format> <interp> <amp> <mix> <vol> <mode:T|P|H> [<tempo factor|-> [<frame:interp:amp:mix:vol:dsp>]]
 *         T: per frame  "pos pattern row num_rows frame speed bpm time loop_count total_time sequence buffer_size frame_time_us tf rr"
 *         P: per frame  hex of the PCM buffer
 *         H: per frame  "buffer_size fnv"
 *   c13_drv consts           : prints XMP_MAX_FRAMESIZE and DOWNMIX limits visible from headers
 */
#include "vcommon.h"
#include "mixer.h"
#include "rng.h"

void libxmp_verif_downmix(void *dest, int32 *src, int num, int amp, int offs, int bits);

static int do_downmix(void)
{
	char line[256];
	while (fgets(line, sizeof line, stdin)) {
		int bits, amp, offs; long long x; int32 src;
		if (sscanf(line, "%d %d %d %lld", &bits, &amp, &offs, &x) != 4) { puts("?"); continue; }
		src = (int32)x;
		if (bits == 8) {
			char d = 0;
			libxmp_verif_downmix(&d, &src, 1, amp, offs, 8);
			printf("%d\n", (int)(unsigned char)d);
		} else {
			int16 d = 0;
			libxmp_verif_downmix(&d, &src, 1, amp, offs, 16);
			printf("%d\n", (int)(uint16)d);
		}
	}
	return 0;
}

static xmp_context load(const char *path)
{
	xmp_context c = xmp_create_context();
	if (xmp_load_module(c, path) < 0) { fprintf(stderr, "cannot load %s\n", path); exit(3); }
	return c;
}

static int do_ticksize(const char *path)
{
	xmp_context c = load(path);
	struct context_data *ctx = (struct context_data *)c;
	char line[256];
	if (xmp_start_player(c, 44100, 0) < 0) return 3;
	while (fgets(line, sizeof line, stdin)) {
		int freq, bpm; double tf, rr;
		if (sscanf(line, "%d %la %la %d", &freq, &tf, &rr, &bpm) != 4) { puts("?"); continue; }
		ctx->s.freq = freq; ctx->m.time_factor = tf; ctx->m.rrate = rr; ctx->p.bpm = bpm;
		libxmp_mixer_prepare(ctx);
		printf("%d\n", ctx->s.ticksize);
	}
	return 0;
}

static int do_timeline(int argc, char **argv)
{
	const char *path = argv[2];
	int nframes = atoi(argv[3]), rate = atoi(argv[4]), format = atoi(argv[5]);
	int interp = atoi(argv[6]), amp = atoi(argv[7]), mix = atoi(argv[8]), vol = atoi(argv[9]);
	char mode = argv[10][0];
	xmp_context c = load(path);
	struct context_data *ctx = (struct context_data *)c;
	struct xmp_frame_info fi;
	int i;
	libxmp_set_random(&ctx->rng, 12345);
	if (xmp_start_player(c, rate, format) < 0) { puts("START-FAILED"); return 0; }
	xmp_set_player(c, XMP_PLAYER_INTERP, interp);
	xmp_set_player(c, XMP_PLAYER_AMP, amp);
	xmp_set_player(c, XMP_PLAYER_MIX, mix);
	xmp_set_player(c, XMP_PLAYER_VOLUME, vol);
	int sw_at = -1, sw_interp = 0, sw_amp = 0, sw_mix = 0, sw_vol = 0, sw_dsp = 0;
	if (argc >= 12 && strcmp(argv[11], "-") && xmp_set_tempo_factor(c, atof(argv[11])) != 0) { puts("TEMPO-FACTOR-REFUSED"); return 0; }
	/* argv[12] = "frame:interp:amp:mix:vol:dsp": before that frame is played, the output parameters are set again, to these values */
	if (argc >= 13) sscanf(argv[12], "%d:%d:%d:%d:%d:%d", &sw_at, &sw_interp, &sw_amp, &sw_mix, &sw_vol, &sw_dsp);
	for (i = 0; i < nframes; i++) {
		if (i == sw_at) {
			xmp_set_player(c, XMP_PLAYER_INTERP, sw_interp);
			xmp_set_player(c, XMP_PLAYER_AMP, sw_amp);
			xmp_set_player(c, XMP_PLAYER_MIX, sw_mix);
			xmp_set_player(c, XMP_PLAYER_VOLUME, sw_vol);
			xmp_set_player(c, XMP_PLAYER_DSP, sw_dsp);
		}
		if (xmp_play_frame(c) < 0) { puts("END"); break; }
		xmp_get_frame_info(c, &fi);
		if (mode == 'T') {
			printf("%d %d %d %d %d %d %d %d %d %d %d %d %d %a %a\n", fi.pos, fi.pattern, fi.row, fi.num_rows,
				fi.frame, fi.speed, fi.bpm, fi.time, fi.loop_count, fi.total_time, fi.sequence,
				fi.buffer_size, fi.frame_time, ctx->m.time_factor, ctx->m.rrate);
		} else if (mode == 'P') {
			vf_puthex((unsigned char *)fi.buffer, fi.buffer_size); putchar('\n');
		} else {
			printf("%d %llx\n", fi.buffer_size, (unsigned long long)vf_fnv(VF_FNV0, fi.buffer, fi.buffer_size));
		}
	}
	xmp_end_player(c);
	xmp_release_module(c);
	xmp_free_context(c);
	return 0;
}

int main(int argc, char **argv)
{
	if (argc >= 2 && !strcmp(argv[1], "downmix")) return do_downmix();
	if (argc >= 3 && !strcmp(argv[1], "ticksize")) return do_ticksize(argv[2]);
	if (argc >= 11 && !strcmp(argv[1], "timeline")) return do_timeline(argc, argv);
	if (argc >= 2 && !strcmp(argv[1], "consts")) { printf("XMP_MAX_FRAMESIZE %d\n", XMP_MAX_FRAMESIZE); return 0; }
	fprintf(stderr, "usage\n");
	return 2;
}
