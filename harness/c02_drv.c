/* C02 driver.  stdin: one input path per line, optionally "\t<mode>" with mode: L load (default), T test only.
 * For every input prints
 *   IN <size in bytes>
 *   RET <return code>  USEC <wall time of the call>  RSSKB <growth of the peak resident set during the call>  MAXREQ <largest single allocation request>  SUMREQ <all bytes requested from the allocator during the call>
 * and for a load: the scan's event log through hook H3
 *   CELLS <total rows over all orders> then "C" per scan_module call, "O v" outer iteration (orders_since_last_valid),
 *   "W cell v" row processed (cell = rows before that order + row; v = visit counter), "D cell v" row-delay adjustment
 *   then one frame is rendered: FRAME <ret> USEC <t>, and 40 more: FRAMES <n> WORSTUSEC <slowest of them>
 *   ENDIN
 */
#include "vcommon.h"
#include <sys/time.h>
#include <sys/resource.h>
#include <unistd.h>
#include <signal.h>

/* allocator interposition (linked with --wrap=malloc,calloc,realloc): the largest single request made during a call */
static size_t maxreq;
static unsigned long long sumreq;      /* all bytes asked for during the call (an upper bound of what was live at any time) */
void *__real_malloc(size_t); void *__real_calloc(size_t, size_t); void *__real_realloc(void *, size_t);
void *__wrap_malloc(size_t n) { if (n > maxreq) maxreq = n; sumreq += n; return __real_malloc(n); }
void *__wrap_calloc(size_t a, size_t b) { size_t n = a * b; if (a && n / a != b) n = (size_t)-1; if (n > maxreq) maxreq = n; sumreq += n; return __real_calloc(a, b); }
void *__wrap_realloc(void *p, size_t n) { if (n > maxreq) maxreq = n; sumreq += n; return __real_realloc(p, n); }

static void on_alarm(int sig) { (void)sig; puts("TIMEOUT"); fflush(stdout); _exit(3); }

extern void (*libxmp_verif_scanlog)(int what, int ord, int row, int value);
extern unsigned long libxmp_verif_mixer_iters;
#include "mixer.h"
static struct context_data *gctx;
static long cellbase[XMP_MAX_MOD_LENGTH + 1];
static int have_cells;
static long nlogged;
#define MAXLOG 400000

static void cells_init(void)
{
	struct xmp_module *mod = &gctx->m.mod;
	int i; long acc = 0;
	for (i = 0; i < mod->len && i < XMP_MAX_MOD_LENGTH; i++) {
		int pat = mod->xxo[i];
		cellbase[i] = acc;
		acc += (pat < mod->pat && mod->xxp[pat]) ? mod->xxp[pat]->rows : 0;
	}
	cellbase[i] = acc;
	printf("CELLS %ld\n", acc);
	have_cells = 1;
}

static void scanlog(int what, int ord, int row, int value)
{
	if (!have_cells) cells_init();
	if (++nlogged > MAXLOG) { if (nlogged == MAXLOG + 1) puts("TRUNCATED"); return; }
	if (what == 3) puts("C");
	else if (what == 0) printf("O %d\n", value);
	else printf("%c %ld %d\n", what == 1 ? 'W' : 'D', cellbase[ord] + row, value);
}

static long usec(void) { struct timeval tv; gettimeofday(&tv, NULL); return tv.tv_sec * 1000000L + tv.tv_usec; }
static long rsskb(void) { struct rusage ru; getrusage(RUSAGE_SELF, &ru); return ru.ru_maxrss; }

int main(void)
{
	static char line[4096];
	while (fgets(line, sizeof line, stdin)) {
		char *mode; long t0, r0, sz = 0; int ret; xmp_context c; struct xmp_test_info ti; FILE *f;
		line[strcspn(line, "\n")] = 0;
		mode = strchr(line, '\t'); if (mode) *mode++ = 0;
		f = fopen(line, "rb"); if (f) { fseek(f, 0, SEEK_END); sz = ftell(f); fclose(f); }
		printf("IN %ld\n", sz);
		c = xmp_create_context(); gctx = (struct context_data *)c;
		have_cells = 0; nlogged = 0;
		signal(SIGALRM, on_alarm); alarm(60);	/* a call that does not return is reported, not waited for */
		t0 = usec(); r0 = rsskb(); maxreq = 0; sumreq = 0;
		if (mode && mode[0] == 'T') {
			ret = xmp_test_module(line, &ti);
			printf("RET %d USEC %ld RSSKB %ld MAXREQ %zu SUMREQ %llu\n", ret, usec() - t0, rsskb() - r0, maxreq, sumreq);
		} else {
			libxmp_verif_scanlog = scanlog;
			ret = xmp_load_module(c, line);
			libxmp_verif_scanlog = NULL;
			printf("RET %d USEC %ld RSSKB %ld MAXREQ %zu SUMREQ %llu\n", ret, usec() - t0, rsskb() - r0, maxreq, sumreq);
			if (ret == 0) {
				t0 = usec();
				if (xmp_start_player(c, 44100, 0) == 0) {
					long worst = 0, t1; int k;
					ret = xmp_play_frame(c); printf("FRAME %d USEC %ld\n", ret, usec() - t0);
					/* and a short passage: the slowest of the next 40 frames */
					double worst_ratio = 0.0;
					for (k = 0; k < 40 && ret == 0; k++) {
						double bound, ratio;
						libxmp_verif_mixer_iters = 0;
						t1 = usec(); ret = xmp_play_frame(c); t1 = usec() - t1; if (t1 > worst) worst = t1;
						/* hook H5: inner-loop iterations of this tick against maxvoc * 2 * ticksize */
						bound = (double)gctx->p.virt.maxvoc * 2.0 * (gctx->s.ticksize > 0 ? gctx->s.ticksize : 1);
						ratio = (double)libxmp_verif_mixer_iters / bound;
						if (ratio > worst_ratio) worst_ratio = ratio;
					}
					printf("FRAMES %d WORSTUSEC %ld MIXRATIO %.6f\n", k, worst, worst_ratio);
					xmp_end_player(c);
				}
				xmp_release_module(c);
			}
		}
		alarm(0);
		xmp_free_context(c);
		puts("ENDIN"); fflush(stdout);
	}
	return 0;
}
