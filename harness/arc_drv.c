/* C08 ARC method driver: each stdin line is "<method> <max_width> <dest_len> <hex of the member's packed stream>"; arc_unpack
 * (src/depackers/arc_unpack.c) is called on it:  RET <0|-1> <hex of the dest_len output bytes, or md5:<hex> above 64 KiB> */
#include "vcommon.h"
#include "depackers/arc_unpack.h"
#include "md5.h"

int main(void)
{
	static char line[8 << 20];
	while (fgets(line, sizeof line, stdin)) {
		int method, maxw; long dl, n; char *hex; unsigned char *b, *dest; const char *err;
		line[strcspn(line, "\n")] = 0;
		if (sscanf(line, "%d %d %ld", &method, &maxw, &dl) != 3) { puts("?"); continue; }
		hex = strrchr(line, ' ') + 1;
		b = vf_unhex(hex, &n);
		dest = (unsigned char *)malloc(dl > 0 ? dl : 1);
		err = arc_unpack(dest, (size_t)dl, b, (size_t)n, method, maxw);
		printf("RET %d ", err ? -1 : 0);
		if (!err && dl > 65536) { MD5_CTX mc; unsigned char dg[16]; MD5Init(&mc); MD5Update(&mc, dest, (unsigned long)dl); MD5Final(dg, &mc); printf("md5:"); vf_puthex(dg, 16); }
		else if (!err) vf_puthex(dest, dl);
		else putchar('-');
		putchar('\n'); fflush(stdout);
		free(dest); free(b);
	}
	return 0;
}
