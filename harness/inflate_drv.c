/* C08 inflate driver: each stdin line is the hex of a raw DEFLATE stream; tinfl_decompress_mem_to_heap (src/miniz_tinfl.c), the
 * routine behind the gzip and zip depackers, is called on it:  RET <0|-1> LEN <n> <hex of the output, or md5:<hex> above 64 KiB> */
#include "vcommon.h"
#include "miniz.h"
#include "md5.h"

int main(void)
{
	static char line[8 << 20];
	while (fgets(line, sizeof line, stdin)) {
		long n; size_t outlen = 0; void *out; unsigned char *b;
		line[strcspn(line, "\n")] = 0;
		b = vf_unhex(line, &n);
		out = tinfl_decompress_mem_to_heap(b, (size_t)n, &outlen, 0);
		printf("RET %d LEN %zu ", out ? 0 : -1, out ? outlen : (size_t)0);
		if (out && outlen > 65536) { MD5_CTX mc; unsigned char dg[16]; MD5Init(&mc); MD5Update(&mc, (unsigned char *)out, (unsigned long)outlen); MD5Final(dg, &mc); printf("md5:"); vf_puthex(dg, 16); }
		else if (out) vf_puthex((unsigned char *)out, (long)outlen);
		else putchar('-');
		putchar('\n'); fflush(stdout);
		free(out); free(b);
	}
	return 0;
}
