/* C08 PowerPacker driver: each stdin line is the hex of a PP20 file; decrunch_pp (src/depackers/ppdepack.c) is called directly
 * on it through a memory stream (mode "mem") or a FILE stream of a temporary file (mode "file"), and the driver prints
 *   RET <r> LEN <n> <hex of the output, or md5:<hex> above 64 KiB> */
#include "vcommon.h"
#include "hio.h"
#include "depackers/depacker.h"
#include "md5.h"

int main(int argc, char **argv)
{
	static char line[8 << 20];
	int use_file = argc > 1 && !strcmp(argv[1], "file");
	while (fgets(line, sizeof line, stdin)) {
		long n, outlen = 0; void *out = NULL; int r; HIO_HANDLE *h; unsigned char *b; FILE *tf = NULL;
		line[strcspn(line, "\n")] = 0;
		b = vf_unhex(line, &n);
		if (use_file) {
			tf = tmpfile(); fwrite(b, 1, n, tf); rewind(tf);
			h = hio_open_file(tf);
		} else {
			h = hio_open_const_mem(b, n);
		}
		if (!h) { puts("RET -99 LEN 0 -"); free(b); continue; }
		r = libxmp_depacker_pp.depack(h, &out, &outlen);
		printf("RET %d LEN %ld ", r, r == 0 ? outlen : 0L);
		if (r == 0 && outlen > 65536) { MD5_CTX mc; unsigned char dg[16]; MD5Init(&mc); MD5Update(&mc, (unsigned char *)out, (unsigned long)outlen); MD5Final(dg, &mc); printf("md5:"); vf_puthex(dg, 16); }
		else if (r == 0) vf_puthex((unsigned char *)out, outlen);
		else putchar('-');
		putchar('\n'); fflush(stdout);
		if (r == 0) free(out);
		hio_close(h);
		if (tf) fclose(tf);
		free(b);
	}
	return 0;
}
