/* C05 driver: executes a generated history of public API calls on one context and prints, per call, the
 * return value, the state (xmp_get_player(STATE)) and the oracle values the model needs.
 * stdin: same call names as ocaml/api_driver.ml but WITHOUT oracle values:
 *   NEW | LOAD <path|@mem:path|@file:path|@cb:path|@empty> | REL | START rate fmt | END | PF | PB null size | GFI | GMI | SCAN | NEXT | PREV | SP p | SR r
 *   | STOP | RST | SEEK t | MUTE c s | VOL c v | SET parm v | GET parm | INJ chn | TF x(double) | SSM chn smp | ESM | SPI ins note vol chn | SPS ...
 *   | PAN chn pan | SML num path | SMR num | SIP path
 * stdout per call: "<modelline> ## <ret|v> <state>"   where <modelline> is the call with oracle values filled in.
 */
#include "vcommon.h"

static unsigned long cb_read(void *d, unsigned long s, unsigned long n, void *p) { return fread(d, s, n, (FILE *)p); }
static int cb_seek(void *p, long o, int w) { return fseek((FILE *)p, o, w); }
static long cb_tell(void *p) { return ftell((FILE *)p); }

int main(void)
{
	xmp_context c = xmp_create_context();
	static char line[4096];
	while (fgets(line, sizeof line, stdin)) {
		struct context_data *ctx = (struct context_data *)c;
		char op[32]; int a[6] = {0}; char sarg[2048] = "";
		int ret = 0, isvoid = 0, n;
		line[strcspn(line, "\n")] = 0;
		n = sscanf(line, "%31s %d %d %d %d %d", op, &a[0], &a[1], &a[2], &a[3], &a[4]);
		if (n < 1) continue;
		if (!strcmp(op, "NEW")) { xmp_free_context(c); c = xmp_create_context(); printf("NEW ## v 0\n"); fflush(stdout); continue; }
		if (!strcmp(op, "LOAD")) {
			int before = xmp_get_player(c, XMP_PLAYER_STATE);
			sscanf(line, "%*s %2047s", sarg);
			if (!strncmp(sarg, "@mem:", 5)) { long sz; unsigned char *b = vf_read_file(sarg + 5, &sz); ret = xmp_load_module_from_memory(c, b, b ? sz : 0); free(b); }
			else if (!strncmp(sarg, "@file:", 6)) { FILE *f = fopen(sarg + 6, "rb"); ret = f ? xmp_load_module_from_file(c, f, 0) : -99; if (f) fclose(f); }
			else if (!strncmp(sarg, "@cb:", 4)) { FILE *f = fopen(sarg + 4, "rb"); struct xmp_callbacks cb = { cb_read, cb_seek, cb_tell, NULL }; ret = f ? xmp_load_module_from_callbacks(c, f, cb) : -99; if (f) fclose(f); }
			else if (!strcmp(sarg, "@empty")) ret = xmp_load_module_from_memory(c, "", 0);
			else ret = xmp_load_module(c, sarg);
			if (ret == 0) {
				struct xmp_module_info mi; int i;
				xmp_get_module_info(c, &mi);
				printf("LOAD K %d %d %d %d %d", mi.mod->chn, mi.mod->len, mi.mod->ins, ctx->p.flags, ctx->p.mode);
				for (i = 0; i < mi.mod->chn; i++) printf(" %d", (mi.mod->xxc[i].flg & XMP_CHANNEL_MUTE) ? 1 : 0);
			} else {
				/* early failure = the previous state survived (indistinguishable, and equivalent, when nothing was loaded) */
				int after = xmp_get_player(c, XMP_PLAYER_STATE);
				printf("LOAD %s %d", after == before ? "E" : "L", ret);
			}
			printf(" ## %d %d\n", ret, xmp_get_player(c, XMP_PLAYER_STATE));
			fflush(stdout);		/* a crash in the next call must not be attributed to this one */
			continue;
		}
		if (!strcmp(op, "REL")) { xmp_release_module(c); isvoid = 1; printf("REL"); }
		else if (!strcmp(op, "START")) { ret = xmp_start_player(c, a[0], a[1]); printf("START %d %d %d", a[0], a[1], (ret == -XMP_ERROR_INVALID || ret == -XMP_ERROR_STATE) ? 0 : ret); }
		else if (!strcmp(op, "END")) { xmp_end_player(c); isvoid = 1; printf("END"); }
		else if (!strcmp(op, "PF")) { ret = xmp_play_frame(c); printf("PF"); }
		else if (!strcmp(op, "PB")) { static char buf[70000]; ret = xmp_play_buffer(c, a[0] ? NULL : buf, a[1] < 0 ? 0 : (a[1] > 60000 ? 60000 : a[1]), 0); printf("PB %d", a[0]); }
		else if (!strcmp(op, "GFI")) { struct xmp_frame_info fi; xmp_get_frame_info(c, &fi); isvoid = 1; printf("GFI"); }
		else if (!strcmp(op, "GMI")) { struct xmp_module_info mi; xmp_get_module_info(c, &mi); isvoid = 1; printf("GMI"); }
		else if (!strcmp(op, "SCAN")) { xmp_scan_module(c); isvoid = 1; printf("SCAN"); }
		else if (!strcmp(op, "NEXT")) { ret = xmp_next_position(c); printf("NEXT"); }
		else if (!strcmp(op, "PREV")) { ret = xmp_prev_position(c); printf("PREV"); }
		else if (!strcmp(op, "SP")) { ret = xmp_set_position(c, a[0]); printf("SP %d", a[0]); }
		else if (!strcmp(op, "SR")) {
			int rows = -1;
			if (xmp_get_player(c, XMP_PLAYER_STATE) >= XMP_STATE_PLAYING) {
				struct xmp_module *mod = &ctx->m.mod; int pos = ctx->p.pos;
				if (pos < 0 || pos >= mod->len) pos = 0;
				if (mod->len > 0 && mod->xxo[pos] < mod->pat) rows = mod->xxp[mod->xxo[pos]]->rows;
			}
			ret = xmp_set_row(c, a[0]); printf("SR %d %d", a[0], rows);
		}
		else if (!strcmp(op, "STOP")) { xmp_stop_module(c); isvoid = 1; printf("STOP"); }
		else if (!strcmp(op, "RST")) { xmp_restart_module(c); isvoid = 1; printf("RST"); }
		else if (!strcmp(op, "SEEK")) { ret = xmp_seek_time(c, a[0]); printf("SEEK %d", a[0]); }
		else if (!strcmp(op, "MUTE")) { ret = xmp_channel_mute(c, a[0], a[1]); printf("MUTE %d %d", a[0], a[1]); }
		else if (!strcmp(op, "VOL")) { ret = xmp_channel_vol(c, a[0], a[1]); printf("VOL %d %d", a[0], a[1]); }
		else if (!strcmp(op, "SET")) { ret = xmp_set_player(c, a[0], a[1]); printf("SET %d %d", a[0], a[1]); }
		else if (!strcmp(op, "GET")) { ret = xmp_get_player(c, a[0]); printf("GET %d", a[0]); }
		else if (!strcmp(op, "INJ")) { struct xmp_event e; memset(&e, 0, sizeof e); e.fxt = 0x0c; e.fxp = 0x20; e.f2t = 0x5a; e.f2p = 0x5a;	/* harmless when accepted (set volume), visible if it lands anywhere else */ xmp_inject_event(c, a[0], &e); isvoid = 1; printf("INJ %d", a[0]); }
		else if (!strcmp(op, "TF")) {
			double x = 1.0; int cls;
			sscanf(line, "%*s %lf", &x);
			ret = xmp_set_tempo_factor(c, x);
			cls = (x <= 0.0 || x != x) ? 1 : (ret == -1 ? 2 : 0);
			printf("TF %d", cls);
		}
		else if (!strcmp(op, "SSM")) { ret = xmp_start_smix(c, a[0], a[1]); printf("SSM %d %d %d", a[0], a[1], ret == 0 ? 1 : (ret == -XMP_ERROR_INTERNAL ? 0 : 1)); }
		else if (!strcmp(op, "ESM")) { xmp_end_smix(c); isvoid = 1; printf("ESM"); }
		else if (!strcmp(op, "SPI")) { ret = xmp_smix_play_instrument(c, a[0], a[1], a[2], a[3]); printf("SPI %d %d %d %d", a[0], a[1], a[2], a[3]); }
		else if (!strcmp(op, "SPS")) { ret = xmp_smix_play_sample(c, a[0], a[1], a[2], a[3]); printf("SPS %d %d %d %d", a[0], a[1], a[2], a[3]); }
		else if (!strcmp(op, "PAN")) { ret = xmp_smix_channel_pan(c, a[0], a[1]); printf("PAN %d %d", a[0], a[1]); }
		else if (!strcmp(op, "SML")) { sscanf(line, "%*s %*d %2047s", sarg); ret = xmp_smix_load_sample(c, a[0], sarg); printf("SML %d %d", a[0], ret == -XMP_ERROR_INVALID ? 0 : ret); }
		else if (!strcmp(op, "SMR")) { ret = xmp_smix_release_sample(c, a[0]); printf("SMR %d", a[0]); }
		else if (!strcmp(op, "SIP")) { sscanf(line, "%*s %2047s", sarg); ret = xmp_set_instrument_path(c, strcmp(sarg, "~") ? sarg : NULL); printf("SIP"); }
		else { printf("?%s ## ? ?\n", op); continue; }
		if (isvoid) printf(" ## v %d\n", xmp_get_player(c, XMP_PLAYER_STATE));
		else printf(" ## %d %d\n", ret, xmp_get_player(c, XMP_PLAYER_STATE));
		fflush(stdout);
	}
	xmp_free_context(c);
	return 0;
}
