/* C01 LFO driver: src/lfo.c and src/rng.c called directly.  stdin lines: "mode seed | op op ..." with
 *   mode 0 MOD 1 ST3 2 FT2 3 IT; ops: U (update) P (set_phase 0) D<n> R<n> W<n> (depth / rate / waveform) G<v> (get, is_vibrato = v)
 * stdout: the values of the G ops, then "| phase rngstate". */
#include <stdio.h>
#include <stdlib.h>
#include <string.h>
#include "common.h"
#include "lfo.h"
#include "rng.h"

static char line[1 << 16];
int main(void)
{
	xmp_context c = xmp_create_context();
	struct context_data *ctx = (struct context_data *)c;
	static const int modes[4] = { READ_EVENT_MOD, READ_EVENT_ST3, READ_EVENT_FT2, READ_EVENT_IT };
	while (fgets(line, sizeof line, stdin)) {
		int mode; unsigned seed; int n = 0; char *p = line; struct lfo l; char *tok;
		if (sscanf(p, "%d %u |%n", &mode, &seed, &n) < 2) { puts("?"); fflush(stdout); continue; }
		p += n; memset(&l, 0, sizeof l);
		ctx->m.read_event_type = modes[mode & 3];
		libxmp_set_random(&ctx->rng, seed);
		for (tok = strtok(p, " \n"); tok; tok = strtok(NULL, " \n")) {
			int v = atoi(tok + 1);
			switch (tok[0]) {
			case 'U': libxmp_lfo_update(&l); break;
			case 'P': libxmp_lfo_set_phase(&l, 0); break;
			case 'D': libxmp_lfo_set_depth(&l, v); break;
			case 'R': libxmp_lfo_set_rate(&l, v); break;
			case 'W': libxmp_lfo_set_waveform(&l, v); break;
			case 'G': printf("%d ", libxmp_lfo_get(ctx, &l, v)); break;
			}
		}
		printf("| %d %u\n", l.phase, ctx->rng.state);
		fflush(stdout);
	}
	return 0;
}
