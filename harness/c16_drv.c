/* C16 driver: plays a module under a scripted history of play / position-control calls and prints, per frame,
 * the frame info ("F ...") and optionally the voice table ("D ...").
 *   c16_drv <module> <rate> <format> <numvoc> <mode|-1> <dumpvoices 0/1> [<report sequencer steps 0/1>]
 * stdin: "P n" play n frames | "SP pos" | "SR row" | "NX" | "PV" | "SK ms" | "RS" | "ST" | "MODE m" (xmp_set_player MODE while playing) | "TF f" (xmp_set_tempo_factor(f / 100.0) while playing) | "RE rate" (xmp_end_player, xmp_start_player at another rate)
 * stdout: header "M len nseq | xxo | rows", "C rate mono 8bit tf_hex rr_hex", "V maxvoc vchans ntracks"; then "OP name ret" / "F ..." / "D ..." / "END ret"
 */
#include "vcommon.h"
#include "rng.h"
#include "mixer.h"

/* hook H7: the position / flow state at entry (phase 0) and exit (phase 1) of next_order (0) and next_row (1), with the facts about
 * the playing sequence the step uses: "SQ which phase | ord row pos frame pbreak jump delay jumpline loop_dest loop_param num_rows
 * rowdelay rowdelay_set | entry_point rst_in_sequence" */
extern void (*libxmp_verif_seqstep)(struct context_data *ctx, int which, int phase);
static void seqstep(struct context_data *ctx, int which, int phase)
{
	struct player_data *p = &ctx->p; struct flow_control *f = &p->flow; struct xmp_module *mod = &ctx->m.mod;
	int seq = p->sequence;
	int entry = (seq >= 0 && seq < ctx->m.num_sequences) ? ctx->m.seq_data[seq].entry_point : 0;
	int rin = (mod->rst >= 0 && mod->rst < 256) ? (p->sequence_control[mod->rst] == seq) : 0;
	printf("SQ %d %d | %d %d %d %d %d %d %d %d %d %d %d %d %d | %d %d\n", which, phase, p->ord, p->row, p->pos, p->frame, f->pbreak, f->jump, f->delay,
		f->jumpline, f->loop_dest, f->loop_param, f->num_rows, f->rowdelay, f->rowdelay_set, entry, rin);
}

int main(int argc, char **argv)
{
	xmp_context c = xmp_create_context();
	struct context_data *ctx = (struct context_data *)c;
	struct xmp_module_info mi;
	struct xmp_frame_info fi;
	char line[128];
	int rate, format, numvoc, mode, dumpv, i;
	if (argc < 7) return 2;
	rate = atoi(argv[2]); format = atoi(argv[3]); numvoc = atoi(argv[4]); mode = atoi(argv[5]); dumpv = atoi(argv[6]);
	if (xmp_load_module(c, argv[1]) < 0) { puts("LOAD-FAILED"); return 0; }
	if (numvoc > 0) xmp_set_player(c, XMP_PLAYER_VOICES, numvoc);
	if (mode >= 0) {
		/* the player mode can only be set while playing: start, set it, end, start again */
		if (xmp_start_player(c, rate, format) < 0) { puts("START-FAILED"); return 0; }
		xmp_set_player(c, XMP_PLAYER_MODE, mode);
		xmp_end_player(c);
	}
	libxmp_set_random(&ctx->rng, 4242);
	if (xmp_start_player(c, rate, format) < 0) { puts("START-FAILED"); return 0; }
	xmp_get_module_info(c, &mi);
	printf("M %d %d |", mi.mod->len, mi.num_sequences);
	for (i = 0; i < mi.mod->len; i++) printf(" %d", mi.mod->xxo[i]);
	printf(" |");
	for (i = 0; i < mi.mod->pat; i++) printf(" %d", mi.mod->xxp[i] ? mi.mod->xxp[i]->rows : -1);
	printf("\nC %d %d %d %a %a\n", rate, (format & XMP_FORMAT_MONO) ? 1 : 0, (format & XMP_FORMAT_8BIT) ? 1 : 0, ctx->m.time_factor, ctx->m.rrate);
	printf("V %d %d %d\n", ctx->p.virt.maxvoc, ctx->p.virt.virt_channels, ctx->p.virt.num_tracks);
	printf("MF %d %d %d\n", mi.mod->pat, mi.mod->rst, (ctx->m.quirk & QUIRK_MARKER) ? 1 : 0);
	if (argc > 7 && atoi(argv[7])) libxmp_verif_seqstep = seqstep;
	while (fgets(line, sizeof line, stdin)) {
		int a = 0, r;
		char op[16];
		if (sscanf(line, "%15s %d", op, &a) < 1) continue;
		if (!strcmp(op, "P")) {
			for (i = 0; i < a; i++) {
				r = xmp_play_frame(c);
				if (r < 0) { printf("END %d\n", r); break; }
				xmp_get_frame_info(c, &fi);
				printf("F %d %d %d %d %d %d %d %d %d %d %d %d %d %d T %d %d\n", fi.pos, fi.pattern, fi.row, fi.num_rows, fi.frame, fi.speed, fi.bpm,
					fi.frame_time, fi.buffer_size, fi.total_size, fi.loop_count, fi.virt_channels, fi.virt_used, fi.sequence, fi.time, fi.total_time);
				if (dumpv) {
					struct player_data *p = &ctx->p;
					int k;
					printf("D %d %d |", p->virt.num_tracks, p->virt.virt_used);
					for (k = 0; k < p->virt.maxvoc; k++) { struct mixer_voice *v = &p->virt.voice_array[k]; printf("%s %d %d %d %d %d %d %d", k ? " ;" : "", v->chn, v->root, v->act, v->vol, v->ins, v->smp, v->key); }
					printf(" |");
					for (k = 0; k < p->virt.virt_channels; k++) printf(" %d", p->virt.virt_channel[k].map);
					printf(" |");
					for (k = 0; k < p->virt.virt_channels; k++) printf(" %d", p->virt.virt_channel[k].count);
					printf("\n");
				}
			}
		} else if (!strcmp(op, "SP")) printf("OP SP %d\n", xmp_set_position(c, a));
		else if (!strcmp(op, "SR")) printf("OP SR %d\n", xmp_set_row(c, a));
		else if (!strcmp(op, "NX")) printf("OP NX %d\n", xmp_next_position(c));
		else if (!strcmp(op, "PV")) printf("OP PV %d\n", xmp_prev_position(c));
		else if (!strcmp(op, "SK")) printf("OP SK %d\n", xmp_seek_time(c, a));
		else if (!strcmp(op, "RS")) { xmp_restart_module(c); puts("OP RS 0"); }
		else if (!strcmp(op, "ST")) { xmp_stop_module(c); puts("OP ST 0"); }
		else if (!strcmp(op, "MODE")) printf("OP MODE %d\n", xmp_set_player(c, XMP_PLAYER_MODE, a));
		else if (!strcmp(op, "RE")) {
			/* end the player and start it again at another sampling rate on the same context (module stays loaded) */
			xmp_end_player(c);
			rate = a;
			if (xmp_start_player(c, rate, format) < 0) { puts("START-FAILED"); return 0; }
			printf("OP RE 0\n");
			printf("C %d %d %d %a %a\n", rate, (format & XMP_FORMAT_MONO) ? 1 : 0, (format & XMP_FORMAT_8BIT) ? 1 : 0, ctx->m.time_factor, ctx->m.rrate);
		}
		else if (!strcmp(op, "TF")) {
			/* tempo factor a / 100 while playing; the new output constants follow as a "C" line */
			printf("OP TF %d\n", xmp_set_tempo_factor(c, a / 100.0));
			printf("C %d %d %d %a %a\n", rate, (format & XMP_FORMAT_MONO) ? 1 : 0, (format & XMP_FORMAT_8BIT) ? 1 : 0, ctx->m.time_factor, ctx->m.rrate);
		}
	}
	xmp_end_player(c);
	xmp_release_module(c);
	xmp_free_context(c);
	return 0;
}
