/* C07 driver.
 *   c07_drv hio <tmpfile>  : stdin "D <F|M|C> <datahex>" then ops (R8 R8S R16L R16B R24L R24B R32L R32B | RB size num | SK off whence | TL | EF | ER), "GO" ends a case
 *                            per op: "val byteshex"  (val canonical: signed for R8S; all-ones stays unsigned)
 *   c07_drv load           : stdin "<entry LP|LM|LF|LC|TP|TM|TF|TC|QP..QC (into a loaded context)|RF|RC (test, then load, same stream, no rewind)> <path>" -> "RET n" + dump (loads) or "RET n name type" (tests) + PCM digest of 40 frames
 */
#include "vdump.h"
#include "hio.h"
#include "rng.h"
#include <unistd.h>

static unsigned long cb_read(void *d, unsigned long s, unsigned long n, void *p) { return fread(d, s, n, (FILE *)p); }
static int cb_seek(void *p, long o, int w) { return fseek((FILE *)p, o, w); }
static long cb_tell(void *p) { return ftell((FILE *)p); }

static int hio_mode(const char *tmp)
{
	static char line[1 << 16];
	HIO_HANDLE *h = NULL; FILE *cbf = NULL; unsigned char *data = NULL; long dsize = 0;
	while (fgets(line, sizeof line, stdin)) {
		char op[16]; long a = 0, b = 0;
		line[strcspn(line, "\n")] = 0;
		if (line[0] == 'D') {
			char be; static char hx[1 << 15];
			if (h) { hio_close(h); h = NULL; } if (cbf) { fclose(cbf); cbf = NULL; } free(data);
			sscanf(line, "D %c %s", &be, hx);
			data = vf_unhex(hx, &dsize);
			if (be == 'M') h = hio_open_const_mem(data, dsize);
			else {
				FILE *f = fopen(tmp, "wb"); if (dsize) fwrite(data, 1, dsize, f); fclose(f);
				if (be == 'F') h = hio_open(tmp, "rb");
				else { struct xmp_callbacks cb = { cb_read, cb_seek, cb_tell, NULL }; cbf = fopen(tmp, "rb"); h = hio_open_callbacks(cbf, cb); }
			}
			if (!h) puts("NOHANDLE");
			continue;
		}
		if (!strcmp(line, "GO")) { puts("DONE"); fflush(stdout); continue; }
		if (!h) continue;
		sscanf(line, "%15s %ld %ld", op, &a, &b);
		if (!strcmp(op, "R8")) printf("%d -\n", (int)hio_read8(h));
		else if (!strcmp(op, "R8S")) printf("%d -\n", (int)hio_read8s(h));
		else if (!strcmp(op, "R16L")) printf("%u -\n", (unsigned)hio_read16l(h));
		else if (!strcmp(op, "R16B")) printf("%u -\n", (unsigned)hio_read16b(h));
		else if (!strcmp(op, "R24L")) printf("%u -\n", (unsigned)hio_read24l(h));
		else if (!strcmp(op, "R24B")) printf("%u -\n", (unsigned)hio_read24b(h));
		else if (!strcmp(op, "R32L")) printf("%u -\n", (unsigned)hio_read32l(h));
		else if (!strcmp(op, "R32B")) printf("%u -\n", (unsigned)hio_read32b(h));
		else if (!strcmp(op, "RB")) {
			static unsigned char buf[1 << 16]; long t0 = hio_tell(h), t1; size_t r;
			memset(buf, 0xEE, sizeof buf);
			r = hio_read(buf, a, b, h); t1 = hio_tell(h);
			printf("%lu ", (unsigned long)r); vf_puthex(buf, t1 > t0 ? t1 - t0 : 0); putchar('\n');
		}
		else if (!strcmp(op, "SK")) printf("%d -\n", hio_seek(h, a, b == 0 ? SEEK_SET : b == 1 ? SEEK_CUR : b == 2 ? SEEK_END : 99));
		else if (!strcmp(op, "TL")) printf("%ld -\n", hio_tell(h));
		else if (!strcmp(op, "EF")) printf("%d -\n", hio_eof(h) ? 1 : 0);
		else if (!strcmp(op, "ER")) printf("%d -\n", hio_error(h));
	}
	unlink(tmp);
	return 0;
}

static const char *preload_path;	/* entries QP / QM / QF / QC: the same load into a context that already holds this module */

static int load_mode(void)
{
	static char line[8192];
	while (fgets(line, sizeof line, stdin)) {
		char e[8], path[4096]; int ret = -99; long sz = 0; unsigned char *buf = NULL; FILE *f = NULL;
		struct xmp_callbacks cb = { cb_read, cb_seek, cb_tell, NULL };
		struct xmp_test_info ti;
		xmp_context c;
		line[strcspn(line, "\n")] = 0;
		if (sscanf(line, "%7s %4095[^\n]", e, path) != 2) { puts("RET ?"); continue; }
		memset(&ti, 'X', sizeof ti);	/* not zeroed: a test that fails must have emptied both strings itself */
		c = xmp_create_context();
		if (e[1] == 'M') buf = vf_read_file(path, &sz);
		if (e[1] == 'F' || e[1] == 'C') f = fopen(path, "rb");
		/* entries RF / RC: the stream is first handed to the test entry point and then, NOT rewound, to the load entry point */
		if (e[0] == 'R' && f) { if (e[1] == 'F') xmp_test_module_from_file(f, &ti); else xmp_test_module_from_callbacks(f, cb, &ti); e[0] = 'L'; }
		if (e[0] == 'Q') { if (!preload_path || xmp_load_module(c, (char *)preload_path) < 0) { puts("RET ?"); xmp_free_context(c); continue; } e[0] = 'L'; }
		if (!strcmp(e, "LP")) ret = xmp_load_module(c, path);
		else if (!strcmp(e, "LM")) ret = xmp_load_module_from_memory(c, buf, sz);
		else if (!strcmp(e, "LF")) ret = xmp_load_module_from_file(c, f, 0);
		else if (!strcmp(e, "LC")) ret = xmp_load_module_from_callbacks(c, f, cb);
		else if (!strcmp(e, "TP")) ret = xmp_test_module(path, &ti);
		else if (!strcmp(e, "TM")) ret = xmp_test_module_from_memory(buf, sz, &ti);
		else if (!strcmp(e, "TF")) ret = xmp_test_module_from_file(f, &ti);
		else if (!strcmp(e, "TC")) ret = xmp_test_module_from_callbacks(f, cb, &ti);
		if (e[0] == 'T') {
			printf("RET %d ", ret); vd_hexname(stdout, ti.name, XMP_NAME_SIZE); putchar(' '); vd_hexname(stdout, ti.type, XMP_NAME_SIZE);
			printf(" fileok=%d\n", (f && e[1] == 'F') ? (ftell(f) >= 0 && !ferror(f)) : 1);
		} else {
			printf("RET %d\n", ret);
			if (ret == 0) {
				uint64_t hsh = VF_FNV0; int i; struct xmp_frame_info fi;
				vd_dump_module(stdout, c, 7);
				/* the context's generator is seeded from time(NULL): fix it, the digest is compared across runs */
				libxmp_set_random(&((struct context_data *)c)->rng, 7);
				if (xmp_start_player(c, 8000, 0) == 0) {
					for (i = 0; i < 40 && xmp_play_frame(c) == 0; i++) { xmp_get_frame_info(c, &fi); hsh = vf_fnv(hsh, fi.buffer, fi.buffer_size); }
					xmp_end_player(c);
				}
				printf("PCM %llx\n", (unsigned long long)hsh);
				xmp_release_module(c);
			}
		}
		xmp_free_context(c);
		if (f) fclose(f);
		free(buf);
		fflush(stdout);
	}
	return 0;
}

int main(int argc, char **argv)
{
	if (argc >= 3 && !strcmp(argv[1], "hio")) return hio_mode(argv[2]);
	if (argc >= 2 && !strcmp(argv[1], "load")) { if (argc >= 3) preload_path = argv[2]; return load_mode(); }
	return 2;
}
