/* C20 driver: libxmp_load_sample on a memory handle.
 * stdin line: flags len lps lpe flg skip pos filehex nbufhex
 * stdout    : "ret len lps lpe flg pos blkhex|-"   (blk = data[-4 .. bytelen+extralen))  or "-1" */
#include "vcommon.h"
#include "hio.h"
#include "loader.h"

int main(void)
{
	static char line[1 << 20];
	while (fgets(line, sizeof line, stdin)) {
		int flags, len, lps, lpe, flg, skip; long pos, fsz, nsz;
		static char fh[1 << 19], nh[1 << 19];
		unsigned char *file, *nbuf;
		struct module_data m;
		struct xmp_sample xxs;
		HIO_HANDLE *h;
		int ret;
		if (sscanf(line, "%d %d %d %d %d %d %ld %s %s", &flags, &len, &lps, &lpe, &flg, &skip, &pos, fh, nh) != 9) { puts("?"); continue; }
		file = vf_unhex(fh, &fsz);
		nbuf = vf_unhex(nh, &nsz);
		memset(&m, 0, sizeof m);
		memset(&xxs, 0, sizeof xxs);
		m.smpctl = skip ? XMP_SMPCTL_SKIP : 0;
		xxs.len = len; xxs.lps = lps; xxs.lpe = lpe; xxs.flg = flg; xxs.data = NULL;
		h = hio_open_const_mem(file, fsz);
		if (!h) { puts("?nofile"); free(file); free(nbuf); continue; }
		hio_seek(h, pos, SEEK_SET);
		ret = libxmp_load_sample(&m, h, flags, &xxs, (flags & SAMPLE_FLAG_NOLOAD) ? nbuf : NULL);
		if (ret < 0) { puts("-1"); }
		else {
			printf("%d %d %d %d %d %ld ", ret, xxs.len, xxs.lps, xxs.lpe, xxs.flg, hio_tell(h));
			if (xxs.data) {
				int fl = ((xxs.flg & XMP_SAMPLE_16BIT) ? 2 : 1) * ((xxs.flg & XMP_SAMPLE_STEREO) ? 2 : 1);
				vf_puthex(xxs.data - 4, 4 + (long)xxs.len * fl + 4 * fl);
			} else putchar('-');
			putchar('\n');
		}
		libxmp_free_sample(&xxs);
		hio_close(h);
		free(file); free(nbuf);
	}
	return 0;
}
